(* C07 — the delegation cache across histories of authority sections (processAuthoritySection ->
   processDelegation -> checkGlueRR -> lookupV4Nss): whatever a zone's servers send, with whatever response
   code, every entry that is ever on file - the provisional publications made while NS-host addresses are
   being looked up included - carries as its zone label the very name it is filed under, that name is the
   owner of ONE coherent NS set of the question's class sent by the servers of a zone strictly above it
   and lies on the path to the name being resolved, its hosts are targets of that NS set and its server
   addresses are usable (neither loopback nor local). *)
From Coq Require Import String.
From Sdns Require Import Common.Base Gen.C07 C07.Model C07.Proofs_names C07.Proofs_glue C07.Proofs_referral C07.Proofs_gluehist.
Open Scope N_scope.

Definition deleg_entry_ok (local : list ipaddr) (evs : list deleg_event) (k : name) (d : deleg_entry) : Prop :=
  exists e auth level q m,
    (In e evs /\ ev_parts e = (auth, level, q, m)) /\
    name_eqb (de_zone d) k = true /\
    (forall r, In r (u_ns m) -> is_ns r -> name_eqb (rr_owner r) (de_zone d) = true /\ rr_class r = q_class q) /\
    is_sub auth (de_zone d) = true /\ (length auth < length (de_zone d))%nat /\
    is_sub (de_zone d) (q_name q) = true /\
    (forall h, In h (de_hosts d) -> exists r t, In r (u_ns m) /\ is_ns r /\ rr_data r = RdName t /\ h = canon t) /\
    Forall (addr_ok local) (de_servers d).

Lemma deleg_entry_ok_mono local evs evs' k d : incl evs evs' -> deleg_entry_ok local evs k d -> deleg_entry_ok local evs' k d.
Proof.
  intros Hi [e [auth [level [q [m [[Hin Hp] H]]]]]]. exists e, auth, level, q, m. split; [split; [apply Hi, Hin | exact Hp] | exact H].
Qed.

Lemma deleg_entry_ok_key local evs k k' d : name_eqb k k' = true -> deleg_entry_ok local evs k d -> deleg_entry_ok local evs k' d.
Proof.
  intros He [e [auth [level [q [m [Hin [Hz H]]]]]]]. exists e, auth, level, q, m.
  split; [exact Hin|]. split; [eapply name_eqb_trans; eauto | exact H].
Qed.

(* ------------------------------------------------------------ cache operations *)
Lemma deleg_put_entries k e c k' d :
  In (k', d) (deleg_put k e c) -> In (k', d) c \/ (d = e /\ name_eqb k k' = true).
Proof.
  induction c as [|[m v] r IH]; cbn.
  - intros [H|[]]. injection H as <- <-. right. split; [reflexivity|]. rewrite name_eqb_sym. apply name_eqb_canon_l.
  - destruct (name_eqb k m) eqn:E.
    + intros [H|H]; [injection H as <- <-; right; auto | auto].
    + intros [H|H]; [auto|]. destruct (IH H) as [H1|H1]; auto.
Qed.

Definition gc_ok (local : list ipaddr) (gc : glue_cache) : Prop := forall k v, In (k, v) gc -> Forall (addr_ok local) v.

Lemma gc_ok_put local n a gc : gc_ok local gc -> Forall (addr_ok local) a -> gc_ok local (glue_put n a gc).
Proof.
  intros Hg Ha k v Hin. apply glue_put_entries in Hin. destruct Hin as [Hin|[-> _]]; [exact (Hg _ _ Hin) | exact Ha].
Qed.

Lemma gc_ok_lookup local n gc v : gc_ok local gc -> glue_lookup n gc = Some v -> Forall (addr_ok local) v.
Proof. intros Hg H. apply glue_lookup_in in H. destruct H as [m [Hin _]]. exact (Hg _ _ Hin). Qed.

Lemma add_servers_ok local addrs srv :
  Forall (addr_ok local) addrs -> Forall (addr_ok local) srv -> Forall (addr_ok local) (add_servers addrs srv).
Proof.
  unfold add_servers. revert srv. induction addrs as [|a rest IH]; intros srv Ha Hs; cbn; [exact Hs|].
  inversion Ha; subst. apply IH; [assumption|].
  destruct (mem_ip a srv); [exact Hs|]. apply Forall_app. split; [exact Hs | constructor; [assumption | constructor]].
Qed.

(* ------------------------------------------------------------ the loop of lookupV4Nss *)
Section NsLoop.
  Variable local : list ipaddr.
  Variables (owner : name) (hosts found : list name) (answers : list (name * list rr)).
  Hypothesis hosts_canon : forall y, In y hosts -> canon y = y.

  Definition snap_ok (p : bool * deleg_entry) : Prop :=
    de_zone (snd p) = owner /\ (forall h, In h (de_hosts (snd p)) -> In h hosts) /\ Forall (addr_ok local) (de_servers (snd p)).

  Definition ns_ok (st : ns_state) : Prop :=
    let '(gc, hs, srv, snaps) := st in
    gc_ok local gc /\ (forall h, In h hs -> In h hosts) /\ Forall (addr_ok local) srv /\ Forall snap_ok snaps.

  Lemma publish_ok hs srv b snaps :
    (forall h, In h hs -> In h hosts) -> Forall (addr_ok local) srv -> Forall snap_ok snaps ->
    Forall snap_ok (publish owner hs srv b snaps).
  Proof.
    intros Hh Hs Hsn. unfold publish. destruct srv as [|a rest]; [exact Hsn|].
    apply Forall_app. split; [exact Hsn|]. constructor; [|constructor]. repeat split; cbn; assumption.
  Qed.

  Lemma ns_lookup_step_ok st h : mem_name h hosts = true -> ns_ok st -> ns_ok (ns_lookup_step local owner found answers st h).
  Proof.
    destruct st as [[[gc hs] srv] snaps]. intros Hm [Hg [Hh [Hs Hsn]]]. unfold ns_lookup_step.
    assert (Hh' : forall x, In x (hs ++ [canon h]) -> In x hosts).
    { intros x Hx. apply in_app_or in Hx. destruct Hx as [Hx|[<-|[]]]; [auto|].
      apply mem_name_spec in Hm. destruct Hm as [y [Hy He]]. apply name_eqb_spec in He.
      rewrite He, (hosts_canon y Hy). exact Hy. }
    destruct (mem_name h found); [repeat split; assumption|].
    destruct (glue_lookup h gc) as [v|] eqn:L.
    - pose proof (gc_ok_lookup _ _ _ _ Hg L) as Hv.
      repeat split; [exact Hg | exact Hh' | apply add_servers_ok; assumption | apply publish_ok; assumption].
    - destruct (answers_get h answers) as [ans|]; [|repeat split; [exact Hg | exact Hh' | exact Hs | apply publish_ok; assumption]].
      pose proof (search_addrs_ok local ans) as Ha.
      destruct (search_addrs local ans) as [|a0 rest]; [repeat split; [exact Hg | exact Hh' | exact Hs | apply publish_ok; assumption]|].
      repeat split; [apply gc_ok_put; assumption | exact Hh' | apply add_servers_ok; assumption | apply publish_ok; assumption].
  Qed.

  Lemma ns_loop_ok order st :
    ns_ok st -> ns_ok (fold_left (ns_lookup_step local owner found answers) (filter (fun h => mem_name h hosts) order) st).
  Proof.
    revert st. induction order as [|h rest IH]; intros st H; cbn; [exact H|].
    destruct (mem_name h hosts) eqn:E; [cbn; apply IH, ns_lookup_step_ok; assumption | apply IH, H].
  Qed.
End NsLoop.

Lemma extract_info_hosts_canon ns y : In y (di_hosts (extract_info ns)) -> canon y = y.
Proof.
  intros Hy. destruct (extract_info_inv ns) as [_ [_ H3]]. destruct (H3 y Hy) as [r [t [_ [_ [_ ->]]]]]. apply canon_idem.
Qed.

(* ------------------------------------------------------------ one event *)
Definition state_ok (local : list ipaddr) (evs : list deleg_event) (st : deleg_state) : Prop :=
  gc_ok local (fst st) /\ forall k d, In (k, d) (snd st) -> deleg_entry_ok local evs k d.

Definition result_ok (local : list ipaddr) (evs : list deleg_event) (r : deleg_result) : Prop :=
  (forall b d, In (b, d) (dr_snaps r) -> deleg_entry_ok local evs (de_zone d) d) /\
  (forall d, dr_final r = Some d -> deleg_entry_ok local evs (de_zone d) d).

Lemma result_ok_empty local evs o : result_ok local evs (mk_dr o [] None).
Proof. split; cbn; [intros b d [] | discriminate]. Qed.

Lemma deleg_core_ok local evs st e minimized auth level q origin m order answers :
  In e evs -> ev_parts e = (auth, level, q, m) -> state_ok local evs st ->
  state_ok local evs (fst (deleg_core local st minimized auth level q origin m order answers)) /\
  result_ok local evs (snd (deleg_core local st minimized auth level q origin m order answers)).
Proof.
  intros He Hparts Hst. destruct st as [gc dc]. destruct Hst as [Hg Hd]. cbn [fst snd] in Hg, Hd.
  unfold deleg_core.
  destruct (di_hosts (extract_info (u_ns m))) as [|h0 hrest] eqn:Eh.
  { split; [split; assumption | apply result_ok_empty]. }
  rewrite <- Eh.
  destruct (di_has_soa (extract_info (u_ns m))); [split; [split; assumption | apply result_ok_empty]|].
  destruct (valid_referral (extract_info (u_ns m)) auth q) eqn:Ev; cbn [negb]; [|split; [split; assumption | apply result_ok_empty]].
  destruct (valid_referral_sound _ _ _ Ev) as [owner [Eo [Hns [Hhosts [Hsub [Hne [Hlen [Hpath _]]]]]]]].
  rewrite Eo.
  destruct (Nat.ltb (length owner) level); [split; [split; assumption | apply result_ok_empty]|].
  destruct (deleg_get owner dc); [split; [split; assumption | apply result_ok_empty]|].
  set (hosts := di_hosts (extract_info (u_ns m))) in *.
  pose proof (check_glue_sound false local level origin hosts (u_extra m)) as [Gs [_ [_ [G4 _]]]].
  set (g := check_glue false local level origin hosts (u_extra m)) in *.
  assert (Hg1 : gc_ok local (fold_left (fun c p => glue_put (fst p) (snd p) c) (gr_addrs4 g) gc)).
  { revert Hg. generalize gc. induction (gr_addrs4 g) as [|p ps IH]; intros c Hc; cbn [fold_left]; [exact Hc|].
    inversion G4 as [|? ? [_ Hp] Hps]; subst. apply IH; [exact Hps|]. apply gc_ok_put; assumption. }
  pose proof (ns_loop_ok local owner hosts (gr_found4 g) answers (extract_info_hosts_canon (u_ns m)) order
                (fold_left (fun c p => glue_put (fst p) (snd p) c) (gr_addrs4 g) gc, [], gr_servers g, [])) as Hloop.
  cbn beta iota in Hloop.
  specialize (Hloop (conj Hg1 (conj (fun h (H : In h []) => match H with end) (conj Gs (Forall_nil _))))).
  destruct (fold_left (ns_lookup_step local owner (gr_found4 g) answers) (filter (fun h => mem_name h hosts) order)
              (fold_left (fun c p => glue_put (fst p) (snd p) c) (gr_addrs4 g) gc, [], gr_servers g, [])) as [[[gc2 hs] srv] snaps].
  destruct Hloop as [Hg2 [Hhs [Hsrv Hsn]]].
  (* what a set published for this referral satisfies *)
  assert (Hentry : forall d, de_zone d = owner -> (forall h, In h (de_hosts d) -> In h hosts) -> Forall (addr_ok local) (de_servers d) ->
                     deleg_entry_ok local evs (de_zone d) d).
  { intros d Hz Hdh Hds. exists e, auth, level, q, m. rewrite Hz.
    split; [split; [exact He | exact Hparts]|]. split; [apply name_eqb_refl|]. split; [exact Hns|]. split; [exact Hsub|]. split; [exact Hlen|].
    split; [exact Hpath|]. split; [|exact Hds].
    intros h Hh. destruct (Hhosts h (Hdh h Hh)) as [r [t [Hin [Hisns [Hrd [-> _]]]]]]. exists r, t. auto. }
  assert (Hsnaps : forall b d, In (b, d) snaps -> deleg_entry_ok local evs (de_zone d) d).
  { intros b d Hin. rewrite Forall_forall in Hsn. destruct (Hsn _ Hin) as [Hz [Hdh Hds]]. cbn in Hz, Hdh, Hds. apply Hentry; assumption. }
  destruct srv as [|s0 srest].
  - split; [split; assumption|]. split; cbn; [exact Hsnaps | discriminate].
  - set (dnew := mk_de owner hs (s0 :: srest)).
    assert (Hnew : deleg_entry_ok local evs (de_zone dnew) dnew) by (apply Hentry; [reflexivity | exact Hhs | exact Hsrv]).
    split; [split; cbn [fst snd]; [exact Hg2|] | split; cbn; [exact Hsnaps | intros d H; injection H as <-; exact Hnew]].
    intros k d Hin. apply deleg_put_entries in Hin. destruct Hin as [Hin|[-> Hk]]; [exact (Hd _ _ Hin)|].
    eapply deleg_entry_ok_key; [|exact Hnew]. exact Hk.
Qed.

Lemma deleg_apply_ok local evs st e :
  In e evs -> state_ok local evs st ->
  state_ok local evs (fst (deleg_apply local st e)) /\ result_ok local evs (snd (deleg_apply local st e)).
Proof.
  intros He Hst. destruct e as [auth level q m order answers|auth level q m order answers]; unfold deleg_apply.
  - eapply deleg_core_ok; [exact He | reflexivity | exact Hst].
  - destruct (dispose_min m).
    + split; [exact Hst | apply result_ok_empty].
    + split; [exact Hst | apply result_ok_empty].
    + eapply deleg_core_ok; [exact He | reflexivity | exact Hst].
Qed.

(* ------------------------------------------------------------ histories *)
Lemma deleg_history_ok local : forall evs pre st,
  state_ok local pre st ->
  state_ok local (pre ++ evs) (fst (deleg_history local st evs)) /\
  Forall (result_ok local (pre ++ evs)) (snd (deleg_history local st evs)).
Proof.
  induction evs as [|e rest IH]; intros pre st Hst; cbn [deleg_history].
  - rewrite app_nil_r. split; [exact Hst | constructor].
  - assert (Hin : In e (pre ++ [e])) by (apply in_or_app; right; left; reflexivity).
    assert (Hst' : state_ok local (pre ++ [e]) st).
    { destruct Hst as [Hg Hd]. split; [exact Hg|]. intros k d H. eapply deleg_entry_ok_mono; [|exact (Hd _ _ H)]. apply incl_appl, incl_refl. }
    destruct (deleg_apply_ok local (pre ++ [e]) st e Hin Hst') as [H1 Hr].
    destruct (deleg_apply local st e) as [st1 r]. cbn [fst snd] in H1, Hr.
    specialize (IH (pre ++ [e]) st1 H1). rewrite <- app_assoc in IH. cbn [app] in IH.
    destruct (deleg_history local st1 rest) as [st2 rs]. cbn [fst snd] in *. destruct IH as [IH1 IH2].
    split; [exact IH1|]. constructor; [|exact IH2].
    destruct Hr as [Hr1 Hr2]. split.
    + intros b d H. eapply deleg_entry_ok_mono; [|exact (Hr1 _ _ H)].
      intros x Hx. apply in_app_or in Hx. apply in_or_app. destruct Hx as [Hx|[<-|[]]]; [left; exact Hx | right; left; reflexivity].
    + intros d H. eapply deleg_entry_ok_mono; [|exact (Hr2 _ H)].
      intros x Hx. apply in_app_or in Hx. apply in_or_app. destruct Hx as [Hx|[<-|[]]]; [left; exact Hx | right; left; reflexivity].
Qed.

(* for ALL histories, all messages (any response code), all address-lookup results *)
Lemma deleg_history_sound local evs st results :
  deleg_history local ([], []) evs = (st, results) ->
  (forall k d, In (k, d) (snd st) -> deleg_entry_ok local evs k d) /\
  (forall r b d, In r results -> In (b, d) (dr_snaps r) -> deleg_entry_ok local evs (de_zone d) d).
Proof.
  intros H. pose proof (deleg_history_ok local evs [] ([], [])) as Hok. cbn [app] in Hok. rewrite H in Hok. cbn [fst snd] in Hok.
  destruct Hok as [[_ Hd] Hr].
  { split; cbn; [intros k v [] | intros k d []]. }
  split; [exact Hd|]. intros r b d Hin Hs. rewrite Forall_forall in Hr. exact (proj1 (Hr r Hin) b d Hs).
Qed.

(* the clause of the property: a name is in the delegation cache only if the servers of a zone strictly
   above it sent an NS set owned by it while a name below it was being resolved *)
Lemma deleg_only_below_sender local evs st results k d :
  deleg_history local ([], []) evs = (st, results) -> In (k, d) (snd st) ->
  exists e auth level q m, In e evs /\ ev_parts e = (auth, level, q, m) /\
    is_sub auth k = true /\ (length auth < length k)%nat /\ is_sub k (q_name q) = true.
Proof.
  intros H Hin. destruct (proj1 (deleg_history_sound _ _ _ _ H) k d Hin) as [e [auth [level [q [m [[He Hpa] [Hz [_ [Hs [Hl [Hp _]]]]]]]]]]].
  exists e, auth, level, q, m. split; [exact He|]. split; [exact Hpa|].
  rewrite <- (is_sub_respects_eq_r auth _ _ Hz), <- (is_sub_respects_eq_l _ _ (q_name q) Hz).
  apply name_eqb_spec in Hz. assert (length (de_zone d) = length k) by (rewrite <- (canon_length (de_zone d)), Hz, canon_length; reflexivity).
  repeat split; [exact Hs | lia | exact Hp].
Qed.

(* the response code plays no part: the same sections are handled the same way under any code *)
Lemma deleg_apply_rcode_blind local st auth level q rc rc' a n x order answers :
  deleg_apply local st (DelegMsg auth level q (mk_umsg rc a n x) order answers) =
  deleg_apply local st (DelegMsg auth level q (mk_umsg rc' a n x) order answers).
Proof. reflexivity. Qed.

(* ------------------------------------------------------------ searchCache on such a cache *)
Lemma deleg_get_in k c e : deleg_get k c = Some e -> exists m, In (m, e) c /\ name_eqb k m = true.
Proof.
  induction c as [|[m v] r IH]; cbn; [discriminate|].
  destruct (name_eqb k m) eqn:E.
  - intros H. injection H as <-. exists m. auto.
  - intros H. destruct (IH H) as [m' [Hin He]]. exists m'. auto.
Qed.

Lemma search_walk_sound dc n : forall k z e,
  search_walk dc n k = Some (z, e) -> exists j, (0 < j <= k)%nat /\ z = firstn j n /\ deleg_get z dc = Some e.
Proof.
  induction k as [|k IH]; intros z e; cbn [search_walk]; [discriminate|].
  destruct (deleg_get (firstn (S k) n) dc) as [e'|] eqn:G.
  - intros H. injection H as <- <-. exists (S k). repeat split; [lia | lia | exact G].
  - intros H. destruct (IH _ _ H) as [j [Hj Hr]]. exists j. split; [lia | exact Hr].
Qed.

Lemma compare_suffix_sub z n : is_sub z n = true -> compare_suffix n z = length z.
Proof. unfold is_sub. rewrite compare_suffix_sym. intros H. apply Nat.eqb_eq in H. exact H. Qed.

(* whatever history filled the cache: the servers a later resolution of [qname] starts with carry a zone label
   that encloses qname (for a DS question: the parent side of it), are filed under that very name, and the
   level seeded for the glue test is that zone's depth *)
Lemma search_cache_sound local evs st results ds qname z e lv :
  deleg_history local ([], []) evs = (st, results) ->
  search_cache (snd st) ds qname = (Some (z, e), lv) ->
  name_eqb (de_zone e) z = true /\ is_sub (de_zone e) qname = true /\ lv = length (de_zone e) /\
  (ds = true -> (length (de_zone e) < length qname)%nat) /\
  exists k, In (k, e) (snd st) /\ deleg_entry_ok local evs k e.
Proof.
  intros H E. unfold search_cache in E. cbv zeta in E.
  match type of E with context [search_walk ?a ?b ?c] => destruct (search_walk a b c) as [[z' e']|] eqn:W end; [|discriminate E].
  injection E as <- <- <-.
  destruct (search_walk_sound _ _ _ _ _ W) as [j [Hj [Hz G]]].
  destruct (deleg_get_in _ _ _ G) as [m [Hin Hm]].
  pose proof (proj1 (deleg_history_sound _ _ _ _ H) m e' Hin) as Hok.
  assert (Hzone : name_eqb (de_zone e') z' = true).
  { destruct Hok as [? [? [? [? [? [_ [Hk _]]]]]]]. rewrite name_eqb_sym in Hm. eapply name_eqb_trans; eauto. }
  set (start := if ds then removelast qname else qname) in *.
  assert (Hstart : exists s, start = firstn s qname /\ (s <= length qname)%nat /\ (ds = true -> (s < length qname)%nat \/ qname = [])).
  { destruct ds; subst start.
    - exists (pred (length qname)). split; [apply removelast_firstn_len|]. split; [lia|]. intros _.
      destruct qname; [right; reflexivity | left; cbn; lia].
    - exists (length qname). split; [symmetry; apply firstn_all | split; [lia | discriminate]]. }
  destruct Hstart as [s [Hs [Hsl Hds]]].
  assert (Hlstart : length start = s) by (rewrite Hs, firstn_length; lia).
  assert (Hz' : z' = firstn j qname) by (rewrite Hz, Hs, firstn_firstn; f_equal; lia).
  assert (Hlz : length z' = j) by (rewrite Hz', firstn_length; lia).
  assert (Hsubz : is_sub z' qname = true) by (rewrite Hz'; apply firstn_is_sub).
  assert (Hlen : length (de_zone e') = length z').
  { apply name_eqb_spec in Hzone. rewrite <- (canon_length (de_zone e')), Hzone, canon_length. reflexivity. }
  split; [exact Hzone|]. split; [rewrite (is_sub_respects_eq_l _ _ qname Hzone); exact Hsubz|].
  split; [rewrite (compare_suffix_sub _ _ Hsubz); lia|].
  split; [|exists m; auto].
  intros Hd. destruct (Hds Hd) as [H1|H1]; [lia|]. subst qname. cbn in Hsl. lia.
Qed.

(* ------------------------------------------------------------ non-vacuity *)
Definition L (s : string) : label := s2b s.
Definition ex_q : question := mk_q [L "com"; L "attacker"; L "sub"; L "x"] 1 1.
Definition ex_ns (owner : name) (host : name) : rr := mk_rr owner T_NS 1 300 (RdName host).
Definition ex_a (owner : name) (ip : list N) : rr := mk_rr owner T_A 1 300 (RdA ip).
Definition ex_sub : name := [L "com"; L "attacker"; L "sub"].
Definition ex_ns1 : name := ex_sub ++ [L "ns1"].
Definition ex_ns2 : name := ex_sub ++ [L "ns2"].
(* attacker.com.'s servers delegate sub.attacker.com. to ns1 (glue) and ns2 (no glue, its address is looked up) *)
Definition ex_down : deleg_event :=
  DelegMsg [L "com"; L "attacker"] 2 ex_q
    (mk_umsg 0 [] [ex_ns ex_sub ex_ns1; ex_ns ex_sub ex_ns2] [ex_a ex_ns1 [198;51;100;1]])
    [ex_ns1; ex_ns2] [(ex_ns2, [ex_a ex_ns2 [198;51;100;2]])].
(* the same servers put 'victim.com. NS ns.attacker.com.' (glue inside their zone) into an NXDOMAIN reply *)
Definition ex_sideways (rc : N) : deleg_event :=
  DelegMsg [L "com"; L "attacker"] 2 ex_q
    (mk_umsg rc [] [ex_ns [L "com"; L "victim"] [L "com"; L "attacker"; L "ns"]] [ex_a [L "com"; L "attacker"; L "ns"] [203;0;113;66]])
    [[L "com"; L "attacker"; L "ns"]] [].

(* a valid referral is stored; while ns2's address is looked up the provisional entry is on file with the
   zone label sub.attacker.com. and the one server known so far *)
Example ex_deleg_stored_with_provisional :
  let '(st, rs) := deleg_history [] ([], []) [ex_down] in
  map dr_outcome rs = [DoStored] /\
  map dr_snaps rs = [[(true, mk_de ex_sub [ex_ns1; ex_ns2] [IP4 3325256705])]] /\
  snd st = [(ex_sub, mk_de ex_sub [ex_ns1; ex_ns2] [IP4 3325256705; IP4 3325256706])].
Proof. vm_compute. repeat split. Qed.

(* the sideways NS set is refused under every response code, NXDOMAIN included, and nothing reaches the cache *)
Example ex_deleg_sideways_in_error_reply :
  forallb (fun rc => match deleg_history [] ([], []) [ex_down; ex_sideways rc] with
                     | (st, [_; r]) => match dr_outcome r, deleg_get [L "com"; L "victim"] (snd st) with DoRejected, None => true | _, _ => false end
                     | _ => false
                     end) [0; 1; 2; 3; 4; 5; 6; 9] = true.
Proof. vm_compute. reflexivity. Qed.

(* what the rule keeps out: with the validity test skipped for error replies the entry victim.com. -> attacker's
   server would be on file (computed with the rule removed by hand: check_glue + store) *)
Example ex_deleg_sideways_would_poison :
  let m := mk_umsg 3 [] [ex_ns [L "com"; L "victim"] [L "com"; L "attacker"; L "ns"]] [ex_a [L "com"; L "attacker"; L "ns"] [203;0;113;66]] in
  valid_referral (extract_info (u_ns m)) [L "com"; L "attacker"] ex_q = false /\
  gr_servers (check_glue false [] 2 (q_name ex_q) (di_hosts (extract_info (u_ns m))) (u_extra m)) = [IP4 3405803842].
Proof. vm_compute. split; reflexivity. Qed.
