(* C07 — qname-minimised hops (Resolver.minimize, the minimized = true routes of Resolver.resolve,
   processAuthoritySection and processDelegation).  With minimisation on (the default) the servers of a zone are
   first asked ancestors of the client's name, so a hostile server's replies reach the resolver on THIS route
   before they reach it on the full-question route.  Shown here: the name asked is an ancestor of the question
   one label longer than the level; the glue bailiwick zone is the same as for the full name; a reply carrying an
   Answer section is dropped whole; and whatever else the reply holds, the hop either changes nothing or does
   exactly what processing the same message for the full question would have done - so every statement about
   [DelegMsg] histories (Proofs_deleg.v, whose induction covers both kinds of event) is inherited. *)
From Coq Require Import String.
From Sdns Require Import Common.Base Gen.C07 C07.Model C07.Proofs_names C07.Proofs_glue C07.Proofs_referral C07.Proofs_deleg.
Open Scope N_scope.

(* ------------------------------------------------------------ minimize *)
Lemma minimize_sound qml nomin level q mq :
  minimize qml nomin level q = Some mq ->
  q_type mq = q_type q /\ q_class mq = q_class q /\
  q_name mq = firstn (S level) (q_name q) /\ length (q_name mq) = S level /\
  (S level < length (q_name q))%nat /\ is_sub (q_name mq) (q_name q) = true /\
  nomin = false /\ (level < qml)%nat.
Proof.
  unfold minimize. destruct (Nat.eqb qml 0) eqn:E0; cbn [orb]; [discriminate|].
  destruct nomin; [discriminate|].
  destruct (Nat.leb qml level) eqn:El; [discriminate|].
  destruct (Nat.ltb (S level) (length (q_name q))) eqn:Elt; [|discriminate].
  remember (firstn (S level) (q_name q)) as f eqn:Ef.
  intros H. injection H as <-. cbn [q_type q_class q_name]. subst f.
  apply Nat.ltb_lt in Elt. apply Nat.leb_gt in El.
  split; [reflexivity|]. split; [reflexivity|]. split; [reflexivity|].
  split; [rewrite firstn_length; lia|]. split; [exact Elt|]. split; [apply firstn_is_sub|]. split; [reflexivity | exact El].
Qed.

(* nothing is minimised once the level reached qnameMinLevel, with minimisation off or abandoned, or when the
   name has no more than level+1 labels *)
Lemma minimize_none qml nomin level q :
  (qml = 0%nat \/ nomin = true \/ (qml <= level)%nat \/ (length (q_name q) <= S level)%nat) -> minimize qml nomin level q = None.
Proof.
  unfold minimize. intros [->|[->|[H|H]]].
  - reflexivity.
  - rewrite Bool.orb_true_r. reflexivity.
  - destruct (Nat.eqb qml 0 || nomin); [reflexivity|]. apply Nat.leb_le in H. rewrite H. reflexivity.
  - destruct (Nat.eqb qml 0 || nomin); [reflexivity|]. destruct (Nat.leb qml level); [reflexivity|].
    assert (Nat.ltb (S level) (length (q_name q)) = false) as -> by (apply Nat.ltb_ge; exact H). reflexivity.
Qed.

(* Resolver.lookup applies validReferral with the question it SENT (the minimised one) at winner selection,
   processDelegation with the client's.  The first is the stricter test: what it lets through, the second does *)
Lemma valid_for_minimised_is_valid_for_full qml nomin level q mq i auth :
  minimize qml nomin level q = Some mq -> valid_referral i auth mq = true -> valid_referral i auth q = true.
Proof.
  intros Hm. destruct (minimize_sound _ _ _ _ _ Hm) as [_ [Hc [_ [_ [_ [Hsub _]]]]]].
  unfold valid_referral. destruct (di_owner i) as [o|]; [|discriminate].
  rewrite Hc. intros H. apply andb_prop in H. destruct H as [H1 H2]. rewrite H1. cbn [andb].
  unfold progressing_referral in *. destruct (negb (is_sub auth o)); [discriminate|].
  destruct (name_eqb o auth); [discriminate|]. eapply is_sub_trans; eauto.
Qed.

(* ------------------------------------------------------------ the glue origin *)
Lemma glue_in_level_minimised level qn owner :
  glue_in_level level (firstn (S level) qn) owner = glue_in_level level qn owner.
Proof. unfold glue_in_level. rewrite firstn_firstn. replace (Nat.min level (S level)) with level by lia. reflexivity. Qed.

Lemma glue_step_minimised local level qn hosts ty st r :
  glue_step local level (firstn (S level) qn) hosts ty st r = glue_step local level qn hosts ty st r.
Proof. unfold glue_step. destruct st as [[servers found] addrs]. rewrite glue_in_level_minimised. reflexivity. Qed.

Lemma fold_glue_step_minimised local level qn hosts ty extra : forall st,
  fold_left (glue_step local level (firstn (S level) qn) hosts ty) extra st = fold_left (glue_step local level qn hosts ty) extra st.
Proof. induction extra as [|r rest IH]; intros st; cbn [fold_left]; [reflexivity|]. rewrite glue_step_minimised. apply IH. Qed.

(* checkGlueRR reads the origin of its bailiwick test from the accepted message's question - the minimised name on a
   minimised hop; the zone it cuts out at rs.level is the one it would cut out of the client's name *)
Lemma check_glue_minimised ipv6 local level qn hosts extra :
  check_glue ipv6 local level (firstn (S level) qn) hosts extra = check_glue ipv6 local level qn hosts extra.
Proof.
  unfold check_glue. destruct ipv6.
  - rewrite fold_glue_step_minimised. destruct (fold_left (glue_step local level qn hosts T_AAAA) extra ([], [], [])) as [[s6 f6] a6].
    rewrite fold_glue_step_minimised. reflexivity.
  - rewrite fold_glue_step_minimised. reflexivity.
Qed.

(* ------------------------------------------------------------ one hop *)
Lemma dispose_min_answer m : u_answer m <> [] -> dispose_min m = MDRetry.
Proof. unfold dispose_min. destruct (u_answer m); [intros H; contradiction H; reflexivity | reflexivity]. Qed.

Lemma dispose_min_effect m : dispose_min m <> MDRetry -> u_answer m = [].
Proof. intros H. destruct (u_answer m) eqn:E; [reflexivity|]. contradiction H. apply dispose_min_answer. rewrite E. discriminate. Qed.

(* a reply to a minimised question that carries an Answer section leaves no trace: same caches, nothing published,
   the same servers are asked the next name *)
Lemma min_hop_answer_dropped local st auth level q m order answers :
  u_answer m <> [] -> deleg_apply local st (DelegMin auth level q m order answers) = (st, mk_dr DoRetry [] None).
Proof. intros H. cbn [deleg_apply]. rewrite (dispose_min_answer m H). reflexivity. Qed.

Definition same_effect (a b : deleg_state * deleg_result) : Prop :=
  fst a = fst b /\ dr_snaps (snd a) = dr_snaps (snd b) /\ dr_final (snd a) = dr_final (snd b) /\
  (dr_outcome (snd a) = dr_outcome (snd b) \/ (dr_outcome (snd a) = DoRetry /\ dr_outcome (snd b) = DoNoServers /\ dr_final (snd b) = None)).

Lemma deleg_core_minimized_flag local st auth level q origin m order answers :
  same_effect (deleg_core local st true auth level q origin m order answers) (deleg_core local st false auth level q origin m order answers).
Proof.
  unfold deleg_core, same_effect. destruct st as [gc dc].
  destruct (di_hosts (extract_info (u_ns m))) as [|h0 hr]; [cbn; auto|].
  destruct (di_has_soa (extract_info (u_ns m))); [cbn; auto|].
  destruct (negb (valid_referral (extract_info (u_ns m)) auth q)); [cbn; auto|].
  destruct (di_owner (extract_info (u_ns m))) as [o|]; [|cbn; auto].
  destruct (Nat.ltb (length o) level); [cbn; auto|].
  destruct (deleg_get o dc); [cbn; auto|].
  match goal with |- context [fold_left ?f ?l ?a] => destruct (fold_left f l a) as [[[gc2 hs] srv] snaps] end.
  destruct srv as [|s0 sr]; cbn [fst snd dr_snaps dr_final dr_outcome]; [|auto].
  repeat split. cbn [andb]. destruct (Nat.ltb level (length o)); auto.
Qed.

(* whatever the reply to a minimised question holds: either nothing happens (no cache changes, nothing published) or
   the hop has exactly the effect the same message would have as the reply to the client's question - except that
   "no reachable server" makes a minimised hop go on with the next name *)
Lemma min_hop_refines_full local st auth level q m order answers :
  (deleg_apply local st (DelegMin auth level q m order answers) = (st, mk_dr DoRetry [] None) \/
   deleg_apply local st (DelegMin auth level q m order answers) = (st, mk_dr DoAuthority [] None)) \/
  (u_answer m = [] /\
   same_effect (deleg_apply local st (DelegMin auth level q m order answers)) (deleg_apply local st (DelegMsg auth level q m order answers))).
Proof.
  cbn [deleg_apply]. destruct (dispose_min m) eqn:E; [left; left; reflexivity | left; right; reflexivity|].
  right. split; [apply dispose_min_effect; rewrite E; discriminate|].
  unfold deleg_core at 1. unfold deleg_core at 1.
  change (same_effect (deleg_core local st true auth level q (firstn (S level) (q_name q)) m order answers)
                      (deleg_core local st false auth level q (q_name q) m order answers)).
  assert (Ho : deleg_core local st false auth level q (q_name q) m order answers =
               deleg_core local st false auth level q (firstn (S level) (q_name q)) m order answers).
  { unfold deleg_core. rewrite check_glue_minimised. reflexivity. }
  rewrite Ho. apply deleg_core_minimized_flag.
Qed.

(* ------------------------------------------------------------ non-vacuity *)
Definition mq5 : question := mk_q [L "l1"; L "evil"; L "c"; L "b"; L "m"] 1 1.
Example ex_minimize :
  option_map q_name (minimize 5 false 2 mq5) = Some [L "l1"; L "evil"; L "c"] /\
  option_map q_name (minimize 5 false 3 mq5) = Some [L "l1"; L "evil"; L "c"; L "b"] /\
  minimize 5 false 4 mq5 = None /\ minimize 3 false 3 mq5 = None /\ minimize 5 true 2 mq5 = None /\ minimize 0 false 2 mq5 = None.
Proof. vm_compute. repeat split. Qed.

(* the attacker's server answers the minimised question c.evil.l1. with an alias into the victim's zone and a forged
   address: dropped; with a sideways NS set: rejected; with a referral for b.c.evil.l1. (below the minimised name,
   still on the path to the client's name): stored, filed under its owner, and the glue zone is evil.l1. *)
Definition ex_min_ev (m : umsg) order answers := DelegMin [L "l1"; L "evil"] 2 mq5 m order answers.
Example ex_min_hop_answer_dropped :
  deleg_apply [] ([], []) (ex_min_ev (mk_umsg 0 [mk_rr [L "l1"; L "evil"; L "c"] T_CNAME 1 300 (RdName [L "l2"; L "victim"; L "www"]);
                                                  ex_a [L "l2"; L "victim"; L "www"] [6;6;6;6]] [] []) [] [])
  = (([], []), mk_dr DoRetry [] None).
Proof. vm_compute. reflexivity. Qed.
Example ex_min_hop_sideways_rejected :
  dr_outcome (snd (deleg_apply [] ([], []) (ex_min_ev (mk_umsg 3 [] [ex_ns [L "l2"; L "victim"] [L "l1"; L "evil"; L "ns"]]
                                                               [ex_a [L "l1"; L "evil"; L "ns"] [203;0;113;66]]) [[L "l1"; L "evil"; L "ns"]] []))) = DoRejected.
Proof. vm_compute. reflexivity. Qed.
Example ex_min_hop_deeper_referral_stored :
  let o := [L "l1"; L "evil"; L "c"; L "b"] in
  let r := deleg_apply [] ([], []) (ex_min_ev (mk_umsg 0 [] [ex_ns o (o ++ [L "ns"]); ex_ns o [L "l2"; L "victim"; L "ns"]]
                                                [ex_a (o ++ [L "ns"]) [192;0;2;66]; ex_a [L "l2"; L "victim"; L "ns"] [192;0;2;99]])
                                     [o ++ [L "ns"]; [L "l2"; L "victim"; L "ns"]] []) in
  dr_outcome (snd r) = DoStored /\ snd (fst r) = [(o, mk_de o [o ++ [L "ns"]; [L "l2"; L "victim"; L "ns"]] [IP4 3221226050])].
Proof. vm_compute. split; reflexivity. Qed.
(* a glue-less referral whose hosts do not resolve: a minimised hop goes on, the full-question hop fails *)
Example ex_min_hop_no_servers :
  let o := [L "l1"; L "evil"; L "c"] in
  let m := mk_umsg 0 [] [ex_ns o (o ++ [L "ns"])] [] in
  dr_outcome (snd (deleg_apply [] ([], []) (ex_min_ev m [o ++ [L "ns"]] []))) = DoRetry /\
  dr_outcome (snd (deleg_apply [] ([], []) (DelegMsg [L "l1"; L "evil"] 2 mq5 m [o ++ [L "ns"]] []))) = DoNoServers.
Proof. vm_compute. split; reflexivity. Qed.
