(* C07 — checkGlueRR's bailiwick test on names.  In the Go code it is three inline statements (in both passes):
       name := strings.ToLower(extra.Header().Name)
       i, _ := dns.PrevLabel(qname, level)
       if dnsname.CompareSuffix(name, qname[i:]) < level { continue }
   They are not a function of their own, so the composition is written here ONCE by hand ([go_glue_name_skipped])
   over the GENERATED callees go_PrevLabel (miekg, translated by srcgen) and go_CompareSuffix, with strings.ToLower
   as the ASCII model of Common/GoList.v; the text pin src_check_glue (Proofs_shape.v) fixes the shape of the
   three statements.  [prev_label_pres]: on the presentation string of an escape-free name dns.PrevLabel(s, k)
   cuts off exactly the last k labels (everything when there are fewer).  [glue_name_test_is_glue_in_level]:
   the composition computes the model's [glue_in_level] - the zone the glue must lie in is the last [level]
   labels of the question name ([firstn level qname], root first). *)
From Coq Require Import String.
From Sdns Require Import Common.Base Common.GoList Gen.C07 C07.Model C07.Proofs_names C07.Proofs_fold C07.Proofs_zone C07.Proofs_sub C07.Proofs_gen.
Open Scope N_scope.

(* the three statements; [true] = the record is skipped as out of bailiwick *)
Definition go_glue_name_skipped (fuel : nat) (owner qname : list N) (level : Z) : option bool :=
  match go_PrevLabel fuel qname level with
  | Some (i, _) =>
      match go_CompareSuffix fuel (go_ascii_lower owner) (go_slice_from qname i) with
      | Some k => Some (k <? level)%Z
      | None => None
      end
  | None => None
  end.

(* ---- dns.PrevLabel on presentation strings *)
Definition no_dot (x : list N) : Prop := Forall (fun b => b <> 46) x.

(* walking left over the octets of one label *)
Lemma prev_scan_chars fuel x : no_dot x -> forall P T lf n i st, (0 < n)%Z ->
  go_PrevLabel_loop1 fuel (length x + lf) (P ++ x ++ T) n i st (Z.of_nat (length P + length x) - 1) =
  go_PrevLabel_loop1 fuel lf (P ++ x ++ T) n i st (Z.of_nat (length P) - 1).
Proof.
  induction x as [|c x IH] using rev_ind; intros Hx P T lf n i st Hn.
  - cbn [length Nat.add]. rewrite Nat.add_0_r. reflexivity.
  - apply Forall_app in Hx as [Hx Hc]. inversion Hc as [|? ? Hc46 _]; subst.
    rewrite app_length. cbn [length]. replace (length x + 1 + lf)%nat with (S (length x + lf)) by lia.
    cbn [go_PrevLabel_loop1].
    replace (Z.leb 0 (Z.of_nat (length P + (length x + 1)) - 1)) with true by (symmetry; apply Z.leb_le; lia).
    replace (Z.ltb 0 n) with true by (symmetry; apply Z.ltb_lt; lia). cbn [andb].
    assert (Ei : go_idx 0 (P ++ (x ++ [c]) ++ T) (Z.of_nat (length P + (length x + 1)) - 1) = c).
    { rewrite go_idx_nth by lia. replace (Z.to_nat (Z.of_nat (length P + (length x + 1)) - 1)) with (length P + length x)%nat by lia.
      rewrite app_nth2 by lia. replace (length P + length x - length P)%nat with (length x) by lia.
      rewrite <- app_assoc. rewrite app_nth2 by lia. rewrite Nat.sub_diag. reflexivity. }
    rewrite Ei. replace (c =? 46) with false by (symmetry; apply N.eqb_neq; exact Hc46). cbn [negb].
    replace (Z.of_nat (length P + (length x + 1)) - 1 - 1)%Z with (Z.of_nat (length P + length x) - 1)%Z by lia.
    rewrite <- app_assoc. cbn [app].
    specialize (IH Hx P ([c] ++ T) lf n i st Hn). cbn [app] in IH. exact IH.
Qed.

(* at the dot that ends label y (y non-empty, its last octet no backslash) *)
Lemma prev_at_dot fuel P y c T lf n i st : (0 < fuel)%nat -> c <> 92 -> (0 < n)%Z ->
  let s := P ++ (y ++ [c]) ++ 46 :: T in
  let l := Z.of_nat (length P + length y + 1) in
  go_PrevLabel_loop1 fuel (S lf) s n i st l =
  if (n - 1 =? 0)%Z then (GoRet ((l + 1)%Z, false), (s, (n - 1)%Z, i, st, l))
  else go_PrevLabel_loop1 fuel lf s (n - 1)%Z i st (l - 1)%Z.
Proof.
  intros Hf Hc Hn s l. cbn [go_PrevLabel_loop1].
  replace (Z.leb 0 l) with true by (symmetry; apply Z.leb_le; unfold l; lia).
  replace (Z.ltb 0 n) with true by (symmetry; apply Z.ltb_lt; lia). cbn [andb].
  assert (El : go_idx 0 s l = 46).
  { unfold s, l. rewrite go_idx_nth by lia. rewrite Nat2Z.id.
    rewrite app_nth2 by lia. replace (length P + length y + 1 - length P)%nat with (length (y ++ [c])) by (rewrite app_length; cbn; lia).
    rewrite app_nth2 by lia. rewrite Nat.sub_diag. reflexivity. }
  rewrite El. cbn [N.eqb Pos.eqb negb].
  destruct fuel as [|f]; [lia|]. cbn [go_PrevLabel_loop2].
  assert (Ej : go_idx 0 s (l - 1) = c).
  { unfold s, l. rewrite go_idx_nth by lia. replace (Z.to_nat (Z.of_nat (length P + length y + 1) - 1)) with (length P + length y)%nat by lia.
    rewrite app_nth2 by lia. replace (length P + length y - length P)%nat with (length y) by lia.
    rewrite app_nth1 by (rewrite app_length; cbn; lia). rewrite app_nth2 by lia. rewrite Nat.sub_diag. reflexivity. }
  rewrite Ej. replace (c =? 92) with false by (symmetry; apply N.eqb_neq; exact Hc). rewrite andb_false_r.
  replace (Z.rem (l - 1 - l) 2 =? 0)%Z with false by (replace (l - 1 - l)%Z with (-1)%Z by lia; reflexivity).
  reflexivity.
Qed.

Lemma plain_label_split l : plain_label l -> exists y c, l = y ++ [c] /\ c <> 92 /\ no_dot l.
Proof.
  intros [H0 H]. destruct (exists_last H0) as [y [c ->]]. exists y, c. split; [reflexivity|]. split.
  - apply Forall_app in H as [_ Hc]. inversion Hc as [|? ? [_ H92] _]; subst. exact H92.
  - eapply Forall_impl; [|exact H]. cbn. tauto.
Qed.

(* the walk: R (leaf first) are the labels still to the left of the current label x, the cursor is on x's last octet *)
Lemma prev_walk fuel : (0 < fuel)%nat -> forall R, Forall plain_label R -> forall x, plain_label x -> forall T n lf i st,
  (0 < n)%nat -> (length (pres_labels R) + length x + 1 < lf)%nat ->
  let s := pres_labels R ++ x ++ 46 :: T in
  let l := (Z.of_nat (length (pres_labels R) + length x) - 1)%Z in
  if (n <=? length R)%nat
  then exists stf, go_PrevLabel_loop1 fuel lf s (Z.of_nat n) i st l =
         (GoRet (Z.of_nat (length (pres_labels (firstn (length R + 1 - n) R))), false), stf)
  else exists l', go_PrevLabel_loop1 fuel lf s (Z.of_nat n) i st l =
         (GoNext, (s, Z.of_nat (n - length R), i, st, l')).
Proof.
  intros Hf. induction R as [|z R IH] using rev_ind; intros HR x Hx T n lf i st Hn Hlf; cbv zeta.
  - cbn [pres_labels map concat length app Nat.add] in *.
    replace (n <=? 0)%nat with false by (symmetry; apply Nat.leb_gt; lia).
    destruct (plain_label_split x Hx) as [_ [_ [_ [_ Hnd]]]].
    replace lf with (length x + (lf - length x))%nat by lia.
    pose proof (prev_scan_chars fuel x Hnd [] (46 :: T) (lf - length x) (Z.of_nat n) i st) as Hs.
    cbn [app length Nat.add] in Hs. rewrite Hs by lia.
    destruct (lf - length x)%nat as [|lf'] eqn:El; [lia|]. cbn [go_PrevLabel_loop1].
    eexists. rewrite Nat.sub_0_r. reflexivity.
  - apply Forall_app in HR as [HR Hz]. inversion Hz as [|? ? Hz' _]; subst.
    destruct (plain_label_split x Hx) as [_ [_ [_ [_ Hnd]]]].
    destruct (plain_label_split z Hz') as [zy [zc [Ezl [Hzc _]]]].
    assert (Ep : pres_labels (R ++ [z]) = pres_labels R ++ (zy ++ [zc]) ++ [46]).
    { rewrite pres_labels_app. unfold pres_labels at 2. cbn [map concat]. rewrite app_nil_r, Ezl. reflexivity. }
    assert (Elen : length (pres_labels (R ++ [z])) = (length (pres_labels R) + length zy + 1 + 1)%nat)
      by (rewrite Ep, !app_length; cbn; lia).
    assert (Ezlen : length z = (length zy + 1)%nat) by (rewrite Ezl, app_length; cbn; lia).
    rewrite app_length in *. cbn [length] in *.
    replace lf with (length x + (lf - length x))%nat by lia.
    rewrite (prev_scan_chars fuel x Hnd (pres_labels (R ++ [z])) (46 :: T) (lf - length x) (Z.of_nat n) i st) by lia.
    destruct (lf - length x)%nat as [|lf'] eqn:El; [lia|].
    assert (Estr : pres_labels (R ++ [z]) ++ x ++ 46 :: T = pres_labels R ++ (zy ++ [zc]) ++ 46 :: (x ++ 46 :: T))
      by (rewrite Ep, <- !app_assoc; reflexivity).
    rewrite Estr.
    replace (Z.of_nat (length (pres_labels (R ++ [z]))) - 1)%Z with (Z.of_nat (length (pres_labels R) + length zy + 1)) by lia.
    rewrite (prev_at_dot fuel (pres_labels R) zy zc (x ++ 46 :: T) lf' (Z.of_nat n) i st Hf Hzc) by lia.
    destruct (Z.eqb (Z.of_nat n - 1) 0) eqn:En.
    + apply Z.eqb_eq in En. assert (n = 1)%nat by lia. subst n.
      replace (1 <=? length R + 1)%nat with true by (symmetry; apply Nat.leb_le; lia).
      eexists. replace (length R + 1 + 1 - 1)%nat with (length (R ++ [z])) by (rewrite app_length; cbn; lia).
      rewrite firstn_all, Elen. f_equal. f_equal. f_equal. lia.
    + apply Z.eqb_neq in En.
      replace (Z.of_nat n - 1)%Z with (Z.of_nat (n - 1)) by lia.
      replace (Z.of_nat (length (pres_labels R) + length zy + 1) - 1)%Z with (Z.of_nat (length (pres_labels R) + length z) - 1)%Z by lia.
      rewrite <- Ezl.
      specialize (IH HR z Hz' (x ++ 46 :: T) (n - 1)%nat lf' i st ltac:(lia) ltac:(lia)). cbv zeta in IH.
      destruct (n - 1 <=? length R)%nat eqn:Ec.
      * apply Nat.leb_le in Ec. replace (n <=? length R + 1)%nat with true by (symmetry; apply Nat.leb_le; lia).
        destruct IH as [stf IH]. exists stf. rewrite IH.
        replace (length R + 1 + 1 - n)%nat with (length R + 1 - (n - 1))%nat by lia.
        rewrite firstn_app. replace (length R + 1 - (n - 1) - length R)%nat with 0%nat by lia. cbn [firstn]. rewrite app_nil_r. reflexivity.
      * apply Nat.leb_gt in Ec. replace (n <=? length R + 1)%nat with false by (symmetry; apply Nat.leb_gt; lia).
        destruct IH as [l' IH]. exists l'. rewrite IH.
        replace (n - 1 - length R)%nat with (n - (length R + 1))%nat by lia. reflexivity.
Qed.

(* dns.PrevLabel(s, k), k > 0, on the presentation string of the labels ls (leaf first): the index where the
   last k labels start (0 when there are no more than k) *)
Lemma prev_label_pres fuel ls k : Forall plain_label ls -> ls <> [] -> (0 < k)%nat ->
  (length (pres_labels ls) < fuel)%nat ->
  exists b, go_PrevLabel fuel (pres_labels ls) (Z.of_nat k) =
            Some (Z.of_nat (length (pres_labels (firstn (length ls - k) ls))), b).
Proof.
  intros Hp Hn Hk Hf. destruct (exists_last Hn) as [R [x ->]].
  apply Forall_app in Hp as [HR Hx]. inversion Hx as [|? ? Hx' _]; subst.
  assert (Ep : pres_labels (R ++ [x]) = pres_labels R ++ x ++ [46])
    by (rewrite pres_labels_app; unfold pres_labels at 2; cbn [map concat]; rewrite app_nil_r; reflexivity).
  rewrite Ep in *. rewrite !app_length in Hf. cbn [length] in Hf.
  unfold go_PrevLabel.
  destruct (go_list_eqb N.eqb (pres_labels R ++ x ++ [46]) []) eqn:E0.
  { apply go_bytes_eqb_eq in E0. apply (f_equal (@length _)) in E0. rewrite !app_length in E0. cbn in E0. lia. }
  replace (Z.of_nat k =? 0)%Z with false by (symmetry; apply Z.eqb_neq; lia).
  unfold go_len. rewrite !app_length. cbn [length].
  assert (El : go_idx 0 (pres_labels R ++ x ++ [46]) (Z.of_nat (length (pres_labels R) + (length x + 1)) - 1) = 46).
  { rewrite go_idx_nth by lia. replace (Z.to_nat (Z.of_nat (length (pres_labels R) + (length x + 1)) - 1)) with (length (pres_labels R) + length x)%nat by lia.
    rewrite app_nth2 by lia. replace (length (pres_labels R) + length x - length (pres_labels R))%nat with (length x) by lia.
    rewrite app_nth2 by lia. rewrite Nat.sub_diag. reflexivity. }
  rewrite El. cbn [N.eqb Pos.eqb].
  replace (Z.of_nat (length (pres_labels R) + (length x + 1)) - 1 - 1)%Z with (Z.of_nat (length (pres_labels R) + length x) - 1)%Z by lia.
  pose proof (prev_walk fuel ltac:(lia) R HR x Hx' [] k fuel 0%Z false Hk ltac:(lia)) as W. cbv zeta in W.
  destruct (k <=? length R)%nat eqn:Ec.
  - apply Nat.leb_le in Ec. destruct W as [stf W]. rewrite W. eexists.
    replace (length R + 1 - k)%nat with (length R + 1 - k)%nat by lia.
    rewrite firstn_app. replace (length R + 1 - k - length R)%nat with 0%nat by lia. cbn [firstn]. rewrite app_nil_r. reflexivity.
  - apply Nat.leb_gt in Ec. destruct W as [l' W]. rewrite W. eexists.
    replace (length R + 1 - k)%nat with 0%nat by lia. reflexivity.
Qed.

Lemma slice_after_prefix ls m : go_slice_from (pres_labels ls) (Z.of_nat (length (pres_labels (firstn m ls)))) = pres_labels (skipn m ls).
Proof.
  assert (E : pres_labels ls = pres_labels (firstn m ls) ++ pres_labels (skipn m ls))
    by (rewrite <- pres_labels_app, firstn_skipn; reflexivity).
  unfold go_slice_from. rewrite Nat2Z.id, E, skipn_app, skipn_all, Nat.sub_diag. reflexivity.
Qed.

Lemma skipn_rev_firstn {A} (l : list A) k : skipn (length l - k) (rev l) = rev (firstn k l).
Proof.
  rewrite <- (firstn_skipn k l) at 2. rewrite rev_app_distr.
  destruct (Nat.le_gt_cases k (length l)) as [H|H].
  - rewrite skipn_app. replace (length l - k)%nat with (length (rev (skipn k l))) by (rewrite rev_length, skipn_length; reflexivity).
    rewrite skipn_all, Nat.sub_diag. reflexivity.
  - replace (length l - k)%nat with 0%nat by lia. cbn [skipn].
    rewrite (skipn_all2 l) by lia. cbn [rev app]. rewrite firstn_all2 by lia. reflexivity.
Qed.

Lemma compare_suffix_canon_l a b : compare_suffix (canon a) b = compare_suffix a b.
Proof. rewrite !compare_suffix_is_lcp, canon_idem. reflexivity. Qed.

Lemma plain_firstn k n : plain n -> plain (firstn k n).
Proof.
  unfold plain. intros H. rewrite Forall_forall in *. intros l Hl. apply H.
  rewrite <- (firstn_skipn k n). apply in_or_app. now left.
Qed.

Lemma pres_length_canon n : length (pres (canon n)) = length (pres n).
Proof. rewrite <- lower_pres. apply go_ascii_lower_length. Qed.

Lemma pres_firstn_length k n : plain n -> (length (pres (firstn k n)) <= length (pres n))%nat.
Proof.
  intros Hn. destruct n as [|x n]; [rewrite firstn_nil; lia|].
  assert (Hr : rev (x :: n) <> []) by (intros E; apply (f_equal (@length _)) in E; rewrite rev_length in E; discriminate).
  destruct k as [|k].
  - change (firstn 0 (x :: n)) with (@nil label). change (pres []) with [46]. cbn [length].
    rewrite pres_nonempty by discriminate. pose proof (pres_labels_len (rev (x :: n)) Hr (plain_rev _ Hn)). lia.
  - rewrite (pres_nonempty (x :: n)) by discriminate.
    rewrite (pres_nonempty (firstn (S k) (x :: n))) by (cbn [firstn]; discriminate).
    rewrite <- (skipn_rev_firstn (x :: n) (S k)).
    assert (E : pres_labels (rev (x :: n)) = pres_labels (firstn (length (x :: n) - S k) (rev (x :: n))) ++
                                            pres_labels (skipn (length (x :: n) - S k) (rev (x :: n))))
      by (rewrite <- pres_labels_app, firstn_skipn; reflexivity).
    apply (f_equal (@length _)) in E. rewrite app_length in E. lia.
Qed.

(* THE TIE for checkGlueRR's name test, level > 0 *)
Lemma glue_name_test_is_glue_in_level fuel owner qname level :
  plain owner -> plain qname -> (0 < level)%nat ->
  (length (pres owner) + length (pres qname) < fuel)%nat ->
  go_glue_name_skipped fuel (pres owner) (pres qname) (Z.of_nat level) = Some (negb (glue_in_level level qname owner)).
Proof.
  intros Ho Hq Hl Hf. unfold go_glue_name_skipped, glue_in_level. rewrite negb_involutive.
  assert (Hcs : forall z, plain z -> (length (pres z) <= length (pres qname))%nat ->
            go_CompareSuffix fuel (go_ascii_lower (pres owner)) (pres z) = Some (Z.of_nat (compare_suffix owner z))).
  { intros z Hz Hlen. rewrite lower_pres. rewrite gen_compare_suffix; [|apply plain_canon; exact Ho|exact Hz|rewrite pres_length_canon; lia].
    rewrite compare_suffix_canon_l. reflexivity. }
  destruct qname as [|q0 qn].
  - (* the root: PrevLabel(".", k) = 0 *)
    assert (Ep : exists b, go_PrevLabel fuel (pres []) (Z.of_nat level) = Some (0%Z, b)).
    { unfold go_PrevLabel. cbn [pres go_list_eqb]. replace (Z.of_nat level =? 0)%Z with false by (symmetry; apply Z.eqb_neq; lia).
      cbn [go_len length Z.of_nat Z.sub Z.add Z.opp Z.pos_sub go_idx Z.ltb Z.compare Z.to_nat nth N.eqb Pos.eqb].
      destruct fuel as [|f]; [cbn in Hf; lia|]. cbn [go_PrevLabel_loop1 Z.leb Z.compare andb]. eexists. reflexivity. }
    destruct Ep as [b Ep]. rewrite Ep. change (go_slice_from (pres []) 0) with (pres []).
    rewrite (Hcs [] (Forall_nil _) (le_n _)). rewrite firstn_nil. f_equal.
    destruct (Nat.ltb_spec (compare_suffix owner []) level); [apply Z.ltb_lt|apply Z.ltb_ge]; lia.
  - set (qname := q0 :: qn) in *.
    assert (Hr : rev qname <> []) by (intros E; apply (f_equal (@length _)) in E; rewrite rev_length in E; discriminate).
    rewrite (pres_nonempty qname) by discriminate.
    destruct (prev_label_pres fuel (rev qname) level (plain_rev _ Hq) Hr Hl) as [b Ep].
    { rewrite <- pres_nonempty by discriminate. lia. }
    rewrite Ep, slice_after_prefix, rev_length, skipn_rev_firstn.
    assert (Hfn : firstn level qname <> []) by (destruct level; [lia|discriminate]).
    rewrite <- (pres_nonempty (firstn level qname) Hfn).
    rewrite (Hcs (firstn level qname) (plain_firstn _ _ Hq) (pres_firstn_length _ _ Hq)). f_equal.
    destruct (Nat.ltb_spec (compare_suffix owner (firstn level qname)) level); [apply Z.ltb_lt|apply Z.ltb_ge]; lia.
Qed.

(* ---- level 0 (the root's servers): PrevLabel(s, 0) = len(s), so the name is compared with the EMPTY string;
   dns.CountLabel("") is 1, the longer name is cut to its last label, which never equals "": the count is 0 and
   nothing is skipped - the model's [glue_in_level 0] *)
Lemma compare_suffix_empty_c02 fuel (ra : Sdns.C02.Model.name) :
  Sdns.C02.Proofs_Gen.plain_name ra -> ra <> [] -> (length (Sdns.C02.Proofs_Gen.pres ra) < fuel)%nat ->
  Sdns.Gen.C02.go_CompareSuffix fuel (Sdns.C02.Proofs_Gen.pres ra) [] = Some 0%Z.
Proof.
  intros Hp Hn Hf. unfold Sdns.Gen.C02.go_CompareSuffix.
  rewrite (Sdns.C02.Proofs_Gen.pres_not_dot ra Hp Hn). cbn [go_list_eqb orb].
  rewrite (Sdns.C02.Proofs_Gen.count_label fuel ra Hp Hn Hf).
  assert (Ec : Sdns.Gen.C02.go_CountLabel fuel [] = Some 1%Z) by (destruct fuel as [|f]; [lia|reflexivity]).
  rewrite Ec. cbv zeta.
  set (d := (length ra - 1)%nat).
  pose proof (Sdns.C02.Proofs_Gen.cs_align_a fuel [] 1 0%Z d [] ra fuel (Forall_nil _) Hp eq_refl) as A.
  change (Sdns.C02.Proofs_Gen.pres [] ++ Sdns.C02.Proofs_Gen.pres ra) with (Sdns.C02.Proofs_Gen.pres ra) in A.
  change (go_len (Sdns.C02.Proofs_Gen.pres [])) with 0%Z in A. change (Z.of_nat 1) with 1%Z in A.
  assert (Hlen : (0 < length ra)%nat) by (destruct ra; [congruence|cbn; lia]).
  pose proof (Sdns.C02.Proofs_Gen.pres_len_ge ra Hp) as Hge.
  rewrite A by (unfold d; cbn [app]; lia). clear A.
  replace (length ra - d)%nat with 1%nat by (unfold d; lia). change (Z.of_nat 1) with 1%Z. cbn [app].
  destruct fuel as [|f]; [lia|].
  cbn [Sdns.Gen.C02.go_CompareSuffix_loop2 Z.ltb Z.compare Pos.compare Pos.compare_cont].
  cbn [Sdns.Gen.C02.go_CompareSuffix_loop3 Z.ltb Z.compare Pos.compare Pos.compare_cont].
  unfold Sdns.Gen.C02.go_equalFold.
  assert (Hx : (go_len (go_slice_from (Sdns.C02.Proofs_Gen.pres ra) (go_len (Sdns.C02.Proofs_Gen.pres (firstn d ra)))) =? go_len (go_slice_from (@nil N) 0))%Z = false).
  { apply Z.eqb_neq. unfold go_len, go_slice_from. rewrite Nat2Z.id. cbn [skipn Z.to_nat length Z.of_nat].
    assert (E : Sdns.C02.Proofs_Gen.pres ra = Sdns.C02.Proofs_Gen.pres (firstn d ra) ++ Sdns.C02.Proofs_Gen.pres (skipn d ra))
      by (rewrite <- Sdns.C02.Proofs_Gen.pres_app, firstn_skipn; reflexivity).
    rewrite E, skipn_app, skipn_all, Nat.sub_diag. cbn [skipn app].
    assert (Hs : Sdns.C02.Proofs_Gen.plain_name (skipn d ra)).
    { unfold Sdns.C02.Proofs_Gen.plain_name in *. rewrite Forall_forall in *. intros l Hl. apply Hp. rewrite <- (firstn_skipn d ra). apply in_or_app. now right. }
    pose proof (Sdns.C02.Proofs_Gen.pres_len_ge _ Hs) as H2. rewrite skipn_length in H2. unfold d in *. lia. }
  rewrite Hx. reflexivity.
Qed.

Lemma compare_suffix_empty fuel n : plain n -> (length (pres n) < fuel)%nat ->
  go_CompareSuffix fuel (pres n) [] = Some 0%Z.
Proof.
  intros Hn Hf. destruct n as [|x n].
  - reflexivity.
  - rewrite gen_compare_suffix_same, pres_is_present in *.
    assert (Hr : rev (x :: n) <> []) by (intros E; apply (f_equal (@length _)) in E; rewrite rev_length in E; discriminate).
    unfold Sdns.C02.Proofs_Gen.present in *. destruct (rev (x :: n)) as [|y r] eqn:E; [congruence|]. rewrite <- E in *.
    apply compare_suffix_empty_c02; [apply plain_is_plain_name; exact Hn | exact Hr | exact Hf].
Qed.

Lemma glue_name_test_level0 fuel owner qname :
  plain owner -> plain qname -> (length (pres owner) + length (pres qname) < fuel)%nat ->
  go_glue_name_skipped fuel (pres owner) (pres qname) 0 = Some (negb (glue_in_level 0 qname owner)).
Proof.
  intros Ho Hq Hf. unfold go_glue_name_skipped, go_PrevLabel.
  assert (E0 : go_list_eqb N.eqb (pres qname) [] = false).
  { destruct (go_list_eqb N.eqb (pres qname) []) eqn:E; [|reflexivity]. apply go_bytes_eqb_eq in E.
    destruct qname; [discriminate|]. rewrite pres_nonempty in E by discriminate.
    pose proof (pres_labels_len (rev (l :: qname)) ltac:(intros E'; apply (f_equal (@length _)) in E'; rewrite rev_length in E'; discriminate) (plain_rev _ Hq)) as H.
    rewrite E in H. cbn in H. lia. }
  rewrite E0. cbn [Z.eqb].
  unfold go_slice_from, go_len. rewrite Nat2Z.id, skipn_all.
  rewrite lower_pres, compare_suffix_empty; [|apply plain_canon; exact Ho|rewrite pres_length_canon; lia].
  unfold glue_in_level. cbn [firstn]. 
  replace (compare_suffix owner []) with 0%nat by (destruct owner; reflexivity). reflexivity.
Qed.

(* THE TIE, all levels *)
Lemma glue_name_test fuel owner qname level :
  plain owner -> plain qname -> (length (pres owner) + length (pres qname) < fuel)%nat ->
  go_glue_name_skipped fuel (pres owner) (pres qname) (Z.of_nat level) = Some (negb (glue_in_level level qname owner)).
Proof.
  intros Ho Hq Hf. destruct level as [|level].
  - apply glue_name_test_level0; assumption.
  - apply glue_name_test_is_glue_in_level; (assumption || lia).
Qed.

Local Open Scope string_scope.
(* non-vacuity on the generated code: ns.example.com. at question www.sub.example.com.; level 2 (example.com.)
   keeps it, level 3 (sub.example.com.) skips it, level 0 keeps everything, a near miss is skipped *)
Example glue_name_test_examples :
  let L := s2b in
  let q := [L "com"; L "example"; L "sub"; L "www"] in
  go_glue_name_skipped 64 (pres [L "com"; L "Example"; L "NS"]) (pres q) 2 = Some false /\
  go_glue_name_skipped 64 (pres [L "com"; L "example"; L "ns"]) (pres q) 3 = Some true /\
  go_glue_name_skipped 64 (pres [L "l2"; L "victim"; L "ns"]) (pres q) 0 = Some false /\
  go_glue_name_skipped 64 (pres [L "com"; L "notexample"; L "ns"]) (pres q) 2 = Some true /\
  go_PrevLabel 64 (pres q) 2 = Some (8%Z, false).
Proof. vm_compute. repeat split; reflexivity. Qed.
