(* C07 — the dependency between two sites made explicit: the transport's question guard (Conn.Exchange) and the
   origin of the glue bailiwick test (checkGlueRR reads resp.Question[0].Name).  The glue rule is only as good as
   the guard: [exchange_then_glue_origin] composes accept_requires_id_and_question with glue_in_bailiwick -
   whatever message is accepted, the origin the glue test uses IS the question that was asked (up to ASCII case),
   so everything it accepts lies in the zone cut out of the ASKED name.  [ex_foreign_origin_admits_victim_glue]
   shows what a guard that lets a foreign question through (seeded change C07-9: guard only for NOERROR) would
   let in. *)
From Sdns Require Import Common.Base Gen.C07 C07.Model C07.Proofs_names C07.Proofs_exchange C07.Proofs_glue.
Open Scope N_scope.

Lemma canon_firstn k n : canon (firstn k n) = firstn k (canon n).
Proof. unfold canon. symmetry. apply firstn_map. Qed.

Lemma compare_suffix_respects_r o a b : canon a = canon b -> compare_suffix o a = compare_suffix o b.
Proof.
  revert a b; induction o as [|x o IH]; intros a b E; [reflexivity|].
  destruct a as [|y a], b as [|z b]; try reflexivity; try discriminate.
  rewrite !canon_cons in E. injection E as Ey E. cbn [compare_suffix].
  unfold label_eqb. rewrite Ey. destruct (bytes_eqb (canon_label x) (canon_label z)); [|reflexivity].
  f_equal. apply IH. exact E.
Qed.

Lemma glue_in_level_respects level qa qb owner : canon qa = canon qb -> glue_in_level level qa owner = glue_in_level level qb owner.
Proof.
  intros E. unfold glue_in_level. f_equal. f_equal.
  apply compare_suffix_respects_r. rewrite !canon_firstn, E. reflexivity.
Qed.

Lemma glue_step_respects local level qa qb hosts ty st r : canon qa = canon qb ->
  glue_step local level qa hosts ty st r = glue_step local level qb hosts ty st r.
Proof. intros E. unfold glue_step. rewrite (glue_in_level_respects level qa qb _ E). reflexivity. Qed.

Lemma glue_fold_respects local level qa qb hosts ty extra : canon qa = canon qb -> forall st,
  fold_left (glue_step local level qa hosts ty) extra st = fold_left (glue_step local level qb hosts ty) extra st.
Proof.
  intros E. induction extra as [|r extra IH]; intros st; [reflexivity|].
  cbn [fold_left]. rewrite (glue_step_respects _ _ qa qb _ _ _ _ E). apply IH.
Qed.

(* checkGlueRR does not see the letter case of its origin *)
Lemma check_glue_respects ipv6 local level qa qb hosts extra : canon qa = canon qb ->
  check_glue ipv6 local level qa hosts extra = check_glue ipv6 local level qb hosts extra.
Proof.
  intros E. unfold check_glue.
  rewrite (glue_fold_respects local level qa qb hosts T_AAAA extra E).
  destruct (if ipv6 then fold_left (glue_step local level qb hosts T_AAAA) extra ([], [], []) else ([], [], [])) as [[s6 f6] a6].
  rewrite (glue_fold_respects local level qa qb hosts T_A extra E). reflexivity.
Qed.

Lemma nth_error_map_dg replies i d :
  nth_error (map (fun f => DgMsg (f_wire f)) replies) i = Some d ->
  exists f, nth_error replies i = Some f /\ d = DgMsg (f_wire f).
Proof.
  rewrite nth_error_map. destruct (nth_error replies i) as [f|]; [|discriminate].
  cbn. intros E. injection E as <-. exists f. split; reflexivity.
Qed.

(* THE COMPOSITION *)
Lemma exchange_then_glue_origin stream id q replies ipv6 local level i og :
  exchange_then_glue stream id q replies ipv6 local level = Some (i, og) ->
  exists f,
    nth_error replies i = Some f /\ w_id (f_wire f) = id /\
    let hosts := di_hosts (extract_info (u_ns (f_body f))) in
    let g := check_glue ipv6 local level (q_name q) hosts (u_extra (f_body f)) in
    og = Some g /\
    Forall (addr_ok local) (gr_servers g) /\
    Forall (name_ok level (q_name q) hosts) (gr_found4 g) /\ Forall (name_ok level (q_name q) hosts) (gr_found6 g) /\
    Forall (entry_ok local level (q_name q) hosts) (gr_addrs4 g) /\ Forall (entry_ok local level (q_name q) hosts) (gr_addrs6 g).
Proof.
  unfold exchange_then_glue. intros H.
  destruct (exchange_accept stream id (Some q) (map (fun f => DgMsg (f_wire f)) replies)) as [j| | | | |] eqn:X; try discriminate.
  destruct (exchange_accept_sound _ _ _ _ _ X) as [d [m [Hn [Hr [Hid [Hq _]]]]]].
  destruct (nth_error_map_dg _ _ _ Hn) as [f [Hf ->]]. cbn [read_msg] in Hr. injection Hr as <-.
  rewrite Hf in H. destruct (Hq q eq_refl) as [r [Hqs [_ [_ Hc]]]]. rewrite Hqs in H.
  injection H as <- <-. exists f. split; [exact Hf|]. split; [exact Hid|]. cbv zeta.
  rewrite (check_glue_respects ipv6 local level (q_name r) (q_name q) _ _ Hc).
  split; [reflexivity|]. apply check_glue_sound.
Qed.

(* what the glue test would let in if the guard let a reply with a FOREIGN question through (C07-9: "only
   NOERROR replies are checked" - an NXDOMAIN-coded referral echoing a name of the victim zone): asked
   e0.evil.l1. at level 2, the attacker's glue for ns.victim.l2. is refused with the asked origin and accepted
   with the echoed one *)
Example ex_foreign_origin_admits_victim_glue :
  let n (l : list (list N)) : name := l in
  let asked := n [[108;49]; [101;118;105;108]; [101;48]] in                 (* e0.evil.l1. *)
  let echoed := n [[108;50]; [118;105;99;116;105;109]; [120]] in          (* x.victim.l2. *)
  let host := n [[108;50]; [118;105;99;116;105;109]; [110;115]] in        (* ns.victim.l2. *)
  let glue := [mk_rr host T_A 1 300 (RdA [192;0;2;99])] in
  gr_servers (check_glue false [] 2 asked [host] glue) = [] /\
  gr_servers (check_glue false [] 2 echoed [host] glue) = [IP4 3221226083].
Proof. vm_compute. split; reflexivity. Qed.

(* ... and the composed model refuses that exchange whatever the reply's rcode *)
Example ex_foreign_question_never_reaches_glue :
  let asked := mk_q [[108;49]; [101;118;105;108]; [101;48]] 1 1 in
  let echoed := mk_q [[108;50]; [118;105;99;116;105;109]; [120]] 1 1 in
  let host := [[108;50]; [118;105;99;116;105;109]; [110;115]] in
  let body := mk_umsg 3 [] [mk_rr [[108;50]; [118;105;99;116;105;109]] T_NS 1 300 (RdName host)] [mk_rr host T_A 1 300 (RdA [192;0;2;99])] in
  forallb (fun rc => match exchange_then_glue false 7 asked [mk_fmsg (mk_wmsg 7 rc [echoed]) body] false [] 2 with None => true | Some _ => false end)
          [0;1;2;3;4;5;9] = true.
Proof. vm_compute. reflexivity. Qed.
