(* C07 — translator tie for dnsname.Sub / dnsname.CompareSuffix (with miekg's dns.CountLabel and dns.NextLabel,
   translated by srcgen under full_imports): the functions behind checkGlueRR's bailiwick test and
   progressingReferral.  The UNIVERSAL statements are C02's (coq/theories/C02/Proofs_Gen.v: gen_compare_suffix,
   gen_sub - induction over the generated Fixpoints; C02/Proofs_Order.v: go_compare_suffix_spec).  Here:
     * Gen/C07.v's go_Sub / go_CompareSuffix are the very terms of Gen/C02.v (both generated from the same
       source: convertible, [gen_sub_same], [gen_compare_suffix_same]);
     * C02 writes names leaf first, C07 root first: [pres_is_present], [plain_is_plain_name],
       [compare_suffix_is_lcp] carry the statements over;
     * result: on the presentation strings of escape-free names (labels non-empty, no '.' and no '\' inside;
       any case), with fuel above the combined lengths, go_CompareSuffix computes [compare_suffix] and go_Sub
       computes [is_sub] - the model functions every containment theorem is stated with. *)
From Coq Require Import String.
From Sdns Require Import Common.Base Common.GoList Gen.C07 C07.Model C07.Proofs_names C07.Proofs_zone.
From Sdns Require Gen.C02 C02.Model C02.Proofs_Order C02.Proofs_Gen.
Open Scope N_scope.

Lemma gen_sub_same : go_Sub = Sdns.Gen.C02.go_Sub.
Proof. reflexivity. Qed.
Lemma gen_compare_suffix_same : go_CompareSuffix = Sdns.Gen.C02.go_CompareSuffix.
Proof. reflexivity. Qed.

(* ---- the two name representations *)
Lemma plain_label_same l : plain_label l -> Sdns.C02.Proofs_Gen.plain_label l.
Proof.
  intros [H0 H]. split; [exact H0|]. rewrite Forall_forall in H. split; intros Hin; destruct (H _ Hin); congruence.
Qed.
Lemma plain_is_plain_name n : plain n -> Sdns.C02.Proofs_Gen.plain_name (rev n).
Proof.
  intros H. unfold Sdns.C02.Proofs_Gen.plain_name. apply Forall_rev.
  eapply Forall_impl; [|exact H]. exact plain_label_same.
Qed.
Lemma pres_labels_is_pres ls : pres_labels ls = Sdns.C02.Proofs_Gen.pres ls.
Proof. unfold pres_labels, Sdns.C02.Proofs_Gen.pres. symmetry. apply flat_map_concat_map. Qed.
Lemma pres_is_present n : pres n = Sdns.C02.Proofs_Gen.present (rev n).
Proof.
  destruct n as [|x n]; [reflexivity|]. rewrite pres_nonempty by discriminate.
  unfold Sdns.C02.Proofs_Gen.present. rewrite pres_labels_is_pres.
  destruct (rev (x :: n)) eqn:E; [|reflexivity].
  apply (f_equal (@length _)) in E. rewrite rev_length in E. discriminate.
Qed.

Lemma bytes_eqb_is_list_eqb a b : bytes_eqb a b = Sdns.C02.Model.list_eqb N.eqb a b.
Proof. revert b; induction a as [|x a IH]; intros [|y b]; cbn; try reflexivity. now rewrite IH. Qed.
Lemma canon_is_c02_canon n : Sdns.C02.Model.canon (rev n) = canon n.
Proof.
  unfold Sdns.C02.Model.canon, canon. rewrite map_rev, rev_involutive. reflexivity.
Qed.
(* C07's compare_suffix on root-first names = C02's common-prefix length of the canonical names *)
Lemma compare_suffix_is_lcp a b : compare_suffix a b = Sdns.C02.Model.lcp (canon a) (canon b).
Proof.
  revert b; induction a as [|x a IH]; intros [|y b]; try reflexivity.
  cbn [compare_suffix canon map Sdns.C02.Model.lcp].
  unfold label_eqb, Sdns.C02.Model.label_eqb. rewrite bytes_eqb_is_list_eqb.
  destruct (Sdns.C02.Model.list_eqb N.eqb (canon_label x) (canon_label y)); [|reflexivity].
  f_equal. apply IH.
Qed.
Lemma compare_suffix_is_go_compare_suffix a b :
  Sdns.C02.Model.go_compare_suffix (rev a) (rev b) = compare_suffix a b.
Proof. rewrite Sdns.C02.Proofs_Order.go_compare_suffix_spec, !canon_is_c02_canon. symmetry. apply compare_suffix_is_lcp. Qed.

(* ---- the universal ties *)
Lemma gen_compare_suffix fuel a b : plain a -> plain b ->
  (length (pres a) + length (pres b) < fuel)%nat ->
  go_CompareSuffix fuel (pres a) (pres b) = Some (Z.of_nat (compare_suffix a b)).
Proof.
  intros Ha Hb Hf. rewrite gen_compare_suffix_same, !pres_is_present in *.
  rewrite (Sdns.C02.Proofs_Gen.gen_compare_suffix fuel (rev a) (rev b) (plain_is_plain_name _ Ha) (plain_is_plain_name _ Hb) Hf).
  now rewrite compare_suffix_is_go_compare_suffix.
Qed.

Lemma gen_sub fuel z n : plain z -> plain n ->
  (length (pres z) + length (pres n) < fuel)%nat ->
  go_Sub fuel (pres z) (pres n) = Some (is_sub z n).
Proof.
  intros Hz Hn Hf. rewrite gen_sub_same, !pres_is_present in *.
  rewrite (Sdns.C02.Proofs_Gen.gen_sub fuel (rev z) (rev n) (plain_is_plain_name _ Hz) (plain_is_plain_name _ Hn) Hf).
  rewrite compare_suffix_is_go_compare_suffix, rev_length. reflexivity.
Qed.

Local Open Scope string_scope.
(* non-vacuity, on the translated code: case mixes, a label-boundary near miss, an escaped dot (outside the
   theorem's domain, still agreeing) *)
Example gen_sub_examples :
  let L := s2b in
  plain [L "com"; L "Example"; L "www"] /\
  go_Sub 64 (pres [L "COM"; L "example"]) (pres [L "com"; L "Example"; L "www"]) = Some true /\
  go_Sub 64 (pres [L "com"; L "example"]) (pres [L "com"; L "notexample"]) = Some false /\
  go_CompareSuffix 64 (pres [L "com"; L "other"; L "www"]) (pres [L "com"; L "example"; L "www"]) = Some 1%Z /\
  go_Sub 64 (s2b "example.com.") (s2b "foo\.example.com.") = Some (is_sub [L "com"; L "example"] [L "com"; L "foo.example"]) /\
  go_Sub 3 (pres [L "com"]) (pres [L "com"; L "example"]) = None.
Proof.
  cbv zeta. split; [|vm_compute; repeat split; reflexivity].
  repeat constructor; try discriminate; vm_compute; intros H; discriminate.
Qed.
