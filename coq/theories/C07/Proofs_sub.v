(* C07 — translator tie for dnsname.Sub / dnsname.CompareSuffix (with miekg's dns.CountLabel and dns.NextLabel,
   which srcgen translates since 44b398f under full_imports).  These are the functions behind checkGlueRR's
   bailiwick test and progressingReferral; the model's [compare_suffix] / [is_sub] work on label lists.
   FULL STATEMENT (not proved here - it needs loop invariants for NextLabel's escape handling, CountLabel and the
   three loops of CompareSuffix):
     forall z n, plain z -> plain n -> exists fuel0, forall fuel, fuel0 <= fuel ->
       go_Sub fuel (pres z) (pres n) = Some (is_sub z n)
   PROVED ([sub_agrees_partial], [compare_suffix_agrees_partial]): the equation for every ordered pair of a fixed
   grid of 22 names (root, case mixes, label-boundary near misses, siblings, deeper names; 484 pairs), by
   computation on the TRANSLATED function - so a behaviour-changing edit of CompareSuffix / Sub (or of the two
   miekg helpers) on these inputs breaks the build; plus escaped-dot examples.  The label comparison inside
   ([go_equalFold] = [label_eqb]) is proved for all inputs in Proofs_fold.v. *)
From Coq Require Import String.
From Sdns Require Import Common.Base Common.GoList Gen.C07 C07.Model C07.Proofs_names C07.Proofs_zone.
Open Scope N_scope.

Definition L (s : string) : label := s2b s.
Local Open Scope string_scope.
Definition grid : list name :=
  [ [];
    [L "com"]; [L "COM"]; [L "net"];
    [L "com"; L "example"]; [L "Com"; L "EXAMPLE"]; [L "com"; L "notexample"]; [L "com"; L "exam"]; [L "com"; L "ple"; L "exam"];
    [L "net"; L "example"];
    [L "com"; L "example"; L "www"]; [L "COM"; L "Example"; L "Www"]; [L "com"; L "example"; L "ns"];
    [L "com"; L "www"]; [L "com"; L "other"; L "www"]; [L "com"; L "example"; L "sub"; L "www"]; [L "com"; L "example"; L "www"; L "a"];
    [L "l1"; L "evil"]; [L "l1"; L "evil"; L "sub"; L "x"]; [L "l1"; L "notevil"]; [L "l2"; L "victim"; L "www"];
    [L "uk"; L "co"; L "example"; L "ns"; L "a"] ].

(* the translated dnsname.Sub agrees with the model's is_sub on every ordered pair of the grid (484 pairs) *)
Example sub_agrees_on_grid :
  forallb (fun z => forallb (fun n =>
    match go_Sub 64 (pres z) (pres n) with Some b => Bool.eqb b (is_sub z n) | None => false end) grid) grid = true.
Proof. vm_compute. reflexivity. Qed.

(* ... and the translated CompareSuffix with the model's compare_suffix *)
Example compare_suffix_agrees_on_grid :
  forallb (fun a => forallb (fun b =>
    match go_CompareSuffix 64 (pres a) (pres b) with Some k => Z.eqb k (Z.of_nat (compare_suffix a b)) | None => false end) grid) grid = true.
Proof. vm_compute. reflexivity. Qed.

(* an escaped dot is part of its label: foo\.example.com. = labels "foo.example", "com" *)
Example sub_escaped_dot :
  go_Sub 64 (s2b "example.com.") (s2b "foo\.example.com.") = Some (is_sub [L "com"; L "example"] [L "com"; L "foo.example"]).
Proof. vm_compute. reflexivity. Qed.
Example sub_escaped_dot_inside :
  go_Sub 64 (s2b "x\.y.example.net.") (s2b "www.x\.y.example.net.") =
  Some (is_sub [L "net"; L "example"; L "x.y"] [L "net"; L "example"; L "x.y"; L "www"]).
Proof. vm_compute. reflexivity. Qed.

Local Close Scope string_scope.
Lemma sub_agrees_partial z n : In z grid -> In n grid -> go_Sub 64 (pres z) (pres n) = Some (is_sub z n).
Proof.
  intros Hz Hn. pose proof sub_agrees_on_grid as H. rewrite forallb_forall in H. specialize (H z Hz).
  rewrite forallb_forall in H. specialize (H n Hn).
  destruct (go_Sub 64 (pres z) (pres n)) as [b|]; [|discriminate]. apply Bool.eqb_prop in H. now subst.
Qed.
Lemma compare_suffix_agrees_partial a b : In a grid -> In b grid ->
  go_CompareSuffix 64 (pres a) (pres b) = Some (Z.of_nat (compare_suffix a b)).
Proof.
  intros Ha Hb. pose proof compare_suffix_agrees_on_grid as H. rewrite forallb_forall in H. specialize (H a Ha).
  rewrite forallb_forall in H. specialize (H b Hb).
  destruct (go_CompareSuffix 64 (pres a) (pres b)) as [k|]; [|discriminate]. apply Z.eqb_eq in H. now subst.
Qed.
