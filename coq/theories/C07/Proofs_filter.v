(* C07 — dnsutil.FilterRRsToZone, the first statement of Resolver.answer (fix 767eb6f): the Answer section is cut down to
   the records owned inside the zone whose servers answered before anything is relayed, cached or chased.  Since session 5
   the function is TRANSLATED (srcgen iface_cases: dns.RR as a sum type; ascii_strings: dns.CanonicalName) together with its
   callee NameInZone; here the generated loop is proved, by induction over the generated Fixpoint, to be the model's filter
   [in_zone_answer] (owner inside the zone) - with one extra clause the model's record view does not carry: an NSEC record
   is also dropped when its NextDomain lies outside the zone. *)
From Coq Require Import String.
From Sdns Require Import Common.Base Common.GoList Gen.C07 C07.Model C07.Proofs_names C07.Proofs_zone C07.Proofs_gen.
Open Scope N_scope.

(* what a record shows to the filter: its owner and, for an NSEC record, the next domain name *)
Inductive rr_names : I_RR -> name -> option name -> Prop :=
| rn_soa v o : T_RR_Header_Name (T_SOA_Hdr v) = pres o -> plain o -> rr_names (I_RR_of_SOA v) o None
| rn_ns v o : T_RR_Header_Name (T_NS_Hdr v) = pres o -> plain o -> rr_names (I_RR_of_NS v) o None
| rn_other tag h o : T_RR_Header_Name h = pres o -> plain o -> rr_names (I_RR_other tag h) o None
| rn_nsec v o nx : T_RR_Header_Name (T_NSEC_Hdr v) = pres o -> T_NSEC_NextDomain v = pres nx -> plain o -> plain nx ->
                   rr_names (I_RR_of_NSEC v) o (Some nx).

Notation view := (I_RR * (name * option name))%type.
Definition view_ok (p : view) : Prop := rr_names (fst p) (fst (snd p)) (snd (snd p)).
Definition keep_in_zone (zone : name) (p : view) : bool :=
  is_sub zone (fst (snd p)) && match snd (snd p) with Some nx => is_sub zone nx | None => true end.

Lemma name_in_zone_pres fuel zone n : (0 < fuel)%nat -> plain zone -> plain n ->
  go_NameInZone fuel (go_canonical_name_ascii (pres n)) (go_canonical_name_ascii (pres zone)) = Some (is_sub zone n).
Proof.
  intros Hf Hz Hn. rewrite !canonical_name_pres by assumption.
  apply NameInZone_is_sub; [exact Hf | apply plain_canon; exact Hz | apply plain_canon; exact Hn].
Qed.

Lemma filter_loop fuel zone vr vz : (0 < fuel)%nat -> plain zone ->
  forall (rest pre : list view) out lf, Forall view_ok rest -> (length rest < lf)%nat ->
  go_FilterRRsToZone_loop1 fuel (map fst (pre ++ rest)) lf (Z.of_nat (length pre)) vr vz (go_canonical_name_ascii (pres zone)) out =
    (GoNext, (vr, vz, go_canonical_name_ascii (pres zone), out ++ map fst (filter (keep_in_zone zone) rest))).
Proof.
  intros Hf Hz. induction rest as [|p rest IH]; intros pre out lf Hv Hlf.
  - destruct lf as [|lf]; [cbn in Hlf; lia|]. cbn [go_FilterRRsToZone_loop1]. rewrite app_nil_r.
    unfold go_len. rewrite map_length. rewrite Z.ltb_irrefl. cbn [filter map]. rewrite app_nil_r. reflexivity.
  - destruct lf as [|lf]; [cbn in Hlf; lia|]. cbn [length] in Hlf. cbn [go_FilterRRsToZone_loop1].
    unfold go_len. rewrite map_length, app_length. cbn [length].
    replace (Z.of_nat (length pre) <? Z.of_nat (length pre + S (length rest)))%Z with true by (symmetry; apply Z.ltb_lt; lia).
    assert (Eidx : go_idx I_RR_nil (map fst (pre ++ p :: rest)) (Z.of_nat (length pre)) = fst p).
    { rewrite go_idx_nth by lia. rewrite Nat2Z.id, map_app. rewrite app_nth2 by (rewrite map_length; lia).
      rewrite map_length, Nat.sub_diag. reflexivity. }
    rewrite Eidx.
    assert (Enext : pre ++ p :: rest = (pre ++ [p]) ++ rest) by (rewrite <- app_assoc; reflexivity).
    assert (Ei : (Z.of_nat (length pre) + 1)%Z = Z.of_nat (length (pre ++ [p]))) by (rewrite app_length; cbn [length]; lia).
    assert (Hlf' : (length rest < lf)%nat) by lia.
    inversion Hv as [|? ? Hp Hrest]; subst.
    destruct p as [rr [o nx]]. unfold view_ok in Hp. cbn [fst snd] in Hp |- *.
    cbn [filter]. unfold keep_in_zone at 1. cbn [fst snd].
    inversion Hp as [v o' Hname Ho | v o' Hname Ho | tag h o' Hname Ho | v o' nx' Hname Hnext Ho Hnx]; subst; cbn [I_RR_Header].
    + rewrite Hname, (name_in_zone_pres fuel zone o Hf Hz Ho).
      destruct (is_sub zone o); cbn [negb andb].
      * rewrite Ei, Enext. rewrite (IH (pre ++ [(I_RR_of_SOA v, (o, None))]) _ lf Hrest Hlf').
        cbn [map fst]. rewrite <- app_assoc. reflexivity.
      * rewrite Ei, Enext. apply (IH (pre ++ [(I_RR_of_SOA v, (o, None))]) _ lf Hrest Hlf').
    + rewrite Hname, (name_in_zone_pres fuel zone o Hf Hz Ho).
      destruct (is_sub zone o); cbn [negb andb].
      * rewrite Ei, Enext. rewrite (IH (pre ++ [(I_RR_of_NS v, (o, None))]) _ lf Hrest Hlf').
        cbn [map fst]. rewrite <- app_assoc. reflexivity.
      * rewrite Ei, Enext. apply (IH (pre ++ [(I_RR_of_NS v, (o, None))]) _ lf Hrest Hlf').
    + rewrite Hname, (name_in_zone_pres fuel zone o Hf Hz Ho).
      destruct (is_sub zone o); cbn [negb andb].
      * rewrite Ei, Enext. rewrite (IH (pre ++ [(I_RR_other tag h, (o, None))]) _ lf Hrest Hlf').
        cbn [map fst]. rewrite <- app_assoc. reflexivity.
      * rewrite Ei, Enext. apply (IH (pre ++ [(I_RR_other tag h, (o, None))]) _ lf Hrest Hlf').
    + rewrite Hname, (name_in_zone_pres fuel zone o Hf Hz Ho).
      destruct (is_sub zone o); cbn [negb andb].
      * rewrite Hnext, (name_in_zone_pres fuel zone nx' Hf Hz Hnx).
        destruct (is_sub zone nx'); cbn [negb].
        -- rewrite Ei, Enext. rewrite (IH (pre ++ [(I_RR_of_NSEC v, (o, Some nx'))]) _ lf Hrest Hlf').
           cbn [map fst]. rewrite <- app_assoc. reflexivity.
        -- rewrite Ei, Enext. apply (IH (pre ++ [(I_RR_of_NSEC v, (o, Some nx'))]) _ lf Hrest Hlf').
      * rewrite Ei, Enext. apply (IH (pre ++ [(I_RR_of_NSEC v, (o, Some nx'))]) _ lf Hrest Hlf').
Qed.

(* THE TIE: the translated FilterRRsToZone keeps exactly the records whose owner (and, for NSEC, next name) lies in the zone *)
Lemma gen_FilterRRsToZone fuel zone (l : list view) : (0 < fuel)%nat -> plain zone -> Forall view_ok l ->
  go_FilterRRsToZone fuel (map fst l) (pres zone) = Some (map fst (filter (keep_in_zone zone) l)).
Proof.
  intros Hf Hz Hl. unfold go_FilterRRsToZone.
  pose proof (filter_loop fuel zone (map fst l) (pres zone) Hf Hz l [] (go_make I_RR_nil 0) (S (length (map fst l))) Hl) as H.
  assert (Hlen : (length l < S (length (map fst l)))%nat) by (rewrite map_length; lia).
  specialize (H Hlen). cbn [app] in H. change (Z.of_nat (@length view [])) with 0%Z in H. rewrite H.
  cbn [go_make Z.to_nat repeat app]. reflexivity.
Qed.

(* in the model's terms: for records other than NSEC the translated filter is [in_zone_answer] on the owners *)
Lemma gen_FilterRRsToZone_owners fuel zone (l : list (N * T_RR_Header * name)) :
  (0 < fuel)%nat -> plain zone ->
  Forall (fun p => T_RR_Header_Name (snd (fst p)) = pres (snd p) /\ plain (snd p)) l ->
  go_FilterRRsToZone fuel (map (fun p => I_RR_other (fst (fst p)) (snd (fst p))) l) (pres zone) =
    Some (map (fun p => I_RR_other (fst (fst p)) (snd (fst p))) (filter (fun p => is_sub zone (snd p)) l)).
Proof.
  intros Hf Hz Hl.
  set (v := fun p : N * T_RR_Header * name => (I_RR_other (fst (fst p)) (snd (fst p)), (snd p, @None name)) : view).
  assert (E1 : map (fun p => I_RR_other (fst (fst p)) (snd (fst p))) l = map fst (map v l)) by (rewrite map_map; reflexivity).
  rewrite E1, (gen_FilterRRsToZone fuel zone (map v l) Hf Hz).
  - f_equal. clear. induction l as [|p l IH]; [reflexivity|]. cbn [map filter]. unfold keep_in_zone at 1. cbn [v fst snd].
    rewrite Bool.andb_true_r. destruct (is_sub zone (snd p)); cbn [map fst]; rewrite IH; reflexivity.
  - apply Forall_map. eapply Forall_impl; [|exact Hl]. intros [[tag h] o] [H1 H2]. unfold view_ok. cbn. constructor; assumption.
Qed.

(* non-vacuity on the translated code: own record kept; the victim's, a label-boundary near miss and an escaped-dot owner
   dropped; an NSEC whose next name leaves the zone dropped *)
Definition S2f (s : string) : list N := s2b s.
Definition hdrf (s : string) (ty : N) : T_RR_Header := mk_T_RR_Header (S2f s) ty 1 300 4.
Example filter_examples :
  go_FilterRRsToZone 64
    [I_RR_other 1 (hdrf "x.Evil.l1." 1); I_RR_other 1 (hdrf "www.victim.l2." 1); I_RR_other 1 (hdrf "x.notevil.l1." 1);
     I_RR_other 5 (hdrf "evil.l1." 5); I_RR_other 1 (hdrf "x\.evil.l1." 1);
     I_RR_of_NSEC (mk_T_NSEC (hdrf "a.evil.l1." 47) (S2f "www.victim.l2.") []);
     I_RR_of_NSEC (mk_T_NSEC (hdrf "a.evil.l1." 47) (S2f "b.evil.l1.") [])] (S2f "EVIL.l1.")
  = Some [I_RR_other 1 (hdrf "x.Evil.l1." 1); I_RR_other 5 (hdrf "evil.l1." 5);
          I_RR_of_NSEC (mk_T_NSEC (hdrf "a.evil.l1." 47) (S2f "b.evil.l1.") [])].
Proof. vm_compute. reflexivity. Qed.
