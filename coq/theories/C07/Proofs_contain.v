(* C07 — what is kept from an upstream message: the cacheable filter, and the
   containment statement for a server that is authoritative for [auth]. *)
From Sdns Require Import Common.Base Gen.C07 C07.Model C07.Proofs_names C07.Proofs_glue C07.Proofs_referral.
Open Scope N_scope.

(* ------------------------------------------------ filterCacheableAnswer *)
Definition dname_material (r : rr) : Prop :=
  rr_type r = T_DNAME \/ (rr_type r = T_RRSIG /\ rr_data r = RdSig T_DNAME).

Lemma keep_cacheable_spec qn r :
  keep_cacheable qn r = true <-> canon (rr_owner r) = canon qn \/ dname_material r.
Proof.
  unfold keep_cacheable, dname_material. rewrite !orb_true_iff, N.eqb_eq, name_eqb_spec. split.
  - intros [[H|H]|H]; auto.
    destruct (rr_data r) as [| |c|] eqn:E; try discriminate. apply andb_true_iff in H. destruct H as [H1 H2].
    apply N.eqb_eq in H1, H2. subst c. auto.
  - intros [H|[H|[H1 H2]]]; auto. right. rewrite H2. apply andb_true_iff. split; apply N.eqb_eq; auto.
Qed.

Lemma cacheable_sound qn answer r :
  In r (cacheable_answer qn answer) -> In r answer /\ (canon (rr_owner r) = canon qn \/ dname_material r).
Proof. unfold cacheable_answer. rewrite filter_In, keep_cacheable_spec. tauto. Qed.

Lemma cacheable_complete qn answer r :
  In r answer -> canon (rr_owner r) = canon qn -> In r (cacheable_answer qn answer).
Proof. intros H1 H2. unfold cacheable_answer. rewrite filter_In, keep_cacheable_spec. auto. Qed.

Lemma cacheable_idempotent qn answer : cacheable_answer qn (cacheable_answer qn answer) = cacheable_answer qn answer.
Proof.
  unfold cacheable_answer. induction answer as [|r rest IH]; cbn; [reflexivity|].
  destruct (keep_cacheable qn r) eqn:E; cbn; [rewrite E, IH; reflexivity | exact IH].
Qed.

(* ------------------------------------------------ the final-hop ladder *)
Lemma dispose_answer auth q m a : dispose auth q m = DAnswer a -> a = u_answer m /\ a <> [].
Proof.
  unfold dispose. destruct (u_answer m) as [|x xs] eqn:Ea, (u_ns m) as [|y ys] eqn:En.
  - destruct (u_rcode m =? RC_OK); discriminate.
  - destruct (di_hosts (extract_info (y :: ys))); [discriminate|].
    destruct (di_has_soa _); [discriminate|]. destruct (valid_referral _ auth q); discriminate.
  - destruct ((u_rcode m =? RC_REFUSED) || (u_rcode m =? RC_NOTZONE)); [discriminate|].
    intros H. injection H as <-. split; [reflexivity | discriminate].
  - destruct ((u_rcode m =? RC_REFUSED) || (u_rcode m =? RC_NOTZONE)); [discriminate|].
    intros H. injection H as <-. split; [reflexivity | discriminate].
Qed.

Lemma dispose_referral auth q m i :
  dispose auth q m = DReferral i -> i = extract_info (u_ns m) /\ valid_referral i auth q = true /\ u_answer m = [].
Proof.
  unfold dispose. destruct (u_answer m) as [|x xs] eqn:Ea, (u_ns m) as [|y ys] eqn:En.
  - destruct (u_rcode m =? RC_OK); discriminate.
  - destruct (di_hosts (extract_info (y :: ys))); [discriminate|].
    destruct (di_has_soa _); [discriminate|].
    destruct (valid_referral (extract_info (y :: ys)) auth q) eqn:V; [|discriminate].
    intros H. injection H as <-. auto.
  - destruct ((u_rcode m =? RC_REFUSED) || (u_rcode m =? RC_NOTZONE)); discriminate.
  - destruct ((u_rcode m =? RC_REFUSED) || (u_rcode m =? RC_NOTZONE)); discriminate.
Qed.

(* the Answer handed to the client is made of Answer-section records only (Authority and
   Additional of a positive answer never get there) that are owned inside the answering zone *)
Lemma relayed_sound auth q m r :
  In r (relayed_answer auth q m) -> In r (u_answer m) /\ is_sub auth (rr_owner r) = true.
Proof.
  unfold relayed_answer. destruct (dispose auth q m) eqn:D; try (intros []).
  apply dispose_answer in D. destruct D as [-> _].
  assert (F : In r (in_zone_answer auth (u_answer m)) -> In r (u_answer m) /\ is_sub auth (rr_owner r) = true).
  { unfold in_zone_answer. rewrite filter_In. tauto. }
  destruct (chase_applies q _); [|exact F]. destruct (scan_answer q _ None); auto. intros [].
Qed.

Lemma relayed_from_answer_section auth q m r : In r (relayed_answer auth q m) -> In r (u_answer m).
Proof. intros H. exact (proj1 (relayed_sound _ _ _ _ H)). Qed.

(* ------------------------------------------------ containment *)
Lemma out_of_zone_not_eq auth a b :
  is_sub auth a = true -> is_sub auth b = false -> canon b = canon a -> False.
Proof.
  intros Ha Hb E. apply name_eqb_spec in E. rewrite (is_sub_respects_eq_r auth _ _ E) in Hb. congruence.
Qed.

Section Containment.
  Variable auth : name.           (* the zone the queried servers are authoritative for *)
  Variable q : question.          (* the outstanding question *)
  Variable m : umsg.              (* anything the server chooses to send *)
  Hypothesis q_in_zone : is_sub auth (q_name q) = true.

  Variable r : rr.
  Hypothesis r_outside : is_sub auth (rr_owner r) = false.

  (* (a) never relayed in the client's Answer *)
  Lemma contained_relay : ~ In r (relayed_answer auth q m).
  Proof. intros H. apply relayed_sound in H. destruct H as [_ H]. congruence. Qed.

  (* (b) never cached: not under its own name, not under the question's key *)
  Lemma contained_cache : ~ In r (cached_for q (relayed_answer auth q m)).
  Proof. unfold cached_for. intros H. apply cacheable_sound in H. exact (contained_relay (proj1 H)). Qed.

  (* (c) glue: with the bookkeeping level at least the depth of the zone, nothing is learnt for its owner *)
  Lemma contained_glue ipv6 local level o g :
    (length auth <= level)%nat ->
    referral_glue ipv6 local level auth q m = Some (o, g) ->
    ~ In (canon (rr_owner r)) (gr_found4 g ++ gr_found6 g ++ map fst (gr_addrs4 g) ++ map fst (gr_addrs6 g)).
  Proof.
    intros Hl Hg Hin. unfold referral_glue in Hg.
    destruct (dispose auth q m) as [| |i| |] eqn:D; try discriminate.
    destruct (di_owner i) as [o'|]; [|discriminate]. injection Hg as <- <-.
    pose proof (check_glue_sound ipv6 local level (q_name q) (di_hosts i) (u_extra m)) as [_ [F4 [F6 [A4 A6]]]].
    assert (Hn : name_ok level (q_name q) (di_hosts i) (canon (rr_owner r))).
    { rewrite Forall_forall in F4, F6, A4, A6.
      apply in_app_or in Hin. destruct Hin as [Hin|Hin]; [exact (F4 _ Hin)|].
      apply in_app_or in Hin. destruct Hin as [Hin|Hin]; [exact (F6 _ Hin)|].
      apply in_app_or in Hin. destruct Hin as [Hin|Hin]; apply in_map_iff in Hin; destruct Hin as [p [<- Hp]].
      - exact (proj1 (A4 _ Hp)).
      - exact (proj1 (A6 _ Hp)). }
    destruct (name_ok_in_zone _ _ _ _ _ q_in_zone Hl Hn) as [owner [E [Hs _]]].
    exact (out_of_zone_not_eq _ _ _ Hs r_outside E).
  Qed.

  (* (d) delegations: an accepted referral is one NS set owned strictly inside the zone; a record
     owned outside is not part of it (a mixed-owner section is rejected as a whole) *)
  Lemma contained_delegation i :
    dispose auth q m = DReferral i ->
    exists owner, di_owner i = Some owner /\ is_sub auth owner = true /\ name_eqb owner auth = false /\
      is_sub owner (q_name q) = true /\ (In r (u_ns m) -> ~ is_ns r).
  Proof.
    intros D. apply dispose_referral in D. destruct D as [-> [V _]].
    destruct (valid_referral_sound _ _ _ V) as [owner [Ho [Hall [_ [S1 [S2 [_ [S3 _]]]]]]]].
    exists owner. repeat split; auto. intros Hin Hns.
    destruct (Hall r Hin Hns) as [E _]. rewrite (is_sub_respects_eq_r auth _ _ E) in r_outside. congruence.
  Qed.
End Containment.

(* all four clauses, for the zone and level any descent arrives at *)
Lemma containment_all start steps q m r ipv6 local :
  let auth := fst (descent start steps) in
  let level := snd (descent start steps) in
  is_sub auth (q_name q) = true ->
  is_sub auth (rr_owner r) = false ->
  ~ In r (relayed_answer auth q m) /\
  ~ In r (cached_for q (relayed_answer auth q m)) /\
  (forall o g, referral_glue ipv6 local level auth q m = Some (o, g) ->
     ~ In (canon (rr_owner r)) (gr_found4 g ++ gr_found6 g ++ map fst (gr_addrs4 g) ++ map fst (gr_addrs6 g))) /\
  (forall i, dispose auth q m = DReferral i ->
     exists owner, di_owner i = Some owner /\ is_sub auth owner = true /\ name_eqb owner auth = false /\
       is_sub owner (q_name q) = true /\ (In r (u_ns m) -> ~ is_ns r)).
Proof.
  intros auth level Hq Hr. repeat split.
  - apply contained_relay; assumption.
  - apply contained_cache; assumption.
  - intros o g Hg. exact (contained_glue auth q m Hq r Hr ipv6 local level o g (descent_level_ok start steps) Hg).
  - intros i D. eapply contained_delegation; eauto.
Qed.

(* ... with the enclosure of the question discharged: resolution starts at the servers of an ancestor
   of the query name (searchCache: the last k labels of it, k = 0 for the root) and follows referrals
   that passed validReferral *)
Lemma containment_end_to_end k steps q m r ipv6 local :
  let start := firstn k (q_name q) in
  let auth := fst (descent start steps) in
  let level := snd (descent start steps) in
  valid_steps (q_name q) (descent_start start) steps ->
  is_sub auth (rr_owner r) = false ->
  ~ In r (relayed_answer auth q m) /\
  ~ In r (cached_for q (relayed_answer auth q m)) /\
  (forall o g, referral_glue ipv6 local level auth q m = Some (o, g) ->
     ~ In (canon (rr_owner r)) (gr_found4 g ++ gr_found6 g ++ map fst (gr_addrs4 g) ++ map fst (gr_addrs6 g))) /\
  (forall i, dispose auth q m = DReferral i ->
     exists owner, di_owner i = Some owner /\ is_sub auth owner = true /\ name_eqb owner auth = false /\
       is_sub owner (q_name q) = true /\ (In r (u_ns m) -> ~ is_ns r)).
Proof.
  intros start auth level Hv Hr.
  exact (containment_all start steps q m r ipv6 local (descent_encloses _ _ _ Hv) Hr).
Qed.

(* ------------------------------------------------ the former counterexample *)
(* evil.l1.'s server answers "x.evil.l1. A" with an alias to www.victim.l2. followed by an address
   for that name.  Before commit 767eb6f both records reached the client; now the tail is dropped,
   the alias is kept and its target is re-resolved (the model is not exact there: a chase runs). *)
Definition w_auth : name := [[108;49]; [101;118;105;108]].
Definition w_q : question := mk_q (w_auth ++ [[120]]) T_A 1.
Definition w_victim : name := [[108;50]; [118;105;99;116;105;109]; [119;119;119]].
Definition w_alias : rr := mk_rr (q_name w_q) T_CNAME 1 300 (RdName w_victim).
Definition w_tail : rr := mk_rr w_victim T_A 1 300 (RdA [6;6;6;6]).
Definition w_msg : umsg := mk_umsg RC_OK [w_alias; w_tail] [] [].

Lemma former_relay_witness :
  is_sub w_auth (q_name w_q) = true /\ In w_tail (u_answer w_msg) /\ is_sub w_auth (rr_owner w_tail) = false /\
  relayed_answer w_auth w_q w_msg = [w_alias] /\ scan_answer w_q [w_alias] None = ScanChase w_victim.
Proof. repeat split; vm_compute; auto. Qed.
