(* C07 — Resolver.minimize's name computation tied through generated code.  minimize takes a *dns.Msg and copies it
   (outside the translator's subset), so - as for checkGlueRR's name test in Proofs_gluename.v - its five statements
       if r.qnameMinLevel == 0 || nomin { return req, false }
       if level >= r.qnameMinLevel || q.Name == rootzone { return req, false }
       prev, end := dns.PrevLabel(q.Name, level+1); if end { return req, false }
       minName := q.Name[prev:]; if minName == q.Name { return req, false }
   are composed ONCE by hand ([go_minimize_name]) over the GENERATED go_PrevLabel (miekg, translated by srcgen); the
   text pin src_minimize (Proofs_shape.v) fixes the statements.  [prev_label_pres_flag] sharpens Proofs_gluename's
   prev_label_pres: the second result of dns.PrevLabel(s, k) is "k exceeds the number of labels".  [minimize_name_is_model]:
   on the presentation string of every escape-free name the composition computes Model.minimize. *)
From Coq Require Import String.
From Sdns Require Import Common.Base Common.GoList Gen.C07 C07.Model C07.Proofs_names C07.Proofs_fold C07.Proofs_zone C07.Proofs_sub C07.Proofs_gen C07.Proofs_gluename.
Open Scope N_scope.

Definition go_minimize_name (fuel : nat) (qml : Z) (nomin : bool) (level : Z) (qname : list N) : option (option (list N)) :=
  if (qml =? 0)%Z || nomin then Some None
  else if (qml <=? level)%Z || go_list_eqb N.eqb qname [46] then Some None
  else match go_PrevLabel fuel qname (level + 1)%Z with
       | Some (prev, end_) =>
           if end_ : bool then Some None
           else let m := go_slice_from qname prev in
                if go_list_eqb N.eqb m qname then Some None else Some (Some m)
       | None => None
       end.

Lemma prev_label_pres_flag fuel ls k : Forall plain_label ls -> ls <> [] -> (0 < k)%nat ->
  (length (pres_labels ls) < fuel)%nat ->
  go_PrevLabel fuel (pres_labels ls) (Z.of_nat k) =
    Some (Z.of_nat (length (pres_labels (firstn (length ls - k) ls))), Nat.ltb (length ls) k).
Proof.
  intros Hp Hn Hk Hf. destruct (exists_last Hn) as [R [x ->]].
  apply Forall_app in Hp as [HR Hx]. inversion Hx as [|? ? Hx' _]; subst.
  assert (Ep : pres_labels (R ++ [x]) = pres_labels R ++ x ++ [46])
    by (rewrite pres_labels_app; unfold pres_labels at 2; cbn [map concat]; rewrite app_nil_r; reflexivity).
  rewrite app_length. cbn [length].
  rewrite Ep in *. rewrite !app_length in Hf. cbn [length] in Hf.
  unfold go_PrevLabel.
  destruct (go_list_eqb N.eqb (pres_labels R ++ x ++ [46]) []) eqn:E0.
  { apply go_bytes_eqb_eq in E0. apply (f_equal (@length _)) in E0. rewrite !app_length in E0. cbn in E0. lia. }
  replace (Z.of_nat k =? 0)%Z with false by (symmetry; apply Z.eqb_neq; lia).
  unfold go_len. rewrite !app_length. cbn [length].
  assert (El : go_idx 0 (pres_labels R ++ x ++ [46]) (Z.of_nat (length (pres_labels R) + (length x + 1)) - 1) = 46).
  { rewrite go_idx_nth by lia. replace (Z.to_nat (Z.of_nat (length (pres_labels R) + (length x + 1)) - 1)) with (length (pres_labels R) + length x)%nat by lia.
    rewrite app_nth2 by lia. replace (length (pres_labels R) + length x - length (pres_labels R))%nat with (length x) by lia.
    rewrite app_nth2 by lia. rewrite Nat.sub_diag. reflexivity. }
  rewrite El. cbn [N.eqb Pos.eqb].
  replace (Z.of_nat (length (pres_labels R) + (length x + 1)) - 1 - 1)%Z with (Z.of_nat (length (pres_labels R) + length x) - 1)%Z by lia.
  pose proof (prev_walk fuel ltac:(lia) R HR x Hx' [] k fuel 0%Z false Hk ltac:(lia)) as W. cbv zeta in W.
  destruct (k <=? length R)%nat eqn:Ec.
  - apply Nat.leb_le in Ec. destruct W as [stf W]. rewrite W.
    rewrite firstn_app. replace (length R + 1 - k - length R)%nat with 0%nat by lia. cbn [firstn]. rewrite app_nil_r.
    replace (Nat.ltb (length R + 1) k) with false by (symmetry; apply Nat.ltb_ge; lia). reflexivity.
  - apply Nat.leb_gt in Ec. destruct W as [l' W]. rewrite W.
    replace (length R + 1 - k)%nat with 0%nat by lia. cbn [firstn pres_labels map concat length Z.of_nat].
    f_equal. f_equal.
    destruct (Nat.ltb_spec (length R + 1) k); [apply Z.ltb_lt | apply Z.ltb_ge]; lia.
Qed.

Lemma pres_not_root n : plain n -> n <> [] -> go_list_eqb N.eqb (pres n) [46] = false.
Proof.
  intros Hp Hn. destruct (go_list_eqb N.eqb (pres n) [46]) eqn:E; [|reflexivity].
  apply go_bytes_eqb_eq in E. apply (f_equal (@length _)) in E. cbn [length] in E.
  rewrite pres_nonempty in E by exact Hn.
  assert (Hr : rev n <> []) by (intros H; apply (f_equal (@length _)) in H; rewrite rev_length in H; destruct n; [contradiction|discriminate]).
  pose proof (pres_labels_len (rev n) Hr (plain_rev _ Hp)). lia.
Qed.

(* THE TIE for Resolver.minimize: on presentation strings of escape-free names the five statements compute the model *)
Lemma minimize_name_is_model fuel qml nomin level qname t c :
  plain qname -> (length (pres qname) < fuel)%nat ->
  go_minimize_name fuel (Z.of_nat qml) nomin (Z.of_nat level) (pres qname) =
    Some (option_map (fun mq => pres (q_name mq)) (minimize qml nomin level (mk_q qname t c))).
Proof.
  intros Hq Hf. unfold go_minimize_name, minimize. cbn [q_name q_type q_class].
  replace (Z.of_nat qml =? 0)%Z with (Nat.eqb qml 0)
    by (destruct (Nat.eqb_spec qml 0); [symmetry; apply Z.eqb_eq; lia | symmetry; apply Z.eqb_neq; lia]).
  destruct (Nat.eqb qml 0 || nomin); [reflexivity|].
  replace (Z.of_nat qml <=? Z.of_nat level)%Z with (Nat.leb qml level)
    by (destruct (Nat.leb_spec qml level); [symmetry; apply Z.leb_le; lia | symmetry; apply Z.leb_gt; lia]).
  destruct (Nat.leb qml level); [reflexivity|]. cbn [orb].
  destruct qname as [|q0 qn].
  { cbn [pres go_list_eqb N.eqb Pos.eqb andb length Nat.ltb Nat.leb]. reflexivity. }
  set (qname := q0 :: qn) in *.
  rewrite (pres_not_root qname Hq) by discriminate.
  assert (Hr : rev qname <> []) by (intros E; apply (f_equal (@length _)) in E; rewrite rev_length in E; discriminate).
  rewrite (pres_nonempty qname) by discriminate.
  replace (Z.of_nat level + 1)%Z with (Z.of_nat (S level)) by lia.
  rewrite (prev_label_pres_flag fuel (rev qname) (S level) (plain_rev _ Hq) Hr ltac:(lia))
    by (rewrite <- pres_nonempty by discriminate; lia).
  rewrite rev_length.
  destruct (Nat.ltb (length qname) (S level)) eqn:E1.
  { apply Nat.ltb_lt in E1. replace (Nat.ltb (S level) (length qname)) with false by (symmetry; apply Nat.ltb_ge; lia). reflexivity. }
  apply Nat.ltb_ge in E1.
  rewrite slice_after_prefix, skipn_rev_firstn.
  destruct (Nat.ltb (S level) (length qname)) eqn:E2.
  - apply Nat.ltb_lt in E2. cbn [option_map q_name].
    assert (Hfn : firstn (S level) qname <> []) by (cbn [firstn qname]; discriminate).
    rewrite <- (pres_nonempty (firstn (S level) qname) Hfn), <- (pres_nonempty qname) by discriminate.
    destruct (go_list_eqb N.eqb (pres (firstn (S level) qname)) (pres qname)) eqn:E; [|reflexivity].
    apply go_bytes_eqb_eq in E. apply pres_inj in E; [|apply plain_firstn; exact Hq | exact Hq].
    apply (f_equal (@length _)) in E. rewrite firstn_length in E. lia.
  - apply Nat.ltb_ge in E2. rewrite firstn_all2 by lia.
    assert (E : go_list_eqb N.eqb (pres_labels (rev qname)) (pres_labels (rev qname)) = true) by (apply go_bytes_eqb_eq; reflexivity).
    rewrite E. reflexivity.
Qed.

(* the translated code evaluated: m.b.c.evil.l1. at the servers of evil.l1. (level 2), of c.evil.l1. (3), at level 4 and 5,
   with minimisation off, abandoned, exhausted; the root; an escaped dot inside a label is not a label boundary *)
Definition S2 (s : string) : list N := s2b s.
Example minimize_name_examples :
  go_minimize_name 64 5 false 2 (S2 "m.b.c.evil.l1.") = Some (Some (S2 "c.evil.l1.")) /\
  go_minimize_name 64 5 false 3 (S2 "m.b.c.evil.l1.") = Some (Some (S2 "b.c.evil.l1.")) /\
  go_minimize_name 64 5 false 4 (S2 "m.b.c.evil.l1.") = Some None /\
  go_minimize_name 64 6 false 5 (S2 "m.b.c.evil.l1.") = Some None /\
  go_minimize_name 64 0 false 2 (S2 "m.b.c.evil.l1.") = Some None /\
  go_minimize_name 64 5 true 2 (S2 "m.b.c.evil.l1.") = Some None /\
  go_minimize_name 64 3 false 3 (S2 "m.b.c.evil.l1.") = Some None /\
  go_minimize_name 64 5 false 0 (S2 ".") = Some None /\
  go_minimize_name 64 5 false 0 (S2 "a\.b.c.") = Some (Some (S2 "c.")) /\
  go_minimize_name 4 5 false 2 (S2 "m.b.c.evil.l1.") = None.
Proof. vm_compute. repeat split. Qed.
