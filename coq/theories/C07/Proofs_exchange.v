(* C07 — the exchange guard: a reply is accepted only with the request's ID
   and question; on a datagram socket everything read before it carried
   another ID; on a stream it is the first message. *)
From Sdns Require Import Common.Base Gen.C07 C07.Model C07.Proofs_names.
Open Scope N_scope.

Lemma question_matches_spec req resp :
  question_matches req resp = true ->
  exists r, resp = [r] /\ q_type r = q_type req /\ q_class r = q_class req /\ canon (q_name r) = canon (q_name req).
Proof.
  unfold question_matches. destruct resp as [|r [|r2 rest]]; try discriminate.
  intros H. apply andb_true_iff in H. destruct H as [H H3]. apply andb_true_iff in H. destruct H as [H1 H2].
  exists r. repeat split; [apply N.eqb_eq; exact H1 | apply N.eqb_eq; exact H2 | apply name_eqb_spec; exact H3].
Qed.

Lemma question_guard_accept rq m i j :
  question_guard rq m i = XAccept j -> i = j /\ (forall q, rq = Some q -> question_matches q (w_qs m) = true).
Proof.
  unfold question_guard. destruct rq as [q|].
  - destruct (question_matches q (w_qs m)) eqn:E; [|discriminate]. intros H. injection H as ->. split; [reflexivity|].
    intros q' Hq. injection Hq as <-. exact E.
  - intros H. injection H as ->. split; [reflexivity|]. intros q' Hq. discriminate.
Qed.

Lemma udp_loop_accept req_id rq dgs k i :
  udp_loop req_id rq dgs k = XAccept i ->
  (k <= i)%nat /\
  exists d m, nth_error dgs (i - k) = Some d /\ read_msg d = RdOk m /\ w_id m = req_id /\
    (forall q, rq = Some q -> question_matches q (w_qs m) = true) /\
    (forall j, (j < i - k)%nat -> exists d' m', nth_error dgs j = Some d' /\ read_msg d' = RdOk m' /\ w_id m' <> req_id).
Proof.
  revert k. induction dgs as [|d rest IH]; intros k H; cbn in H; [discriminate|].
  destruct (read_msg d) as [| |m] eqn:R; try discriminate.
  destruct (w_id m =? req_id) eqn:E.
  - apply question_guard_accept in H. destruct H as [<- Hq]. split; [lia|].
    exists d, m. rewrite Nat.sub_diag. cbn. apply N.eqb_eq in E. repeat split; auto. intros j Hj. lia.
  - apply IH in H. destruct H as [Hk [d0 [m0 [Hn [Hr [Hid [Hq Hprev]]]]]]]. split; [lia|].
    exists d0, m0. replace (i - k)%nat with (S (i - S k)) by lia. cbn. repeat split; auto.
    intros j Hj. destruct j as [|j].
    + exists d, m. cbn. apply N.eqb_neq in E. auto.
    + cbn. apply Hprev. lia.
Qed.

Lemma exchange_accept_sound stream req_id rq dgs i :
  exchange_accept stream req_id rq dgs = XAccept i ->
  exists d m, nth_error dgs i = Some d /\ read_msg d = RdOk m /\ w_id m = req_id /\
    (forall q, rq = Some q ->
       exists r, w_qs m = [r] /\ q_type r = q_type q /\ q_class r = q_class q /\ canon (q_name r) = canon (q_name q)) /\
    (stream = true -> i = 0%nat) /\
    (stream = false -> forall j, (j < i)%nat ->
       exists d' m', nth_error dgs j = Some d' /\ read_msg d' = RdOk m' /\ w_id m' <> req_id).
Proof.
  unfold exchange_accept. destruct stream.
  - unfold stream_once. destruct dgs as [|d rest]; [discriminate|].
    destruct (read_msg d) as [| |m] eqn:R; try discriminate.
    destruct (w_id m =? req_id) eqn:E; [|discriminate].
    intros H. apply question_guard_accept in H. destruct H as [<- Hq].
    exists d, m. cbn. apply N.eqb_eq in E. repeat split; auto.
    + intros q Hrq. apply question_matches_spec. auto.
    + discriminate.
  - intros H. apply udp_loop_accept in H. rewrite Nat.sub_0_r in H.
    destruct H as [_ [d [m [Hn [Hr [Hid [Hq Hprev]]]]]]].
    exists d, m. repeat split; auto.
    + intros q Hrq. apply question_matches_spec. auto.
    + discriminate.
Qed.

(* nothing shorter than a header is ever parsed *)
Lemma short_never_accepted n : n < header_size -> read_msg (DgZeros n) = RdShort.
Proof. intros H. cbn. apply N.ltb_lt in H. rewrite H. reflexivity. Qed.
