(* C07 — the NS-address cache across histories: every entry was filed for an NS host of some
   referral, either as glue lying inside the zone cut out at that referral's level or from an
   address lookup for that very host; every address on file is usable (not loopback, not local). *)
From Sdns Require Import Common.Base Gen.C07 C07.Model C07.Proofs_names C07.Proofs_glue.
Open Scope N_scope.

Definition filed_by (e : glue_event) (k : name) : Prop :=
  match e with
  | GlueReferral level qname hosts extra answers =>
      exists h, k = canon h /\ mem_name h hosts = true /\
        (glue_in_level level qname h = true \/ exists ans, answers_get h answers = Some ans)
  end.

Definition cache_inv (local : list ipaddr) (evs : list glue_event) (c : glue_cache) : Prop :=
  forall k v, In (k, v) c -> Forall (addr_ok local) v /\ exists e, In e evs /\ filed_by e k.

Lemma glue_put_entries n a c k v :
  In (k, v) (glue_put n a c) -> In (k, v) c \/ (v = a /\ (k = canon n \/ exists v', In (k, v') c)).
Proof.
  induction c as [|[m w] r IH]; cbn.
  - intros [H|[]]. injection H as <- <-. right. auto.
  - destruct (name_eqb n m).
    + intros [H|H]; [injection H as <- <-; right; split; [reflexivity | right; exists w; auto] | auto].
    + intros [H|H]; [auto|]. destruct (IH H) as [H1|[-> [->|[v' H2]]]]; auto.
      right. split; [reflexivity | right; exists v'; auto].
Qed.

Lemma glue_lookup_in n c v : glue_lookup n c = Some v -> exists m, In (m, v) c /\ name_eqb n m = true.
Proof.
  induction c as [|[m w] r IH]; cbn; [discriminate|].
  destruct (name_eqb n m) eqn:E.
  - intros H. injection H as <-. exists m. auto.
  - intros H. destruct (IH H) as [m' [Hin He]]. exists m'. auto.
Qed.

Lemma glue_put_lookup_id n c v : glue_lookup n c = Some v -> glue_put n v c = c.
Proof.
  induction c as [|[m w] r IH]; cbn; [discriminate|].
  destruct (name_eqb n m); [intros H; injection H as <-; reflexivity | intros H; rewrite (IH H); reflexivity].
Qed.

Lemma search_addrs_ok local answer : Forall (addr_ok local) (search_addrs local answer).
Proof.
  unfold search_addrs. apply Forall_forall. intros a Hin. apply in_flat_map in Hin. destruct Hin as [r [_ Hin]].
  destruct (rr_data r) as [ip| | |]; try destruct Hin.
  destruct (rr_type r =? T_A).
  - destruct (usable_addr local ip) as [[v|v]|] eqn:U; try destruct Hin as [<-|[]]; try destruct Hin.
    apply usable_addr_sound in U. split; tauto.
  - destruct (rr_type r =? T_AAAA); [|destruct Hin].
    destruct (usable_addr local ip) as [a'|] eqn:U; [|destruct Hin]. destruct Hin as [<-|[]].
    apply usable_addr_sound in U. split; tauto.
Qed.

Section Step.
  Variable local : list ipaddr.
  Variable evs : list glue_event.
  Variables (level : nat) (qname : name) (hosts : list name) (extra : list rr) (answers : list (name * list rr)).
  Let e := GlueReferral level qname hosts extra answers.
  Hypothesis e_in : In e evs.

  Lemma put_glue_inv c p :
    cache_inv local evs c -> entry_ok local level qname hosts p -> cache_inv local evs (glue_put (fst p) (snd p) c).
  Proof.
    intros Hc [[owner [Ho [Hg Hm]]] Ha] k v Hin. apply glue_put_entries in Hin.
    destruct Hin as [Hin|[-> [->|[v' Hin]]]]; [exact (Hc _ _ Hin)| |].
    - split; [exact Ha|]. exists e. split; [exact e_in|]. exists owner. rewrite Ho, canon_idem. auto.
    - split; [exact Ha | exact (proj2 (Hc _ _ Hin))].
  Qed.

  Lemma lookup_step_inv c h :
    cache_inv local evs c -> mem_name h hosts = true -> cache_inv local evs (lookup_step local answers c h).
  Proof.
    intros Hc Hh. unfold lookup_step. destruct (glue_lookup h c) as [v|] eqn:L.
    - rewrite (glue_put_lookup_id _ _ _ L). exact Hc.
    - destruct (answers_get h answers) as [ans|] eqn:A; [|exact Hc].
      pose proof (search_addrs_ok local ans) as Hs.
      destruct (search_addrs local ans) as [|a0 rest] eqn:S; [exact Hc|].
      intros k v Hin. apply glue_put_entries in Hin.
      destruct Hin as [Hin|[-> [->|[v' Hin]]]]; [exact (Hc _ _ Hin)| |].
      + split; [exact Hs|]. exists e. split; [exact e_in|]. exists h. repeat split; eauto.
      + split; [exact Hs | exact (proj2 (Hc _ _ Hin))].
  Qed.
End Step.

Lemma cache_inv_mono local evs evs' c : incl evs evs' -> cache_inv local evs c -> cache_inv local evs' c.
Proof.
  intros Hi Hc k v Hin. destruct (Hc _ _ Hin) as [Ha [e [He Hf]]]. split; [exact Ha|]. exists e. auto.
Qed.

Lemma glue_apply_inv local evs c e :
  In e evs -> cache_inv local evs c -> cache_inv local evs (glue_apply local c e).
Proof.
  intros He Hc. destruct e as [level qname hosts extra answers]. unfold glue_apply.
  pose proof (check_glue_sound false local level qname hosts extra) as [_ [_ [_ [A4 _]]]].
  set (g := check_glue false local level qname hosts extra) in *.
  assert (H1 : cache_inv local evs (fold_left (fun c p => glue_put (fst p) (snd p) c) (gr_addrs4 g) c)).
  { revert c Hc. induction (gr_addrs4 g) as [|p ps IH]; intros c Hc; cbn [fold_left]; [exact Hc|].
    inversion A4; subst. apply IH; [assumption|]. eapply put_glue_inv; eauto. }
  revert H1. generalize (fold_left (fun c p => glue_put (fst p) (snd p) c) (gr_addrs4 g) c).
  assert (Hgen : forall hs, (forall h, In h hs -> mem_name h hosts = true) -> forall c1, cache_inv local evs c1 ->
            cache_inv local evs (fold_left (fun c h => if mem_name h (gr_found4 g) then c else lookup_step local answers c h) hs c1)).
  { induction hs as [|h rest IH]; intros Hsub c1 H1; cbn [fold_left]; [exact H1|].
    apply IH; [intros h' Hin; apply Hsub; right; exact Hin|].
    destruct (mem_name h (gr_found4 g)); [exact H1|].
    eapply lookup_step_inv; eauto. apply Hsub. left. reflexivity. }
  apply Hgen. intros h Hin. apply mem_name_spec. exists h. split; [exact Hin | apply name_eqb_refl].
Qed.

Lemma glue_history_inv_gen local evs : forall pre c,
  cache_inv local pre c -> cache_inv local (pre ++ evs) (fold_left (glue_apply local) evs c).
Proof.
  induction evs as [|e rest IH]; intros pre c Hc; cbn.
  - rewrite app_nil_r. exact Hc.
  - replace (pre ++ e :: rest) with ((pre ++ [e]) ++ rest) by (rewrite <- app_assoc; reflexivity).
    apply IH. apply glue_apply_inv; [apply in_or_app; right; left; reflexivity|].
    eapply cache_inv_mono; [|exact Hc]. apply incl_appl, incl_refl.
Qed.

(* for ALL histories of referrals, whatever the servers put into them *)
Lemma glue_history_sound local evs k v :
  In (k, v) (glue_history local evs) ->
  Forall (addr_ok local) v /\ exists e, In e evs /\ filed_by e k.
Proof.
  intros Hin. exact (glue_history_inv_gen local evs [] [] (fun k v (H : In (k, v) []) => match H with end) k v Hin).
Qed.

(* what a lookup of a host returns is on file under (a case variant of) that host *)
Lemma glue_history_lookup local evs host v :
  glue_lookup host (glue_history local evs) = Some v ->
  Forall (addr_ok local) v /\ exists e k, In e evs /\ filed_by e k /\ name_eqb host k = true.
Proof.
  intros H. apply glue_lookup_in in H. destruct H as [m [Hin He]].
  destruct (glue_history_sound _ _ _ _ Hin) as [Ha [e [Hev Hf]]]. split; [exact Ha|]. exists e, m. auto.
Qed.
