(* C07 — bailiwick: executable model of the places where the resolver decides
   whether to believe what an upstream server sent.  Definitions only.

   Written line by line from
     internal/dnsclient/conn.go      Conn.Exchange, QuestionMatches, ReadMsg
     internal/dnsname/dnsname.go     CompareSuffix, Sub
     middleware/resolver/utils.go    usableAddr, isLocalIP, searchAddrs
     middleware/resolver/resolver.go checkGlueRR, extractDelegationInfo, progressingReferral,
                                     validReferral, filterAuthorityRecords, clearAdditional,
                                     resolve (final-hop ladder), processDelegation /
                                     resolveWithCachedNameservers (level bookkeeping)
     middleware/cache/cache.go       filterCacheableAnswer, additionalAnswer (first scan)
   The source text of the small pure helpers is re-read by srcgen on every
   run (Gen/C07.v, [src_*]); Proofs_shape.v checks it is still the text this
   model was written from.

   NAMES.  A domain name is a list of labels, ROOT FIRST:
   "www.Example.com." = [ "com"; "Example"; "www" ], the root is [].  A
   label is its octets.  Go works on presentation strings; for the names
   miekg/dns unpacks (every special octet escaped the same way) two labels
   are equal as folded strings iff their octets are equal after ASCII
   folding, which is what [label_eqb] decides.  "The last k labels of n"
   (dns.PrevLabel + slicing) is [firstn k n] in this orientation and
   dnsname.CompareSuffix is the length of the common prefix. *)
From Coq Require Import String Ascii.
From Sdns Require Import Common.Base Gen.C07.
Open Scope N_scope.

Definition label := list N.
Definition name := list label.

Definition fold_byte (b : N) : N := if (65 <=? b) && (b <=? 90) then b + 32 else b.
Definition canon_label (l : label) : label := map fold_byte l.
Definition canon (n : name) : name := map canon_label n.

Fixpoint bytes_eqb (a b : list N) : bool :=
  match a, b with
  | [], [] => true
  | x :: xs, y :: ys => (x =? y) && bytes_eqb xs ys
  | _, _ => false
  end.

(* dnsname.equalFold on one label *)
Definition label_eqb (a b : label) : bool := bytes_eqb (canon_label a) (canon_label b).

(* dnsname.CompareSuffix: number of labels shared from the root *)
Fixpoint compare_suffix (a b : name) : nat :=
  match a, b with
  | x :: xs, y :: ys => if label_eqb x y then S (compare_suffix xs ys) else 0%nat
  | _, _ => 0%nat
  end.

(* dnsname.Sub(zone, n): CompareSuffix(zone, n) == dns.CountLabel(zone) *)
Definition is_sub (zone n : name) : bool := Nat.eqb (compare_suffix zone n) (length zone).

(* strings.EqualFold(dns.CanonicalName a, dns.CanonicalName b) *)
Fixpoint name_eqb (a b : name) : bool :=
  match a, b with
  | [], [] => true
  | x :: xs, y :: ys => label_eqb x y && name_eqb xs ys
  | _, _ => false
  end.

Definition strict_sub (zone n : name) : bool := is_sub zone n && negb (name_eqb n zone).

Fixpoint mem_name (x : name) (l : list name) : bool :=
  match l with
  | [] => false
  | y :: r => name_eqb x y || mem_name x r
  end.
Definition add_name (x : name) (l : list name) : list name := if mem_name x l then l else l ++ [canon x].

(* ------------------------------------------------------------------ *)
(* dnsclient: the exchange guard                                        *)

Record question := mk_q { q_name : name; q_type : N; q_class : N }.

(* QuestionMatches(req, resp.Question) *)
Definition question_matches (req : question) (resp : list question) : bool :=
  match resp with
  | [r] => (q_type r =? q_type req) && (q_class r =? q_class req) && name_eqb (q_name r) (q_name req)
  | _ => false
  end.

(* a received message as far as Exchange is concerned: transaction ID, response code, question
   section.  The response code is carried to make explicit that the guard does not depend on it:
   an error reply (NXDOMAIN, REFUSED, FORMERR ...) is held to the same ID and question rule. *)
Record wmsg := mk_wmsg { w_id : N; w_rcode : N; w_qs : list question }.

(* one read from the connection.  [DgZeros n]: n zero octets (n <= 12): fewer than
   headerSize is dns.ErrShortRead, exactly a header is the empty message with ID 0;
   [DgGarbage]: Unpack fails; [DgMsg]: a parsed message *)
Inductive datagram :=
| DgZeros (n : N)
| DgGarbage
| DgMsg (m : wmsg).

Inductive xresult :=
| XAccept (i : nat)        (* the i-th read was returned with err == nil *)
| XErrShort (i : nat)      (* ReadMsg: dns.ErrShortRead at the i-th read *)
| XErrUnpack (i : nat)     (* ReadMsg: Unpack error at the i-th read *)
| XErrId (i : nat)         (* stream only: dns.ErrId *)
| XErrQuestion (i : nat)   (* ErrQuestion, message i returned alongside *)
| XTimeout.                (* nothing acceptable before the read deadline *)

Inductive readres := RdShort | RdUnpack | RdOk (m : wmsg).
Definition read_msg (d : datagram) : readres :=
  match d with
  | DgZeros n => if n <? header_size then RdShort else if n =? 12 then RdOk (mk_wmsg 0 0 []) else RdUnpack
  | DgGarbage => RdUnpack
  | DgMsg m => RdOk m
  end.

Definition question_guard (req_q : option question) (m : wmsg) (i : nat) : xresult :=
  match req_q with
  | Some q => if question_matches q (w_qs m) then XAccept i else XErrQuestion i
  | None => XAccept i
  end.

(* the UDP branch: for { r, err = ReadMsg(); if err != nil || r.Id == m.Id { break } } *)
Fixpoint udp_loop (req_id : N) (req_q : option question) (dgs : list datagram) (i : nat) : xresult :=
  match dgs with
  | [] => XTimeout
  | d :: rest =>
      match read_msg d with
      | RdShort => XErrShort i
      | RdUnpack => XErrUnpack i
      | RdOk m => if w_id m =? req_id then question_guard req_q m i
                  else udp_loop req_id req_q rest (S i)
      end
  end.

(* the stream branch: one read, mismatching ID is dns.ErrId *)
Definition stream_once (req_id : N) (req_q : option question) (dgs : list datagram) : xresult :=
  match dgs with
  | [] => XTimeout
  | d :: _ =>
      match read_msg d with
      | RdShort => XErrShort 0
      | RdUnpack => XErrUnpack 0
      | RdOk m => if w_id m =? req_id then question_guard req_q m 0%nat else XErrId 0
      end
  end.

Definition exchange_accept (stream : bool) (req_id : N) (req_q : option question) (dgs : list datagram) : xresult :=
  if stream then stream_once req_id req_q dgs else udp_loop req_id req_q dgs 0.

(* ------------------------------------------------------------------ *)
(* addresses: usableAddr                                                *)

Inductive ipaddr := IP4 (v : N) | IP6 (v : N).
Definition ipaddr_eqb (a b : ipaddr) : bool :=
  match a, b with
  | IP4 x, IP4 y => x =? y
  | IP6 x, IP6 y => x =? y
  | _, _ => false
  end.
Fixpoint mem_ip (a : ipaddr) (l : list ipaddr) : bool :=
  match l with [] => false | b :: r => ipaddr_eqb a b || mem_ip a r end.

Definition be_val (l : list N) : N := fold_left (fun acc b => acc * 256 + b) l 0.

(* netip.AddrFromSlice *)
Definition addr_from_slice (ip : list N) : option ipaddr :=
  match length ip with
  | 4%nat => Some (IP4 (be_val ip))
  | 16%nat => Some (IP6 (be_val ip))
  | _ => None
  end.
(* netip.Addr.Unmap: ::ffff:a.b.c.d -> a.b.c.d *)
Definition unmap (a : ipaddr) : ipaddr :=
  match a with
  | IP6 v => if v / 4294967296 =? 65535 then IP4 (v mod 4294967296) else a
  | _ => a
  end.
(* netip.Addr.IsLoopback on an unmapped address *)
Definition is_loopback (a : ipaddr) : bool :=
  match a with
  | IP4 v => v / 16777216 =? 127
  | IP6 v => v =? 1
  end.

(* usableAddr(ip) with localIPaddrs = [local] (each already unmapped: net.IP.Equal
   identifies the 4-octet and the mapped 16-octet spelling) *)
Definition usable_addr (local : list ipaddr) (ip : list N) : option ipaddr :=
  match addr_from_slice ip with
  | None => None
  | Some a =>
      let a' := unmap a in
      if is_loopback a' || mem_ip a' local then None else Some a'
  end.

(* ------------------------------------------------------------------ *)
(* resource records as far as the anchored code looks at them           *)

Definition T_A : N := 1.     Definition T_NS : N := 2.    Definition T_CNAME : N := 5.
Definition T_SOA : N := 6.   Definition T_AAAA : N := 28. Definition T_DNAME : N := 39.
Definition T_DS : N := 43.   Definition T_RRSIG : N := 46.
Definition T_NSEC : N := 47. Definition T_NSEC3 : N := 50.

Inductive rdata :=
| RdA (ip : list N)          (* A / AAAA address octets as carried *)
| RdName (target : name)     (* NS / CNAME / DNAME target *)
| RdSig (covered : N)        (* RRSIG type covered *)
| RdOther.

Record rr := mk_rr { rr_owner : name; rr_type : N; rr_class : N; rr_ttl : N; rr_data : rdata }.

(* ------------------------------------------------------------------ *)
(* referrals: extractDelegationInfo, progressingReferral, validReferral *)

Record dinfo := mk_dinfo {
  di_owner : option name;     (* nsRecord.Header().Name *)
  di_class : N;
  di_ttl : N;
  di_hosts : list name;       (* lower-cased NS targets, insertion order, no duplicates *)
  di_has_soa : bool;
  di_incoherent : bool }.

Definition dinfo0 : dinfo := mk_dinfo None 0 0 [] false false.

Definition info_step (i : dinfo) (r : rr) : dinfo :=
  if rr_type r =? T_SOA then mk_dinfo (di_owner i) (di_class i) (di_ttl i) (di_hosts i) true (di_incoherent i)
  else if rr_type r =? T_NS then
    match rr_data r with
    | RdName target =>
        match di_owner i with
        | None => mk_dinfo (Some (rr_owner r)) (rr_class r) (rr_ttl r) (add_name target (di_hosts i)) (di_has_soa i) (di_incoherent i)
        | Some o =>
            if negb (name_eqb (rr_owner r) o) || negb (rr_class r =? di_class i)
            then mk_dinfo (di_owner i) (di_class i) (di_ttl i) (di_hosts i) (di_has_soa i) true
            else mk_dinfo (di_owner i) (di_class i) (if rr_ttl r <? di_ttl i then rr_ttl r else di_ttl i)
                          (add_name target (di_hosts i)) (di_has_soa i) (di_incoherent i)
        end
    | _ => i
    end
  else i.

Definition extract_info (ns : list rr) : dinfo := fold_left info_step ns dinfo0.

(* progressingReferral(referral, authZone, qname) *)
Definition progressing_referral (referral auth qname : name) : bool :=
  if negb (is_sub auth referral) then false
  else if name_eqb referral auth then false
  else is_sub referral qname.

(* validReferral(info, authZone, q) *)
Definition valid_referral (i : dinfo) (auth : name) (q : question) : bool :=
  match di_owner i with
  | None => false
  | Some o => negb (di_incoherent i) && (di_class i =? q_class q) && progressing_referral o auth (q_name q)
  end.

(* filterAuthorityRecords *)
Definition filter_authority (ns : list rr) : list rr :=
  filter (fun r => (rr_type r =? T_SOA) || (rr_type r =? T_NSEC) || (rr_type r =? T_NSEC3) || (rr_type r =? T_RRSIG)) ns.

(* ------------------------------------------------------------------ *)
(* glue: checkGlueRR                                                    *)

(* the bailiwick test: dnsname.CompareSuffix(name, qname[i:]) < level  => skip *)
Definition glue_in_level (level : nat) (qname owner : name) : bool :=
  negb (Nat.ltb (compare_suffix owner (firstn level qname)) level).

Record glue_state := mk_gs {
  gs_servers : list ipaddr;               (* authservers.List in order *)
  gs_found : list name;                   (* foundv4 / foundv6 *)
  gs_addrs : list (name * list ipaddr) }. (* nsipv4 / nsipv6 *)

Fixpoint assoc_add (n : name) (a : ipaddr) (l : list (name * list ipaddr)) : list (name * list ipaddr) :=
  match l with
  | [] => [(canon n, [a])]
  | (m, as_) :: r => if name_eqb n m then (m, if mem_ip a as_ then as_ else as_ ++ [a]) :: r
                     else (m, as_) :: assoc_add n a r
  end.

Definition glue_step (local : list ipaddr) (level : nat) (qname : name) (hosts : list name) (ty : N)
           (st : list ipaddr * list name * list (name * list ipaddr)) (r : rr)
  : list ipaddr * list name * list (name * list ipaddr) :=
  let '(servers, found, addrs) := st in
  if negb (rr_type r =? ty) then st else
  match rr_data r with
  | RdA ip =>
      if negb (glue_in_level level qname (rr_owner r)) then st
      else if negb (mem_name (rr_owner r) hosts) then st
      else match usable_addr local ip with
           | None => st
           | Some a => (if mem_ip a servers then servers else servers ++ [a],
                        add_name (rr_owner r) found,
                        assoc_add (rr_owner r) a addrs)
           end
  | _ => st
  end.

Record glue_result := mk_gr {
  gr_servers : list ipaddr;
  gr_found4 : list name; gr_found6 : list name;
  gr_addrs4 : list (name * list ipaddr); gr_addrs6 : list (name * list ipaddr) }.

(* checkGlueRR(resp, hosts, level): the AAAA pass (only with IPv6Access) then the A pass;
   the server list and its seen-set are shared by both passes *)
Definition check_glue (ipv6 : bool) (local : list ipaddr) (level : nat) (qname : name) (hosts : list name) (extra : list rr) : glue_result :=
  let '(s6, f6, a6) := if ipv6 then fold_left (glue_step local level qname hosts T_AAAA) extra ([], [], []) else ([], [], []) in
  let '(s4, f4, a4) := fold_left (glue_step local level qname hosts T_A) extra (s6, [], []) in
  mk_gr s4 f4 f6 a4 a6.

(* ------------------------------------------------------------------ *)
(* the NS-address cache (Resolver.glueV4) as state, across referrals       *)

(* searchAddrs on the answer of an address lookup for an NS host (A question) *)
Definition search_addrs (local : list ipaddr) (answer : list rr) : list ipaddr :=
  flat_map (fun r =>
    match rr_data r with
    | RdA ip =>
        if rr_type r =? T_A then match usable_addr local ip with Some (IP4 v) => [IP4 v] | _ => [] end
        else if rr_type r =? T_AAAA then match usable_addr local ip with Some a => [a] | None => [] end
        else []
    | _ => []
    end) answer.

Definition glue_cache := list (name * list ipaddr).
Fixpoint glue_lookup (n : name) (c : glue_cache) : option (list ipaddr) :=
  match c with
  | [] => None
  | (m, v) :: r => if name_eqb n m then Some v else glue_lookup n r
  end.
(* glueV4.Add(key(name), addrs): one entry per (case-folded) name, the last write wins *)
Fixpoint glue_put (n : name) (addrs : list ipaddr) (c : glue_cache) : glue_cache :=
  match c with
  | [] => [(canon n, addrs)]
  | (m, v) :: r => if name_eqb n m then (m, addrs) :: r else (m, v) :: glue_put n addrs r
  end.

Fixpoint answers_get (h : name) (answers : list (name * list rr)) : option (list rr) :=
  match answers with
  | [] => None
  | (n, a) :: r => if name_eqb n h then Some a else answers_get h r
  end.

(* one referral as processDelegation handles it on the uncached path:
   checkGlueRR(resp, hosts, level) files the accepted glue, then lookupV4Nss resolves every NS
   host that got no glue - from the cache if the host is on file, otherwise by an address lookup
   ([answers]: what those lookups return; a host missing there fails to resolve) *)
Inductive glue_event :=
| GlueReferral (level : nat) (qname : name) (hosts : list name) (extra : list rr) (answers : list (name * list rr)).

Definition lookup_step (local : list ipaddr) (answers : list (name * list rr)) (c : glue_cache) (h : name) : glue_cache :=
  match glue_lookup h c with
  | Some v => glue_put h v c
  | None =>
      match answers_get h answers with
      | Some ans => match search_addrs local ans with [] => c | a => glue_put h a c end
      | None => c
      end
  end.

Definition glue_apply (local : list ipaddr) (c : glue_cache) (e : glue_event) : glue_cache :=
  match e with
  | GlueReferral level qname hosts extra answers =>
      let g := check_glue false local level qname hosts extra in
      let c1 := fold_left (fun c p => glue_put (fst p) (snd p) c) (gr_addrs4 g) c in
      fold_left (fun c h => if mem_name h (gr_found4 g) then c else lookup_step local answers c h) hosts c1
  end.

Definition glue_history (local : list ipaddr) (evs : list glue_event) : glue_cache :=
  fold_left (glue_apply local) evs [].

(* ------------------------------------------------------------------ *)
(* cache: filterCacheableAnswer                                         *)

Definition keep_cacheable (qn : name) (r : rr) : bool :=
  (rr_type r =? T_DNAME) || name_eqb qn (rr_owner r) ||
  (match rr_data r with RdSig c => (rr_type r =? T_RRSIG) && (c =? T_DNAME) | _ => false end).

Definition cacheable_answer (qn : name) (answer : list rr) : list rr := filter (keep_cacheable qn) answer.

(* ------------------------------------------------------------------ *)
(* what reaches the client from one upstream message (final hop, the    *)
(* full question was asked, no minimisation step pending)               *)

Definition RC_OK : N := 0. Definition RC_SERVFAIL : N := 2. Definition RC_NXDOMAIN : N := 3.
Definition RC_REFUSED : N := 5. Definition RC_NOTZONE : N := 10.

Record umsg := mk_umsg { u_rcode : N; u_answer : list rr; u_ns : list rr; u_extra : list rr }.

Inductive disposition :=
| DAnswer (answer : list rr)               (* Resolver.answer is entered with this Answer section; clearAdditional drops Ns and Extra *)
| DNegative (ns extra : list rr)           (* Resolver.authority: message as sent (Ns filtered when an NS set rode along) *)
| DReferral (i : dinfo)                    (* processDelegation after validReferral *)
| DRejected                                (* invalid referral: errParentDetection -> SERVFAIL *)
| DEmpty.                                  (* nothing usable *)

(* Resolver.resolve (minimized = false) followed by processAuthoritySection and DNSHandler.handle *)
Definition dispose (auth : name) (q : question) (m : umsg) : disposition :=
  match u_answer m, u_ns m with
  | [], [] => if u_rcode m =? RC_OK then DEmpty else DNegative [] (u_extra m)
  | _ :: _, _ =>
      if (u_rcode m =? RC_REFUSED) || (u_rcode m =? RC_NOTZONE) then DEmpty (* handler turns these into a bare SERVFAIL *)
      else DAnswer (u_answer m)
  | [], _ :: _ =>
      let i := extract_info (u_ns m) in
      match di_hosts i with
      | [] => DNegative (u_ns m) (u_extra m)
      | _ => if di_has_soa i then DNegative (filter_authority (u_ns m)) (u_extra m)
             else if valid_referral i auth q then DReferral i else DRejected
      end
  end.

(* Cache.additionalAnswer, the scan before any sub-query: the answer is complete (no chase)
   when a record of the asked type is met; a CNAME to the question's own name before that
   - compared without regard to ASCII letter case since /repo a4faf69: strings.EqualFold(cr.Target, q.Name);
   Go's EqualFold is Unicode simple folding, which coincides with [name_eqb]'s ASCII fold on the ASCII names
   the drivers generate - is answered SERVFAIL; otherwise the last CNAME's target is re-resolved *)
Inductive scan := ScanComplete | ScanLoop | ScanChase (target : name) | ScanNothing.
Fixpoint bytes_list_eqb (a b : name) : bool :=
  match a, b with
  | [], [] => true
  | x :: xs, y :: ys => bytes_eqb x y && bytes_list_eqb xs ys
  | _, _ => false
  end.
Fixpoint scan_answer (q : question) (answer : list rr) (pending : option name) : scan :=
  match answer with
  | [] => match pending with Some t => ScanChase t | None => ScanNothing end
  | r :: rest =>
      if rr_type r =? q_type q then ScanComplete
      else if rr_type r =? T_CNAME then
        match rr_data r with
        | RdName t => if name_eqb t (q_name q) then ScanLoop else scan_answer q rest (Some t)
        | _ => scan_answer q rest pending
        end
      else scan_answer q rest pending
  end.

Definition chase_applies (q : question) (rcode : N) : bool :=
  negb ((q_type q =? T_CNAME) || (q_type q =? T_DS)) && negb (rcode =? RC_NXDOMAIN).

(* ------------------------------------------------------------------ *)
(* Cache.additionalAnswer in full: the alias chase.  Every sub-query goes through
   Cache.internalExchange (the whole pipeline again); what it returns is the [oracle]
   (the rest of the namespace as the resolver sees it), keyed by the exact target string. *)
Inductive subresp :=
| SubErr                                                   (* error / no response *)
| SubResp (rcode : N) (answer : list rr) (has_ns : bool).   (* a response; has_ns: its Authority is non-empty *)
Definition oracle := list (name * subresp).
Fixpoint oracle_get (t : name) (o : oracle) : subresp :=
  match o with
  | [] => SubErr
  | (n, r) :: rest => if bytes_list_eqb n t then r else oracle_get t rest
  end.
Definition oracle_records (o : oracle) : list rr :=
  flat_map (fun p => match snd p with SubResp _ a _ => a | SubErr => [] end) o.
Fixpoint mem_exact (t : name) (l : list name) : bool :=
  match l with [] => false | x :: r => bytes_list_eqb x t || mem_exact t r end.

(* searchAdditionalAnswer: the target of the LAST alias in the sub-response *)
Fixpoint last_cname_target (answer : list rr) (acc : option name) : option name :=
  match answer with
  | [] => acc
  | r :: rest =>
      if rr_type r =? T_CNAME
      then match rr_data r with RdName t => last_cname_target rest (Some t) | _ => last_cname_target rest acc end
      else last_cname_target rest acc
  end.
Definition has_type (ty : N) (answer : list rr) : bool := existsb (fun r => rr_type r =? ty) answer.

Inductive chased :=
| ChServfail                                  (* dnsutil.SetRcode(msg, SERVFAIL): a bare reply *)
| ChMsg (rcode : N) (answer : list rr).

(* the `lookup:` loop; [fuel] is cnameDepth (10), [targets] the names already asked *)
Fixpoint chase_loop (fuel : nat) (q : question) (o : oracle) (rcode : N) (answer : list rr)
         (target : name) (targets : list name) : chased :=
  match fuel with
  | O => ChMsg rcode answer
  | S f =>
      if mem_exact target targets then ChServfail else
      match oracle_get target o with
      | SubErr => ChMsg rcode answer
      | SubResp rc ans ns =>
          let merged := negb (match ans with [] => true | _ => false end) || ns in
          let answer' := if merged then answer ++ ans else answer in
          if rc =? RC_NXDOMAIN then ChMsg RC_NXDOMAIN answer'
          else if negb merged then ChMsg rcode answer'
          else match last_cname_target ans None with
               | None => ChMsg rcode answer'
               | Some t' =>
                   if name_eqb t' (q_name q) then ChServfail
                   else if Nat.ltb 0 f && negb (has_type (q_type q) ans)
                        then chase_loop f q o rcode answer' t' (targets ++ [target])
                        else ChMsg rcode answer'
               end
      end
  end.

Definition additional_answer (q : question) (rcode : N) (answer : list rr) (o : oracle) : chased :=
  if negb (chase_applies q rcode) then ChMsg rcode answer else
  match scan_answer q answer None with
  | ScanComplete | ScanNothing => ChMsg rcode answer
  | ScanLoop => ChServfail
  | ScanChase t => chase_loop 10 q o rcode answer t []
  end.

(* Resolver.answer begins with resp.Answer = dnsutil.FilterRRsToZone(resp.Answer, zone): records
   owned outside the zone whose servers answered are dropped before anything else looks at them *)
Definition in_zone_answer (auth : name) (a : list rr) : list rr := filter (fun r => is_sub auth (rr_owner r)) a.

Definition relay_rcode (m : umsg) : N :=
  if (u_rcode m =? RC_SERVFAIL) || (u_rcode m =? RC_NXDOMAIN) then RC_OK else u_rcode m.

(* Answer-section records of the upstream message that the client is handed for this question
   when no alias chase is started (exact), and an upper bound otherwise *)
Definition relayed_answer (auth : name) (q : question) (m : umsg) : list rr :=
  match dispose auth q m with
  | DAnswer a =>
      let a' := in_zone_answer auth a in
      if chase_applies q (relay_rcode m) then
        match scan_answer q a' None with
        | ScanLoop => []
        | _ => a'
        end
      else a'
  | _ => []
  end.
Definition relay_exact (auth : name) (q : question) (m : umsg) : bool :=
  match dispose auth q m with
  | DAnswer a =>
      if chase_applies q (relay_rcode m) then
        match scan_answer q (in_zone_answer auth a) None with ScanChase _ => false | _ => true end
      else true
  | _ => true
  end.

(* the reply the client gets for a positive final-hop answer: answer() filter, then the cache's chase *)
Definition client_reply (auth : name) (q : question) (m : umsg) (o : oracle) : option chased :=
  match dispose auth q m with
  | DAnswer a => Some (additional_answer q (relay_rcode m) (in_zone_answer auth a) o)
  | _ => None
  end.

(* what the answer cache keeps for the question: key = the question, records = cacheable_answer *)
Definition cached_for (q : question) (relayed : list rr) : list rr := cacheable_answer (q_name q) relayed.

(* glue and delegation effects of a referral accepted from [auth]'s servers at bookkeeping level [level] *)
Definition referral_glue (ipv6 : bool) (local : list ipaddr) (level : nat) (auth : name) (q : question) (m : umsg) : option (name * glue_result) :=
  match dispose auth q m with
  | DReferral i =>
      match di_owner i with
      | Some o => Some (o, check_glue ipv6 local level (q_name q) (di_hosts i) (u_extra m))
      | None => None
      end
  | _ => None
  end.

(* ------------------------------------------------------------------ *)
(* the level the glue test uses: how rs.level follows the descent       *)

Inductive dstep :=
| StepUncached (child : name)   (* processDelegation, delegation not cached: rs.level = CountLabel(child) *)
| StepCached (child : name)     (* resolveWithCachedNameservers: rs.level++, raised to CountLabel(child) *)
| StepMinimize.                 (* a minimised name produced no cut: rs.level++, same servers *)

Definition descent_step (st : name * nat) (s : dstep) : name * nat :=
  let '(zone, level) := st in
  match s with
  | StepUncached child => (child, length child)
  | StepCached child => (child, Nat.max (S level) (length child))   (* rs.level++; if rs.level < n { rs.level = n } *)
  | StepMinimize => (zone, S level)
  end.

(* searchCache seeds (zone, CompareSuffix(qname, zone)) = (zone, CountLabel zone) *)
Definition descent_start (zone : name) : name * nat := (zone, length zone).
Definition descent (zone : name) (steps : list dstep) : name * nat := fold_left descent_step steps (descent_start zone).

(* the code before commit 767eb6f: the cached descent only incremented the level, and the
   Answer section was relayed as sent (kept for the regression examples in Proofs_examples.v) *)
Definition descent_step_old (st : name * nat) (s : dstep) : name * nat :=
  let '(zone, level) := st in
  match s with
  | StepUncached child => (child, length child)
  | StepCached child => (child, S level)
  | StepMinimize => (zone, S level)
  end.

(* ------------------------------------------------------------------ *)
(* the two sites composed (transport guard x glue origin).  What Resolver.lookup hands to processDelegation
   is the message Conn.Exchange accepted; checkGlueRR takes the origin of its bailiwick test from THAT
   message's question section (resp.Question[0].Name), not from the request. *)
Record fmsg := mk_fmsg { f_wire : wmsg; f_body : umsg }.   (* one scripted reply: what Exchange looks at, and its sections *)

Definition exchange_then_glue (stream : bool) (id : N) (q : question) (replies : list fmsg)
           (ipv6 : bool) (local : list ipaddr) (level : nat) : option (nat * option glue_result) :=
  match exchange_accept stream id (Some q) (map (fun f => DgMsg (f_wire f)) replies) with
  | XAccept i =>
      match nth_error replies i with
      | Some f =>
          match w_qs (f_wire f) with
          | r :: _ => Some (i, Some (check_glue ipv6 local level (q_name r)
                                       (di_hosts (extract_info (u_ns (f_body f)))) (u_extra (f_body f))))
          | [] => Some (i, None)       (* resp.Question[0] on an empty section: shown unreachable *)
          end
      | None => None
      end
  | _ => None
  end.

(* ------------------------------------------------------------------ *)
(* the delegation cache (Resolver.delegations) as state, across any history of authority sections.

   Resolver.processAuthoritySection (minimized = false) -> processDelegation.  resolve() hands it EVERY reply
   whose Answer is empty and whose Authority is not - whatever the response code (an NXDOMAIN / SERVFAIL /
   REFUSED reply surfaced by pickFallbackResponse included), so [u_rcode] is not looked at anywhere below.

   An entry is what authority.Servers carries: the Zone label every bailiwick test for replies of those
   servers is made against (FilterRRsToZone in Resolver.answer, validReferral, checkHosts), the NS host names
   and the server addresses.  processDelegation sets Zone = the NS owner before anything is published;
   lookupV4Nss publishes the set found so far under the same key before each host it has to find an address for
   (the provisional entry nested lookups are routed through) - [dr_snaps] records those publications, each with
   a flag telling whether an address lookup went out next (the moment a driver can look at the entry). *)
Record deleg_entry := mk_de { de_zone : name; de_hosts : list name; de_servers : list ipaddr }.
Definition deleg_cache := list (name * deleg_entry).

Fixpoint deleg_get (k : name) (c : deleg_cache) : option deleg_entry :=
  match c with
  | [] => None
  | (m, e) :: r => if name_eqb k m then Some e else deleg_get k r
  end.
Fixpoint deleg_put (k : name) (e : deleg_entry) (c : deleg_cache) : deleg_cache :=
  match c with
  | [] => [(canon k, e)]
  | (m, v) :: r => if name_eqb k m then (m, e) :: r else (m, v) :: deleg_put k e r
  end.

Definition add_servers (addrs srv : list ipaddr) : list ipaddr :=
  fold_left (fun s a => if mem_ip a s then s else s ++ [a]) addrs srv.

(* the loop of lookupV4Nss over the hosts in sortHosts order ([order]: computed by the caller):
   state = NS-address cache, Hosts so far, List so far, provisional publications so far *)
Definition ns_state := (glue_cache * list name * list ipaddr * list (bool * deleg_entry))%type.
(* a publication: (did an address lookup go out after it, the entry as published) *)
Definition publish (owner : name) (hs : list name) (srv : list ipaddr) (asked : bool) (snaps : list (bool * deleg_entry)) :=
  match srv with [] => snaps | _ => snaps ++ [(asked, mk_de owner hs srv)] end.
Definition ns_lookup_step (local : list ipaddr) (owner : name) (found : list name) (answers : list (name * list rr))
           (st : ns_state) (h : name) : ns_state :=
  let '(gc, hs, srv, snaps) := st in
  let hs' := hs ++ [canon h] in
  if mem_name h found then (gc, hs', srv, snaps) else
  match glue_lookup h gc with
  | Some v => (gc, hs', add_servers v srv, publish owner hs' srv false snaps)   (* lookupNSAddrV4 answers from the NS-address cache *)
  | None =>
      let snaps' := publish owner hs' srv true snaps in
      match answers_get h answers with
      | Some ans =>
          match search_addrs local ans with
          | [] => (gc, hs', srv, snaps')
          | a => (glue_put h a gc, hs', add_servers a srv, snaps')
          end
      | None => (gc, hs', srv, snaps')
      end
  end.

(* ------------------------------------------------------------------ *)
(* qname-minimised hops.  Resolver.minimize(req, level, nomin): with minimisation on (qnameMinLevel > 0, not
   abandoned: nomin) and the level still below qnameMinLevel the servers are asked the last level+1 labels of the
   question name - same type and class - unless that is the whole name already (dns.PrevLabel(q.Name, level+1)
   reports the start, or cuts nothing off). *)
Definition minimize (qml : nat) (nomin : bool) (level : nat) (q : question) : option question :=
  if Nat.eqb qml 0 || nomin then None
  else if Nat.leb qml level then None
  else if Nat.ltb (S level) (length (q_name q)) then Some (mk_q (firstn (S level) (q_name q)) (q_type q) (q_class q))
  else None.

(* what Resolver.resolve and processAuthoritySection (minimized = true; validation off or CD set, so the RFC 8020
   short cut for a validated NXDOMAIN never fires) do with the reply to a minimised question:
     - any Answer section: the reply is dropped, rs.level++, the same servers are asked the next longer name;
     - nothing at all (whatever the response code): the same;
     - an Authority section holding a SOA or a CNAME: the same;
     - an Authority section without NS targets: Resolver.authority hands the message back as it is (Answer empty);
     - otherwise processDelegation - the same cache boundary as on a full question (validReferral is applied to the
       FULL question rs.req, the glue origin is the minimised name the accepted message echoes). *)
Inductive mdisposition :=
| MDRetry
| MDNegative (ns extra : list rr)
| MDDelegation.
Definition dispose_min (m : umsg) : mdisposition :=
  match u_answer m, u_ns m with
  | _ :: _, _ => MDRetry
  | [], [] => MDRetry
  | [], _ :: _ =>
      if existsb (fun r => (rr_type r =? T_SOA) || (rr_type r =? T_CNAME)) (u_ns m) then MDRetry
      else match di_hosts (extract_info (u_ns m)) with
           | [] => MDNegative (u_ns m) (u_extra m)
           | _ => MDDelegation
           end
  end.

Inductive deleg_outcome :=
| DoAuthority      (* no NS host or a SOA rode along: Resolver.authority, nothing reaches the delegation cache *)
| DoRejected       (* validReferral failed: errParentDetection *)
| DoParent         (* rs.level > CountLabel(owner): parent detection *)
| DoCached         (* the delegation is on file: resolveWithCachedNameservers, nothing is written *)
| DoNoServers      (* no address for any host: errNoReachableAuth *)
| DoStored         (* r.delegations.SetUntil(key, ..., authservers, ...) *)
| DoRetry.         (* minimised hop only: rs.level++, the same servers are asked again; nothing is kept *)

Record deleg_result := mk_dr { dr_outcome : deleg_outcome; dr_snaps : list (bool * deleg_entry); dr_final : option deleg_entry }.

(* [DelegMsg]: the reply to the full question (minimized = false).  [DelegMin]: the reply to the minimised question
   [minimize ... level q] - [q] is still the FULL question rs.req. *)
Inductive deleg_event :=
| DelegMsg (auth : name) (level : nat) (q : question) (m : umsg) (order : list name) (answers : list (name * list rr))
| DelegMin (auth : name) (level : nat) (q : question) (m : umsg) (order : list name) (answers : list (name * list rr)).

Definition ev_parts (e : deleg_event) : name * nat * question * umsg :=
  match e with
  | DelegMsg auth level q m _ _ => (auth, level, q, m)
  | DelegMin auth level q m _ _ => (auth, level, q, m)
  end.

Definition deleg_state := (glue_cache * deleg_cache)%type.

(* processAuthoritySection from extractDelegationInfo on, then processDelegation.  [origin]: resp.Question[0].Name,
   where checkGlueRR cuts its bailiwick zone from; [minimized]: with no reachable server a minimised hop that is
   still above the referral's owner goes on with the next longer name instead of failing *)
Definition deleg_core (local : list ipaddr) (st : deleg_state) (minimized : bool) (auth : name) (level : nat) (q : question)
           (origin : name) (m : umsg) (order : list name) (answers : list (name * list rr)) : deleg_state * deleg_result :=
  let '(gc, dc) := st in
      let i := extract_info (u_ns m) in
      match di_hosts i with
      | [] => (st, mk_dr DoAuthority [] None)
      | _ =>
        if di_has_soa i then (st, mk_dr DoAuthority [] None)
        else if negb (valid_referral i auth q) then (st, mk_dr DoRejected [] None)
        else match di_owner i with
             | None => (st, mk_dr DoRejected [] None)
             | Some o =>
                 if Nat.ltb (length o) level then (st, mk_dr DoParent [] None)
                 else match deleg_get o dc with
                      | Some _ => (st, mk_dr DoCached [] None)
                      | None =>
                          let g := check_glue false local level origin (di_hosts i) (u_extra m) in
                          let gc1 := fold_left (fun c p => glue_put (fst p) (snd p) c) (gr_addrs4 g) gc in
                          let '(gc2, hs, srv, snaps) :=
                            fold_left (ns_lookup_step local o (gr_found4 g) answers) (filter (fun h => mem_name h (di_hosts i)) order)
                                      (gc1, [], gr_servers g, []) in
                          (* a provisional publication stays on file when no final store follows; the final
                             store overwrites it under the same key *)
                          match srv with
                          | [] => ((gc2, dc), mk_dr (if minimized && Nat.ltb level (length o) then DoRetry else DoNoServers) snaps None)
                          | _ => let e := mk_de o hs srv in ((gc2, deleg_put o e dc), mk_dr DoStored snaps (Some e))
                          end
                      end
             end
      end.

Definition deleg_apply (local : list ipaddr) (st : deleg_state) (e : deleg_event) : deleg_state * deleg_result :=
  match e with
  | DelegMsg auth level q m order answers => deleg_core local st false auth level q (q_name q) m order answers
  | DelegMin auth level q m order answers =>
      match dispose_min m with
      | MDRetry => (st, mk_dr DoRetry [] None)
      | MDNegative _ _ => (st, mk_dr DoAuthority [] None)
      | MDDelegation => deleg_core local st true auth level q (firstn (S level) (q_name q)) m order answers
      end
  end.

Fixpoint deleg_history (local : list ipaddr) (st : deleg_state) (evs : list deleg_event) : deleg_state * list deleg_result :=
  match evs with
  | [] => (st, [])
  | e :: rest =>
      let '(st1, r) := deleg_apply local st e in
      let '(st2, rs) := deleg_history local st1 rest in
      (st2, r :: rs)
  end.

(* Resolver.searchCache(q, cd, origin): where a resolution starts.  The delegation cache is asked for the
   question name, then for each of its ancestors (a DS question starts one label up: the parent side answers);
   the first entry on file wins and seeds rs.level with the labels it shares with the origin; with no entry
   the root servers are used at level 0.  (The branch that drops an entry whose servers failed ten times
   - ErrorCount - restarts the same walk and is left out.) *)
Fixpoint search_walk (dc : deleg_cache) (n : name) (k : nat) : option (name * deleg_entry) :=
  match k with
  | O => None
  | S k' => match deleg_get (firstn k n) dc with
            | Some e => Some (firstn k n, e)
            | None => search_walk dc n k'
            end
  end.
Definition search_cache (dc : deleg_cache) (ds : bool) (qname : name) : option (name * deleg_entry) * nat :=
  let start := if ds then removelast qname else qname in
  match search_walk dc start (length start) with
  | Some (z, e) => (Some (z, e), compare_suffix qname z)
  | None => (None, 0%nat)
  end.

(* ------------------------------------------------------------------ *)
(* source text helper for the shape ties *)
Definition s2b (s : string) : list N := map (fun c => N_of_ascii c) (list_ascii_of_string s).
