(* C07 — translator tie for the zone filter.  Gen/C07.v holds [go_NameInZone] (+ [go_escapedDot]), translated
   by srcgen from internal/dnsutil.NameInZone - the test dnsutil.FilterRRsToZone applies to every record of the
   upstream Answer section at the top of Resolver.answer (clause "relayed to the client inside the answer").
   Names here are presentation-format octet strings, already lower-cased by dns.CanonicalName.
   [NameInZone_true_shape]: a name is accepted only if the zone is the root, the name is the zone, or the
   name ends in "." ++ zone (a plain strings.HasSuffix(name, zone) would not satisfy this: see the examples).
   [NameInZone_is_sub]: on canonical names whose labels hold neither a dot nor a backslash (so that the
   presentation format needs no escapes), written leaf first with a dot after every label, the translated
   function computes exactly the model's [is_sub] on label lists - the test [in_zone_answer], [relayed_answer]
   and the containment theorems are stated with.  Names with escapes are compared on generated inputs
   (escaped dots, label-boundary near misses, case mixes) by the unit driver's CaseZoneFilter cases through
   the real FilterRRsToZone. *)
From Coq Require Import String.
From Sdns Require Import Common.Base Common.GoList Gen.C07 C07.Model C07.Proofs_names C07.Proofs_fold.
Open Scope N_scope.

(* what an accepted (name, zone) pair looks like, as octet strings in presentation format *)
Lemma NameInZone_true_shape fuel nm zone :
  go_NameInZone fuel nm zone = Some true ->
  zone = [46] \/ zone = [] \/ nm = zone \/ exists pre, nm = pre ++ [46] ++ zone.
Proof.
  unfold go_NameInZone.
  destruct (go_list_eqb N.eqb zone [46]) eqn:E1; [intros _; left; now apply go_bytes_eqb_eq|].
  destruct (go_list_eqb N.eqb zone []) eqn:E2; [intros _; right; left; now apply go_bytes_eqb_eq|].
  cbn [orb].
  destruct (go_list_eqb N.eqb nm zone) eqn:E3; [intros _; right; right; left; now apply go_bytes_eqb_eq|].
  destruct (Z.leb (go_len nm) (go_len zone)) eqn:E4; [discriminate|].
  apply Z.leb_gt in E4. unfold go_len in *.
  set (cut := (Z.of_nat (length nm) - Z.of_nat (length zone))%Z).
  destruct (negb (go_idx 0 nm (cut - 1)%Z =? 46)) eqn:E5; [discriminate|].
  destruct (negb (go_list_eqb N.eqb (go_slice_from nm cut) zone)) eqn:E6; [discriminate|].
  cbn [orb]. intros _. right; right; right.
  apply negb_false_iff in E5, E6. apply N.eqb_eq in E5. apply go_bytes_eqb_eq in E6.
  unfold go_slice_from in E6.
  assert (Hc : (0 < Z.to_nat cut)%nat) by (unfold cut; lia).
  rewrite go_idx_nth in E5 by (unfold cut; lia).
  replace (Z.to_nat (cut - 1)) with (Z.to_nat cut - 1)%nat in E5 by lia.
  set (k := Z.to_nat cut) in *.
  assert (Hk : (k <= length nm)%nat) by (unfold k, cut; lia).
  exists (firstn (k - 1) nm).
  rewrite <- (firstn_skipn k nm) at 1. rewrite E6. rewrite app_assoc. f_equal.
  replace k with (S (k - 1)) at 1 by lia.
  rewrite (firstn_snoc 0 (k - 1) nm) by lia. now rewrite E5.
Qed.

(* ---- presentation format of names whose labels hold neither a dot nor a backslash ---- *)
Definition plain_label (l : label) : Prop := l <> [] /\ Forall (fun b => b <> 46 /\ b <> 92) l.
Definition plain (n : name) : Prop := Forall plain_label n.
(* labels leaf first, each followed by a dot *)
Definition pres_labels (ls : list label) : list N := concat (map (fun l => l ++ [46]) ls).
Definition pres (n : name) : list N := match n with [] => [46] | _ => pres_labels (rev n) end.

Lemma pres_labels_cons l ls : pres_labels (l :: ls) = l ++ 46 :: pres_labels ls.
Proof. unfold pres_labels. cbn [map concat]. now rewrite <- app_assoc. Qed.
Lemma pres_labels_app a b : pres_labels (a ++ b) = pres_labels a ++ pres_labels b.
Proof. unfold pres_labels. now rewrite map_app, concat_app. Qed.

(* the first dot of two equal strings sits at the same place *)
Lemma first_dot_split (l pre A B : list N) :
  Forall (fun b => b <> 46) l -> l ++ 46 :: A = pre ++ 46 :: B ->
  (pre = l /\ A = B) \/ (exists pre', pre = l ++ 46 :: pre' /\ A = pre' ++ 46 :: B) \/
  (exists l2, l = pre ++ 46 :: l2).
Proof.
  revert pre; induction l as [|c l IH]; intros pre Hl E.
  - destruct pre as [|x pre]; cbn in E.
    + injection E as E. left. split; [reflexivity|exact E].
    + injection E as -> E. right; left. exists pre. split; [reflexivity|exact E].
  - destruct pre as [|x pre]; cbn in E.
    + injection E as -> E. right; right. exists l. reflexivity.
    + injection E as -> E. inversion Hl as [|? ? Hc Hl']; subst.
      destruct (IH pre Hl' E) as [[-> ->]|[[pre' [-> ->]]|[l2 ->]]].
      * left. split; reflexivity.
      * right; left. exists pre'. split; reflexivity.
      * right; right. exists l2. reflexivity.
Qed.

Lemma plain_no_dot l : plain_label l -> Forall (fun b => b <> 46) l.
Proof. intros [_ H]. eapply Forall_impl; [|exact H]. cbn. tauto. Qed.

Lemma no_dot_absurd (pre l2 : list N) : Forall (fun b => b <> 46) (pre ++ 46 :: l2) -> False.
Proof. intros H. apply Forall_app in H as [_ H]. inversion H; subst. congruence. Qed.

Lemma pres_labels_inj ns : forall zs, Forall plain_label ns -> Forall plain_label zs ->
  pres_labels ns = pres_labels zs -> ns = zs.
Proof.
  induction ns as [|l ns IH]; intros [|m zs] Hn Hz E.
  - reflexivity.
  - rewrite pres_labels_cons in E. destruct m; discriminate.
  - rewrite pres_labels_cons in E. destruct l; discriminate.
  - rewrite !pres_labels_cons in E. inversion Hn; inversion Hz; subst.
    destruct (first_dot_split l m _ _ (plain_no_dot _ H1) E) as [[-> E']|[[pre' [-> _]]|[l2 ->]]].
    + f_equal. apply IH; assumption.
    + exfalso. eapply no_dot_absurd. apply plain_no_dot. eassumption.
    + exfalso. eapply no_dot_absurd. apply plain_no_dot. eassumption.
Qed.

(* a suffix that starts right behind a dot starts at a label boundary *)
Lemma suffix_aligned ns : forall pre zs, Forall plain_label ns -> Forall plain_label zs ->
  pres_labels ns = pre ++ 46 :: pres_labels zs -> exists t, ns = t ++ zs.
Proof.
  induction ns as [|l ns IH]; intros pre zs Hn Hz E.
  - destruct pre; discriminate.
  - rewrite pres_labels_cons in E. inversion Hn; subst.
    destruct (first_dot_split l pre _ _ (plain_no_dot _ H1) E) as [[-> E']|[[pre' [-> E']]|[l2 ->]]].
    + exists [l]. cbn. f_equal. apply pres_labels_inj; assumption.
    + destruct (IH pre' zs H2 Hz E') as [t ->]. exists (l :: t). reflexivity.
    + exfalso. eapply no_dot_absurd. apply plain_no_dot. eassumption.
Qed.

Lemma pres_labels_no_backslash ns : Forall plain_label ns -> Forall (fun b => b <> 92) (pres_labels ns).
Proof.
  induction ns as [|l ns IH]; intros H; [constructor|]. inversion H as [|? ? [_ Hl] H']; subst.
  rewrite pres_labels_cons. apply Forall_app. split.
  - eapply Forall_impl; [|exact Hl]. cbn. tauto.
  - constructor; [lia|]. now apply IH.
Qed.

Lemma escapedDot_no_backslash fuel nm i :
  (0 < fuel)%nat -> Forall (fun b => b <> 92) nm -> go_escapedDot fuel nm i = Some false.
Proof.
  intros Hf Hn. unfold go_escapedDot. destruct fuel as [|f]; [lia|]. cbn [go_escapedDot_loop1].
  assert (E : (go_idx 0 nm (i - 1)%Z =? 92) = false).
  { apply N.eqb_neq. unfold go_idx. destruct (Z.ltb (i - 1) 0); [lia|].
    destruct (nth_in_or_default (Z.to_nat (i - 1)) nm 0) as [Hin| ->]; [|lia].
    rewrite Forall_forall in Hn. exact (Hn _ Hin). }
  rewrite E, andb_false_r. reflexivity.
Qed.

Lemma pres_labels_len ls : ls <> [] -> Forall plain_label ls -> (2 <= length (pres_labels ls))%nat.
Proof.
  destruct ls as [|l ls]; [congruence|]. intros _ H. inversion H as [|? ? [Hl _] _]; subst.
  rewrite pres_labels_cons, app_length. destruct l; [congruence|]. cbn. lia.
Qed.

Lemma pres_labels_last_dot t : t <> [] -> exists s, pres_labels t = s ++ [46].
Proof.
  intros H. destruct (exists_last H) as [t' [l ->]].
  rewrite pres_labels_app. unfold pres_labels at 2. cbn [map concat]. rewrite app_nil_r.
  exists (pres_labels t' ++ l). now rewrite app_assoc.
Qed.

Lemma go_list_eqb_refl (a : list N) : go_list_eqb N.eqb a a = true.
Proof. now apply go_bytes_eqb_eq. Qed.

Lemma NameInZone_complete fuel t zs :
  (0 < fuel)%nat -> Forall plain_label t -> Forall plain_label zs ->
  go_NameInZone fuel (pres_labels (t ++ zs)) (pres_labels zs) = Some true.
Proof.
  intros Hf Ht Hz. rewrite pres_labels_app.
  assert (Hnb : Forall (fun b => b <> 92) (pres_labels t ++ pres_labels zs))
    by (apply Forall_app; split; apply pres_labels_no_backslash; assumption).
  set (T := pres_labels t) in *. set (Z := pres_labels zs) in *.
  unfold go_NameInZone. rewrite (escapedDot_no_backslash fuel _ _ Hf Hnb).
  destruct (go_list_eqb N.eqb Z [46] || go_list_eqb N.eqb Z []); [reflexivity|].
  destruct (go_list_eqb N.eqb (T ++ Z) Z) eqn:E3; [reflexivity|].
  assert (HT : T <> []) by (intros ->; cbn in E3; rewrite go_list_eqb_refl in E3; discriminate).
  unfold go_len. rewrite app_length.
  destruct (Z.leb (Z.of_nat (length T + length Z)) (Z.of_nat (length Z))) eqn:E4.
  { apply Z.leb_le in E4. destruct T; [congruence|cbn in E4; lia]. }
  assert (Ht' : t <> []) by (intros ->; apply HT; reflexivity).
  destruct (pres_labels_last_dot t Ht') as [s Hs]. fold T in Hs.
  replace (Z.of_nat (length T + length Z) - Z.of_nat (length Z))%Z with (Z.of_nat (length T)) by lia.
  assert (Hlen : length T = S (length s)) by (rewrite Hs, app_length; cbn; lia).
  rewrite go_idx_nth by lia.
  replace (Z.to_nat (Z.of_nat (length T) - 1)) with (length s) by lia.
  rewrite Hs at 1. rewrite <- app_assoc. rewrite app_nth2 by lia. rewrite Nat.sub_diag. cbn [app nth].
  rewrite N.eqb_refl. cbn [negb orb].
  unfold go_slice_from. rewrite Nat2Z.id. rewrite skipn_app, skipn_all, Nat.sub_diag. cbn [skipn app].
  rewrite go_list_eqb_refl. reflexivity.
Qed.

Lemma NameInZone_labels fuel ns zs :
  (0 < fuel)%nat -> Forall plain_label ns -> Forall plain_label zs -> zs <> [] ->
  exists b, go_NameInZone fuel (pres_labels ns) (pres_labels zs) = Some b /\ (b = true <-> exists t, ns = t ++ zs).
Proof.
  intros Hf Hn Hz Hz0.
  assert (Hex : exists b, go_NameInZone fuel (pres_labels ns) (pres_labels zs) = Some b).
  { unfold go_NameInZone. rewrite (escapedDot_no_backslash fuel _ _ Hf (pres_labels_no_backslash _ Hn)).
    repeat match goal with |- context [if ?c then _ else _] => destruct c end; eauto. }
  destruct Hex as [b Hb]. exists b. split; [exact Hb|].
  pose proof (pres_labels_len zs Hz0 Hz) as Hlen.
  destruct b; split; intros H; try reflexivity.
  - destruct (NameInZone_true_shape _ _ _ Hb) as [E|[E|[E|[pre E]]]].
    + rewrite E in Hlen. cbn in Hlen. lia.
    + rewrite E in Hlen. cbn in Hlen. lia.
    + exists []. cbn. apply pres_labels_inj; assumption.
    + cbn [app] in E. eapply suffix_aligned; eassumption.
  - discriminate.
  - destruct H as [t ->]. apply Forall_app in Hn as [Ht _].
    rewrite (NameInZone_complete fuel t zs Hf Ht Hz) in Hb. discriminate.
Qed.

Lemma plain_rev n : plain n -> Forall plain_label (rev n).
Proof. apply Forall_rev. Qed.

Lemma pres_nonempty n : n <> [] -> pres n = pres_labels (rev n).
Proof. destruct n; [congruence|reflexivity]. Qed.

(* THE TIE: on canonical names with plain labels the translated NameInZone is the model's is_sub *)
Lemma NameInZone_is_sub fuel z n :
  (0 < fuel)%nat -> plain (canon z) -> plain (canon n) ->
  go_NameInZone fuel (pres (canon n)) (pres (canon z)) = Some (is_sub z n).
Proof.
  intros Hf Hz Hn.
  destruct z as [|zl z].
  - cbn. reflexivity.
  - set (cz := canon (zl :: z)) in *. assert (Hcz : cz <> []) by (unfold cz; rewrite canon_cons; discriminate).
    rewrite (pres_nonempty cz Hcz).
    assert (Hrz : rev cz <> []) by (intros E; apply Hcz; rewrite <- (rev_involutive cz), E; reflexivity).
    destruct n as [|nl n].
    + (* the root is not inside a proper zone *)
      pose proof (pres_labels_len (rev cz) Hrz (plain_rev _ Hz)) as Hlen.
      cbn [canon map pres]. unfold go_NameInZone.
      destruct (go_list_eqb N.eqb (pres_labels (rev cz)) [46]) eqn:E1.
      { apply go_bytes_eqb_eq in E1. rewrite E1 in Hlen. cbn in Hlen. lia. }
      destruct (go_list_eqb N.eqb (pres_labels (rev cz)) []) eqn:E2.
      { apply go_bytes_eqb_eq in E2. rewrite E2 in Hlen. cbn in Hlen. lia. }
      cbn [orb].
      destruct (go_list_eqb N.eqb [46] (pres_labels (rev cz))) eqn:E3.
      { apply go_bytes_eqb_eq in E3. rewrite <- E3 in Hlen. cbn in Hlen. lia. }
      unfold go_len. cbn [length].
      destruct (Z.leb (Z.of_nat 1) (Z.of_nat (length (pres_labels (rev cz))))) eqn:E4; [reflexivity|].
      apply Z.leb_gt in E4. lia.
    + set (cn := canon (nl :: n)) in *. assert (Hcn : cn <> []) by (unfold cn; rewrite canon_cons; discriminate).
      rewrite (pres_nonempty cn Hcn).
      destruct (NameInZone_labels fuel (rev cn) (rev cz) Hf (plain_rev _ Hn) (plain_rev _ Hz) Hrz) as [b [Hb Hiff]].
      rewrite Hb. f_equal.
      assert (Hs : is_sub (zl :: z) (nl :: n) = true <-> exists t, rev cn = t ++ rev cz).
      { rewrite is_sub_spec. fold cz cn. split.
        - intros [rest E]. exists (rev rest). rewrite E, rev_app_distr. reflexivity.
        - intros [t E]. exists (rev t). rewrite <- (rev_involutive cn), E, rev_app_distr, rev_involutive. reflexivity. }
      destruct b, (is_sub (zl :: z) (nl :: n)); try reflexivity.
      * symmetry. apply Hs, Hiff. reflexivity.
      * apply Hiff, Hs. reflexivity.
Qed.

Local Open Scope string_scope.
(* boundary behaviour of the translated function, re-checked whenever the Go source changes *)
Example niz_inside : go_NameInZone 64 (s2b "www.example.com.") (s2b "example.com.") = Some true.
Proof. vm_compute. reflexivity. Qed.
Example niz_apex : go_NameInZone 64 (s2b "example.com.") (s2b "example.com.") = Some true.
Proof. vm_compute. reflexivity. Qed.
Example niz_root : go_NameInZone 64 (s2b "www.victim.l2.") (s2b ".") = Some true.
Proof. vm_compute. reflexivity. Qed.
Example niz_label_boundary : go_NameInZone 64 (s2b "notexample.com.") (s2b "example.com.") = Some false.
Proof. vm_compute. reflexivity. Qed.
Example niz_parent : go_NameInZone 64 (s2b "com.") (s2b "example.com.") = Some false.
Proof. vm_compute. reflexivity. Qed.
Example niz_sibling : go_NameInZone 64 (s2b "www.victim.l2.") (s2b "evil.l1.") = Some false.
Proof. vm_compute. reflexivity. Qed.
(* "foo\.example.com." is the two labels "foo.example" and "com": not below example.com. *)
Example niz_escaped_dot : go_NameInZone 64 (s2b "foo\.example.com.") (s2b "example.com.") = Some false.
Proof. vm_compute. reflexivity. Qed.
(* ... while "foo\\.example.com." ends its first label with an escaped backslash: a real separator follows *)
Example niz_escaped_backslash : go_NameInZone 64 (s2b "foo\\.example.com.") (s2b "example.com.") = Some true.
Proof. vm_compute. reflexivity. Qed.
(* the fuel suffices once it exceeds the number of backslashes in front of the cut *)
Example niz_fuel_short : go_NameInZone 1 (s2b "foo\\.example.com.") (s2b "example.com.") = None.
Proof. vm_compute. reflexivity. Qed.
