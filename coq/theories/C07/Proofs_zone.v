(* C07 — translator tie for the zone filter.  Gen/C07.v holds [go_NameInZone] (+ [go_escapedDot]), translated
   by srcgen from internal/dnsutil.NameInZone - the test dnsutil.FilterRRsToZone applies to every record of the
   upstream Answer section at the top of Resolver.answer (clause "relayed to the client inside the answer").
   Names here are presentation-format octet strings, already lower-cased by dns.CanonicalName.
   [NameInZone_true_shape]: a name is accepted only if the zone is the root, the name is the zone, or the
   name ends in "." ++ zone (a plain strings.HasSuffix(name, zone) would not satisfy this: see the examples).
   The label-list model of the same test is [is_sub]; the two are compared on generated names (label-boundary
   near misses, escaped dots, case mixes) by the unit driver's CaseZoneFilter cases through the real
   FilterRRsToZone. *)
From Coq Require Import String.
From Sdns Require Import Common.Base Common.GoList Gen.C07 C07.Model C07.Proofs_fold.
Open Scope N_scope.

(* what an accepted (name, zone) pair looks like, as octet strings in presentation format *)
Lemma NameInZone_true_shape fuel nm zone :
  go_NameInZone fuel nm zone = Some true ->
  zone = [46] \/ zone = [] \/ nm = zone \/ exists pre, nm = pre ++ [46] ++ zone.
Proof.
  unfold go_NameInZone.
  destruct (go_list_eqb N.eqb zone [46]) eqn:E1; [intros _; left; now apply go_bytes_eqb_eq|].
  destruct (go_list_eqb N.eqb zone []) eqn:E2; [intros _; right; left; now apply go_bytes_eqb_eq|].
  cbn [orb].
  destruct (go_list_eqb N.eqb nm zone) eqn:E3; [intros _; right; right; left; now apply go_bytes_eqb_eq|].
  destruct (Z.leb (go_len nm) (go_len zone)) eqn:E4; [discriminate|].
  apply Z.leb_gt in E4. unfold go_len in *.
  set (cut := (Z.of_nat (length nm) - Z.of_nat (length zone))%Z).
  destruct (negb (go_idx 0 nm (cut - 1)%Z =? 46)) eqn:E5; [discriminate|].
  destruct (negb (go_list_eqb N.eqb (go_slice_from nm cut) zone)) eqn:E6; [discriminate|].
  cbn [orb]. intros _. right; right; right.
  apply negb_false_iff in E5, E6. apply N.eqb_eq in E5. apply go_bytes_eqb_eq in E6.
  unfold go_slice_from in E6.
  assert (Hc : (0 < Z.to_nat cut)%nat) by (unfold cut; lia).
  rewrite go_idx_nth in E5 by (unfold cut; lia).
  replace (Z.to_nat (cut - 1)) with (Z.to_nat cut - 1)%nat in E5 by lia.
  set (k := Z.to_nat cut) in *.
  assert (Hk : (k <= length nm)%nat) by (unfold k, cut; lia).
  exists (firstn (k - 1) nm).
  rewrite <- (firstn_skipn k nm) at 1. rewrite E6. rewrite app_assoc. f_equal.
  replace k with (S (k - 1)) at 1 by lia.
  rewrite (firstn_snoc 0 (k - 1) nm) by lia. now rewrite E5.
Qed.

Local Open Scope string_scope.
(* boundary behaviour of the translated function, re-checked whenever the Go source changes *)
Example niz_inside : go_NameInZone 64 (s2b "www.example.com.") (s2b "example.com.") = Some true.
Proof. vm_compute. reflexivity. Qed.
Example niz_apex : go_NameInZone 64 (s2b "example.com.") (s2b "example.com.") = Some true.
Proof. vm_compute. reflexivity. Qed.
Example niz_root : go_NameInZone 64 (s2b "www.victim.l2.") (s2b ".") = Some true.
Proof. vm_compute. reflexivity. Qed.
Example niz_label_boundary : go_NameInZone 64 (s2b "notexample.com.") (s2b "example.com.") = Some false.
Proof. vm_compute. reflexivity. Qed.
Example niz_parent : go_NameInZone 64 (s2b "com.") (s2b "example.com.") = Some false.
Proof. vm_compute. reflexivity. Qed.
Example niz_sibling : go_NameInZone 64 (s2b "www.victim.l2.") (s2b "evil.l1.") = Some false.
Proof. vm_compute. reflexivity. Qed.
(* "foo\.example.com." is the two labels "foo.example" and "com": not below example.com. *)
Example niz_escaped_dot : go_NameInZone 64 (s2b "foo\.example.com.") (s2b "example.com.") = Some false.
Proof. vm_compute. reflexivity. Qed.
(* ... while "foo\\.example.com." ends its first label with an escaped backslash: a real separator follows *)
Example niz_escaped_backslash : go_NameInZone 64 (s2b "foo\\.example.com.") (s2b "example.com.") = Some true.
Proof. vm_compute. reflexivity. Qed.
(* the fuel suffices once it exceeds the number of backslashes in front of the cut *)
Example niz_fuel_short : go_NameInZone 1 (s2b "foo\\.example.com.") (s2b "example.com.") = None.
Proof. vm_compute. reflexivity. Qed.
