(* C07 — the alias chase: whatever Cache.additionalAnswer adds to an answer was returned by a
   sub-resolution; what the client gets for a positive answer is made of in-zone records of the
   upstream message followed by re-resolved records. *)
From Sdns Require Import Common.Base Gen.C07 C07.Model C07.Proofs_names C07.Proofs_glue C07.Proofs_referral C07.Proofs_contain.
Open Scope N_scope.

Lemma oracle_get_records t o rc a ns : oracle_get t o = SubResp rc a ns -> incl a (oracle_records o).
Proof.
  induction o as [|[n r] rest IH]; cbn; [discriminate|].
  destruct (bytes_list_eqb n t).
  - intros ->. cbn. apply incl_appl, incl_refl.
  - intros H. unfold oracle_records in *. cbn. apply incl_appr, IH, H.
Qed.

Definition from_oracle (o : oracle) (extra : list rr) : Prop := incl extra (oracle_records o).

Lemma chase_loop_unfold f q o rcode answer target targets :
  chase_loop (S f) q o rcode answer target targets =
  if mem_exact target targets then ChServfail else
  match oracle_get target o with
  | SubErr => ChMsg rcode answer
  | SubResp rc ans ns =>
      let merged := negb (match ans with [] => true | _ => false end) || ns in
      let answer' := if merged then answer ++ ans else answer in
      if rc =? RC_NXDOMAIN then ChMsg RC_NXDOMAIN answer'
      else if negb merged then ChMsg rcode answer'
      else match last_cname_target ans None with
           | None => ChMsg rcode answer'
           | Some t' =>
               if name_eqb t' (q_name q) then ChServfail
               else if Nat.ltb 0 f && negb (has_type (q_type q) ans)
                    then chase_loop f q o rcode answer' t' (targets ++ [target])
                    else ChMsg rcode answer'
           end
  end.
Proof. reflexivity. Qed.

Lemma chase_loop_sound fuel : forall q o rcode answer target targets rc' ans',
  chase_loop fuel q o rcode answer target targets = ChMsg rc' ans' ->
  exists extra, ans' = answer ++ extra /\ from_oracle o extra.
Proof.
  induction fuel as [|f IH]; intros q o rcode answer target targets rc' ans' H.
  - cbn in H. injection H as _ <-. exists []. rewrite app_nil_r. split; [reflexivity | intros x []].
  - rewrite chase_loop_unfold in H.
    destruct (mem_exact target targets); [discriminate|].
    destruct (oracle_get target o) as [|rc a ns] eqn:G.
    { injection H as _ <-. exists []. rewrite app_nil_r. split; [reflexivity | intros x []]. }
    pose proof (oracle_get_records _ _ _ _ _ G) as Ha.
    cbv zeta in H.
    remember (negb (match a with [] => true | _ => false end) || ns) as merged.
    assert (Hm : exists extra, (if merged then answer ++ a else answer) = answer ++ extra /\ from_oracle o extra).
    { destruct merged; [exists a; split; [reflexivity | exact Ha] | exists []; rewrite app_nil_r; split; [reflexivity | intros x []]]. }
    destruct (rc =? RC_NXDOMAIN); [injection H as _ <-; exact Hm|].
    destruct (negb merged); [injection H as _ <-; exact Hm|].
    destruct (last_cname_target a None) as [t'|]; [|injection H as _ <-; exact Hm].
    destruct (name_eqb t' (q_name q)); [discriminate|].
    destruct (Nat.ltb 0 f && negb (has_type (q_type q) a)); [|injection H as _ <-; exact Hm].
    apply IH in H. destruct H as [e2 [-> He2]]. destruct Hm as [e1 [-> He1]].
    exists (e1 ++ e2). rewrite app_assoc. split; [reflexivity|]. apply incl_app; assumption.
Qed.

(* the chase only appends, and only what a sub-resolution returned *)
Lemma additional_answer_sound q rcode answer o rc' ans' :
  additional_answer q rcode answer o = ChMsg rc' ans' ->
  exists extra, ans' = answer ++ extra /\ from_oracle o extra.
Proof.
  unfold additional_answer.
  assert (H0 : ChMsg rcode answer = ChMsg rc' ans' -> exists extra, ans' = answer ++ extra /\ from_oracle o extra).
  { intros H. injection H as _ <-. exists []. rewrite app_nil_r. split; [reflexivity | intros x []]. }
  destruct (negb (chase_applies q rcode)); [exact H0|].
  destruct (scan_answer q answer None); try exact H0; [discriminate|].
  apply chase_loop_sound.
Qed.

(* every record of the client's reply to a positive answer is an Answer-section record of the
   upstream message owned inside the answering zone, or was obtained by re-resolution *)
Lemma client_reply_sources auth q m o rc ans :
  client_reply auth q m o = Some (ChMsg rc ans) ->
  forall r, In r ans -> (In r (u_answer m) /\ is_sub auth (rr_owner r) = true) \/ In r (oracle_records o).
Proof.
  unfold client_reply. destruct (dispose auth q m) eqn:D; try discriminate.
  apply dispose_answer in D. destruct D as [-> _]. intros H. injection H as H.
  apply additional_answer_sound in H. destruct H as [extra [-> He]].
  intros r Hin. apply in_app_or in Hin. destruct Hin as [Hin|Hin]; [left|right; apply He; exact Hin].
  unfold in_zone_answer in Hin. apply filter_In in Hin. exact Hin.
Qed.

(* hence: a record the server sent for a name outside its zone is in the reply only if the
   re-resolution of an alias target - through that name's own delegation path - returned it *)
Lemma client_reply_contained auth q m o rc ans r :
  client_reply auth q m o = Some (ChMsg rc ans) ->
  is_sub auth (rr_owner r) = false -> In r ans -> In r (oracle_records o).
Proof.
  intros H Hr Hin. destruct (client_reply_sources _ _ _ _ _ _ H r Hin) as [[_ Hs]|Ho]; [congruence | exact Ho].
Qed.

(* a chase that is not needed does not happen: the reply is the filtered answer *)
Lemma client_reply_without_chase auth q m o :
  relay_exact auth q m = true ->
  match client_reply auth q m o with
  | Some (ChMsg _ ans) => ans = relayed_answer auth q m
  | Some ChServfail => relayed_answer auth q m = []
  | None => relayed_answer auth q m = []
  end.
Proof.
  unfold relay_exact, client_reply, relayed_answer, additional_answer.
  destruct (dispose auth q m); try reflexivity.
  destruct (chase_applies q (relay_rcode m)); cbn; [|reflexivity].
  destruct (scan_answer q (in_zone_answer auth answer) None); intros H; try reflexivity; discriminate.
Qed.
