(* C07 — source ties.  Gen/C07.v holds, re-read from /repo on every run, the
   statements of the small helpers the model was written from (comment lines
   and blank lines dropped).  Each lemma below fixes the text the model
   corresponds to; when the Go code is edited the lemma stops compiling and
   the check reports the tie as broken and searches for a failing input. *)
From Coq Require Import String.
From Sdns Require Import Common.Base Gen.C07 C07.Model.
Open Scope string_scope.

(* internal/dnsclient: const headerSize *)
Lemma gen_header_size : header_size = 12%N.
Proof. reflexivity. Qed.

(* Conn.Exchange: ID loop on a PacketConn, strict ID on a stream, question guard on both *)
Lemma gen_exchange_shape : src_exchange = map s2b [
  "if opt != nil && opt.UDPSize() >= dns.MinMsgSize {";
  "if opt == nil && co.UDPSize < dns.MinMsgSize {";
  "if err = co.WriteMsg(m); err != nil {";
  "if _, ok := co.Conn.(net.PacketConn); ok {";
  "for {";
  "r, err = co.ReadMsg()";
  "if err != nil || r.Id == m.Id {";
  "break";
  "r, err = co.ReadMsg()";
  "if err == nil && r.Id != m.Id {";
  "err = dns.ErrId";
  "if err == nil && len(m.Question) > 0 && !QuestionMatches(m.Question[0], r.Question) {";
  "err = ErrQuestion" ].
Proof. vm_compute. reflexivity. Qed.

(* QuestionMatches, progressingReferral and validReferral are no longer pinned by text: they are TRANSLATED
   (Gen/C07.v go_QuestionMatches, go_progressingReferral, go_validReferral) and proved equal to the model in
   Proofs_gen.v (gen_QuestionMatches, gen_progressingReferral, gen_validReferral). *)

(* session 5, wave 9: the LOOP of extractDelegationInfo is translated (Proofs_info.v: gen_extractDelegationInfo_loop);
   only the statements of the branch the translation cannot take - the first NS record anchors the set, `info.nsRecord
   == nil` on a pointer field - stay pinned: Model.info_step's `None =>` case restates them *)
Lemma gen_extract_anchor_shape : src_extract_anchor = map s2b [
  "info.nsRecord = v";
  "info.nsTTL = h.Ttl";
  "info.hosts[strings.ToLower(v.Ns)] = struct{}{}";
  "continue" ].
Proof. vm_compute. reflexivity. Qed.

(* checkGlueRR: the same bailiwick test, host test and address filter in the AAAA and the A pass *)
Lemma gen_check_glue_shape : src_check_glue = map s2b [
  "if r.cfg.IPv6Access {";
  "if extra, ok := a.(" ++ "*dns.AAAA); ok {";
  "name := strings.ToLower(extra.Header().Name)";
  "qname := resp.Question[0].Name";
  "i, _ := dns.PrevLabel(qname, level)";
  "if dnsname.CompareSuffix(name, qname[i:]) < level {";
  "continue";
  "if _, ok := hosts[name]; ok {";
  "addr, valid := usableAddr(extra.AAAA)";
  "if !valid {";
  "continue";
  "if _, ok := seenServers[endpoint]; !ok {";
  "if extra, ok := a.(" ++ "*dns.A); ok {";
  "name := strings.ToLower(extra.Header().Name)";
  "qname := resp.Question[0].Name";
  "i, _ := dns.PrevLabel(qname, level)";
  "if dnsname.CompareSuffix(name, qname[i:]) < level {";
  "continue";
  "if _, ok := hosts[name]; ok {";
  "addr, valid := usableAddr(extra.A)";
  "if !valid {";
  "continue";
  "if _, ok := seenServers[endpoint]; !ok {" ].
Proof. vm_compute. reflexivity. Qed.

Lemma gen_usable_addr_shape : src_usable_addr = map s2b [
  "addr, ok := netip.AddrFromSlice(ip)";
  "if !ok {";
  "return netip.Addr{}, false";
  "}";
  "addr = addr.Unmap()";
  "if addr.IsLoopback() || isLocalIP(ip) {";
  "return netip.Addr{}, false";
  "}";
  "return addr, true" ].
Proof. vm_compute. reflexivity. Qed.

Lemma gen_filter_authority_shape : src_filter_authority = map s2b [
  "case *dns.SOA, *dns.NSEC, *dns.NSEC3, *dns.RRSIG:" ].
Proof. vm_compute. reflexivity. Qed.

Lemma gen_clear_additional_shape : src_clear_additional = map s2b [
  "resp.Ns = []dns.RR{}";
  "shouldClearExtra := len(extra) == 0 || !extra[0]";
  "if shouldClearExtra {";
  "resp.Extra = []dns.RR{}";
  "if opt := req.IsEdns0(); opt != nil {";
  "resp.Extra = append(resp.Extra, opt)" ].
Proof. vm_compute. reflexivity. Qed.

Lemma gen_cacheable_keep_shape : src_cacheable_keep = map s2b [
  "return res";
  "if r.Header().Rrtype == dns.TypeDNAME ||";
  "strings.EqualFold(res.Question[0].Name, r.Header().Name) {";
  "return true";
  "}";
  "rrsig, ok := r.(" ++ "*dns.RRSIG)";
  "return ok && rrsig.TypeCovered == dns.TypeDNAME" ].
Proof. vm_compute. reflexivity. Qed.

(* the level bookkeeping the model's [descent_step] restates: the referral is checked first, the
   glue test is given rs.level, the uncached path continues at CountLabel(child) ... *)
Lemma gen_process_delegation_shape : src_process_delegation = map s2b [
  "if !validReferral(nsInfo, rs.servers.Zone, rs.req.Question[0]) {";
  "nlevel := dns.CountLabel(q.Name)";
  "if rs.level > nlevel {";
  "authservers, foundv4, foundv6 := r.checkGlueRR(resp, nsInfo.hosts, rs.level)";
  "rs.level = nlevel" ].
Proof. vm_compute. reflexivity. Qed.

(* ... and the cached path at the deeper of rs.level + 1 and CountLabel(child) (commit 767eb6f) *)
Lemma gen_cached_descent_level_shape : src_cached_descent_level = map s2b [
  "rs.level++";
  "if n := dns.CountLabel(q.Name); rs.level < n {";
  "rs.level = n" ].
Proof. vm_compute. reflexivity. Qed.

(* Resolver.answer: the Answer section is cut down to the answering zone before anything else
   (DNAME follow-up, validation, relay) looks at it (commit 767eb6f) *)
Lemma gen_answer_filter_shape : src_answer_filter = map s2b [
  "resp.Answer = dnsutil.FilterRRsToZone(resp.Answer, zone)";
  "targetMsg, targetCut, err := r.checkDname(ctx, resp)" ].
Proof. vm_compute. reflexivity. Qed.

(* the statements Model.deleg_apply restates: processDelegation labels the new server set with the NS owner before
   anything is published, looks the key up before it builds a set, and stores that very set ... *)
Lemma gen_deleg_store_shape : src_deleg_store = map s2b [
  "if cached, err := r.delegations.Get(key); err == nil {";
  "authservers.CheckingDisable = cd";
  "authservers.Zone = q.Name";
  "if err := r.lookupV4Nss(ctx, q, authservers, key, rs.parentDS, foundv4, nsInfo.hosts, cd, childDeadline); err != nil {";
  "r.delegations.SetUntil(key, rs.parentDS, authservers, childDeadline)" ].
Proof. vm_compute. reflexivity. Qed.

(* ... and lookupV4Nss publishes the live set (same pointer, hence same zone label) under the same key before each
   address lookup, once it holds a server *)
Lemma gen_provisional_publish_shape : src_provisional_publish = map s2b [
  "authservers.Hosts = append(authservers.Hosts, name)";
  "hasList := len(authservers.List) > 0";
  "if hasList && (!r.dnssec || r.hasTrustAnchors()) {";
  "r.delegations.SetUntil(key, parentDS, authservers, minNonZero(cutDeadline, time.Now().Add(time.Minute)))";
  "addrs, err := r.lookupNSAddrV4(ctx, name, cd)" ].
Proof. vm_compute. reflexivity. Qed.

(* session 5: the statements Model.minimize / Model.dispose_min / Model.deleg_core's minimised branch restate.
   Resolver.minimize (the name computation itself is tied through the generated dns.PrevLabel in Proofs_minname.v) *)
Lemma gen_minimize_shape : src_minimize = map s2b [
  "if r.qnameMinLevel == 0 || nomin {";
  "if level >= r.qnameMinLevel || q.Name == rootzone {";
  "prev, end := dns.PrevLabel(q.Name, level+1)";
  "if end {";
  "minName := q.Name[prev:]";
  "if minName == q.Name {";
  "minReq.Question[0].Name = minName" ].
Proof. vm_compute. reflexivity. Qed.

(* Resolver.resolve: what is done with the reply, by response code, sections and the minimized flag *)
Lemma gen_min_ladder_shape : src_min_ladder = map s2b [
  "if resp.Rcode != dns.RcodeSuccess && len(resp.Answer) == 0 && len(resp.Ns) == 0 {";
  "if minimized {";
  "if !minimized && len(resp.Answer) > 0 {";
  "if minimized && (len(resp.Answer) == 0 && len(resp.Ns) == 0) || len(resp.Answer) > 0 {";
  "if len(resp.Ns) > 0 {" ].
Proof. vm_compute. reflexivity. Qed.

(* processAuthoritySection: a SOA or CNAME in the Authority section of a minimised hop means "go on"; then the ladder
   no NS host -> authority, SOA -> authority, else processDelegation *)
Lemma gen_min_authority_shape : src_min_authority = map s2b [
  "if minimized {";
  "case *dns.SOA, *dns.CNAME:";
  "nsInfo := r.extractDelegationInfo(resp)";
  "if len(nsInfo.hosts) == 0 {";
  "if nsInfo.hasSOA {";
  "return r.processDelegation(ctx, rs, resp, nsInfo, minimized)" ].
Proof. vm_compute. reflexivity. Qed.

(* processDelegation: with no reachable server a minimised hop above the referral's owner goes on *)
Lemma gen_min_noservers_shape : src_min_noservers = map s2b [
  "if len(authservers.List) == 0 {";
  "if minimized && rs.level < nlevel {" ].
Proof. vm_compute. reflexivity. Qed.
