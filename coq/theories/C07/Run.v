(* C07 — correspondence: case type and the two checkers evaluated with
   vm_compute on what the Go drivers recorded.
   check_case: the model computes what the implementation did.
   spec_case : what the implementation did satisfies the property's
               specification, stated here independently of the model's
               functions (names are compared as canonical label lists with
               a plain prefix test, not through compare_suffix). *)
From Sdns Require Export Common.Base Gen.C07 C07.Model.
Open Scope N_scope.

Inductive case :=
  (* dnsclient.QuestionMatches(req, resp) = obs *)
| CaseQM (req : question) (resp : list question) (obs : bool)
  (* dnsclient.Conn.Exchange on a scripted connection *)
| CaseExchange (stream : bool) (req_id : N) (req_q : option question) (dgs : list datagram) (obs : xresult)
  (* resolver.usableAddr(ip) with localIPaddrs = local *)
| CaseUsable (local : list ipaddr) (ip : list N) (obs : option ipaddr)
  (* resolver.checkGlueRR(resp{Question qname, Extra extra}, hosts, level) *)
| CaseGlue (ipv6 : bool) (local : list ipaddr) (level : nat) (qname : name) (hosts : list name) (extra : list rr)
           (obs_servers : list ipaddr) (obs_found4 obs_found6 : list name)
           (obs_addrs4 obs_addrs6 : list (name * list ipaddr))
  (* extractDelegationInfo(ns) and validReferral(info, auth, q) *)
| CaseInfo (ns : list rr) (auth : name) (q : question)
           (obs_owner : option name) (obs_class obs_ttl : N) (obs_hosts : list name)
           (obs_soa obs_incoherent obs_valid : bool)
  (* progressingReferral(referral, auth, qname) *)
| CaseProg (referral auth qname : name) (obs : bool)
  (* filterAuthorityRecords(ns): indices kept; clearAdditional: what is left *)
| CaseSections (ns extra : list rr) (req_opt : bool) (keep_extra : option bool)
               (obs_filter : list N) (obs_ns_left obs_extra_left : nat) (obs_opt_left : bool)
  (* filterCacheableAnswer: indices of the Answer records kept *)
| CaseCacheable (qn : name) (answer : list rr) (obs_kept : list N)
  (* Cache.additionalAnswer on an upstream answer: 0 = served as is, no sub-query; 1 = SERVFAIL
     (alias to the question itself); 2 = the alias target [target] was re-resolved *)
| CaseScan (q : question) (rcode : N) (answer : list rr) (obs : N) (target : name)
  (* Cache.additionalAnswer in full, through the real cache: upstream (rcode, answer), the world the
     scripted Queryer answers from, and the reply the client got (rcode, Answer) *)
| CaseChase (q : question) (rcode : N) (answer : list rr) (o : oracle) (obs_rcode : N) (obs_answer : list rr)
  (* lab: the client's reply to the attack question, with the sub-queries the cache issued and what
     they returned as the oracle *)
| CaseLabReply (auth : name) (q : question) (m : umsg) (o : oracle) (obs_rcode : N) (obs_answer : list rr)
  (* a history on the resolver's NS-address cache: referrals processed by checkGlueRR and addresses
     filed after an NS-host lookup; then the cache content for the probed names *)
| CaseGlueHist (local : list ipaddr) (evs : list glue_event) (probes : list (name * option (list ipaddr)))
  (* level bookkeeping of the real processDelegation / resolveWithCachedNameservers *)
| CaseDescent (start : name) (steps : list dstep) (obs_zone : name) (obs_level : nat)
  (* lab: the server for [auth] sent [m] for question [q]; what became visible *)
| CaseLab (auth : name) (level : nat) (q : question) (m : umsg)
          (vis : list bool) (glue_obs deleg_obs : list name) (later_bad : bool)
  (* lab: the same, but the server echoed question [echoed] instead of [q] (right ID, any rcode) *)
| CaseLabEcho (auth : name) (q echoed : question) (m : umsg)
              (vis : list bool) (glue_obs deleg_obs : list name) (later_bad : bool)
  (* lab: the server for [auth] sent referral [m] whose glue carries addresses configured on the
     machine's own interfaces ([local] = what the host really has); what is on file in the NS-address
     cache for the referral's hosts, the delegation cache's server list, which glue addresses were
     dialled, and whether a query reached the socket standing in for the machine's own address *)
| CaseLabLocal (local : list ipaddr) (level : nat) (auth : name) (q : question) (m : umsg)
               (obs_filed : list (name * list ipaddr)) (obs_servers obs_dialled : list ipaddr) (own_queried : bool)
  (* dnsutil.FilterRRsToZone(records owned by [owners], auth): indices kept (the filter Resolver.answer
     applies to the upstream Answer section before anything is relayed or cached) *)
| CaseZoneFilter (auth : name) (owners : list name) (obs_kept : list N)
  (* the two sites composed: Conn.Exchange on scripted replies, then extractDelegationInfo + checkGlueRR on what it
     accepted (origin of the bailiwick test = the accepted message's question): which reply was accepted, the
     servers and the hosts glue was taken for *)
| CaseExchGlue (stream : bool) (id : N) (q : question) (replies : list fmsg) (ipv6 : bool) (local : list ipaddr) (level : nat)
               (obs_accept : option nat) (obs_servers : list ipaddr) (obs_found4 : list name)
  (* a history on the delegation cache: the real processAuthoritySection (-> processDelegation -> checkGlueRR ->
     lookupV4Nss with a scripted Queryer) on authority sections of any response code.  Per event: how the call
     ended (0 Resolver.authority, 1 referral rejected, 2 parent detection, 3 continued with the cached / the new
     delegation, 4 no reachable server), the entry found on file under the first NS owner's key at each address
     lookup that went out (the provisional publications), and the entries on file afterwards for the probed names *)
| CaseDelegHist (local : list ipaddr) (evs : list deleg_event)
                (obs : list (N * list deleg_entry * list (name * option deleg_entry)))
                (* afterwards, the real searchCache for some question names (DS question or not): the zone label of
                   the server set it starts with (None: the root servers) and the level it seeds *)
                (searches : list (name * bool * option name * nat))
  (* the real Resolver.minimize(req, level, nomin) with qnameMinLevel = qml: the name that is asked instead of the
     question's (None: the request is sent as it is) *)
| CaseMinimize (qml : nat) (nomin : bool) (level : nat) (q : question) (obs : option name)
  (* lab: the real Resolver.resolve on the servers of [auth] with rs.level = level and qnameMinLevel = qml; the scripted
     server answers the FIRST question it is sent with the event's message ([DelegMin]: that question was the
     minimised name [sent]; [DelegMsg]: the full question, sent = None) and everything later with an empty NOERROR +
     SOA.  Observed: how the hop ended (classes of CaseDelegHist, 5 = the same servers were asked the next longer
     name), provisional entries seen at the address lookups, entries on file afterwards, the next name any server
     was asked on behalf of this resolution, whether an Answer record of the message is in the final result *)
| CaseMinHop (local : list ipaddr) (qml : nat) (e : deleg_event) (sent : option name) (cls : N) (snaps : list deleg_entry)
             (probes : list (name * option deleg_entry)) (next : option name) (relayed : bool).

(* ---------------------------------------------------------------- helpers *)
Fixpoint list_eqb {A} (eqb : A -> A -> bool) (a b : list A) : bool :=
  match a, b with
  | [], [] => true
  | x :: xs, y :: ys => eqb x y && list_eqb eqb xs ys
  | _, _ => false
  end.
Definition opt_eqb {A} (eqb : A -> A -> bool) (a b : option A) : bool :=
  match a, b with
  | None, None => true
  | Some x, Some y => eqb x y
  | _, _ => false
  end.
Definition subset_names (a b : list name) : bool := forallb (fun x => mem_name x b) a.
Definition same_names (a b : list name) : bool := subset_names a b && subset_names b a.

Definition xresult_eqb (a b : xresult) : bool :=
  match a, b with
  | XAccept i, XAccept j | XErrShort i, XErrShort j | XErrUnpack i, XErrUnpack j
  | XErrId i, XErrId j | XErrQuestion i, XErrQuestion j => Nat.eqb i j
  | XTimeout, XTimeout => true
  | _, _ => false
  end.

Fixpoint assoc_name (n : name) (l : list (name * list ipaddr)) : option (list ipaddr) :=
  match l with
  | [] => None
  | (m, v) :: r => if name_eqb n m then Some v else assoc_name n r
  end.
Definition same_assoc (a b : list (name * list ipaddr)) : bool :=
  forallb (fun p => opt_eqb (list_eqb ipaddr_eqb) (assoc_name (fst p) b) (Some (snd p))) a &&
  forallb (fun p => opt_eqb (list_eqb ipaddr_eqb) (assoc_name (fst p) a) (Some (snd p))) b.

Fixpoint kept_indices {A} (f : A -> bool) (l : list A) (i : N) : list N :=
  match l with
  | [] => []
  | x :: r => if f x then i :: kept_indices f r (i + 1) else kept_indices f r (i + 1)
  end.

Definition rdata_eqb (a b : rdata) : bool :=
  match a, b with
  | RdA x, RdA y => bytes_eqb x y
  | RdName x, RdName y => bytes_list_eqb x y
  | RdSig x, RdSig y => x =? y
  | RdOther, RdOther => true
  | _, _ => false
  end.
(* records as they appear on the wire, TTL aside (the cache rewrites it) *)
Definition rr_eqb (a b : rr) : bool :=
  bytes_list_eqb (rr_owner a) (rr_owner b) && (rr_type a =? rr_type b) && (rr_class a =? rr_class b) && rdata_eqb (rr_data a) (rr_data b).
Definition chased_eqb (c : chased) (rcode : N) (answer : list rr) : bool :=
  match c with
  | ChServfail => (rcode =? RC_SERVFAIL) && match answer with [] => true | _ => false end
  | ChMsg rc a => (rc =? rcode) && list_eqb rr_eqb a answer
  end.

(* ------------------------------------------------------- specification side *)
(* plain prefix test on canonical label lists *)
Fixpoint is_prefix (a b : name) : bool :=
  match a, b with
  | [], _ => true
  | x :: xs, y :: ys => bytes_eqb x y && is_prefix xs ys
  | _ :: _, [] => false
  end.
Definition spec_in_zone (zone n : name) : bool := is_prefix (canon zone) (canon n).
Definition spec_same_name (a b : name) : bool := list_eqb bytes_eqb (canon a) (canon b).
Definition spec_strictly_below (zone n : name) : bool := spec_in_zone zone n && Nat.ltb (length zone) (length n).

Definition spec_question_ok (req : question) (resp : list question) : bool :=
  match resp with
  | [r] => (q_type r =? q_type req) && (q_class r =? q_class req) && spec_same_name (q_name r) (q_name req)
  | _ => false
  end.

Definition spec_addr_ok (local : list ipaddr) (a : ipaddr) : bool :=
  negb (match a with IP4 v => (2130706432 <=? v) && (v <=? 2147483647) | IP6 v => v =? 1 end) &&
  negb (existsb (ipaddr_eqb a) local) &&
  (* a canonical netip value never is a mapped IPv6 address *)
  negb (match a with IP6 v => (281470681743360 <=? v) && (v <=? 281474976710655) | _ => false end).

Definition ns_records (ns : list rr) : list rr := filter (fun r => rr_type r =? T_NS) ns.

(* one coherent NS set, same class as the question, strictly below the asked zone, on the path to qname *)
Definition spec_valid_referral (ns : list rr) (auth : name) (q : question) : bool :=
  match ns_records ns with
  | [] => false
  | r0 :: rest =>
      forallb (fun r => spec_same_name (rr_owner r) (rr_owner r0) && (rr_class r =? rr_class r0)) rest &&
      (rr_class r0 =? q_class q) &&
      spec_strictly_below auth (rr_owner r0) &&
      spec_in_zone (rr_owner r0) (q_name q)
  end.

Definition spec_cacheable (qn : name) (r : rr) : bool :=
  spec_same_name qn (rr_owner r) || (rr_type r =? T_DNAME) ||
  ((rr_type r =? T_RRSIG) && match rr_data r with RdSig c => c =? T_DNAME | _ => false end).

(* ------------------------------------------------------------- check_case *)
Definition expected_vis (auth : name) (q : question) (m : umsg) : list bool :=
  let rel := relayed_answer auth q m in
  map (fun r => negb (match rel with [] => true | _ => false end) && is_sub auth (rr_owner r)) (u_answer m).

Definition model_glue_names (level : nat) (auth : name) (q : question) (m : umsg) : list name :=
  match referral_glue false [] level auth q m with
  | Some (_, g) => gr_found4 g
  | None => []
  end.

Definition de_eqb (a b : deleg_entry) : bool :=
  name_eqb (de_zone a) (de_zone b) && list_eqb name_eqb (de_hosts a) (de_hosts b) && list_eqb ipaddr_eqb (de_servers a) (de_servers b).
Definition outcome_class (o : deleg_outcome) : N :=
  match o with DoAuthority => 0 | DoRejected => 1 | DoParent => 2 | DoCached | DoStored => 3 | DoNoServers => 4 | DoRetry => 5 end.
(* the lookup order handed to the model is a permutation of the referral's host set *)
Definition order_wf (e : deleg_event) : bool :=
  match e with DelegMsg _ _ _ m order _ | DelegMin _ _ _ m order _ =>
    same_names order (di_hosts (extract_info (u_ns m))) && Nat.eqb (length order) (length (di_hosts (extract_info (u_ns m)))) end.
Definition search_check (dc : deleg_cache) (s : name * bool * option name * nat) : bool :=
  let '(n, ds, oz, olv) := s in
  let '(r, lv) := search_cache dc ds n in
  opt_eqb name_eqb (option_map (fun p => de_zone (snd p)) r) oz && Nat.eqb lv olv.
Fixpoint deleg_check (local : list ipaddr) (st : deleg_state) (evs : list deleg_event)
         (obs : list (N * list deleg_entry * list (name * option deleg_entry)))
         (searches : list (name * bool * option name * nat)) : bool :=
  match evs, obs with
  | [], [] => forallb (search_check (snd st)) searches
  | e :: er, (cls, snaps, probes) :: orest =>
      let '(st1, r) := deleg_apply local st e in
      (outcome_class (dr_outcome r) =? cls) &&
      list_eqb de_eqb (map snd (filter fst (dr_snaps r))) snaps &&
      forallb (fun p => opt_eqb de_eqb (deleg_get (fst p) (snd st1)) (snd p)) probes &&
      order_wf e && deleg_check local st1 er orest searches
  | _, _ => false
  end.

(* the name asked when a resolution goes on at level [level] *)
Definition next_name (qml level : nat) (q : question) : name :=
  match minimize qml false level q with Some mq => q_name mq | None => q_name q end.

Definition check_case (c : case) : bool :=
  match c with
  | CaseQM req resp obs => Bool.eqb (question_matches req resp) obs
  | CaseExchange stream id rq dgs obs => xresult_eqb (exchange_accept stream id rq dgs) obs
  | CaseUsable local ip obs => opt_eqb ipaddr_eqb (usable_addr local ip) obs
  | CaseGlue ipv6 local level qname hosts extra srv f4 f6 a4 a6 =>
      let g := check_glue ipv6 local level qname hosts extra in
      list_eqb ipaddr_eqb (gr_servers g) srv &&
      same_names (gr_found4 g) f4 && same_names (gr_found6 g) f6 &&
      same_assoc (gr_addrs4 g) a4 && same_assoc (gr_addrs6 g) a6
  | CaseInfo ns auth q o cl ttl hosts soa inc valid =>
      let i := extract_info ns in
      opt_eqb name_eqb (di_owner i) o &&
      (match o with Some _ => (di_class i =? cl) && (di_ttl i =? ttl) | None => true end) &&
      same_names (di_hosts i) hosts && Bool.eqb (di_has_soa i) soa && Bool.eqb (di_incoherent i) inc &&
      Bool.eqb (valid_referral i auth q) valid
  | CaseProg referral auth qname obs => Bool.eqb (progressing_referral referral auth qname) obs
  | CaseSections ns extra req_opt keep flt ns_left extra_left opt_left =>
      list_eqb N.eqb (kept_indices (fun r => (rr_type r =? T_SOA) || (rr_type r =? T_NSEC) || (rr_type r =? T_NSEC3) || (rr_type r =? T_RRSIG)) ns 0) flt &&
      Nat.eqb (length (filter_authority ns)) (length flt) &&
      Nat.eqb ns_left 0 &&
      (let clear := match keep with None => true | Some k => negb k end in
       if clear then Nat.eqb extra_left 0 && Bool.eqb opt_left req_opt
       else Nat.eqb extra_left (length extra) && Bool.eqb opt_left false)
  | CaseCacheable qn answer kept => list_eqb N.eqb (kept_indices (keep_cacheable qn) answer 0) kept
  | CaseScan q rcode answer obs target =>
      if chase_applies q rcode then
        match scan_answer q answer None with
        | ScanComplete | ScanNothing => obs =? 0
        | ScanLoop => obs =? 1
        | ScanChase t => (obs =? 2) && bytes_list_eqb t target
        end
      else obs =? 0
  | CaseChase q rcode answer o orc oans => chased_eqb (additional_answer q rcode answer o) orc oans
  | CaseLabReply auth q m o orc oans =>
      match client_reply auth q m o with
      | Some c => chased_eqb c orc oans
      | None => true   (* negative answers, referrals, errors: judged by CaseLab *)
      end
  | CaseGlueHist local evs probes =>
      let c := glue_history local evs in
      forallb (fun p => opt_eqb (list_eqb ipaddr_eqb) (glue_lookup (fst p) c) (snd p)) probes
  | CaseDescent start steps z lv =>
      let '(mz, ml) := descent start steps in name_eqb mz z && Nat.eqb ml lv
  | CaseLab auth level q m vis glue deleg later =>
      Nat.eqb (length vis) (length (u_answer m)) &&
      (if relay_exact auth q m then list_eqb Bool.eqb vis (expected_vis auth q m)
       else (* an alias chase ran: it may turn the reply into SERVFAIL, it never adds what was filtered out *)
            forallb (fun p => implb (snd p) (fst p)) (combine (expected_vis auth q m) vis)) &&
      same_names (model_glue_names level auth q m) glue &&
      forallb (fun n => spec_strictly_below auth n) deleg &&
      negb later
  | CaseLabEcho auth q echoed m vis glue deleg later =>
      if question_matches q [echoed]
      then true (* an echo that matches is an ordinary exchange: covered by CaseLab *)
      else (* the message never leaves the transport: nothing of it is visible anywhere *)
        forallb negb vis && match glue with [] => true | _ => false end &&
        match deleg with [] => true | _ => false end && negb later
  | CaseLabLocal local level auth q m filed srv dl ownq =>
      match referral_glue false local level auth q m with
      | Some (_, g) =>
          same_assoc (gr_addrs4 g) filed && list_eqb ipaddr_eqb (gr_servers g) srv &&
          forallb (fun a => mem_ip a (gr_servers g)) dl
      | None => match filed, srv, dl with [], [], [] => true | _, _, _ => false end
      end && negb ownq
  | CaseZoneFilter auth owners kept => list_eqb N.eqb (kept_indices (is_sub auth) owners 0) kept
  | CaseExchGlue stream id q replies ipv6 local level acc srv f4 =>
      match exchange_then_glue stream id q replies ipv6 local level with
      | Some (i, Some g) => opt_eqb Nat.eqb acc (Some i) && list_eqb ipaddr_eqb (gr_servers g) srv && same_names (gr_found4 g) f4
      | Some (_, None) => false
      | None => match acc, srv, f4 with None, [], [] => true | _, _, _ => false end
      end
  | CaseDelegHist local evs obs searches => deleg_check local ([], []) evs obs searches
  | CaseMinimize qml nomin level q obs => opt_eqb name_eqb (option_map q_name (minimize qml nomin level q)) obs
  | CaseMinHop local qml e sent cls snaps probes next relayed =>
      let '(_, level, q, _) := ev_parts e in
      (match minimize qml false level q, e, sent with
       | Some mq, DelegMin _ _ _ _ _ _, Some s => name_eqb s (q_name mq)
       | None, DelegMsg _ _ _ _ _ _, None => true
       | _, _, _ => false
       end) &&
      deleg_check local ([], []) [e] [(cls, snaps, probes)] [] &&
      (let r := snd (deleg_apply local ([], []) e) in
       opt_eqb name_eqb next
         (match dr_outcome r with
          | DoRetry => Some (next_name qml (S level) q)
          | DoStored => option_map (fun d => next_name qml (length (de_zone d)) q) (dr_final r)
          | _ => None
          end))
  end.

Definition spec_glue_source (local : list ipaddr) (host : name) (a : ipaddr) (evs : list glue_event) : bool :=
  existsb (fun e =>
    match e with
    | GlueReferral level qname hosts extra answers =>
        existsb (spec_same_name host) hosts &&
        ((* the glue route: host inside the zone cut out of qname at the level, usable glue for it *)
         (let zone := firstn level qname in
          Nat.eqb (length zone) level && spec_in_zone zone host &&
          existsb (fun r => spec_same_name (rr_owner r) host && (rr_type r =? T_A) &&
                            match rr_data r with
                            | RdA ip => match usable_addr local ip with Some a' => ipaddr_eqb a a' | None => false end
                            | _ => false
                            end) extra)
         ||
         (* the lookup route: an address lookup for this very host returned it *)
         existsb (fun p => spec_same_name (fst p) host &&
                           existsb (fun r => match rr_data r with
                                             | RdA ip => match usable_addr local ip with Some a' => ipaddr_eqb a a' | None => false end
                                             | _ => false
                                             end) (snd p)) answers)
    end) evs.

(* an entry of the delegation cache filed under [k]: its zone label is [k]; the servers of a zone strictly
   above [k] sent, while a name below [k] was being resolved, ONE coherent NS set of the question's class owned
   by [k] (whatever the response code); its hosts are targets of that set; its addresses are usable *)
Definition first_ns_owner (m : umsg) : name := match ns_records (u_ns m) with r0 :: _ => rr_owner r0 | [] => [] end.
Definition spec_deleg_entry (local : list ipaddr) (seen : list deleg_event) (k : name) (d : deleg_entry) : bool :=
  spec_same_name (de_zone d) k &&
  existsb (fun e => match e with
                    | DelegMsg auth _ q m _ _ | DelegMin auth _ q m _ _ =>
                        spec_valid_referral (u_ns m) auth q && spec_same_name (first_ns_owner m) k &&
                        forallb (fun h => existsb (fun r => match rr_data r with RdName t => spec_same_name t h | _ => false end)
                                                  (ns_records (u_ns m))) (de_hosts d)
                    end) seen &&
  forallb (spec_addr_ok local) (de_servers d).
Fixpoint deleg_spec (local : list ipaddr) (seen : list deleg_event) (evs : list deleg_event)
         (obs : list (N * list deleg_entry * list (name * option deleg_entry))) : bool :=
  match evs, obs with
  | e :: er, (_, snaps, probes) :: orest =>
      let seen' := seen ++ [e] in
      let k := match e with DelegMsg _ _ _ m _ _ | DelegMin _ _ _ m _ _ => first_ns_owner m end in
      forallb (spec_deleg_entry local seen' k) snaps &&
      forallb (fun p => match snd p with Some d => spec_deleg_entry local seen' (fst p) d | None => true end) probes &&
      deleg_spec local seen' er orest
  | _, _ => true
  end.

(* -------------------------------------------------------------- spec_case *)
Definition spec_case (c : case) : bool :=
  match c with
  | CaseQM req resp obs => implb obs (spec_question_ok req resp)
  | CaseExchange stream id rq dgs obs =>
      match obs with
      | XAccept i =>
          match nth_error dgs i with
          | Some (DgMsg m) =>
              (w_id m =? id) &&
              (match rq with Some q => spec_question_ok q (w_qs m) | None => true end) &&
              (if stream then Nat.eqb i 0 else true)
          | Some (DgZeros n) => (n =? 12) && (id =? 0) && (match rq with Some _ => false | None => true end)
          | _ => false
          end
      | _ => true
      end
  | CaseUsable local ip obs =>
      match obs with
      | Some a => spec_addr_ok local a
      | None => true
      end
  | CaseGlue ipv6 local level qname hosts extra srv f4 f6 a4 a6 =>
      let zone := firstn level qname in
      let name_ok := fun n => Nat.eqb (length zone) level && spec_in_zone zone n && existsb (spec_same_name n) hosts in
      forallb name_ok f4 && forallb name_ok f6 &&
      forallb (fun p => name_ok (fst p) && forallb (spec_addr_ok local) (snd p)) a4 &&
      forallb (fun p => name_ok (fst p) && forallb (spec_addr_ok local) (snd p)) a6 &&
      forallb (spec_addr_ok local) srv
  | CaseInfo ns auth q o cl ttl hosts soa inc valid => implb valid (spec_valid_referral ns auth q)
  | CaseProg referral auth qname obs =>
      implb obs (spec_strictly_below auth referral && spec_in_zone referral qname)
  | CaseSections ns extra req_opt keep flt ns_left extra_left opt_left =>
      (* a positive answer carries no authority section, and no additional data unless asked to keep it *)
      Nat.eqb ns_left 0 && (match keep with Some true => true | _ => Nat.eqb extra_left 0 end)
  | CaseCacheable qn answer kept =>
      forallb (fun i => match nth_error answer (N.to_nat i) with Some r => spec_cacheable qn r | None => false end) kept
  | CaseScan q rcode answer obs target =>
      (* an answer served without a sub-query either holds a record of the asked type or no alias to follow *)
      implb ((obs =? 0) && chase_applies q rcode)
            (existsb (fun r => rr_type r =? q_type q) answer || negb (existsb (fun r => rr_type r =? T_CNAME) answer))
  | CaseChase q rcode answer o orc oans =>
      (* whatever the reply carries beyond the upstream answer was obtained by re-resolution *)
      forallb (fun r => existsb (rr_eqb r) answer || existsb (rr_eqb r) (oracle_records o)) oans
  | CaseLabReply auth q m o orc oans =>
      (* a record of the attacker's message owned outside its zone is in the reply only if a
         re-resolution (through the name's own delegation path) returned the very same record *)
      forallb (fun r => implb (existsb (rr_eqb r) (u_answer m ++ u_ns m ++ u_extra m) && negb (spec_in_zone auth (rr_owner r)))
                              (existsb (rr_eqb r) (oracle_records o))) oans
  | CaseGlueHist local evs probes =>
      (* an address is on file for a host only if a referral of a zone enclosing the host carried it
         as usable glue for one of its NS hosts, or an address lookup for that very host returned it *)
      forallb (fun p => match snd p with
                        | None => true
                        | Some addrs => forallb (fun a => spec_addr_ok local a && spec_glue_source local (fst p) a evs) addrs
                        end) probes
  | CaseDescent start steps z lv =>
      (* the glue test cuts qname at rs.level labels: that is the asked zone or deeper only if *)
      Nat.leb (length z) lv
  | CaseLab auth level q m vis glue deleg later =>
      (* nothing owned outside the sender's zone is relayed in the answer, planted as glue,
         cached as a delegation, or visible to later queries *)
      forallb (fun p => implb (snd p) (spec_in_zone auth (rr_owner (fst p)))) (combine (u_answer m) vis) &&
      forallb (spec_in_zone auth) glue &&
      forallb (spec_strictly_below auth) deleg &&
      negb later
  | CaseLabEcho auth q echoed m vis glue deleg later =>
      (* a reply that does not carry the outstanding question is not used at all *)
      implb (negb (spec_question_ok q [echoed]))
            (forallb negb vis && match glue with [] => true | _ => false end &&
             match deleg with [] => true | _ => false end) &&
      negb later
  | CaseLabLocal local level auth q m filed srv dl ownq =>
      (* no address of one of the machine's own interfaces (nor a loopback one) is filed for an NS host,
         listed as a server of the delegation, or dialled *)
      forallb (fun p => forallb (spec_addr_ok local) (snd p)) filed &&
      forallb (spec_addr_ok local) srv && forallb (spec_addr_ok local) dl && negb ownq
  | CaseZoneFilter auth owners kept =>
      forallb (fun i => match nth_error owners (N.to_nat i) with Some o => spec_in_zone auth o | None => false end) kept
  | CaseExchGlue stream id q replies ipv6 local level acc srv f4 =>
      (* what is accepted carries the outstanding ID and question; glue is taken only inside the zone cut out of the
         ASKED name at the level, with usable addresses *)
      match acc with
      | Some i => match nth_error replies i with
                  | Some f => (w_id (f_wire f) =? id) && spec_question_ok q (w_qs (f_wire f))
                  | None => false
                  end
      | None => match srv, f4 with [], [] => true | _, _ => false end
      end &&
      (let zone := firstn level (q_name q) in
       forallb (fun n => Nat.eqb (length zone) level && spec_in_zone zone n) f4) &&
      forallb (spec_addr_ok local) srv
  | CaseDelegHist local evs obs searches =>
      deleg_spec local [] evs obs &&
      (* a resolution starts at servers whose zone label encloses the question name (for a DS question: strictly, the
         parent side answers), with the level of that zone *)
      forallb (fun s => let '(n, ds, oz, lv) := s in
                        match oz with
                        | Some z => spec_in_zone z n && Nat.eqb lv (length z) && (if ds : bool then Nat.ltb (length z) (length n) else true)
                        | None => Nat.eqb lv 0
                        end) searches
  | CaseMinimize qml nomin level q obs =>
      (* what is asked instead of the question's name is a proper suffix of it, one label longer than the level *)
      match obs with
      | Some n => spec_in_zone n (q_name q) && Nat.eqb (length n) (S level) && Nat.ltb (length n) (length (q_name q)) && negb nomin
      | None => true
      end
  | CaseMinHop local qml e sent cls snaps probes next relayed =>
      deleg_spec local [] [e] [(cls, snaps, probes)] &&
      (* a reply that carries an Answer section for a question the client did not ask is dropped whole: nothing of it
         is relayed, nothing is filed, the resolution goes on with the next name *)
      match e with
      | DelegMin _ _ _ m _ _ =>
          match u_answer m with
          | [] => true
          | _ => (cls =? 5) && negb relayed && forallb (fun p => match snd p with None => true | Some _ => false end) probes
          end
      | DelegMsg _ _ _ _ _ _ => true
      end
  end.
