(* C07 — the hypotheses of the property theorems are satisfiable by non-trivial inputs. *)
From Sdns Require Import Common.Base Gen.C07 C07.Model C07.Proofs_names C07.Proofs_glue C07.Proofs_referral C07.Proofs_contain.
Open Scope N_scope.

Definition com : name := [[99;111;109]].
Definition example_com : name := com ++ [[101;120;97;109;112;108;101]].
Definition www_example_com : name := example_com ++ [[119;119;119]].
Definition ns_example_com : name := example_com ++ [[110;115]].
Definition Www_Example_COM : name := [[67;79;77]; [69;120;97;109;112;108;101]; [87;119;119]].
Definition notexample_com : name := com ++ [[110;111;116;101;120;97;109;112;108;101]].

Definition qA : question := mk_q www_example_com T_A 1.

(* two stray datagrams (wrong ID; right ID would be needed) are skipped, the case-mixed echo of the question is accepted *)
Example ex_exchange_udp :
  exchange_accept false 77 (Some qA)
    [DgMsg (mk_wmsg 76 0 [qA]); DgMsg (mk_wmsg 78 0 []); DgMsg (mk_wmsg 77 0 [mk_q Www_Example_COM T_A 1])] = XAccept 2.
Proof. reflexivity. Qed.
(* the same on a stream is a protocol error, and a right-ID reply for another name is refused *)
Example ex_exchange_stream :
  exchange_accept true 77 (Some qA) [DgMsg (mk_wmsg 76 0 [qA]); DgMsg (mk_wmsg 77 0 [qA])] = XErrId 0.
Proof. reflexivity. Qed.
Example ex_exchange_wrong_question :
  exchange_accept false 77 (Some qA) [DgMsg (mk_wmsg 77 0 [mk_q (notexample_com ++ [[119;119;119]]) T_A 1])] = XErrQuestion 0.
Proof. reflexivity. Qed.

(* an error reply is held to the same rule: right ID, NXDOMAIN, question rewritten to another name *)
Example ex_exchange_error_reply_wrong_question :
  exchange_accept false 77 (Some qA) [DgMsg (mk_wmsg 77 3 [mk_q (notexample_com ++ [[119;119;119]]) T_A 1])] = XErrQuestion 0 /\
  exchange_accept true 77 (Some qA) [DgMsg (mk_wmsg 77 5 [])] = XErrQuestion 0 /\
  exchange_accept false 77 (Some qA) [DgMsg (mk_wmsg 77 3 [qA])] = XAccept 0.
Proof. repeat split. Qed.

(* glue for an NS host inside com. is taken at level 1, the look-alike notexample.com host too (it IS inside com.),
   a host under another TLD and a loopback address are not *)
Example ex_glue :
  let g := check_glue false [] 1 www_example_com [ns_example_com; [[110;101;116]; [110;115]]]
             [mk_rr ns_example_com T_A 1 60 (RdA [198;51;100;1]);
              mk_rr [[110;101;116]; [110;115]] T_A 1 60 (RdA [198;51;100;2]);
              mk_rr ns_example_com T_A 1 60 (RdA [127;0;0;1])] in
  gr_servers g = [IP4 3325256705] /\ gr_found4 g = [ns_example_com].
Proof. vm_compute. split; reflexivity. Qed.

Definition ns_set : list rr :=
  [mk_rr example_com T_NS 1 3600 (RdName ns_example_com);
   mk_rr [[67;79;77]; [69;88;65;77;80;76;69]] T_NS 1 300 (RdName (example_com ++ [[110;115;50]]))].

Example ex_valid_referral : valid_referral (extract_info ns_set) com qA = true.
Proof. reflexivity. Qed.
Example ex_self_referral_rejected : valid_referral (extract_info ns_set) example_com qA = false.
Proof. reflexivity. Qed.
Example ex_sideways_rejected :
  valid_referral (extract_info [mk_rr notexample_com T_NS 1 60 (RdName ns_example_com)]) com qA = false.
Proof. reflexivity. Qed.
Example ex_mixed_owner_rejected :
  valid_referral (extract_info (ns_set ++ [mk_rr notexample_com T_NS 1 60 (RdName ns_example_com)])) com qA = false.
Proof. reflexivity. Qed.

Example ex_chain : referral_chain www_example_com [] [com; example_com].
Proof. cbn. repeat split. Qed.

(* containment hypotheses: a question inside the zone, a hostile record outside it, a referral that is accepted *)
Example ex_containment_hyps :
  let m := mk_umsg RC_OK [] (mk_rr (example_com ++ [[115;117;98]]) T_NS 1 60 (RdName ns_example_com) :: nil)
                   [mk_rr ns_example_com T_A 1 60 (RdA [198;51;100;1]); mk_rr (notexample_com ++ [[110;115]]) T_A 1 60 (RdA [6;6;6;6])] in
  let q := mk_q (example_com ++ [[115;117;98]; [120]]) T_A 1 in
  is_sub example_com (q_name q) = true /\
  is_sub example_com (notexample_com ++ [[110;115]]) = false /\
  exists o g, referral_glue false [] 2 example_com q m = Some (o, g) /\ gr_found4 g = [ns_example_com].
Proof. cbn zeta. repeat split. eexists. eexists. vm_compute. split; reflexivity. Qed.

(* a descent mixing all three kinds of step; the cached one crosses two labels *)
Example ex_descent :
  descent [] [StepMinimize; StepCached example_com; StepCached www_example_com] = (www_example_com, 3%nat).
Proof. reflexivity. Qed.

(* regression examples about the code before commit 767eb6f *)
Example ex_old_level_short :
  fold_left descent_step_old [StepCached evil_l3] (descent_start []) = (evil_l3, 1%nat) /\
  descent [] [StepCached evil_l3] = (evil_l3, 2%nat).
Proof. split; reflexivity. Qed.
Example ex_old_relay_tail :
  In w_tail (u_answer w_msg) /\ relayed_answer w_auth w_q w_msg = [w_alias].
Proof. split; vm_compute; auto. Qed.

Example ex_cacheable :
  cacheable_answer www_example_com
    [mk_rr Www_Example_COM T_CNAME 1 60 (RdName notexample_com);
     mk_rr notexample_com T_A 1 60 (RdA [6;6;6;6]);
     mk_rr example_com T_DNAME 1 60 (RdName com)]
  = [mk_rr Www_Example_COM T_CNAME 1 60 (RdName notexample_com); mk_rr example_com T_DNAME 1 60 (RdName com)].
Proof. reflexivity. Qed.
