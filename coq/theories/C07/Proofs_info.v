(* C07 — the loop of Resolver.extractDelegationInfo ("one coherent NS set, same class") tied through generated code.
   The function as a whole is outside the translator's subset only for its test `info.nsRecord == nil` on a pointer
   field, so its LOOP is translated (srcgen loopfunc, iface_cases: dns.RR as a sum type, map_fields: the hostSet map as
   an association list, ascii_strings, nonnil_pointers: the nil test reads as false).  The generated Fixpoint therefore
   describes every iteration except the one that anchors the set on the first NS record: the SOA flag, records of other
   types, and - once an anchor exists - the coherence test (owner equal without regard to case AND same class, else
   `incoherent`), the minimum TTL and the insertion of the lower-cased target into the host set.  Proved here by induction
   over the generated loop: on any run of records it computes the model's fold of [info_step], provided the run holds no
   NS record as long as no anchor exists.  The three anchoring statements stay pinned by text (gen_extract_anchor_shape). *)
From Coq Require Import String.
From Sdns Require Import Common.Base Common.GoList Gen.C07 C07.Model C07.Proofs_names C07.Proofs_zone C07.Proofs_gen.
Open Scope N_scope.

(* one record as the generated code and as the model see it *)
Inductive rec_rel : I_RR -> rr -> Prop :=
| rel_ns v o t : T_RR_Header_Name (T_NS_Hdr v) = pres o -> plain o -> T_NS_Ns v = pres t -> plain t ->
    rec_rel (I_RR_of_NS v) (mk_rr o T_NS (T_RR_Header_Class (T_NS_Hdr v)) (T_RR_Header_Ttl (T_NS_Hdr v)) (RdName t))
| rel_soa v r : rr_type r = T_SOA -> rec_rel (I_RR_of_SOA v) r
| rel_nsec v r : rr_type r <> T_SOA -> rr_type r <> T_NS -> rec_rel (I_RR_of_NSEC v) r
| rel_other tag h r : rr_type r <> T_SOA -> rr_type r <> T_NS -> rec_rel (I_RR_other tag h) r.

Definition host_map (hs : list name) : list (list N * bool) := map (fun h => (pres h, true)) hs.
Definition hosts_ok (hs : list name) : Prop := Forall (fun h => plain h /\ canon h = h) hs.

Definition st_rel (g : T_delegationInfo) (i : dinfo) : Prop :=
  T_delegationInfo_hosts g = host_map (di_hosts i) /\ hosts_ok (di_hosts i) /\
  T_delegationInfo_nsTTL g = di_ttl i /\ T_delegationInfo_hasSOA g = di_has_soa i /\
  T_delegationInfo_incoherent g = di_incoherent i /\
  match di_owner i with
  | Some o => T_RR_Header_Name (T_NS_Hdr (T_delegationInfo_nsRecord g)) = pres o /\ plain o /\
              T_RR_Header_Class (T_NS_Hdr (T_delegationInfo_nsRecord g)) = di_class i
  | None => True
  end.

Lemma equal_fold_pres a b : plain a -> plain b -> go_equal_fold_ascii (pres a) (pres b) = name_eqb a b.
Proof.
  intros Ha Hb. unfold go_equal_fold_ascii. rewrite !lower_pres.
  destruct (name_eqb a b) eqn:E.
  - apply name_eqb_spec in E. rewrite E. apply go_bytes_eqb_eq. reflexivity.
  - destruct (go_list_eqb N.eqb (pres (canon a)) (pres (canon b))) eqn:F; [|reflexivity].
    apply go_bytes_eqb_eq in F. apply pres_inj in F; [|apply plain_canon; assumption|apply plain_canon; assumption].
    apply name_eqb_spec in F. congruence.
Qed.

(* info.hosts[strings.ToLower(v.Ns)] = struct{}{} on the association list = the model's add_name *)
Lemma host_key_eqb h t : plain h -> canon h = h -> plain t ->
  go_list_eqb N.eqb (pres h) (pres (canon t)) = name_eqb t h.
Proof.
  intros Hh Hc Ht. destruct (name_eqb t h) eqn:E.
  - apply name_eqb_spec in E. rewrite E, Hc. apply go_bytes_eqb_eq. reflexivity.
  - destruct (go_list_eqb N.eqb (pres h) (pres (canon t))) eqn:F; [|reflexivity].
    apply go_bytes_eqb_eq in F. apply pres_inj in F; [|assumption|apply plain_canon; assumption].
    assert (name_eqb t h = true) by (apply name_eqb_spec; rewrite <- F, Hc; reflexivity). congruence.
Qed.

Lemma map_has_mem hs t : hosts_ok hs -> plain t ->
  go_map_has (go_list_eqb N.eqb) (host_map hs) (pres (canon t)) = mem_name t hs.
Proof.
  intros Hh Ht. unfold go_map_has, host_map. induction hs as [|h hs IH]; [reflexivity|].
  inversion Hh as [|? ? [Hp Hc] Hrest]; subst. cbn [map existsb fst mem_name].
  rewrite (host_key_eqb h t Hp Hc Ht), (IH Hrest). reflexivity.
Qed.

Lemma map_set_add hs t : hosts_ok hs -> plain t ->
  go_map_set (go_list_eqb N.eqb) (host_map hs) (go_ascii_lower (pres t)) true = host_map (add_name t hs) /\ hosts_ok (add_name t hs).
Proof.
  intros Hh Ht. rewrite lower_pres. unfold go_map_set, add_name. rewrite (map_has_mem hs t Hh Ht).
  destruct (mem_name t hs).
  - split; [|exact Hh]. unfold host_map. rewrite map_map. apply map_ext_in. intros h Hin. cbn [fst].
    destruct (go_list_eqb N.eqb (pres h) (pres (canon t))) eqn:E; [|reflexivity].
    apply go_bytes_eqb_eq in E. rewrite E. reflexivity.
  - split.
    + unfold host_map. rewrite map_app. reflexivity.
    + apply Forall_app. split; [exact Hh|]. constructor; [|constructor]. split; [apply plain_canon; exact Ht | apply canon_idem].
Qed.

Lemma info_step_ns i o a t cls ttl : di_owner i = Some a ->
  info_step i (mk_rr o T_NS cls ttl (RdName t)) =
    if negb (name_eqb o a) || negb (cls =? di_class i)
    then mk_dinfo (di_owner i) (di_class i) (di_ttl i) (di_hosts i) (di_has_soa i) true
    else mk_dinfo (di_owner i) (di_class i) (if ttl <? di_ttl i then ttl else di_ttl i) (add_name t (di_hosts i)) (di_has_soa i) (di_incoherent i).
Proof. intros H. unfold info_step. cbn. rewrite H. reflexivity. Qed.
Lemma info_step_soa i r : rr_type r = T_SOA ->
  info_step i r = mk_dinfo (di_owner i) (di_class i) (di_ttl i) (di_hosts i) true (di_incoherent i).
Proof. intros H. unfold info_step. rewrite H. reflexivity. Qed.
Lemma info_step_other i r : rr_type r <> T_SOA -> rr_type r <> T_NS -> info_step i r = i.
Proof. intros H1 H2. unfold info_step. apply N.eqb_neq in H1, H2. rewrite H1, H2. reflexivity. Qed.

Definition no_ns (l : list (I_RR * rr)) : Prop := Forall (fun p => rr_type (snd p) <> T_NS) l.

(* THE TIE: the generated loop computes the model's fold *)
Lemma info_loop vresp : forall (rest pre : list (I_RR * rr)) g i lf,
  Forall (fun p => rec_rel (fst p) (snd p)) rest -> st_rel g i ->
  (di_owner i = None -> no_ns rest) -> (length rest < lf)%nat ->
  exists g', go_Resolver_extractDelegationInfo_loop1 (map fst (pre ++ rest)) lf (Z.of_nat (length pre)) vresp g = (GoNext, (vresp, g')) /\
             st_rel g' (fold_left info_step (map snd rest) i).
Proof.
  induction rest as [|p rest IH]; intros pre g i lf Hv Hst Hno Hlf.
  - destruct lf as [|lf]; [cbn in Hlf; lia|]. cbn [go_Resolver_extractDelegationInfo_loop1]. rewrite app_nil_r.
    unfold go_len. rewrite map_length, Z.ltb_irrefl. exists g. split; [reflexivity | exact Hst].
  - destruct lf as [|lf]; [cbn in Hlf; lia|]. cbn [length] in Hlf. cbn [go_Resolver_extractDelegationInfo_loop1].
    unfold go_len. rewrite map_length, app_length. cbn [length].
    replace (Z.of_nat (length pre) <? Z.of_nat (length pre + S (length rest)))%Z with true by (symmetry; apply Z.ltb_lt; lia).
    assert (Eidx : go_idx I_RR_nil (map fst (pre ++ p :: rest)) (Z.of_nat (length pre)) = fst p).
    { rewrite go_idx_nth by lia. rewrite Nat2Z.id, map_app. rewrite app_nth2 by (rewrite map_length; lia).
      rewrite map_length, Nat.sub_diag. reflexivity. }
    rewrite Eidx.
    assert (Enext : pre ++ p :: rest = (pre ++ [p]) ++ rest) by (rewrite <- app_assoc; reflexivity).
    assert (Ei : (Z.of_nat (length pre) + 1)%Z = Z.of_nat (length (pre ++ [p]))) by (rewrite app_length; cbn [length]; lia).
    assert (Hlf' : (length rest < lf)%nat) by lia.
    inversion Hv as [|? ? Hp Hrest]; subst.
    assert (Hno' : forall i', di_owner i' = None -> di_owner i = None -> no_ns rest).
    { intros i' _ Hn. specialize (Hno Hn). inversion Hno; assumption. }
    destruct p as [grr r]. cbn [fst snd] in Hp |- *. cbn [map fold_left snd]. rewrite Ei, Enext.
    destruct Hst as [Hh [Hok [Httl [Hsoa [Hinc Hanchor]]]]].
    inversion Hp as [v o t Hname Ho Hns Ht | v r' Hty | v r' Hty1 Hty2 | tag h r' Hty1 Hty2]; subst.
    + (* an NS record: an anchor must exist *)
      destruct (di_owner i) as [a|] eqn:Eo.
      2:{ specialize (Hno eq_refl). inversion Hno as [|? ? Hbad _]. cbn in Hbad. contradiction Hbad. reflexivity. }
      destruct Hanchor as [Ha [Hpa Hcls]].
      unfold go_NS_Header. rewrite Hname, Ha, (equal_fold_pres o a Ho Hpa), Hcls.
      rewrite (info_step_ns i o a t _ _ Eo).
      destruct (negb (name_eqb o a) || negb (T_RR_Header_Class (T_NS_Hdr v) =? di_class i)) eqn:Einc.
      * apply (IH (pre ++ [_]) _ _ lf Hrest); [|intros Hn; cbn in Hn; congruence | exact Hlf'].
        cbn. rewrite Eo. repeat split; try assumption.
      * rewrite Httl.
        destruct (map_set_add (di_hosts i) t Hok Ht) as [Hset Hok'].
        destruct (T_RR_Header_Ttl (T_NS_Hdr v) <? di_ttl i) eqn:Et.
        -- apply (IH (pre ++ [_]) _ _ lf Hrest); [|intros Hn; cbn in Hn; congruence | exact Hlf'].
           cbn. rewrite Hns, Hh, Hset, Eo. repeat split; try assumption.
        -- apply (IH (pre ++ [_]) _ _ lf Hrest); [|intros Hn; cbn in Hn; congruence | exact Hlf'].
           cbn. rewrite Hns, Hh, Hset, Eo. repeat split; try assumption.
    + (* SOA *)
      rewrite (info_step_soa i _ Hty).
      apply (IH (pre ++ [_]) _ _ lf Hrest); [|intros Hn; cbn in Hn; apply (Hno' i Hn Hn) | exact Hlf'].
      cbn. repeat split; try assumption.
    + rewrite (info_step_other i _ Hty1 Hty2).
      apply (IH (pre ++ [_]) g i lf Hrest); [|intros Hn; apply (Hno' i Hn Hn) | exact Hlf'].
      repeat split; assumption.
    + rewrite (info_step_other i _ Hty1 Hty2).
      apply (IH (pre ++ [_]) g i lf Hrest); [|intros Hn; apply (Hno' i Hn Hn) | exact Hlf'].
      repeat split; assumption.
Qed.

(* the loop as srcgen hands it out (a function of the message and the state so far) on a whole Authority section *)
Lemma gen_extractDelegationInfo_loop (l : list (I_RR * rr)) hdr cmp qs an ex g i :
  Forall (fun p => rec_rel (fst p) (snd p)) l -> st_rel g i -> (di_owner i = None -> no_ns l) ->
  exists g', snd (snd (go_Resolver_extractDelegationInfo_loop1_run (mk_T_Msg hdr cmp qs an (map fst l) ex) g)) = g' /\
             fst (go_Resolver_extractDelegationInfo_loop1_run (mk_T_Msg hdr cmp qs an (map fst l) ex) g) = GoNext /\
             st_rel g' (fold_left info_step (map snd l) i).
Proof.
  intros Hl Hst Hno. unfold go_Resolver_extractDelegationInfo_loop1_run. cbn [T_Msg_Ns].
  destruct (info_loop (mk_T_Msg hdr cmp qs an (map fst l) ex) l [] g i (S (length (map fst l))) Hl Hst Hno) as [g' [E R]].
  { rewrite map_length. lia. }
  cbn [app length Z.of_nat] in E. rewrite E. exists g'. cbn. auto.
Qed.

(* non-vacuity, on the generated code: an anchored state (sub.evil.l1. IN, hosts {ns1.sub.evil.l1.}) meets a second NS of
   the set in another letter case (taken, minimum TTL, lower-cased host), an NS of another owner, one of class CH (both
   refused: incoherent) and a SOA *)
Definition S2i (s : string) : list N := s2b s.
Definition ns_i (owner : string) (cls ttl : N) (target : string) : I_RR := I_RR_of_NS (mk_T_NS (mk_T_RR_Header (S2i owner) 2 cls ttl 0) (S2i target)).
Definition anchored : T_delegationInfo :=
  mk_T_delegationInfo [(S2i "ns1.sub.evil.l1.", true)] (mk_T_NS (mk_T_RR_Header (S2i "sub.evil.l1.") 2 1 300 0) (S2i "ns1.sub.evil.l1.")) 300 false false.
Definition msg_i (ns : list I_RR) : T_Msg := mk_T_Msg (mk_T_MsgHdr 0 true 0%Z true false false false false false false 3%Z) false [] [] ns [].
Example extract_loop_examples :
  let run ns := snd (snd (go_Resolver_extractDelegationInfo_loop1_run (msg_i ns) anchored)) in
  (let g := run [ns_i "SUB.Evil.l1." 1 120 "NS2.sub.evil.l1."; ns_i "sub.evil.l1." 1 900 "ns1.SUB.evil.l1."] in
   T_delegationInfo_hosts g = [(S2i "ns1.sub.evil.l1.", true); (S2i "ns2.sub.evil.l1.", true)] /\ T_delegationInfo_nsTTL g = 120 /\
   T_delegationInfo_incoherent g = false) /\
  (let g := run [ns_i "victim.l2." 1 300 "ns.evil.l1."] in T_delegationInfo_incoherent g = true /\ T_delegationInfo_hosts g = T_delegationInfo_hosts anchored) /\
  (let g := run [ns_i "sub.evil.l1." 3 300 "ns9.sub.evil.l1."] in T_delegationInfo_incoherent g = true /\ T_delegationInfo_hosts g = T_delegationInfo_hosts anchored) /\
  (let g := run [I_RR_of_SOA (mk_T_SOA (mk_T_RR_Header (S2i "evil.l1.") 6 1 30 0) [] [] 1 1 1 1 1); I_RR_other 16 zero_T_RR_Header] in T_delegationInfo_hasSOA g = true /\ T_delegationInfo_incoherent g = false).
Proof. vm_compute. repeat split. Qed.
