(* C18 — blocklist: executable model of middleware/blocklist/blocklist.go
   (CanonicalName, Exists, matchHierarchy, setLocked, removeLocked, the four
   API mutations, snapshotLocked, persist with its version guard, ServeDNS)
   and of updater.go (loadInitial, parseHostFile).  Definitions only.

   The Go code works on *strings*: keys are presentation-form names, the
   hierarchy walk cuts the string after every unescaped '.' byte.  The model does the
   same on byte lists (str = list N); the label-level reading of the
   property lives in Spec.v and is related to this model in Proofs*.v.

   Go maps are modelled as duplicate-free lists (insertion order is the
   model's own; every statement about file contents is made for an arbitrary
   permutation, because Go's map iteration order is arbitrary).

   Constants ("*." prefix, key[2:], the header line, TTLs) come from
   Gen/C18.v, re-read from the Go source on every run. *)
From Sdns Require Import Common.Base Gen.C18.
Open Scope N_scope.

Definition str := list N.

Definition c_nl : N := 10.
Definition c_cr : N := 13.
Definition c_dot : N := 46.
Definition c_bs : N := 92.

Fixpoint str_eqb (a b : str) : bool :=
  match a, b with
  | [], [] => true
  | x :: xs, y :: ys => (x =? y) && str_eqb xs ys
  | _, _ => false
  end.

Definition mem (k : str) (l : list str) : bool := existsb (str_eqb k) l.
(* map[key] = true / delete(map, key) on a duplicate-free list *)
Definition add (k : str) (l : list str) : list str := if mem k l then l else l ++ [k].
Definition del (k : str) (l : list str) : list str := filter (fun x => negb (str_eqb k x)) l.
Definition is_nil {A} (l : list A) : bool := match l with [] => true | _ => false end.

(* strings.HasPrefix *)
Fixpoint has_prefix (p s : str) : bool :=
  match p, s with
  | [], _ => true
  | x :: xs, y :: ys => (x =? y) && has_prefix xs ys
  | _ :: _, [] => false
  end.

(* ---- dns.CanonicalName (miekg/dns v1.1.72): strings.Map(A-Z -> a-z, Fqdn(s)).
   Assumption: input is ASCII (strings.Map would rewrite invalid UTF-8). *)
Definition lower (c : N) : N := if (65 <=? c) && (c <=? 90) then c + 32 else c.
Fixpoint count_bs (r : str) : nat :=
  match r with
  | c :: t => if c =? c_bs then S (count_bs t) else O
  | [] => O
  end.
(* dns.IsFqdn: ends in '.', and that dot is not escaped (an even number of
   backslashes precedes it) *)
Definition is_fqdn (s : str) : bool :=
  match rev s with
  | c :: r => (c =? c_dot) && Nat.even (count_bs r)
  | [] => false
  end.
Definition fqdn (s : str) : str := if is_fqdn s then s else s ++ [c_dot].
Definition canonical (s : str) : str := map lower (fqdn s).

(* ---- the hierarchy walk: every key[offset:] where offset follows a '.' that
   separates two labels and offset < len(key).  nextDot: a backslash escapes
   the byte after it ("\." is a dot inside a label, "\DDD" any byte), so that
   byte is skipped. *)
Fixpoint dot_suffixes (s : str) : list str :=
  match s with
  | [] => []
  | c :: r =>
      if c =? c_bs then match r with [] => [] | _ :: r' => dot_suffixes r' end
      else if c =? c_dot then r :: dot_suffixes r
      else dot_suffixes r
  end.
(* nextDot itself, as the code has it: the index of the first '.' that separates two
   labels, -1 when there is none ([i] = index of the first byte of [s]); tied to the
   translated function by gen_nextDot and to dot_suffixes by walk_follows_next_dot *)
Fixpoint next_dot_from (s : str) (i : Z) : Z :=
  match s with
  | [] => (-1)%Z
  | c :: r =>
      if c =? c_bs then match r with [] => (-1)%Z | _ :: r' => next_dot_from r' (i + 2)%Z end
      else if c =? c_dot then i
      else next_dot_from r (i + 1)%Z
  end.
Definition next_dot (s : str) : Z := next_dot_from s 0%Z.
Definition nonempty (s : str) : bool := negb (is_nil s).
Definition cands (s : str) : list str := filter nonempty (dot_suffixes s).

(* matchHierarchy *)
Definition match_hierarchy (name : str) (m : list str) : bool :=
  if is_nil m then false
  else if mem name m then true
  else existsb (fun s => mem s m) (cands name).

Record bl := mk_bl { bm : list str; bwild : list str; bw : list str }.

(* BlockList.Exists *)
Definition bl_exists (b : bl) (key0 : str) : bool :=
  let key := canonical key0 in
  if match_hierarchy key (bw b) then false
  else if mem key (bm b) then true
  else if is_nil (bm b) && is_nil (bwild b) then false
  else existsb (fun s => mem s (bm b) || mem s (bwild b)) (cands key).

(* "*." and the 2 of key[2:] *)
(* setLocked / removeLocked: literals here, tied to the source through the TRANSLATED functions
   (Gen.C18.go_BlockList_setLocked / go_BlockList_removeLocked, Proofs_ops.gen_setLocked /
   gen_removeLocked) — the four source-text pins that used to supply them are gone *)
Definition set_wildp : str := [42; 46].
Definition remove_wildp : str := [42; 46].
Definition set_wild_skip : N := 2.
Definition remove_wild_skip : N := 2.
Definition persist_wildp : str := hd [] persist_wild_prefix_strs.

(* unicode.IsSpace on ASCII *)
Definition is_space (c : N) : bool :=
  (c =? 9) || (c =? 10) || (c =? 11) || (c =? 12) || (c =? 13) || (c =? 32).
(* persistable: no '#' (as the source spells it) and no white space *)
(* '#': tied to the source through the translated function (Gen.C18.go_persistable, gen_persistable) *)
Definition persist_comment_char : N := 35.
Definition persistable_ascii (key : str) : bool :=
  forallb (fun c => negb (c =? persist_comment_char) && negb (is_space c)) key.
(* unicode.IsSpace outside ASCII, as the UTF-8 octets of the runes: U+0085, U+00A0, U+1680,
   U+2000..U+200A, U+2028, U+2029, U+202F, U+205F, U+3000.  strings.IndexFunc decodes runes;
   on octets that is a substring search: each sequence starts with a lead octet (194, 225,
   226, 227), which the decoder never takes for a continuation octet, so a match of the whole
   sequence starts a rune, and decodes to that rune (also in ill-formed input). *)
Definition uspace_seqs : list str :=
  [[194; 133]; [194; 160]; [225; 154; 128];
   [226; 128; 128]; [226; 128; 129]; [226; 128; 130]; [226; 128; 131]; [226; 128; 132]; [226; 128; 133];
   [226; 128; 134]; [226; 128; 135]; [226; 128; 136]; [226; 128; 137]; [226; 128; 138];
   [226; 128; 168]; [226; 128; 169]; [226; 128; 175]; [226; 129; 159]; [227; 128; 128]].
Fixpoint has_uspace (s : str) : bool :=
  match s with
  | [] => false
  | _ :: r => existsb (fun p => has_prefix p s) uspace_seqs || has_uspace r
  end.
Definition persistable (key : str) : bool := persistable_ascii key && negb (has_uspace key).

(* setLocked *)
Definition set_locked (key0 : str) (b : bl) : bool * bl :=
  let key := canonical key0 in
  if match_hierarchy key (bw b) then (false, b)
  else if negb (persistable key) then (false, b)
  else if has_prefix set_wildp key
       then (true, mk_bl (bm b) (add (skipn (N.to_nat set_wild_skip) key) (bwild b)) (bw b))
       else (true, mk_bl (add key (bm b)) (bwild b) (bw b)).

(* removeLocked *)
Definition remove_locked (key0 : str) (b : bl) : bool * bl :=
  let key := canonical key0 in
  if mem key (bm b) then (true, mk_bl (del key (bm b)) (bwild b) (bw b))
  else if has_prefix remove_wildp key
       then let suffix := skipn (N.to_nat remove_wild_skip) key in
            if mem suffix (bwild b) then (true, mk_bl (bm b) (del suffix (bwild b)) (bw b))
            else (false, b)
       else (false, b).

Fixpoint batch (f : str -> bl -> bool * bl) (keys : list str) (b : bl) (n : N) : N * bl :=
  match keys with
  | [] => (n, b)
  | k :: r => let '(ok, b') := f k b in batch f r b' (if ok then n + 1 else n)
  end.

(* the four API mutations: result = (return value, snapshot taken?, memory) *)
Inductive op :=
| OpSet (k : str)
| OpRemove (k : str)
| OpSetBatch (ks : list str)
| OpRemoveBatch (ks : list str).

Definition b2n (b : bool) : N := if b then 1 else 0.

Definition apply_op (o : op) (b : bl) : N * bool * bl :=
  match o with
  | OpSet k => let '(ok, b') := set_locked k b in (b2n ok, ok, b')
  | OpRemove k => let '(ok, b') := remove_locked k b in (b2n ok, ok, b')
  | OpSetBatch ks =>
      if is_nil ks then (0, false, b)
      else let '(n, b') := batch set_locked ks b 0 in
           if n =? 0 then (0, false, b') else (n, true, b')
  | OpRemoveBatch ks =>
      if is_nil ks then (0, false, b)
      else let '(n, b') := batch remove_locked ks b 0 in
           if n =? 0 then (0, false, b') else (n, true, b')
  end.

(* ---- snapshots and the file *)
Record snap := mk_snap { sn_ver : N; sn_exact : list str; sn_wild : list str }.

Definition header : str := hd [] persist_header_strs.
Definition snap_lines (s : snap) : list str :=
  header :: sn_exact s ++ map (app persist_wildp) (sn_wild s).
(* every WriteString appends "\n" *)
Definition lines_bytes (ls : list str) : str := flat_map (fun l => l ++ [c_nl]) ls.
Definition snap_bytes (s : snap) : str := lines_bytes (snap_lines s).

(* snapshotLocked in the model's own order (version already bumped by the caller) *)
Definition snapshot_of (v : N) (b : bl) : snap := mk_snap v (bm b) (bwild b).

(* ---- system state for API histories: memory, version counter, what
   persist() has recorded, the `local` file, and the snapshots that were
   taken but whose persist() has not run yet. *)
Record sys := mk_sys {
  s_mem : bl;
  s_version : N;
  s_last : N;
  s_local : option str;
  s_pending : list snap }.

(* mutation + snapshot, atomic under mu.  [ex]/[wi] is the order in which the
   map iteration produced the entries: any permutation (checked by the
   step relation in Proofs; the executable step takes it as given). *)
Definition sys_mutate (o : op) (ex wi : list str) (s : sys) : N * sys :=
  let '(ret, snapped, b') := apply_op o (s_mem s) in
  if snapped
  then (ret, mk_sys b' (s_version s + 1) (s_last s) (s_local s)
               (s_pending s ++ [mk_snap (s_version s + 1) ex wi]))
  else (ret, mk_sys b' (s_version s) (s_last s) (s_local s) (s_pending s)).

(* persist(), atomic under saveMu, no I/O error *)
Definition persist_snap (sn : snap) (s : sys) : sys :=
  if negb (sn_ver sn =? 0) && (sn_ver sn <=? s_last s) then s
  else mk_sys (s_mem s) (s_version s) (sn_ver sn) (Some (snap_bytes sn)) (s_pending s).

Fixpoint remove_nth {A} (i : nat) (l : list A) : list A :=
  match i, l with
  | _, [] => []
  | O, _ :: r => r
  | S j, x :: r => x :: remove_nth j r
  end.

Definition sys_persist (i : nat) (s : sys) : sys :=
  match nth_error (s_pending s) i with
  | None => s
  | Some sn =>
      persist_snap sn (mk_sys (s_mem s) (s_version s) (s_last s) (s_local s) (remove_nth i (s_pending s)))
  end.

(* sequential API call = mutate then persist its own snapshot at once *)
Definition sys_call (o : op) (s : sys) : N * sys :=
  let '(_, snapped, b') := apply_op o (s_mem s) in
  let '(ret, s1) := sys_mutate o (bm b') (bwild b') s in
  (ret, if snapped then sys_persist (length (s_pending s1) - 1) s1 else s1).

(* ---- persist() step by step, with a crash point.  The directory holds
   `local` and the leftovers of earlier interrupted persists (temp files are
   named local.tmp.<random>, created in the same directory). *)
Record disk := mk_disk { d_local : option str; d_temps : list str }.

Inductive pstep := PCreate | PWrite (chunk : str) | PSync | PClose | PRename.
Definition persist_steps (s : snap) : list pstep :=
  PCreate :: map (fun l => PWrite (l ++ [c_nl])) (snap_lines s) ++ [PSync; PClose; PRename].

(* a persist in progress: the directory as it was + the temp file being written *)
Record pstate := mk_pstate { p_disk : disk; p_tmp : option str }.
Definition run_pstep (st : pstate) (p : pstep) : pstate :=
  match p, p_tmp st with
  | PCreate, _ => mk_pstate (p_disk st) (Some [])
  | PWrite c, Some t => mk_pstate (p_disk st) (Some (t ++ c))
  | PRename, Some t => mk_pstate (mk_disk (Some t) (d_temps (p_disk st))) None
  | _, _ => st
  end.
(* what a restart finds: the in-progress temp file stays behind *)
Definition after_crash (st : pstate) : disk :=
  match p_tmp st with
  | Some t => mk_disk (d_local (p_disk st)) (d_temps (p_disk st) ++ [t])
  | None => p_disk st
  end.
(* crash after [k] whole steps plus [j] bytes of the next write *)
Definition crash_at (d : disk) (s : snap) (k j : nat) : disk :=
  let st := fold_left run_pstep (firstn k (persist_steps s)) (mk_pstate d None) in
  match nth_error (persist_steps s) k, p_tmp st with
  | Some (PWrite c), Some t => after_crash (mk_pstate (p_disk st) (Some (t ++ firstn j c)))
  | _, _ => after_crash st
  end.
(* the same cut, by byte count of the temp file (how the driver produces it) *)
Definition crash_bytes (d : disk) (s : snap) (k : nat) : disk :=
  if (length (snap_bytes s) <=? k)%nat
  then mk_disk (Some (snap_bytes s)) (d_temps d)
  else mk_disk (d_local d) (d_temps d ++ [firstn k (snap_bytes s)]).

(* persist() when its k-th step RETURNS AN ERROR instead of the process dying (a
   failing write may have put [j] bytes of its chunk into the temp file first):
   CreateTemp failed -> nothing was created; any later step -> fail()/cleanup()
   close the temp file and os.Remove it, and persist returns before the rename and
   before lastPersisted is advanced.  k beyond the last step: nothing fails. *)
Definition remove_tmp (st : pstate) : disk := p_disk st.
Definition fail_at (d : disk) (s : snap) (k j : nat) : disk :=
  let st := fold_left run_pstep (firstn k (persist_steps s)) (mk_pstate d None) in
  match nth_error (persist_steps s) k, p_tmp st with
  | None, _ => after_crash st
  | Some (PWrite c), Some t => remove_tmp (mk_pstate (p_disk st) (Some (t ++ firstn j c)))
  | Some _, _ => remove_tmp st
  end.
(* the index of the named steps of persist(s): 0 = CreateTemp, 1 = Sync, 2 = Close, 3 = Rename *)
Definition fault_step (s : snap) (which : nat) : nat :=
  match which with
  | O => O
  | S w => (length (snap_lines s) + S w)%nat
  end.

(* ---- updater.go: parseHostFile *)
(* bufio.ScanLines: split at '\n', drop one trailing '\r', a final unterminated
   line counts if non-empty.  (Lines beyond bufio's 64 KiB token limit make the
   scanner stop with an error; not modelled — keys are short.) *)
Definition drop_cr (l : str) : str :=
  match rev l with
  | c :: r => if c =? c_cr then rev r else l
  | [] => l
  end.
Fixpoint split_lines_aux (s : str) (cur : str) : list str :=
  match s with
  | [] => if is_nil cur then [] else [drop_cr (rev cur)]
  | c :: r => if c =? c_nl then drop_cr (rev cur) :: split_lines_aux r [] else split_lines_aux r (c :: cur)
  end.
Definition split_lines (s : str) : list str := split_lines_aux s [].

Fixpoint trim_left (s : str) : str :=
  match s with
  | c :: r => if is_space c then trim_left r else s
  | [] => []
  end.
Definition trim (s : str) : str := rev (trim_left (rev (trim_left s))).

(* strings.Fields *)
Fixpoint fields_aux (s : str) (cur : str) : list str :=
  match s with
  | [] => if is_nil cur then [] else [rev cur]
  | c :: r =>
      if is_space c
      then (if is_nil cur then fields_aux r [] else rev cur :: fields_aux r [])
      else fields_aux r (c :: cur)
  end.
Definition fields (s : str) : list str := fields_aux s [].

Definition comment_str : str := hd [] parse_comment_strs.
Definition comment_char : N := hd 0 comment_str.
(* strings.Cut(line, "#"): the part before the first '#', and whether found *)
Fixpoint cut_at (c : N) (s : str) : str * bool :=
  match s with
  | [] => ([], false)
  | x :: r => if x =? c then ([], true) else let '(p, f) := cut_at c r in (x :: p, f)
  end.

(* the inner loop over the name fields *)
Fixpoint parse_names (names : list str) (b : bl) : bl :=
  match names with
  | [] => b
  | n :: r =>
      if has_prefix comment_str n then b
      else let cn := canonical n in
           parse_names r (if bl_exists b cn then b else snd (set_locked cn b))
  end.

Definition parse_line (line0 : str) (b : bl) : bl :=
  let line := trim line0 in
  if is_nil line || has_prefix comment_str line then b
  else let '(dom, found) := cut_at comment_char line in
       let line := if found then trim dom else line in
       let fs := fields line in
       match fs with
       | [] => b
       | [_] => parse_names fs b
       | _ :: rest => parse_names rest b
       end.

Definition parse_bytes (file : str) (b : bl) : bl :=
  fold_left (fun b l => parse_line l b) (split_lines file) b.

(* loadInitial: whitelist, configured blocklist through set(), then every
   file of the directory in filepath.Walk (lexical) order *)
Definition load_initial (whitelist blocklist : list str) (files : list str) : bl :=
  let b0 := mk_bl [] [] (fold_left (fun w e => add (canonical e) w) whitelist []) in
  let b1 := fold_left (fun b e => snd (set_locked e b)) blocklist b0 in
  fold_left (fun b f => parse_bytes f b) files b1.

(* refreshRemote, one second after New: after the downloads, readLists(true) parses the
   freshly downloaded "*.tmp" files — and nothing else: not `local`, not the other
   lists loadInitial already read (commit dba5ede) — into the LIVE memory through
   set(); no snapshot, no persist.  [downloads] are the contents of those files. *)
Definition sys_refresh (downloads : list str) (s : sys) : sys :=
  mk_sys (fold_left (fun b f => parse_bytes f b) downloads (s_mem s))
         (s_version s) (s_last s) (s_local s) (s_pending s).

(* what a start reads: loadInitial first deletes every local.tmp.* (leftovers of
   interrupted persists) and readBlocklists skips such names, so only `local`
   (and other lists, not modelled in [disk]) is parsed *)
Definition disk_files (d : disk) : list str :=
  match d_local d with Some f => [f] | None => [] end.
Definition after_restart (d : disk) : disk := mk_disk (d_local d) [].

(* ---- ServeDNS *)
(* owner, type, ttl, data (A/AAAA: the address as a number; SOA: MINIMUM) *)
Inductive rr := RR (rrtype ttl : N) (owner : str) (data : N).
Inductive outcome :=
| ONext                                               (* next handler ran once, nothing written *)
| OReply (rcode : N) (aa ra : bool) (an ns : list rr) (* written once, next handler not reached *)
| OOther (code : N).                                  (* anything else *)

Definition type_a : N := 1.
Definition type_aaaa : N := 28.
Definition type_soa : N := 6.

Definition serve (b : bl) (nullroute null6route : N) (qname : str) (qtype : N) : outcome :=
  if is_nil (bm b) && is_nil (bwild b) then ONext
  else if negb (bl_exists b qname) then ONext
  else if qtype =? type_a then OReply 0 true true [RR type_a ttl_a qname nullroute] []
  else if qtype =? type_aaaa then OReply 0 true true [RR type_aaaa ttl_aaaa qname null6route] []
  else OReply 0 true true [] [RR type_soa ttl_soa qname soa_minttl].
