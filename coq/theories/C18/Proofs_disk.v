(* C18 — persistence: for every interleaving of API mutations (atomic under
   mu, each taking a versioned snapshot) and persist() executions (atomic under
   saveMu, in any order), once no persist is outstanding the `local` file is
   the snapshot with the highest version, which is the memory; an interrupted
   persist leaves `local` complete, and a restart reads nothing but `local`
   (the leftover temp file is deleted: commit 329a134). *)
From Coq Require Import Permutation.
From Sdns Require Import Common.Base Gen.C18 C18.Model C18.Spec C18.Proofs_match.
Open Scope N_scope.

(* ---------------------------------------------------------------- mutations that take no snapshot change nothing *)

Lemma set_locked_false k b : fst (set_locked k b) = false -> snd (set_locked k b) = b.
Proof.
  unfold set_locked. destruct (match_hierarchy (canonical k) (bw b)); [reflexivity|].
  destruct (negb (persistable (canonical k))); [reflexivity|].
  destruct (has_prefix set_wildp (canonical k)); cbn; discriminate.
Qed.
Lemma remove_locked_false k b : fst (remove_locked k b) = false -> snd (remove_locked k b) = b.
Proof.
  unfold remove_locked. destruct (mem (canonical k) (bm b)); [cbn; discriminate|].
  destruct (has_prefix remove_wildp (canonical k)); [|reflexivity].
  destruct (mem _ (bwild b)); [cbn; discriminate|reflexivity].
Qed.

Lemma batch_zero (f : str -> bl -> bool * bl) :
  (forall k b, fst (f k b) = false -> snd (f k b) = b) ->
  forall keys b n, n <= fst (batch f keys b n) /\ (fst (batch f keys b n) = n -> snd (batch f keys b n) = b).
Proof.
  intros Hf. induction keys as [|k keys IH]; intros b n; cbn.
  - split; [lia|reflexivity].
  - specialize (Hf k b). destruct (f k b) as [ok b'] eqn:E. cbn in Hf.
    destruct ok.
    + destruct (IH b' (n + 1)) as [A _]. split; [lia|]. intros H. lia.
    + destruct (IH b' n) as [A B]. split; [exact A|]. intros H. rewrite (B H). now apply Hf.
Qed.

Lemma apply_op_nosnap o b : snd (fst (apply_op o b)) = false -> snd (apply_op o b) = b.
Proof.
  destruct o as [k|k|ks|ks]; cbn.
  - pose proof (set_locked_false k b) as H. destruct (set_locked k b) as [ok b']. cbn in *. exact H.
  - pose proof (remove_locked_false k b) as H. destruct (remove_locked k b) as [ok b']. cbn in *. exact H.
  - destruct (is_nil ks); [reflexivity|].
    pose proof (batch_zero set_locked set_locked_false ks b 0) as [_ H].
    destruct (batch set_locked ks b 0) as [n b']. cbn in *.
    destruct (n =? 0) eqn:E; cbn; [|discriminate]. intros _. apply H. now apply N.eqb_eq.
  - destruct (is_nil ks); [reflexivity|].
    pose proof (batch_zero remove_locked remove_locked_false ks b 0) as [_ H].
    destruct (batch remove_locked ks b 0) as [n b']. cbn in *.
    destruct (n =? 0) eqn:E; cbn; [|discriminate]. intros _. apply H. now apply N.eqb_eq.
Qed.

(* ---------------------------------------------------------------- the interleaving system *)

(* the order in which snapshotLocked's map iteration lists the entries is arbitrary *)
Definition snap_matches (sn : snap) (b : bl) : Prop :=
  Permutation (sn_exact sn) (bm b) /\ Permutation (sn_wild sn) (bwild b).

Inductive step : sys -> sys -> Prop :=
| StepMutate o ex wi s :
    snap_matches (mk_snap 0 ex wi) (snd (apply_op o (s_mem s))) ->
    step s (snd (sys_mutate o ex wi s))
| StepPersist i s :
    (i < length (s_pending s))%nat ->
    step s (sys_persist i s).

Inductive steps : sys -> sys -> Prop :=
| steps_refl s : steps s s
| steps_next s t u : steps s t -> step t u -> steps s u.

Definition init (b : bl) (local : option str) : sys := mk_sys b 0 0 local [].

Record inv (b0 : bl) (l0 : option str) (s : sys) : Prop := mk_inv {
  inv_zero : s_version s = 0 -> s_mem s = b0 /\ s_local s = l0 /\ s_pending s = [] /\ s_last s = 0;
  inv_pending : forall sn, In sn (s_pending s) -> 1 <= sn_ver sn <= s_version s;
  inv_last : s_last s <= s_version s;
  inv_newest : forall sn, In sn (s_pending s) -> sn_ver sn = s_version s -> snap_matches sn (s_mem s);
  inv_disk : 0 < s_version s ->
     (s_last s = s_version s /\ exists sn, sn_ver sn = s_version s /\ snap_matches sn (s_mem s) /\ s_local s = Some (snap_bytes sn))
     \/ (s_last s < s_version s /\ exists sn, In sn (s_pending s) /\ sn_ver sn = s_version s) }.

Lemma inv_init b0 l0 : inv b0 l0 (init b0 l0).
Proof.
  constructor; cbn; try easy; intros; lia.
Qed.

Lemma In_remove_nth {A} (x : A) i l : In x (remove_nth i l) -> In x l.
Proof.
  revert i; induction l as [|y l IH]; intros [|i]; cbn; try easy.
  - now right.
  - intros [->|H]; [now left|right; eauto].
Qed.
Lemma In_remove_nth_other {A} (x y : A) i l :
  nth_error l i = Some y -> In x l -> x <> y -> In x (remove_nth i l).
Proof.
  revert i; induction l as [|z l IH]; intros [|i]; cbn; try easy.
  - intros [= ->] [->|H] Hne; [congruence|exact H].
  - intros Hn [->|H] Hne; [now left|right; eauto].
Qed.

Lemma inv_step b0 l0 s t : inv b0 l0 s -> step s t -> inv b0 l0 t.
Proof.
  intros I St. destruct St as [o ex wi s Hm|i s Hi].
  - (* mutation + snapshot under mu *)
    unfold sys_mutate. pose proof (apply_op_nosnap o (s_mem s)) as Hno.
    destruct (apply_op o (s_mem s)) as [[ret snapped] b'] eqn:E. cbn in Hno, Hm.
    destruct snapped; cbn [snd].
    + constructor; cbn.
      * intros H. lia.
      * intros sn H. apply in_app_iff in H as [H|[<-|[]]]; [apply (inv_pending _ _ _ I) in H; lia|cbn; lia].
      * pose proof (inv_last _ _ _ I). lia.
      * intros sn H Hv. apply in_app_iff in H as [H|[<-|[]]]; [apply (inv_pending _ _ _ I) in H; lia|exact Hm].
      * intros _. right. split; [pose proof (inv_last _ _ _ I); lia|].
        eexists. split; [apply in_app_iff; right; now left|reflexivity].
    + rewrite (Hno eq_refl). destruct I as [I0 I1 I2 I3 I4]. constructor; cbn; assumption.
  - (* persist under saveMu *)
    unfold sys_persist. destruct (nth_error (s_pending s) i) as [sn|] eqn:En; [|exact I].
    assert (Hin : In sn (s_pending s)) by (eapply nth_error_In; eauto).
    pose proof (inv_pending _ _ _ I sn Hin) as Hv.
    unfold persist_snap. cbn [s_last s_mem s_version s_local s_pending].
    destruct (negb (sn_ver sn =? 0) && (sn_ver sn <=? s_last s)) eqn:G.
    + (* not newer than what is on disk: dropped *)
      apply andb_true_iff in G as [_ G]. apply N.leb_le in G.
      constructor; cbn.
      * intros H. lia.
      * intros x H. apply In_remove_nth in H. now apply (inv_pending _ _ _ I).
      * apply (inv_last _ _ _ I).
      * intros x H. apply In_remove_nth in H. now apply (inv_newest _ _ _ I).
      * intros Hp. destruct (inv_disk _ _ _ I Hp) as [A|[A (x & Hx & Hxv)]]; [now left|].
        right. split; [exact A|]. exists x. split; [|exact Hxv].
        eapply In_remove_nth_other; eauto. intros ->. lia.
    + (* written: temp file, fsync, rename; lastPersisted := version *)
      assert (G' : s_last s < sn_ver sn).
      { apply andb_false_iff in G as [G|G].
        - apply negb_false_iff, N.eqb_eq in G. lia.
        - apply N.leb_gt in G. exact G. }
      constructor; cbn.
      * intros H. lia.
      * intros x H. apply In_remove_nth in H. now apply (inv_pending _ _ _ I).
      * lia.
      * intros x H. apply In_remove_nth in H. now apply (inv_newest _ _ _ I).
      * intros Hp. destruct (N.eq_dec (sn_ver sn) (s_version s)) as [Ev|Ev].
        -- left. split; [exact Ev|]. exists sn. repeat split; try assumption; now apply (inv_newest _ _ _ I).
        -- right. split; [lia|]. destruct (inv_disk _ _ _ I Hp) as [[A _]|[A (x & Hx & Hxv)]]; [lia|].
           exists x. split; [|exact Hxv]. eapply In_remove_nth_other; eauto. intros ->. congruence.
Qed.

Lemma inv_steps b0 l0 s : steps (init b0 l0) s -> inv b0 l0 s.
Proof.
  intros H. remember (init b0 l0) as s0 eqn:E. induction H as [s|s t u _ IH St]; subst.
  - apply inv_init.
  - eapply inv_step; [apply IH; reflexivity|exact St].
Qed.

(* disk_converges: for every interleaving, when no persist is outstanding,
   either nothing was ever changed (memory and file are the initial ones) or
   `local` is byte for byte the snapshot carrying the highest version, whose
   entries are exactly the memory's (in the order the map iteration chose). *)
Lemma disk_converges_lemma b0 l0 s :
  steps (init b0 l0) s -> s_pending s = [] ->
  (s_version s = 0 /\ s_mem s = b0 /\ s_local s = l0) \/
  (s_last s = s_version s /\
   exists ex wi, Permutation ex (bm (s_mem s)) /\ Permutation wi (bwild (s_mem s)) /\
                 s_local s = Some (snap_bytes (mk_snap (s_version s) ex wi))).
Proof.
  intros St Hp. apply inv_steps in St. destruct (N.eq_dec (s_version s) 0) as [E|E].
  - left. destruct (inv_zero _ _ _ St E) as (A & B & _). easy.
  - right. assert (Hpos : 0 < s_version s) by lia.
    destruct (inv_disk _ _ _ St Hpos) as [[A (sn & Hv & [P1 P2] & Hl)]|[_ (x & Hx & _)]]; [|rewrite Hp in Hx; destruct Hx].
    split; [exact A|]. exists (sn_exact sn), (sn_wild sn). split; [exact P1|split; [exact P2|]].
    rewrite Hl. destruct sn; cbn in *. now subst.
Qed.

(* a stale snapshot never lands on top of a newer one *)
Lemma disk_never_goes_back b0 l0 s i :
  steps (init b0 l0) s -> s_last s <= s_last (sys_persist i s).
Proof.
  intros St. apply inv_steps in St. unfold sys_persist.
  destruct (nth_error (s_pending s) i) as [sn|] eqn:En; [|lia].
  assert (Hv : 1 <= sn_ver sn) by (apply (inv_pending _ _ _ St); eapply nth_error_In; eauto).
  unfold persist_snap. cbn [s_last]. destruct (negb (sn_ver sn =? 0) && (sn_ver sn <=? s_last s)) eqn:G; cbn; [lia|].
  apply andb_false_iff in G as [G|G]; [apply negb_false_iff, N.eqb_eq in G; lia|apply N.leb_gt in G; lia].
Qed.

(* without the version guard the property fails: the schedule
   mutate A; mutate B; persist B; persist A leaves A's (older) file.  This is the
   model's witness that the guard is what the proof rests on. *)
Definition unguarded_persist (sn : snap) (s : sys) : sys :=
  mk_sys (s_mem s) (s_version s) (sn_ver sn) (Some (snap_bytes sn)) (s_pending s).
Lemma guard_is_needed :
  let k1 := [97; 46] in let k2 := [98; 46] in
  let s0 := init (mk_bl [] [] []) None in
  let s1 := snd (sys_mutate (OpSet k1) [k1] [] s0) in
  let s2 := snd (sys_mutate (OpSet k2) [k1; k2] [] s1) in
  match s_pending s2 with
  | [a; b] => s_local (unguarded_persist a (unguarded_persist b s2)) <> Some (snap_bytes (mk_snap 2 (bm (s_mem s2)) []))
              /\ s_local (sys_persist 0 (sys_persist 1 s2)) = Some (snap_bytes (mk_snap 2 (bm (s_mem s2)) []))
  | _ => False
  end.
Proof. cbn. split; [discriminate|reflexivity]. Qed.

(* the proof rests on "every snapshot that was taken is handed to persist()" and on
   "persist() drops a snapshot only for one that is already on disk".  A variant
   in which a call that changes nothing still bumps the version (and saves nothing),
   while persist() also drops a snapshot because a newer version "has been taken",
   does not converge: the real change below never reaches the file. *)
Definition persist_if_newest (sn : snap) (s : sys) : sys :=
  if negb (sn_ver sn =? 0) && ((sn_ver sn <=? s_last s) || (sn_ver sn <? s_version s)) then s
  else mk_sys (s_mem s) (s_version s) (sn_ver sn) (Some (snap_bytes sn)) (s_pending s).
Lemma dropping_for_a_taken_version_is_unsound :
  let k := [97; 46] in
  let s1 := snd (sys_mutate (OpSet k) [k] [] (init (mk_bl [] [] []) None)) in
  let s2 := mk_sys (s_mem s1) (s_version s1 + 1) (s_last s1) (s_local s1) (s_pending s1) in
  match s_pending s2 with
  | [a] => s_local (persist_if_newest a s2) = None /\ bm (s_mem s2) = [k]
           /\ s_local (persist_snap a s2) = Some (snap_bytes (mk_snap 1 [k] []))
  | _ => False
  end.
Proof. cbn. repeat split; reflexivity. Qed.

(* A-B-A: the list returns to a content it had before — the content of the file — under
   a newer version, and the newer snapshot reaches persist() first.  persist() compares
   VERSIONS, never content: the newer snapshot is written (same lines, lastPersisted
   advanced), the older sibling is then dropped; disk_converges covers it like any other
   interleaving.  Set a. saved; Remove a. (v2); Set a. (v3); persist v3; persist v2. *)
Definition aba_k : str := [97; 46].
Definition aba_s0 : sys := init (mk_bl [] [] []) None.
Definition aba_s1 : sys := sys_persist 0 (snd (sys_mutate (OpSet aba_k) [aba_k] [] aba_s0)).
Definition aba_s3 : sys := snd (sys_mutate (OpSet aba_k) [aba_k] [] (snd (sys_mutate (OpRemove aba_k) [] [] aba_s1))).
Definition aba_s5 : sys := sys_persist 0 (sys_persist 1 aba_s3).
Lemma aba_is_an_interleaving : steps aba_s0 aba_s5.
Proof.
  assert (P : forall i s, Nat.ltb i (length (s_pending s)) = true -> step s (sys_persist i s))
    by (intros i s H; apply StepPersist, Nat.ltb_lt, H).
  assert (M : forall o ex wi s, ex = bm (snd (apply_op o (s_mem s))) -> wi = bwild (snd (apply_op o (s_mem s))) ->
              step s (snd (sys_mutate o ex wi s)))
    by (intros o ex wi s -> ->; apply StepMutate; split; apply Permutation_refl).
  unfold aba_s5. eapply steps_next; [|apply P; reflexivity].
  eapply steps_next; [|apply P; reflexivity].
  unfold aba_s3. eapply steps_next; [|apply M; reflexivity].
  eapply steps_next; [|apply M; reflexivity].
  unfold aba_s1. eapply steps_next; [|apply P; reflexivity].
  eapply steps_next; [|apply M; reflexivity].
  apply steps_refl.
Qed.
Lemma aba_example :
  s_local aba_s1 = Some (snap_bytes (mk_snap 1 [aba_k] [])) /\
  List.map sn_ver (s_pending aba_s3) = [2; 3] /\ bm (s_mem aba_s3) = [aba_k] /\
  s_pending aba_s5 = [] /\ s_last aba_s5 = 3 /\ s_version aba_s5 = 3 /\
  s_local aba_s5 = Some (snap_bytes (mk_snap 3 (bm (s_mem aba_s5)) [])).
Proof. cbn. repeat split; reflexivity. Qed.

Lemma aba_converges_lemma :
  steps aba_s0 aba_s5 /\ s_pending aba_s5 = [] /\
  (* the content of the file when v3 was saved was already v3's content *)
  s_local aba_s1 = Some (snap_bytes (mk_snap 3 [aba_k] [])) /\
  s_last aba_s5 = s_version aba_s5 /\
  s_local aba_s5 = Some (snap_bytes (mk_snap (s_version aba_s5) (bm (s_mem aba_s5)) (bwild (s_mem aba_s5)))).
Proof. split; [exact aba_is_an_interleaving|]. cbn. repeat split; reflexivity. Qed.

(* ... and a persist() that skips a snapshot because its CONTENT equals the file, without
   recording its version, is unsound on exactly this history: v3 is skipped, v2 then passes
   the version guard and is written — the file holds the empty list, the memory holds a. *)
Definition persist_skip_equal (sn : snap) (s : sys) : sys :=
  if negb (sn_ver sn =? 0) && (sn_ver sn <=? s_last s) then s
  else match s_local s with
       | Some f => if str_eqb f (snap_bytes sn) then s
                   else mk_sys (s_mem s) (s_version s) (sn_ver sn) (Some (snap_bytes sn)) (s_pending s)
       | None => mk_sys (s_mem s) (s_version s) (sn_ver sn) (Some (snap_bytes sn)) (s_pending s)
       end.
Lemma skipping_equal_content_is_unsound :
  match s_pending aba_s3 with
  | [v2; v3] =>
      let s := persist_skip_equal v2 (persist_skip_equal v3 aba_s3) in
      s_local s = Some (snap_bytes (mk_snap 2 [] [])) /\ s_last s = 2 /\ bm (s_mem s) = [aba_k]
      /\ s_local s <> Some (snap_bytes (mk_snap 3 (bm (s_mem s)) []))
  | _ => False
  end.
Proof. cbn. repeat split; try reflexivity. discriminate. Qed.

(* ---------------------------------------------------------------- interruption *)

Lemma fold_writes d chunks acc :
  fold_left run_pstep (map PWrite chunks) (mk_pstate d (Some acc)) = mk_pstate d (Some (acc ++ concat chunks)).
Proof.
  revert acc; induction chunks as [|c r IH]; intros acc; cbn.
  - now rewrite app_nil_r.
  - rewrite IH. now rewrite <- app_assoc.
Qed.

Definition chunks_of (s : snap) : list str := map (fun l => l ++ [c_nl]) (snap_lines s).
Lemma persist_steps_eq s : persist_steps s = PCreate :: map PWrite (chunks_of s) ++ [PSync; PClose; PRename].
Proof. unfold persist_steps, chunks_of. now rewrite map_map. Qed.
Lemma snap_bytes_concat s : snap_bytes s = concat (chunks_of s).
Proof. unfold snap_bytes, lines_bytes, chunks_of. apply flat_map_concat_map. Qed.

(* the state after the first k steps of persist(s) on directory d *)
Lemma pstate_after d s k :
  let st := fold_left run_pstep (firstn k (persist_steps s)) (mk_pstate d None) in
  (st = mk_pstate d None /\ k = O) \/
  (exists pre, st = mk_pstate d (Some (concat (firstn pre (chunks_of s)))) /\ (pre <= length (chunks_of s))%nat) \/
  st = mk_pstate (mk_disk (Some (snap_bytes s)) (d_temps d)) None.
Proof.
  cbn zeta. rewrite persist_steps_eq. destruct k as [|k]; [left; easy|right].
  cbn [firstn fold_left run_pstep p_tmp p_disk]. rewrite firstn_app, fold_left_app, firstn_map, fold_writes. cbn [app].
  rewrite map_length. set (m := (k - length (chunks_of s))%nat).
  destruct (Nat.le_gt_cases (length (chunks_of s)) k) as [Hk|Hk].
  - rewrite (firstn_all2 (chunks_of s)) by exact Hk.
    destruct m as [|[|[|m]]]; cbn [firstn fold_left run_pstep p_tmp p_disk app d_temps].
    + left. exists (length (chunks_of s)). split; [now rewrite firstn_all|apply le_n].
    + left. exists (length (chunks_of s)). split; [now rewrite firstn_all|apply le_n].
    + left. exists (length (chunks_of s)). split; [now rewrite firstn_all|apply le_n].
    + right. rewrite firstn_nil. cbn [fold_left]. now rewrite snap_bytes_concat.
  - assert (m = O) as -> by (unfold m; lia). cbn [firstn fold_left]. left. exists k. split; [reflexivity|lia].
Qed.

(* crash_leaves_complete_file: whatever the crash point — after any number of
   whole steps and any number of bytes of the next write — `local` is the previous
   file, untouched, or the complete new one *)
Lemma crash_leaves_complete_file_lemma d s k j :
  d_local (crash_at d s k j) = d_local d \/ d_local (crash_at d s k j) = Some (snap_bytes s).
Proof.
  unfold crash_at. destruct (pstate_after d s k) as [[E _]|[(pre & E & _)|E]]; cbn zeta in E; rewrite E; cbn.
  - destruct (nth_error (persist_steps s) k) as [[]|]; now left.
  - destruct (nth_error (persist_steps s) k) as [[]|]; now left.
  - destruct (nth_error (persist_steps s) k) as [[]|]; now right.
Qed.

Lemma crash_bytes_complete d s k :
  d_local (crash_bytes d s k) = d_local d \/ d_local (crash_bytes d s k) = Some (snap_bytes s).
Proof. unfold crash_bytes. destruct (_ <=? _)%nat; [now right|now left]. Qed.

(* an uninterrupted run replaces the file and leaves no temp file of its own *)
Lemma persist_completes d s :
  after_crash (fold_left run_pstep (persist_steps s) (mk_pstate d None)) = mk_disk (Some (snap_bytes s)) (d_temps d).
Proof.
  rewrite snap_bytes_concat, persist_steps_eq. cbn [fold_left run_pstep p_tmp p_disk].
  rewrite fold_left_app, fold_writes. reflexivity.
Qed.

(* ---------------------------------------------------------------- a step that returns an error *)

Lemma run_pstep_keeps_disk st p : p <> PRename -> p_disk (run_pstep st p) = p_disk st.
Proof. destruct p, (p_tmp st) eqn:E; unfold run_pstep; rewrite ?E; cbn; congruence. Qed.

Lemma fold_no_rename l st : ~ In PRename l -> p_disk (fold_left run_pstep l st) = p_disk st.
Proof.
  revert st; induction l as [|p l IH]; intros st H; cbn; [reflexivity|].
  rewrite IH by (intros X; apply H; now right).
  apply run_pstep_keeps_disk. intros ->. apply H. now left.
Qed.

Lemma in_firstn_in {A} (x : A) k l : In x (firstn k l) -> In x l.
Proof.
  revert k; induction l as [|y l IH]; intros [|k]; cbn; try easy.
  intros [->|H]; [now left|right; eauto].
Qed.

Lemma persist_steps_split s :
  persist_steps s = (PCreate :: map PWrite (chunks_of s) ++ [PSync; PClose]) ++ [PRename].
Proof. rewrite persist_steps_eq. cbn. now rewrite <- app_assoc. Qed.

Lemma no_rename_before_last s k :
  (k < length (persist_steps s))%nat -> ~ In PRename (firstn k (persist_steps s)).
Proof.
  rewrite persist_steps_split, app_length. intros Hk.
  rewrite firstn_app. replace (k - _)%nat with O by (cbn [length] in *; lia). cbn [firstn]. rewrite app_nil_r.
  intros H. apply in_firstn_in, in_inv in H. destruct H as [H|H]; [discriminate|].
  apply in_app_iff in H as [H|[H|[H|[]]]]; try discriminate.
  apply in_map_iff in H as (c & Hc & _). discriminate.
Qed.

(* io_error_leaves_previous_file: whichever step of persist() returns an error —
   CreateTemp, any write (after any number of bytes), Sync, Close, Rename — the
   directory is exactly what it was: `local` untouched, no temp file left *)
Lemma fail_at_leaves_disk d s k j :
  (k < length (persist_steps s))%nat -> fail_at d s k j = d.
Proof.
  intros Hk. unfold fail_at, remove_tmp.
  pose proof (fold_no_rename _ (mk_pstate d None) (no_rename_before_last s k Hk)) as E. cbn in E.
  destruct (nth_error (persist_steps s) k) as [p|] eqn:En.
  - destruct p, (p_tmp (fold_left run_pstep (firstn k (persist_steps s)) (mk_pstate d None))); cbn; exact E.
  - apply nth_error_None in En. lia.
Qed.

(* and with no step failing it is the complete run *)
Lemma fail_at_none d s k j :
  (length (persist_steps s) <= k)%nat -> fail_at d s k j = mk_disk (Some (snap_bytes s)) (d_temps d).
Proof.
  intros Hk. unfold fail_at. rewrite (proj2 (nth_error_None _ _) Hk), firstn_all2 by exact Hk.
  apply persist_completes.
Qed.

(* the named steps are steps of persist(s) *)
Lemma fault_step_in_range s which : (which < 4)%nat -> (fault_step s which < length (persist_steps s))%nat.
Proof.
  intros H. unfold fault_step, persist_steps. generalize (snap_lines s) as L. intros L.
  cbn [length]. rewrite app_length, map_length. cbn [length].
  unfold str in *. destruct which as [|w]; lia.
Qed.

Lemma io_error_steps_cover_lemma d s :
  (forall which, (which < 4)%nat -> fail_at d s (fault_step s which) 0 = d) /\
  (forall k j, (length (persist_steps s) <= k)%nat -> fail_at d s k j = mk_disk (Some (snap_bytes s)) (d_temps d)).
Proof.
  split.
  - intros which H. apply fail_at_leaves_disk, fault_step_in_range, H.
  - intros k j. apply fail_at_none.
Qed.

(* non-vacuous: previous file {com.}, new snapshot {com., x.test.}: Sync is step 4 of 6 *)
Example io_error_example :
  let d := mk_disk (Some (lines_bytes [header; [99;111;109;46]])) [] in
  let s := mk_snap 2 [[99;111;109;46]; [120;46;116;101;115;116;46]] [] in
  fault_step s 1 = 4%nat /\ length (persist_steps s) = 7%nat /\
  fail_at d s 4 0 = d /\ fail_at d s 2 3 = d /\ d_local (fail_at d s 7 0) = Some (snap_bytes s).
Proof. cbn. repeat split; reflexivity. Qed.

(* The restart (what "leaves the previous complete file rather than a partial one"
   is for): whatever the crash point and whatever older leftovers lie in the
   directory, loadInitial loads the previous file or the complete new one — the
   temp files are deleted before anything is read. *)
Lemma crash_reload_lemma wl bl d s k j :
  let d' := crash_at d s k j in
  (load_initial wl bl (disk_files d') = load_initial wl bl (disk_files d) \/
   load_initial wl bl (disk_files d') = load_initial wl bl [snap_bytes s]) /\
  d_temps (after_restart d') = [].
Proof.
  cbn zeta. split; [|reflexivity]. unfold disk_files.
  destruct (crash_leaves_complete_file_lemma d s k j) as [E|E]; rewrite E; [now left|now right].
Qed.

(* the witness that refuted this before the repair, now on the right side: previous
   file {com.evil.test.}, Set(x.test.) interrupted 3 bytes into the first entry
   line; the restart does not block example.com. *)
Definition crash_old : str := lines_bytes [header; [99;111;109;46;101;118;105;108;46;116;101;115;116;46]].
Definition crash_snap : snap := mk_snap 2 [[99;111;109;46;101;118;105;108;46;116;101;115;116;46]; [120;46;116;101;115;116;46]] [].
Definition crash_probe : str := [101;120;97;109;112;108;101;46;99;111;109;46].   (* example.com. *)
Lemma crash_reload_example :
  let d := mk_disk (Some crash_old) [] in
  let d' := crash_at d crash_snap 2 3 in
  d_temps d' = [header ++ [c_nl] ++ [99;111;109]] /\
  bl_exists (load_initial [] [] (disk_files d')) crash_probe = false /\
  load_initial [] [] (disk_files d') = load_initial [] [] (disk_files d).
Proof. vm_compute. repeat split; reflexivity. Qed.

(* ---------------------------------------------------------------- the background refresh in between *)

(* The code has one more actor than the API: refreshRemote, one second after New.
   Since dba5ede it parses only freshly downloaded lists; it never touches `local`,
   the version counter or the outstanding snapshots, and with no remote list
   configured it does nothing at all — so it can land anywhere in an interleaving
   without disturbing convergence.  (Before dba5ede it re-read `local` and could put a
   just-removed entry back in memory only: see refresh_reread_example.) *)
Lemma sys_refresh_nil s : sys_refresh [] s = s.
Proof. now destruct s. Qed.

Lemma sys_refresh_disk dl s :
  s_local (sys_refresh dl s) = s_local s /\ s_pending (sys_refresh dl s) = s_pending s /\
  s_version (sys_refresh dl s) = s_version s /\ s_last (sys_refresh dl s) = s_last s.
Proof. repeat split. Qed.

Inductive rstep : sys -> sys -> Prop :=
| RApi s t : step s t -> rstep s t
| RRefresh s : rstep s (sys_refresh [] s).
Inductive rsteps : sys -> sys -> Prop :=
| rsteps_refl s : rsteps s s
| rsteps_next s t u : rsteps s t -> rstep t u -> rsteps s u.

Lemma rsteps_steps s t : rsteps s t -> steps s t.
Proof.
  induction 1 as [s|s t u _ IH St]; [constructor|].
  destruct St as [t u St|t]; [eapply steps_next; eauto|now rewrite sys_refresh_nil].
Qed.

Lemma refresh_convergence_lemma b0 l0 s :
  rsteps (init b0 l0) s -> s_pending s = [] ->
  (s_version s = 0 /\ s_mem s = b0 /\ s_local s = l0) \/
  (s_last s = s_version s /\
   exists ex wi, Permutation ex (bm (s_mem s)) /\ Permutation wi (bwild (s_mem s)) /\
                 s_local s = Some (snap_bytes (mk_snap (s_version s) ex wi))).
Proof. intros H. apply disk_converges_lemma. now apply rsteps_steps. Qed.

(* the schedule that refuted this before dba5ede, on the old and on the new refresh:
   re-reading `local` between Remove's mutation and its persist() *)
Lemma refresh_reread_example :
  let x := [120; 46; 116; 101; 115; 116; 46] in
  let s0 := mk_sys (mk_bl [x] [] []) 1 1 (Some (lines_bytes [header; x])) [] in
  let s1 := snd (sys_mutate (OpRemove x) [] [] s0) in
  (* old refresh = parsing `local` as if it were a download *)
  bm (s_mem (sys_persist 0 (sys_refresh [lines_bytes [header; x]] s1))) = [x] /\
  s_local (sys_persist 0 (sys_refresh [lines_bytes [header; x]] s1)) = Some (lines_bytes [header]) /\
  (* new refresh *)
  bm (s_mem (sys_persist 0 (sys_refresh [] s1))) = [] /\
  s_local (sys_persist 0 (sys_refresh [] s1)) = Some (lines_bytes [header]).
Proof. vm_compute. repeat split; reflexivity. Qed.
