(* C18 — the list the API has ACKNOWLEDGED (definitions only).

   "A name is blocked exactly when it or a parent is LISTED": listed by whom?  By the
   calls that said so.  This file reads a history of API calls with their return values
   as a list of entries, without looking at the memory of the BlockList:
     Set k, answered true            lists k (as a wildcard entry when k reads "*.suffix");
     Remove k / RemoveBatch ks       un-list the keys they name (whatever they answer);
     SetBatch ks, answered len(ks)   lists every key of ks;
     SetBatch ks, answered 0         lists nothing;
     SetBatch ks, answered 0<n<len   lists an unknown part of ks (the others were refused:
                                     whitelisted, '#', white space) — the lower list [lo]
                                     gets none of them, the upper list [hi] all of them.
   Keys are brought to canonical form (lower case, trailing dot) as everywhere.
   Proofs_ack.v: on the model, lo ⊆ memory ⊆ hi after every history, hence what the
   acknowledged list blocks is what Exists blocks; Run.check_case evaluates the same
   bracket on what the drivers observed (real Set/Remove/SetBatch/RemoveBatch, HTTP API). *)
From Sdns Require Import Common.Base Gen.C18 C18.Model.
Open Scope N_scope.

Definition ack_set (k : str) (b : bl) : bl :=
  let key := canonical k in
  if has_prefix set_wildp key
  then mk_bl (bm b) (add (skipn (N.to_nat set_wild_skip) key) (bwild b)) (bw b)
  else mk_bl (add key (bm b)) (bwild b) (bw b).

(* for lists whose plain entries do not read "*.…" (every list the code builds:
   setLocked files such keys under wild) *)
Definition ack_remove (k : str) (b : bl) : bl :=
  let key := canonical k in
  if has_prefix remove_wildp key
  then mk_bl (bm b) (del (skipn (N.to_nat remove_wild_skip) key) (bwild b)) (bw b)
  else mk_bl (del key (bm b)) (bwild b) (bw b).

Definition ack_sets (ks : list str) (b : bl) : bl := fold_left (fun b k => ack_set k b) ks b.
Definition ack_removes (ks : list str) (b : bl) : bl := fold_left (fun b k => ack_remove k b) ks b.

Definition ack_step (a : bl * bl) (p : op * N) : bl * bl :=
  let '(lo, hi) := a in
  match p with
  | (OpSet k, r) => if r =? 0 then a else (ack_set k lo, ack_set k hi)
  | (OpRemove k, _) => (ack_remove k lo, ack_remove k hi)
  | (OpSetBatch ks, r) =>
      if r =? 0 then a
      else if r =? N.of_nat (length ks) then (ack_sets ks lo, ack_sets ks hi)
      else (lo, ack_sets ks hi)
  | (OpRemoveBatch ks, _) => (ack_removes ks lo, ack_removes ks hi)
  end.

(* (lo, hi) after a history that started from the list b0 *)
Definition ack_lists (hist : list (op * N)) (b0 : bl) : bl * bl := fold_left ack_step hist (b0, b0).

(* no batch of the history was accepted in part: then nothing is unknown *)
Definition all_or_nothing (p : op * N) : bool :=
  match p with
  | (OpSetBatch ks, r) => (r =? 0) || (r =? N.of_nat (length ks))
  | _ => true
  end.

(* the model's own run of a sequence of calls: each call with the value it returns *)
Fixpoint run_hist (ops : list op) (b : bl) : list (op * N) * bl :=
  match ops with
  | [] => ([], b)
  | o :: r =>
      let '(ret, _, b') := apply_op o b in
      let '(h, b'') := run_hist r b' in
      ((o, ret) :: h, b'')
  end.

Definition no_wild_plain (b : bl) : Prop := forall e, In e (bm b) -> has_prefix [42; 46] e = false.
