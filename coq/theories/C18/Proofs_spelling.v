(* C18 — about the PROPOSED code, not about /repo: props/C18/fix.patch (on offer for the
   finding blocklist-entry-spelling) replaces dns.CanonicalName by canonicalKey at every
   entry point (Get, setLocked, removeLocked, Exists, the whitelist load).  canonicalKey
   decodes the escapes of the lower-cased, qualified key and writes every label byte again
   the way the wire decoder does: as a function on names, Spec.present after Spec.name_of.
   With it the matching statement no longer depends on how entries and probes are spelled.
   (The fused loop of the patch is not translated: dns.CanonicalName and strings.Builder are
   outside the translator; on a tree that has the patch the `*-spelling` cases observe the
   by-name verdict on every probe.  Names with an empty label or a dangling backslash are
   left alone by the patch and are excluded here by the wire-name premise.) *)
From Sdns Require Import Common.Base Gen.C18 C18.Model C18.Spec C18.Proofs_match C18.Proofs_examples.
Open Scope N_scope.

Definition canonical_key (s : str) : str := present (name_of s).
(* Exists of the proposed code *)
Definition bl_exists_proposed (b : bl) (key : str) : bool := bl_exists b (canonical_key key).
(* the maps after the entries (in ANY spelling; W: the suffixes of the wildcard entries) went
   through the proposed setLocked / whitelist load *)
Definition state_proposed (M W Wl : list str) : bl :=
  mk_bl (map canonical_key M) (map (fun s => present_suffix (name_of s)) W) (map canonical_key Wl).

Lemma lower_idem c : lower (lower c) = lower c.
Proof. unfold lower. destruct ((65 <=? c) && (c <=? 90)) eqn:E; [|now rewrite E].
  apply andb_true_iff in E as [A B]. apply N.leb_le in A. apply N.leb_le in B.
  replace ((65 <=? c + 32) && (c + 32 <=? 90)) with false; [reflexivity|].
  symmetry. apply andb_false_iff. right. apply N.leb_gt. lia.
Qed.
Lemma fold_name_idem n : fold_name (fold_name n) = fold_name n.
Proof.
  unfold fold_name, fold_label. rewrite map_map. apply map_ext. intros l. rewrite map_map. apply map_ext, lower_idem.
Qed.
Lemma fold_name_of s : fold_name (name_of s) = name_of s.
Proof.
  unfold name_of. destruct s as [|c [|d r]]; [reflexivity| |apply fold_name_idem].
  destruct (c =? c_dot); [reflexivity|apply fold_name_idem].
Qed.

Lemma state_proposed_is_state_of M W Wl :
  state_proposed M W Wl = state_of (map name_of M) (map name_of W) (map name_of Wl).
Proof. unfold state_proposed, state_of, canonical_key. now rewrite !map_map. Qed.

Lemma exists_spec_any_spelling_lemma (M W Wl : list str) (q : str) :
  Forall (fun s => wireP (name_of s)) M -> Forall (fun s => wireP (name_of s)) W ->
  Forall (fun s => wireP (name_of s)) Wl -> wireP (name_of q) ->
  (bl_exists_proposed (state_proposed M W Wl) q = true <->
   blocked_spec (map name_of M) (map name_of W) (map name_of Wl) (name_of q)).
Proof.
  intros HM HW HWl Hq. unfold bl_exists_proposed, canonical_key. rewrite state_proposed_is_state_of.
  rewrite <- (fold_name_of q) at 2.
  apply exists_spec_lemma; try exact Hq; apply Forall_map; assumption.
Qed.

(* the witness of entry_spelling_refuted, on the right side now: the entry typed "a@b.test."
   is found under the decoder's spelling and under the typed one, the whitelist typed that
   way exempts the name, and the decoder's spelling of a name is what is stored *)
Example entry_spelling_proposed_example :
  let typed := sp_entry in let wire := present sp_name in
  bl_exists_proposed (state_proposed [typed] [] []) wire = true /\
  bl_exists_proposed (state_proposed [typed] [] []) typed = true /\
  bl_exists_proposed (state_proposed [wire] [] []) typed = true /\
  bl_exists_proposed (state_proposed [] [[116;101;115;116;46]] [typed]) wire = false /\
  canonical_key typed = wire /\ canonical_key wire = wire /\
  (* "My Printer.local" and "\065\.b.TEST" *)
  canonical_key [77;121;32;80;114;105;110;116;101;114;46;108;111;99;97;108] =
    [109;121;92;32;112;114;105;110;116;101;114;46;108;111;99;97;108;46] /\
  canonical_key [92;48;54;53;92;46;98;46;84;69;83;84] = [97;92;46;98;46;116;101;115;116;46].
Proof. vm_compute. repeat split; reflexivity. Qed.
