(* C18 — both sentences of the property in one statement: concurrent API traffic (mutations
   atomic under mu in SOME order, persists atomic under saveMu in ANY order), every call
   returned and every save done, the process restarted on the directory: the new process
   blocks a query name exactly when the list the calls acknowledged — read in the order in
   which their mutations took effect — lists it.  Joins end_to_end (disk_converges +
   reload_equiv) with listed_is_blocked. *)
From Coq Require Import Permutation.
From Sdns Require Import Common.Base Gen.C18 C18.Model C18.Spec C18.Ack C18.Proofs_match C18.Proofs_disk
  C18.Proofs_reload C18.Proofs_final C18.Proofs_ack C18.Proofs_listed.
Open Scope N_scope.

(* csteps with the calls written down in the order their mutation took effect *)
Inductive tsteps : sys -> list op -> sys -> Prop :=
| tsteps_refl s : tsteps s [] s
| tsteps_mutate s t ops o ex wi :
    tsteps s ops t -> Forall sane (op_keys o) ->
    snap_matches (mk_snap 0 ex wi) (snd (apply_op o (s_mem t))) ->
    tsteps s (ops ++ [o]) (snd (sys_mutate o ex wi t))
| tsteps_persist s t ops i :
    tsteps s ops t -> (i < length (s_pending t))%nat -> tsteps s ops (sys_persist i t).

Lemma tsteps_csteps s ops t : tsteps s ops t -> csteps s t.
Proof. induction 1; [constructor| |]; econstructor; eauto. Qed.

Lemma run_hist_snoc : forall ops o b,
  snd (run_hist (ops ++ [o]) b) = snd (apply_op o (snd (run_hist ops b))).
Proof.
  induction ops as [|p ops IH]; intros o b; cbn [app run_hist].
  - cbn [snd]. destruct (apply_op o b) as [[ret sn] b']. reflexivity.
  - destruct (apply_op p b) as [[ret sn] b']. specialize (IH o b').
    destruct (run_hist (ops ++ [o]) b') as [h1 b1]. destruct (run_hist ops b') as [h2 b2]. exact IH.
Qed.

(* the memory is the sequential run of the calls in that order *)
Lemma tsteps_mem s ops t : tsteps s ops t -> s_mem t = snd (run_hist ops (s_mem s)).
Proof.
  induction 1 as [s|s t ops o ex wi _ IH _ _|s t ops i _ IH _]; [reflexivity| |].
  - now rewrite sys_mutate_mem, run_hist_snoc, IH.
  - now rewrite sys_persist_mem.
Qed.

Lemma mem_good_nwp b : mem_good b -> no_wild_plain b.
Proof.
  unfold mem_good. rewrite good_entries_iff. intros [A _] e He. destruct (A e He) as (_ & _ & _ & N). exact N.
Qed.

Lemma listed_end_to_end_lemma wl l0 ops s q :
  let start := fun l => load_initial wl [] (match l with Some f => [f] | None => [] end) in
  let b0 := start l0 in
  tsteps (init b0 l0) ops s -> s_pending s = [] -> 0 < s_version s ->
  decoder_spelled b0 -> Forall decoder_key (hist_keys ops) -> wireP q ->
  let h := fst (run_hist ops b0) in
  let lo := fst (ack_lists h b0) in
  let hi := snd (ack_lists h b0) in
  (blocks lo (fold_name q) -> bl_exists (start (s_local s)) (present q) = true) /\
  (bl_exists (start (s_local s)) (present q) = true -> blocks hi (fold_name q)) /\
  (forallb all_or_nothing h = true ->
     (bl_exists (start (s_local s)) (present q) = true <-> blocks lo (fold_name q))).
Proof.
  cbv beta zeta. intros St Hp Hv Hd Hk Hq.
  pose proof (end_to_end_lemma wl l0 s (tsteps_csteps _ _ _ St) Hp Hv (present q)) as E. cbv beta zeta in E.
  rewrite E. pose proof (tsteps_mem _ _ _ St) as M. cbn [init s_mem] in M. rewrite M.
  apply listed_is_blocked_lemma; try assumption.
  apply mem_good_nwp, load_initial_good. constructor.
Qed.

(* non-vacuity: two calls whose saves reach persist() in the opposite order (the older
   snapshot is dropped), an empty directory at the start *)
Example listed_end_to_end_example :
  let k1 := [42;46;117;92;64;118;46;110;101;116] in                  (* *.u\@v.net *)
  let k2 := [65;100;115;46;116;101;115;116] in                       (* Ads.test *)
  let b0 := load_initial [] [] [] in
  let s1 := snd (sys_mutate (OpSet k1) [] [[117;92;64;118;46;110;101;116;46]] (init b0 None)) in
  let s2 := snd (sys_mutate (OpSet k2) [[97;100;115;46;116;101;115;116;46]] [[117;92;64;118;46;110;101;116;46]] s1) in
  let s3 := sys_persist 1 s2 in
  let s4 := sys_persist 0 s3 in
  tsteps (init b0 None) [OpSet k1; OpSet k2] s4 /\ s_pending s4 = [] /\ s_version s4 = 2 /\ s_last s4 = 2 /\
  bl_exists (load_initial [] [] (match s_local s4 with Some f => [f] | None => [] end))
            (present [[120]; [117;64;118]; [110;101;116]]) = true.
Proof.
  cbn zeta. split; [|vm_compute; repeat split].
  apply tsteps_persist; [apply tsteps_persist|vm_compute; lia].
  - apply (tsteps_mutate _ _ [OpSet [42;46;117;92;64;118;46;110;101;116]]).
    + apply (tsteps_mutate _ _ []); [constructor|repeat constructor; discriminate|].
      vm_compute. split; apply Permutation_refl.
    + repeat constructor; discriminate.
    + vm_compute. split; apply Permutation_refl.
  - vm_compute. lia.
Qed.
