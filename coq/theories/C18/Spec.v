(* C18 — the property's own vocabulary: DNS names as lists of labels (most
   specific first), decoded from presentation form the way the wire format
   means it (an escaped dot belongs to its label), compared after ASCII case
   folding.  Executable (used by Run.spec_case) and as Props (used by the
   theorems).  Nothing here looks at how the Go code walks strings.

   Reading of the statement fixed here (see NOTES.md):
   * "parent domains" are the proper ancestors below the root.  A plain
     entry "." lists the root name only, a wildcard "*." lists nothing:
     neither makes every name on the Internet blocked.  Likewise a
     whitelisted "." exempts the root name only.
   * wildcard entries are kept as the suffix they cover ("*.example.com." is
     the wildcard entry example.com.). *)
From Sdns Require Import Common.Base C18.Model.
Open Scope N_scope.

Definition label := list N.
Definition name := list label.

Definition is_digit (c : N) : bool := (48 <=? c) && (c <=? 57).

(* split a presentation-form name at unescaped dots; \DDD and \X decode to one
   byte of the current label *)
Fixpoint parse_pres (s : str) (cur : label) : name :=
  match s with
  | [] => if is_nil cur then [] else [rev cur]
  | c :: r =>
      if c =? c_bs then
        match r with
        | [] => [rev cur]
        | a :: r1 =>
            match r1 with
            | b :: (d :: r3) =>
                if is_digit a && is_digit b && is_digit d
                then parse_pres r3 (((a - 48) * 100 + (b - 48) * 10 + (d - 48)) mod 256 :: cur)
                else parse_pres r1 (a :: cur)
            | _ => parse_pres r1 (a :: cur)
            end
        end
      else if c =? c_dot then rev cur :: parse_pres r []
      else parse_pres r (c :: cur)
  end.

Definition fold_label (l : label) : label := map lower l.
Definition fold_name (n : name) : name := map fold_label n.

(* the name a presentation string denotes: "" and "." are the root *)
Definition name_of (s : str) : name :=
  match s with
  | [] => []
  | [c] => if c =? c_dot then [] else fold_name (parse_pres s [])
  | _ => fold_name (parse_pres s [])
  end.

Definition label_eqb (a b : label) : bool := str_eqb a b.
Fixpoint name_eqb (a b : name) : bool :=
  match a, b with
  | [], [] => true
  | x :: xs, y :: ys => str_eqb x y && name_eqb xs ys
  | _, _ => false
  end.
Definition memn (n : name) (l : list name) : bool := existsb (name_eqb n) l.

(* proper ancestors below the root *)
Fixpoint parents (n : name) : list name :=
  match n with
  | [] => []
  | _ :: r => match r with [] => [] | _ => r :: parents r end
  end.

(* the specification, executable: M plain entries, W wildcard entries (the
   covered suffix), Wl whitelist *)
Definition spec_blocked_b (M W Wl : list name) (q : name) : bool :=
  negb (existsb (fun a => memn a Wl) (q :: parents q)) &&
  (memn q M || existsb (fun p => memn p M || memn p W) (parents q)).

(* the same as a proposition *)
Definition strict_parent (p q : name) : Prop := exists pre, pre <> [] /\ q = pre ++ p.
Definition blocked_spec (M W Wl : list name) (q : name) : Prop :=
  (In q M \/ exists p, strict_parent p q /\ p <> [] /\ (In p M \/ In p W)) /\
  ~ (exists a, (a = q \/ (strict_parent a q /\ a <> [])) /\ In a Wl).

(* ---- presentation form.  [render_with esc] writes every byte of every label
   through [esc] and ends each label with a dot; the root is ".". *)
Definition label_with (esc : N -> str) (l : label) : str := flat_map esc l.
Definition render'_with (esc : N -> str) (n : name) : str :=
  flat_map (fun l => label_with esc l ++ [c_dot]) n.
Definition render_with (esc : N -> str) (n : name) : str :=
  match n with [] => [c_dot] | _ => render'_with esc n end.
(* the key under which the wildcard entry for suffix p is stored *)
Definition render_suffix_with (esc : N -> str) (n : name) : str :=
  match n with [] => [] | _ => render_with esc n end.

(* dns.UnpackDomainName (miekg v1.1.72): isDomainNameLabelSpecial bytes get a
   backslash, bytes outside ' '..'~' are written \DDD *)
Definition is_special (c : N) : bool :=
  (c =? 46) || (c =? 32) || (c =? 39) || (c =? 64) || (c =? 59) || (c =? 40) || (c =? 41) || (c =? 34) || (c =? 92).
Definition esc_byte (c : N) : str :=
  if is_special c then [c_bs; c]
  else if (c <? 32) || (126 <? c) then [c_bs; 48 + c / 100; 48 + (c / 10) mod 10; 48 + c mod 10]
  else [c].
Definition present : name -> str := render_with esc_byte.
Definition present_suffix : name -> str := render_suffix_with esc_byte.

(* names as they exist on the wire: labels are non-empty byte strings *)
Definition wire_label (l : label) : bool := nonempty l && forallb (fun c => c <? 256) l.
Definition wire_name (n : name) : bool := forallb wire_label n.

(* undecoded: the labels as written, without case folding *)
Definition raw_name_of (s : str) : name :=
  match s with
  | [] => []
  | [c] => if c =? c_dot then [] else parse_pres s []
  | _ => parse_pres s []
  end.

(* ---- do two lists (same whitelist) block the same names?  Decided on finitely many
   probes: every entry of either list and a child of it under a label [z] that occurs
   nowhere (Proofs_equiv.spec_equiv_n_sound). *)
Definition fresh_for (z : label) (M1 W1 M2 W2 Wl : list name) : bool :=
  forallb (fun n => negb (existsb (str_eqb z) n)) (M1 ++ W1 ++ M2 ++ W2 ++ Wl).
Definition equiv_probes_n (z : label) (M1 W1 M2 W2 : list name) : list name :=
  let es := M1 ++ W1 ++ M2 ++ W2 in es ++ map (cons z) es.
Definition spec_equiv_n (z : label) (Wl M1 W1 M2 W2 : list name) : bool :=
  fresh_for z M1 W1 M2 W2 Wl &&
  forallb (fun q => Bool.eqb (spec_blocked_b M1 W1 Wl q) (spec_blocked_b M2 W2 Wl q))
          (equiv_probes_n z M1 W1 M2 W2).
