(* C18 — the property's own vocabulary: DNS names as lists of labels (most
   specific first), decoded from presentation form the way the wire format
   means it (an escaped dot belongs to its label), compared after ASCII case
   folding.  Executable (used by Run.spec_case) and as Props (used by the
   theorems).  Nothing here looks at how the Go code walks strings.

   Reading of the statement fixed here (see NOTES.md):
   * "parent domains" are the proper ancestors below the root.  A plain
     entry "." lists the root name only, a wildcard "*." lists nothing:
     neither makes every name on the Internet blocked.  Likewise a
     whitelisted "." exempts the root name only.
   * wildcard entries are kept as the suffix they cover ("*.example.com." is
     the wildcard entry example.com.). *)
From Sdns Require Import Common.Base C18.Model.
Open Scope N_scope.

Definition label := list N.
Definition name := list label.

Definition is_digit (c : N) : bool := (48 <=? c) && (c <=? 57).

(* split a presentation-form name at unescaped dots; \DDD and \X decode to one
   byte of the current label *)
Fixpoint parse_pres (s : str) (cur : label) : name :=
  match s with
  | [] => if is_nil cur then [] else [rev cur]
  | c :: r =>
      if c =? c_bs then
        match r with
        | [] => [rev cur]
        | a :: r1 =>
            match r1 with
            | b :: (d :: r3) =>
                if is_digit a && is_digit b && is_digit d
                then parse_pres r3 (((a - 48) * 100 + (b - 48) * 10 + (d - 48)) mod 256 :: cur)
                else parse_pres r1 (a :: cur)
            | _ => parse_pres r1 (a :: cur)
            end
        end
      else if c =? c_dot then rev cur :: parse_pres r []
      else parse_pres r (c :: cur)
  end.

Definition fold_label (l : label) : label := map lower l.
Definition fold_name (n : name) : name := map fold_label n.

(* the name a presentation string denotes: "" and "." are the root *)
Definition name_of (s : str) : name :=
  match s with
  | [] => []
  | [c] => if c =? c_dot then [] else fold_name (parse_pres s [])
  | _ => fold_name (parse_pres s [])
  end.

Definition label_eqb (a b : label) : bool := str_eqb a b.
Fixpoint name_eqb (a b : name) : bool :=
  match a, b with
  | [], [] => true
  | x :: xs, y :: ys => str_eqb x y && name_eqb xs ys
  | _, _ => false
  end.
Definition memn (n : name) (l : list name) : bool := existsb (name_eqb n) l.

(* proper ancestors below the root *)
Fixpoint parents (n : name) : list name :=
  match n with
  | [] => []
  | _ :: r => match r with [] => [] | _ => r :: parents r end
  end.

(* the specification, executable: M plain entries, W wildcard entries (the
   covered suffix), Wl whitelist *)
Definition spec_blocked_b (M W Wl : list name) (q : name) : bool :=
  negb (existsb (fun a => memn a Wl) (q :: parents q)) &&
  (memn q M || existsb (fun p => memn p M || memn p W) (parents q)).

(* the same as a proposition *)
Definition strict_parent (p q : name) : Prop := exists pre, pre <> [] /\ q = pre ++ p.
Definition blocked_spec (M W Wl : list name) (q : name) : Prop :=
  (In q M \/ exists p, strict_parent p q /\ p <> [] /\ (In p M \/ In p W)) /\
  ~ (exists a, (a = q \/ (strict_parent a q /\ a <> [])) /\ In a Wl).

(* rendering a name whose labels need no escaping *)
Definition render (n : name) : str :=
  match n with
  | [] => [c_dot]
  | _ => flat_map (fun l => l ++ [c_dot]) n
  end.
(* the key under which the wildcard entry for suffix p is stored *)
Definition render_suffix (n : name) : str :=
  match n with
  | [] => []
  | _ => render n
  end.

(* labels that are written as they are: non-empty, no dot, no backslash *)
Definition plain_char (c : N) : bool := negb (c =? c_dot) && negb (c =? c_bs).
Definition plain_label (l : label) : bool := nonempty l && forallb plain_char l.
Definition plain_name (n : name) : bool := forallb plain_label n.
Definition lower_label (l : label) : bool := forallb (fun c => negb ((65 <=? c) && (c <=? 90))) l.
Definition lower_name (n : name) : bool := forallb lower_label n.
