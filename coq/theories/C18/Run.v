(* C18 — correspondence: case type and the two checkers evaluated with
   vm_compute on what the Go drivers observed.
   check_case: the model (Model.v) computes what the implementation did.
   spec_case : what the implementation did satisfies the specification
               (Spec.v, label level), without going through the model. *)
From Sdns Require Export Common.Base Gen.C18 C18.Model C18.Spec C18.Ack.
From Sdns Require Export C18.Lit.
Open Scope N_scope.

(* API calls and refreshes (with the lists they downloaded) in the order they took effect *)
Inductive rhstep := RHOp (o : op) (ret : N) | RHRefresh (downloads : list str).

Inductive sstep := SMut (o : op) (ex wi : list str) | SPersist (i : nat).

Inductive case :=
  (* memory dump (m, wild, w) and Exists() on probe strings *)
| CaseExists (m wild w : list str) (probes : list (str * bool))
  (* ServeDNS through a real Chain ahead of a counting stub *)
| CaseServe (m wild w : list str) (nullroute null6route : N) (qname : str) (qtype : N) (obs : outcome)
  (* sequential API history on a list whose memory was (m0, wild0, w): each op
     with its return value; final memory; whether `local` exists and its lines *)
| CaseHistory (m0 wild0 w : list str) (ops : list (op * N)) (m1 wild1 : list str) (file : option str)
  (* concurrent API traffic, one op list per goroutine on disjoint keys *)
| CaseConc (m0 wild0 w : list str) (threads : list (list op)) (m1 wild1 : list str) (file : option str)
  (* forced schedule: the bodies of the API calls split at the point where mu is released —
     mutation + snapshotLocked (with the order the map iteration produced) and persist() of
     the i-th outstanding snapshot, interleaved at will; all snapshots persisted at the end *)
| CaseSched (m0 wild0 w : list str) (steps : list sstep) (m1 wild1 : list str) (file : option str)
  (* the background re-read of the directory (refreshRemote) landing between a call's
     mutation and its persist(): memory and file before, the call with its return value,
     memory and file after everything has completed; [downloads] = the *.tmp list files
     lying in the directory at that moment *)
| CaseRefresh (m0 wild0 w : list str) (file0 : option str) (downloads : list str) (o : op) (ret : N)
              (m1 wild1 : list str) (file1 : option str)
  (* a history of API calls and refreshes that bring remote lists *)
| CaseRHistory (m0 wild0 w : list str) (steps : list rhstep) (m1 wild1 : list str) (file : option str)
  (* restart: configured whitelist/blocklist + directory files in walk order -> memory of the fresh list;
     mem_m/mem_wild is the memory of the list that wrote the files *)
| CaseReload (whitelist blocklist : list str) (files : list str) (mem_m mem_wild : list str) (re_m re_wild re_w : list str)
  (* interruption: directory held `old`, op was applied by a process that was killed
     when the temp file reached [limit] bytes; directory afterwards; reload of it *)
| CaseCrash (whitelist : list str) (old : str) (o : op) (limit : nat) (local : option str) (temps : list str)
            (re_m re_wild : list str)
            (* reference run without interruption: memory loaded from `old`, memory after the call *)
            (old_m old_wild new_m new_wild : list str)
  (* same set-up, but the process is not killed: the write that would cross [limit] fails
     (EFBIG) and persist() takes its error path; the process then exits normally *)
| CaseIoErr (whitelist : list str) (old : str) (o : op) (limit : nat) (local : option str) (temps : list str)
            (re_m re_wild : list str) (old_m old_wild new_m new_wild : list str)
  (* same set-up, but one of the other steps of persist() is made to return an error (system
     call filter in the child process): which = 0 CreateTemp, 1 Sync, 2 Close, 3 Rename *)
| CaseFault (whitelist : list str) (old : str) (o : op) (which : nat) (local : option str) (temps : list str)
            (re_m re_wild : list str) (old_m old_wild new_m new_wild : list str)
  (* "blocked exactly when listed", end to end: a sequential history of REAL API calls with
     their return values on a list whose memory was (m0, wild0, w), then queries through
     ServeDNS (a real Chain ahead of a counting stub) — the memory is NOT dumped afterwards:
     what is listed is what the calls acknowledged (Proofs_listed.listed_is_served) *)
| CaseListed (m0 wild0 w : list str) (ops : list (op * N)) (nullroute null6route : N)
             (probes : list (str * N * outcome)).

(* ---- helpers *)
Definition subset (a b : list str) : bool := forallb (fun x => mem x b) a.
Definition set_eqb (a b : list str) : bool := subset a b && subset b a.
Fixpoint nodup_b (l : list str) : bool :=
  match l with [] => true | x :: r => negb (mem x r) && nodup_b r end.
(* same set and no duplicates in the observed list *)
Definition same_set (model obs : list str) : bool := set_eqb model obs && nodup_b obs.
Definition opt_str_eqb (a b : option str) : bool :=
  match a, b with Some x, Some y => str_eqb x y | None, None => true | _, _ => false end.

Definition rr_eqb (a b : rr) : bool :=
  match a, b with RR t1 l1 o1 d1, RR t2 l2 o2 d2 => (t1 =? t2) && (l1 =? l2) && str_eqb o1 o2 && (d1 =? d2) end.
Fixpoint rrs_eqb (a b : list rr) : bool :=
  match a, b with
  | [], [] => true
  | x :: xs, y :: ys => rr_eqb x y && rrs_eqb xs ys
  | _, _ => false
  end.
Definition outcome_eqb (a b : outcome) : bool :=
  match a, b with
  | ONext, ONext => true
  | OReply r1 a1 x1 an1 ns1, OReply r2 a2 x2 an2 ns2 =>
      (r1 =? r2) && Bool.eqb a1 a2 && Bool.eqb x1 x2 && rrs_eqb an1 an2 && rrs_eqb ns1 ns2
  | OOther x, OOther y => x =? y
  | _, _ => false
  end.

(* the file is the header followed by the memory's entries in some order *)
Definition file_is_snapshot (m wild : list str) (file : str) : bool :=
  match split_lines file with
  | h :: rest =>
      str_eqb h header &&
      same_set (m ++ List.map (app persist_wildp) wild) rest &&
      str_eqb file (lines_bytes (h :: rest))
  | [] => false
  end.

Fixpoint run_ops (ops : list (op * N)) (s : sys) : bool * sys :=
  match ops with
  | [] => (true, s)
  | (o, ret) :: r =>
      let '(ret', s') := sys_call o s in
      let '(ok, s'') := run_ops r s' in
      ((ret =? ret') && ok, s'')
  end.

(* run a forced schedule; the recorded snapshot order must be a listing of the memory *)
Fixpoint run_sched (steps : list sstep) (s : sys) : bool * sys :=
  match steps with
  | [] => (true, s)
  | SMut o ex wi :: r =>
      let '(_, snapped, b') := apply_op o (s_mem s) in
      let ok := if snapped then same_set (bm b') ex && same_set (bwild b') wi else is_nil ex && is_nil wi in
      let '(ok', s') := run_sched r (snd (sys_mutate o ex wi s)) in
      (ok && ok', s')
  | SPersist i :: r => run_sched r (sys_persist i s)
  end.

Fixpoint run_rh (steps : list rhstep) (s : sys) : bool * sys :=
  match steps with
  | [] => (true, s)
  | RHOp o ret :: r =>
      let '(ret', s') := sys_call o s in
      let '(ok, s'') := run_rh r s' in ((ret =? ret') && ok, s'')
  | RHRefresh dl :: r => run_rh r (sys_refresh dl s)
  end.

Definition any_success (ops : list (op * N)) : bool := existsb (fun p => negb (snd p =? 0)) ops.

(* ---- specification side: the three maps as names *)
Definition names_of (l : list str) : list name := List.map name_of l.
Definition spec_blocks (m wild w : list str) (q : str) : bool :=
  spec_blocked_b (names_of m) (names_of wild) (names_of w) (name_of q).

(* two memories with the same whitelist block the same names iff they agree on every
   entry and on a fresh child of every entry: Spec.spec_equiv_n, proved sound in
   Proofs_equiv.v *)
Definition zlabel : label := S "zq9verif".
Definition fresh_child (k : str) : str := zlabel ++ [c_dot] ++ (match k with [] => [] | [c] => if c =? c_dot then [] else k | _ => k end).
Definition spec_equiv (w m1 wild1 m2 wild2 : list str) : bool :=
  spec_equiv_n zlabel (names_of w) (names_of m1) (names_of wild1) (names_of m2) (names_of wild2).

(* keys a Set call accepted and no later Remove / RemoveBatch names: listed at the end *)
Definition mentions_remove (ck : str) (o : op) : bool :=
  match o with
  | OpRemove k => str_eqb (canonical k) ck
  | OpRemoveBatch ks => existsb (fun k => str_eqb (canonical k) ck) ks
  | _ => false
  end.
Fixpoint set_survives (ops : list (op * N)) : list str :=
  match ops with
  | [] => []
  | (OpSet k, r) :: rest =>
      (if negb (r =? 0) && negb (existsb (fun p => mentions_remove (canonical k) (fst p)) rest)
       then [canonical k] else []) ++ set_survives rest
  | _ :: rest => set_survives rest
  end.
(* a name the listed key must block: the key itself, or a fresh child for "*.suffix"
   (none for the root wildcard, which lists nothing under the reading of Spec.v) *)
Definition listed_probe (ck : str) : option str :=
  match ck with
  | 42 :: 46 :: sfx => match sfx with [] => None | [_] => None | _ => Some (fresh_child sfx) end
  | _ => Some ck
  end.

(* ---- the list the API has ACKNOWLEDGED, as names (Spec.v's vocabulary): what the calls
   and their return values say is listed, without looking at the memory.  An accepted Set
   lists its key (a wildcard entry when the key reads "*.suffix"), a Remove / RemoveBatch
   un-lists the keys it names, a SetBatch that counted every key lists them all; a SetBatch
   that counted only some (the others were refused: whitelisted, '#', white space) lists an
   unknown part of its keys — [lo] gets none of them, [hi] all of them.  The statement
   "blocked exactly when listed" then reads: what [lo] blocks the memory blocks, and what
   the memory blocks [hi] blocks (decided on every entry of the three lists and a fresh
   child of it, as in Spec.spec_equiv_n). *)
Definition addn (n : name) (l : list name) : list name := if memn n l then l else l ++ [n].
Definition deln (n : name) (l : list name) : list name := filter (fun x => negb (name_eqb n x)) l.
Definition wild_form (ck : str) : bool := has_prefix [42; 46] ck.
Definition nackl := (list name * list name)%type.
Definition nack_set (k : str) (L : nackl) : nackl :=
  let ck := canonical k in
  if wild_form ck then (fst L, addn (name_of (skipn 2 ck)) (snd L))
  else (addn (name_of ck) (fst L), snd L).
Definition nack_remove (k : str) (L : nackl) : nackl :=
  let ck := canonical k in
  if memn (name_of ck) (fst L) then (deln (name_of ck) (fst L), snd L)
  else if wild_form ck then (fst L, deln (name_of (skipn 2 ck)) (snd L))
  else L.
Definition nack_step (a : nackl * nackl) (p : op * N) : nackl * nackl :=
  let '(lo, hi) := a in
  match p with
  | (OpSet k, r) => if r =? 0 then a else (nack_set k lo, nack_set k hi)
  | (OpRemove k, _) => (nack_remove k lo, nack_remove k hi)
  | (OpSetBatch ks, r) =>
      if r =? 0 then a
      else if r =? N.of_nat (Datatypes.length ks)
           then (fold_left (fun L k => nack_set k L) ks lo, fold_left (fun L k => nack_set k L) ks hi)
           else (lo, fold_left (fun L k => nack_set k L) ks hi)
  | (OpRemoveBatch ks, _) =>
      (fold_left (fun L k => nack_remove k L) ks lo, fold_left (fun L k => nack_remove k L) ks hi)
  end.
Definition nack_lists (m0 wild0 : list str) (ops : list (op * N)) : nackl * nackl :=
  let L0 := (names_of m0, names_of wild0) in fold_left nack_step ops (L0, L0).
(* [both] = false: only "what is acknowledged is blocked" (histories in which a refresh
   brings names nobody listed through the API) *)
Definition ack_matched (both : bool) (m0 wild0 w : list str) (ops : list (op * N)) (m1 wild1 : list str) : bool :=
  let '(lo, hi) := nack_lists m0 wild0 ops in
  let Wl := names_of w in
  let M1 := names_of m1 in
  let W1 := names_of wild1 in
  let es := fst lo ++ snd lo ++ fst hi ++ snd hi ++ M1 ++ W1 in
  forallb (fun n => negb (existsb (str_eqb zlabel) n)) (es ++ Wl) &&
  forallb (fun q =>
             implb (spec_blocked_b (fst lo) (snd lo) Wl q) (spec_blocked_b M1 W1 Wl q) &&
             (negb both || implb (spec_blocked_b M1 W1 Wl q) (spec_blocked_b (fst hi) (snd hi) Wl q)))
          (es ++ List.map (cons zlabel) es).

(* the file's lines are in the memory, and every memory entry is a line of the file or a
   name of one of the downloaded lists *)
Definition file_plus_downloads (downloads : list str) (m1 wild1 : list str) (f : str) : bool :=
  let ls := List.tl (split_lines f) in
  let fm := filter (fun l => negb (has_prefix persist_wildp l)) ls in
  let fw := List.map (skipn 2) (filter (has_prefix persist_wildp) ls) in
  let dnames := List.map canonical (List.concat (List.map fields (List.concat (List.map split_lines downloads)))) in
  subset fm m1 && subset fw wild1 &&
  forallb (fun e => mem e fm || mem e dnames) m1 &&
  forallb (fun e => mem e fw || mem (persist_wildp ++ e) dnames) wild1.

Definition whitelist_of (wl : list str) : list str := fold_left (fun w e => add (canonical e) w) wl [].

(* prefix test on byte strings *)
Definition is_prefix_of (p s : str) : bool := has_prefix p s.

(* a temp file cut at [limit] bytes: header, then distinct complete lines out of
   the snapshot, then a proper prefix of one more *)
Fixpoint lines_from (avail : list str) (ls : list str) (last_complete : bool) : bool :=
  match ls with
  | [] => true
  | [l] => if last_complete then mem l avail else existsb (is_prefix_of l) avail
  | l :: r => mem l avail && lines_from (del l avail) r last_complete
  end.
Definition ends_nl (f : str) : bool := match rev f with c :: _ => c =? c_nl | [] => true end.
Definition temp_is_cut (sn_lines : list str) (limit : nat) (t : str) : bool :=
  (Datatypes.length t =? limit)%nat &&
  (if (Datatypes.length t <=? Datatypes.length (header ++ [c_nl]))%nat
   then is_prefix_of t (header ++ [c_nl])
   else match split_lines t with
        | h :: rest => str_eqb h header && lines_from sn_lines rest (ends_nl t)
        | [] => false
        end).

(* the memory the driver dumped lies between the lower and the upper acknowledged list
   (Ack.ack_lists on the calls and the values the REAL calls returned; Proofs_ack) *)
Definition ack_bracket (m0 wild0 w : list str) (ops : list (op * N)) (m1 wild1 : list str) : bool :=
  let '(lo, hi) := Ack.ack_lists ops (mk_bl m0 wild0 w) in
  subset (bm lo) m1 && subset m1 (bm hi) && subset (bwild lo) wild1 && subset wild1 (bwild hi).

Definition check_case (c : case) : bool :=
  match c with
  | CaseExists m wild w probes =>
      let b := mk_bl m wild w in
      forallb (fun pr => Bool.eqb (bl_exists b (fst pr)) (snd pr)) probes
  | CaseServe m wild w nr nr6 qname qtype obs =>
      outcome_eqb (serve (mk_bl m wild w) nr nr6 qname qtype) obs &&
      (* qname is what dns.Unpack produced: Spec.present writes names the same way *)
      str_eqb (present (raw_name_of qname)) qname
  | CaseHistory m0 wild0 w ops m1 wild1 file =>
      let '(ok, s) := run_ops ops (mk_sys (mk_bl m0 wild0 w) 0 0 None []) in
      ok && same_set (bm (s_mem s)) m1 && same_set (bwild (s_mem s)) wild1 &&
      match s_local s, file with
      | None, None => true
      | Some _, Some f => file_is_snapshot (bm (s_mem s)) (bwild (s_mem s)) f
      | _, _ => false
      end &&
      ack_bracket m0 wild0 w ops m1 wild1
  | CaseConc m0 wild0 w threads m1 wild1 file =>
      let b := fold_left (fun b o => snd (apply_op o b)) (List.concat threads) (mk_bl m0 wild0 w) in
      same_set (bm b) m1 && same_set (bwild b) wild1 &&
      match file with
      | None => true
      | Some f => file_is_snapshot (bm b) (bwild b) f
      end
  | CaseSched m0 wild0 w steps m1 wild1 file =>
      let '(ok, s) := run_sched steps (mk_sys (mk_bl m0 wild0 w) 0 0 None []) in
      ok && same_set (bm (s_mem s)) m1 && same_set (bwild (s_mem s)) wild1 &&
      is_nil (s_pending s) && opt_str_eqb (s_local s) file
  | CaseRefresh m0 wild0 w file0 downloads o ret m1 wild1 file1 =>
      let s0 := mk_sys (mk_bl m0 wild0 w) 0 0 file0 [] in
      let b' := snd (apply_op o (s_mem s0)) in
      let '(ret', s1) := sys_mutate o (bm b') (bwild b') s0 in
      let s3 := sys_persist 0 (sys_refresh downloads s1) in
      (ret =? ret') && same_set (bm (s_mem s3)) m1 && same_set (bwild (s_mem s3)) wild1 &&
      match s_local s3, file1 with
      | None, None => true
      | Some a, Some f => if is_nil (s_pending s1) then str_eqb a f else file_is_snapshot (bm b') (bwild b') f
      | _, _ => false
      end
  | CaseRHistory m0 wild0 w steps m1 wild1 file =>
      let '(ok, s) := run_rh steps (mk_sys (mk_bl m0 wild0 w) 0 0 None []) in
      ok && same_set (bm (s_mem s)) m1 && same_set (bwild (s_mem s)) wild1 &&
      match s_local s, file with
      | None, None => true
      | Some a, Some f => same_set (split_lines a) (split_lines f) && str_eqb f (lines_bytes (split_lines f))
      | _, _ => false
      end
  | CaseReload whitelist blocklist files mem_m mem_wild re_m re_wild re_w =>
      let b := load_initial whitelist blocklist files in
      same_set (bm b) re_m && same_set (bwild b) re_wild && same_set (bw b) re_w
  | CaseCrash whitelist old o limit local temps re_m re_wild old_m old_wild new_m new_wild =>
      let b0 := load_initial whitelist [] [old] in
      let '(_, snapped, b1) := apply_op o b0 in
      same_set (bm b0) old_m && same_set (bwild b0) old_wild &&
      same_set (bm b1) new_m && same_set (bwild b1) new_wild &&
      let lines := bm b1 ++ List.map (app persist_wildp) (bwild b1) in
      let total := Datatypes.length (snap_bytes (snapshot_of 1 b1)) in
      snapped &&
      (if (total <=? limit)%nat
       then (* no interruption: the write completed *)
         is_nil temps && match local with Some f => file_is_snapshot (bm b1) (bwild b1) f | None => false end
       else
         opt_str_eqb local (Some old) &&
         match temps with [t] => temp_is_cut lines limit t | _ => false end) &&
      (* the restart deletes the leftovers and reads `local` only *)
      let b := load_initial whitelist [] (disk_files (mk_disk local temps)) in
      same_set (bm b) re_m && same_set (bwild b) re_wild
  | CaseIoErr whitelist old o limit local temps re_m re_wild old_m old_wild new_m new_wild =>
      let b0 := load_initial whitelist [] [old] in
      let '(_, snapped, b1) := apply_op o b0 in
      same_set (bm b0) old_m && same_set (bwild b0) old_wild &&
      same_set (bm b1) new_m && same_set (bwild b1) new_wild &&
      let total := Datatypes.length (snap_bytes (snapshot_of 1 b1)) in
      snapped && is_nil temps &&          (* fail(): close, remove the temp file *)
      (if (total <=? limit)%nat
       then match local with Some f => file_is_snapshot (bm b1) (bwild b1) f | None => false end
       else opt_str_eqb local (Some old)) &&
      let b := load_initial whitelist [] (match local with Some f => [f] | None => [] end) in
      same_set (bm b) re_m && same_set (bwild b) re_wild
  | CaseFault whitelist old o which local temps re_m re_wild old_m old_wild new_m new_wild =>
      let b0 := load_initial whitelist [] [old] in
      let '(_, snapped, b1) := apply_op o b0 in
      same_set (bm b0) old_m && same_set (bwild b0) old_wild &&
      same_set (bm b1) new_m && same_set (bwild b1) new_wild &&
      snapped && (which <? 4)%nat &&
      (* the order of the lines plays no role for a step that fails: Model.fail_at *)
      let s := snapshot_of 1 b1 in
      let d := fail_at (mk_disk (Some old) []) s (fault_step s which) 0 in
      opt_str_eqb local (d_local d) && is_nil temps && is_nil (d_temps d) &&
      let b := load_initial whitelist [] (disk_files d) in
      same_set (bm b) re_m && same_set (bwild b) re_wild
  | CaseListed m0 wild0 w ops nr nr6 probes =>
      (* the model's own run of the calls, then the model's ServeDNS on the memory IT reached *)
      let '(ok, s) := run_ops ops (mk_sys (mk_bl m0 wild0 w) 0 0 None []) in
      ok &&
      forallb (fun pr => let '(q, qt, obs) := pr in
                 outcome_eqb (serve (s_mem s) nr nr6 q qt) obs && str_eqb (present (raw_name_of q)) q)
              probes
  end.

Definition spec_reply (nr nr6 : N) (qname : str) (qtype : N) (obs : outcome) : bool :=
  match obs with
  | OReply rcode aa ra an ns =>
      (* null route for A / AAAA, otherwise an empty authoritative answer; never an error code *)
      (rcode =? 0) && aa &&
      (if qtype =? type_a then rrs_eqb an [RR type_a ttl_a qname nr]
       else if qtype =? type_aaaa then rrs_eqb an [RR type_aaaa ttl_aaaa qname nr6]
       else is_nil an)
  | _ => false
  end.

(* the same set of names (label lists), whatever the spelling *)
Definition same_names (a b : list str) : bool :=
  let na := names_of a in let nb := names_of b in
  forallb (fun x => memn x nb) na && forallb (fun x => memn x na) nb.

Definition spec_case (c : case) : bool :=
  match c with
  | CaseExists m wild w probes =>
      forallb (fun pr => Bool.eqb (spec_blocks m wild w (fst pr)) (snd pr)) probes
  | CaseServe m wild w nr nr6 qname qtype obs =>
      if spec_blocks m wild w qname
      then spec_reply nr nr6 qname qtype obs
      else outcome_eqb obs ONext
  | CaseHistory m0 wild0 w ops m1 wild1 file =>
      (* once every call has returned, `local` holds exactly the memory *)
      match file with
      | Some f => file_is_snapshot m1 wild1 f
      | None => negb (any_success ops)
      end &&
      (* what Set accepted and nobody removed is blocked *)
      forallb (fun ck => match listed_probe ck with Some q => spec_blocks m1 wild1 w q | None => true end)
              (set_survives ops) &&
      (* the list that is matched is the list the calls have acknowledged *)
      ack_matched true m0 wild0 w ops m1 wild1
  | CaseConc m0 wild0 w threads m1 wild1 file =>
      match file with
      | Some f => file_is_snapshot m1 wild1 f
      | None => same_set m0 m1 && same_set wild0 wild1
      end
  | CaseSched m0 wild0 w steps m1 wild1 file =>
      (* whatever the order in which the snapshots reached persist(), the file is the memory *)
      match file with
      | Some f => file_is_snapshot m1 wild1 f
      | None => negb (existsb (fun st => match st with SMut _ ex wi => negb (is_nil ex && is_nil wi) | _ => false end) steps)
      end
  | CaseRefresh m0 wild0 w file0 downloads o ret m1 wild1 file1 =>
      (* every call has returned, nothing is in flight: with no remote list the file is the
         memory; with one, the memory is the file plus what the download lists (remote
         entries reach `local` with the next API call, by design) *)
      if is_nil downloads
      then (if ret =? 0 then opt_str_eqb file0 file1 && same_set m0 m1 && same_set wild0 wild1
            else match file1 with Some f => file_is_snapshot m1 wild1 f | None => false end)
      else match file1 with
           | Some f => file_plus_downloads downloads m1 wild1 f
           | None => ret =? 0
           end
  | CaseRHistory m0 wild0 w steps m1 wild1 file =>
      let dls := List.concat (List.map (fun st => match st with RHRefresh dl => dl | _ => [] end) steps) in
      let ops := List.concat (List.map (fun st => match st with RHOp o r => [(o, r)] | _ => [] end) steps) in
      match file with
      | Some f => if is_nil dls then file_is_snapshot m1 wild1 f else file_plus_downloads dls m1 wild1 f
      | None => negb (any_success ops)
      end &&
      (* a refresh never unblocks: what Set accepted and nobody removed is blocked *)
      forallb (fun ck => match listed_probe ck with Some q => spec_blocks m1 wild1 w q | None => true end)
              (set_survives ops) &&
      ack_matched false m0 wild0 w ops m1 wild1
  | CaseReload whitelist blocklist files mem_m mem_wild re_m re_wild re_w =>
      (* the reloaded list blocks exactly the names the memory that was persisted blocks *)
      (* the configured whitelist, as names: how the list spells its keys is its own business *)
      same_names (whitelist_of whitelist) re_w &&
      spec_equiv re_w mem_m mem_wild re_m re_wild
  | CaseCrash whitelist old o limit local temps re_m re_wild old_m old_wild new_m new_wild =>
      let w := whitelist_of whitelist in
      (* `local` is the complete previous file or the complete new one ... *)
      (opt_str_eqb local (Some old) ||
       match local with Some f => file_is_snapshot new_m new_wild f | None => false end) &&
      (* ... and a restart comes back with the previous list or the new one *)
      (spec_equiv w old_m old_wild re_m re_wild || spec_equiv w new_m new_wild re_m re_wild)
  | CaseIoErr whitelist old o limit local temps re_m re_wild old_m old_wild new_m new_wild =>
      (* a failed write must not reach `local`: previous complete file or complete new one *)
      let w := whitelist_of whitelist in
      (opt_str_eqb local (Some old) ||
       match local with Some f => file_is_snapshot new_m new_wild f | None => false end) &&
      (spec_equiv w old_m old_wild re_m re_wild || spec_equiv w new_m new_wild re_m re_wild)
  | CaseFault whitelist old o which local temps re_m re_wild old_m old_wild new_m new_wild =>
      (* the save did not complete (no temp file, a temp file that could not be synced or
         closed and so may be partial on the medium, or no rename): `local` is still the
         previous complete file, byte for byte, and a restart comes back with the previous list *)
      let w := whitelist_of whitelist in
      opt_str_eqb local (Some old) && spec_equiv w old_m old_wild re_m re_wild
  | CaseListed m0 wild0 w ops nr nr6 probes =>
      (* the list the calls acknowledged (as names, from the calls and their return values
         alone) decides every reply: blocked by the lower list -> null route / empty
         authoritative answer, next handler not reached; not blocked by the upper list ->
         untouched; in between (a batch accepted in part) nothing is said *)
      let '(lo, hi) := nack_lists m0 wild0 ops in
      let Wl := names_of w in
      forallb (fun pr => let '(q, qt, obs) := pr in
                 if spec_blocked_b (fst lo) (snd lo) Wl (name_of q) then spec_reply nr nr6 q qt obs
                 else if spec_blocked_b (fst hi) (snd hi) Wl (name_of q) then true
                 else outcome_eqb obs ONext)
              probes
  end.
