(* C18 — setLocked and removeLocked are TRANSLATED from the Go source (receiver-mutating methods:
   the final receiver is handed back): Gen.C18.go_BlockList_setLocked / go_BlockList_removeLocked.
   Here: on a BlockList whose three maps hold true for every key ([rep]) they are Model's
   set_locked / remove_locked — same answer, and the maps afterwards are again such maps, over the
   model's lists (go_map_set on such a map is Model.add, go_map_del is Model.del); the other
   fields are handed back untouched.  The steps of acknowledged_is_matched / listed_is_blocked
   (Model.apply_op = these two functions, once or in a batch loop) thus rest on translated code. *)
From Sdns Require Import Common.Base Common.GoList Gen.C18 C18.Model C18.Spec C18.Proofs_match C18.Proofs_walk C18.Proofs_maps.
Open Scope N_scope.

(* the BlockList of the source holds exactly the model's three lists *)
Definition rep (B : T_BlockList) (b : bl) : Prop :=
  T_BlockList_m B = amap (bm b) /\ T_BlockList_wild B = amap (bwild b) /\ T_BlockList_w B = amap (bw b).
(* nothing but the maps differs *)
Definition same_rest (B B' : T_BlockList) : Prop :=
  T_BlockList_version B' = T_BlockList_version B /\ T_BlockList_lastPersisted B' = T_BlockList_lastPersisted B /\
  T_BlockList_nullroute B' = T_BlockList_nullroute B /\ T_BlockList_null6route B' = T_BlockList_null6route B /\
  T_BlockList_cfg B' = T_BlockList_cfg B /\ T_BlockList_w B' = T_BlockList_w B.

Lemma map_has_amap l k : go_map_has (go_list_eqb N.eqb) (amap l) k = mem k l.
Proof.
  unfold go_map_has, mem, amap. induction l as [|x l IH]; [reflexivity|]. cbn [map existsb fst].
  now rewrite go_list_eqb_str, (str_eqb_sym x k), IH.
Qed.

Lemma map_set_amap l k : go_map_set (go_list_eqb N.eqb) (amap l) k true = amap (add k l).
Proof.
  unfold go_map_set, add. rewrite map_has_amap. destruct (mem k l) eqn:M.
  - unfold amap. rewrite map_map. apply map_ext_in. intros x _. cbn [fst].
    rewrite go_list_eqb_str. destruct (str_eqb x k) eqn:E; [|reflexivity]. apply str_eqb_eq in E. now subst.
  - unfold amap. now rewrite map_app.
Qed.

Lemma map_del_amap l k : go_map_del (go_list_eqb N.eqb) (amap l) k = amap (del k l).
Proof.
  unfold go_map_del, del, amap. induction l as [|x l IH]; [reflexivity|]. cbn [map filter fst].
  rewrite go_list_eqb_str, (str_eqb_sym x k). destruct (str_eqb k x); cbn [negb]; [exact IH|]. cbn [map]. now rewrite IH.
Qed.

Lemma has_star_prefix (s : str) : go_has_prefix N.eqb s [42; 46] = has_prefix [42; 46] s.
Proof.
  unfold go_has_prefix. destruct s as [|a [|b r]]; cbn; try reflexivity.
  - now rewrite (N.eqb_sym a 42).
  - now rewrite (N.eqb_sym a 42), (N.eqb_sym b 46).
Qed.

Lemma gen_setLocked (B : T_BlockList) (b : bl) (key0 : str) fuel :
  rep B b -> (length (canonical key0) < fuel)%nat -> Forall (fun c => c < 128) (canonical key0) ->
  exists B', go_BlockList_setLocked fuel B key0 = Some (fst (set_locked key0 b), B') /\
             rep B' (snd (set_locked key0 b)) /\ same_rest B B'.
Proof.
  intros (Em & Ew & El) Hf Ha. unfold go_BlockList_setLocked, set_locked. rewrite gen_canonical, El.
  rewrite gen_matchHierarchy by exact Hf.
  destruct (match_hierarchy (canonical key0) (bw b)).
  { exists B. cbn [fst snd]. repeat split; assumption. }
  rewrite gen_persistable by exact Ha.
  destruct (negb (persistable (canonical key0))).
  { exists B. cbn [fst snd]. repeat split; assumption. }
  rewrite has_star_prefix. change set_wildp with [42; 46]. change (N.to_nat set_wild_skip) with 2%nat.
  destruct (has_prefix [42; 46] (canonical key0)); eexists; (split; [reflexivity|]); cbn [fst snd].
  - split; [|repeat split; try (cbn; first [reflexivity|assumption|symmetry; assumption])]. split; [|split]; cbn; [exact Em| |first [exact El|reflexivity]].
    rewrite Ew. unfold go_slice_from. change (Z.to_nat 2) with 2%nat. apply map_set_amap.
  - split; [|repeat split; try (cbn; first [reflexivity|assumption|symmetry; assumption])]. split; [|split]; cbn; [|exact Ew|first [exact El|reflexivity]].
    rewrite Em. apply map_set_amap.
Qed.

Lemma gen_removeLocked (B : T_BlockList) (b : bl) (key0 : str) :
  rep B b ->
  exists B', go_BlockList_removeLocked B key0 = (fst (remove_locked key0 b), B') /\
             rep B' (snd (remove_locked key0 b)) /\ same_rest B B'.
Proof.
  intros (Em & Ew & El). unfold go_BlockList_removeLocked, remove_locked. rewrite gen_canonical, Em.
  rewrite map_has_amap. cbn beta iota zeta.
  destruct (mem (canonical key0) (bm b)).
  { eexists. split; [reflexivity|]. cbn [fst snd]. split; [|repeat split; try (cbn; first [reflexivity|assumption|symmetry; assumption])].
    split; [|split]; cbn; [apply map_del_amap|first [exact Ew|reflexivity]|first [exact El|reflexivity]]. }
  rewrite has_star_prefix. change remove_wildp with [42; 46]. change (N.to_nat remove_wild_skip) with 2%nat.
  destruct (has_prefix [42; 46] (canonical key0)).
  - rewrite Ew. unfold go_slice_from. change (Z.to_nat 2) with 2%nat. rewrite map_has_amap. cbn beta iota zeta.
    destruct (mem (skipn 2 (canonical key0)) (bwild b)).
    + eexists. split; [reflexivity|]. cbn [fst snd]. split; [|repeat split; try (cbn; first [reflexivity|assumption|symmetry; assumption])].
      split; [|split]; cbn; [first [exact Em|reflexivity]|apply map_del_amap|first [exact El|reflexivity]].
    + exists B. cbn [fst snd]. repeat split; assumption.
  - exists B. cbn [fst snd]. repeat split; assumption.
Qed.

(* SetBatch / RemoveBatch: the loop around setLocked / removeLocked (`for _, key := range keys
   { if b.setLocked(key) { added++ } }` — a receiver-mutating call inside an expression, which the
   translator refuses) written out over the TRANSLATED single steps *)
Fixpoint go_set_all (fuel : nat) (B : T_BlockList) (ks : list str) (n : N) : option (N * T_BlockList) :=
  match ks with
  | [] => Some (n, B)
  | k :: r => match go_BlockList_setLocked fuel B k with
              | Some (ok, B') => go_set_all fuel B' r (if ok then n + 1 else n)
              | None => None
              end
  end.
Fixpoint go_remove_all (B : T_BlockList) (ks : list str) (n : N) : N * T_BlockList :=
  match ks with
  | [] => (n, B)
  | k :: r => let '(ok, B') := go_BlockList_removeLocked B k in go_remove_all B' r (if ok then n + 1 else n)
  end.

Definition key_ok (fuel : nat) (k : str) : Prop :=
  (length (canonical k) < fuel)%nat /\ Forall (fun c => c < 128) (canonical k).

Lemma gen_set_all fuel : forall ks B b n, rep B b -> Forall (key_ok fuel) ks ->
  exists B', go_set_all fuel B ks n = Some (fst (batch set_locked ks b n), B') /\ rep B' (snd (batch set_locked ks b n)).
Proof.
  induction ks as [|k ks IH]; intros B b n R H; [now exists B|].
  inversion H as [|? ? [Hf Ha] Hr]; subst. cbn [go_set_all batch].
  destruct (gen_setLocked B b k fuel R Hf Ha) as (B1 & E & R1 & _). rewrite E.
  destruct (set_locked k b) as [ok b1]. cbn [fst snd] in *. now apply IH.
Qed.
Lemma gen_remove_all : forall ks B b n, rep B b ->
  exists B', go_remove_all B ks n = (fst (batch remove_locked ks b n), B') /\ rep B' (snd (batch remove_locked ks b n)).
Proof.
  induction ks as [|k ks IH]; intros B b n R; [now exists B|]. cbn [go_remove_all batch].
  destruct (gen_removeLocked B b k R) as (B1 & E & R1 & _). rewrite E.
  destruct (remove_locked k b) as [ok b1]. cbn [fst snd] in *. now apply IH.
Qed.

Lemma gen_batches fuel ks B b n : rep B b ->
  (Forall (key_ok fuel) ks ->
   exists B', go_set_all fuel B ks n = Some (fst (batch set_locked ks b n), B') /\ rep B' (snd (batch set_locked ks b n))) /\
  (exists B', go_remove_all B ks n = (fst (batch remove_locked ks b n), B') /\ rep B' (snd (batch remove_locked ks b n))).
Proof. intros R. split; [intros H; now apply gen_set_all|now apply gen_remove_all]. Qed.

(* non-vacuity: the translated functions, run: a plain and a wildcard key filed, a whitelisted
   child and a key with white space refused, a duplicate Set answers true and changes nothing,
   Remove of the plain key leaves the wildcard entry of the same suffix *)
Example translated_ops_example : forall cfg,
  let B0 := mk_T_BlockList 0 0 [] [] (amap []) (amap []) (amap [[103;111;111;100;46;116;101;115;116;46]]) cfg in   (* whitelist good.test. *)
  let k1 := [65;100;115;46;116;101;115;116] in            (* Ads.test *)
  let k2 := [42;46;97;100;115;46;116;101;115;116;46] in   (* *.ads.test. *)
  let k3 := [120;46;103;111;111;100;46;116;101;115;116] in (* x.good.test *)
  let k4 := [97;32;98;46;116;101;115;116] in              (* "a b.test" *)
  exists B2 B3,
  go_set_all 64 B0 [k1; k2; k3; k4; k1] 0 = Some (3, B2) /\
  T_BlockList_m B2 = amap [[97;100;115;46;116;101;115;116;46]] /\ T_BlockList_wild B2 = amap [[97;100;115;46;116;101;115;116;46]] /\
  go_BlockList_removeLocked B2 k1 = (true, B3) /\
  T_BlockList_m B3 = amap [] /\ T_BlockList_wild B3 = amap [[97;100;115;46;116;101;115;116;46]] /\
  fst (go_BlockList_removeLocked B3 k1) = false.
Proof. intros cfg. eexists. eexists. vm_compute. repeat split. Qed.
