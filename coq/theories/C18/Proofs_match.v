(* C18 — matching: the escape-aware string walk of Exists/matchHierarchy decides
   the label-level specification (Spec.blocked_spec) for every list and every
   wire name (labels of arbitrary bytes, written as dns.UnpackDomainName writes
   them); label boundaries; root entries; reply shape. *)
From Sdns Require Import Common.Base Common.GoList Gen.C18 C18.Model C18.Spec.
Open Scope N_scope.

Lemma and_iff_both (A B C D : Prop) : (A <-> B) -> (C <-> D) -> (A /\ C <-> B /\ D).
Proof. tauto. Qed.
Lemma or_iff_both (A B C D : Prop) : (A <-> B) -> (C <-> D) -> (A \/ C <-> B \/ D).
Proof. tauto. Qed.

(* ---------------------------------------------------------------- strings *)

Lemma str_eqb_eq a b : str_eqb a b = true <-> a = b.
Proof.
  revert b; induction a as [|x a IH]; intros [|y b]; cbn; split; intros H; try easy.
  - apply andb_true_iff in H as [H1 H2]. apply N.eqb_eq in H1. apply IH in H2. now subst.
  - injection H as -> ->. rewrite N.eqb_refl. cbn. now apply IH.
Qed.
Lemma str_eqb_refl a : str_eqb a a = true.
Proof. now apply str_eqb_eq. Qed.

Lemma mem_In k l : mem k l = true <-> In k l.
Proof.
  unfold mem. rewrite existsb_exists. split.
  - intros (x & Hx & E). apply str_eqb_eq in E. now subst.
  - intros H. exists k. split; [easy|apply str_eqb_refl].
Qed.
Lemma mem_false_In k l : mem k l = false <-> ~ In k l.
Proof. rewrite <- mem_In. destruct (mem k l); split; congruence. Qed.

Lemma gen_wild_prefix :
  set_wildp = [42; 46] /\ remove_wildp = [42; 46] /\ persist_wildp = [42; 46] /\
  set_wild_skip = 2 /\ remove_wild_skip = 2.
Proof. repeat split; reflexivity. Qed.
(* dns.CanonicalName / IsFqdn: the hand-written Model.canonical IS the model the translator
   uses for these calls under "ascii_strings" (Common.GoList.go_canonical_name_ascii, compared
   with the Go library on generated names by the translator's self-test) *)
Lemma gen_canonical (s : str) : go_canonical_name_ascii s = canonical s.
Proof.
  unfold go_canonical_name_ascii, canonical, go_fqdn_ascii, fqdn, go_ascii_lower.
  assert (F : go_is_fqdn_ascii s = is_fqdn s).
  { unfold go_is_fqdn_ascii, is_fqdn. destruct (rev s) as [|c r]; [reflexivity|].
    assert (T : forall r, go_trailing_backslashes r = count_bs r).
    { induction r0 as [|x r0 IH]; [reflexivity|]. cbn [go_trailing_backslashes count_bs].
      unfold c_bs. destruct (x =? 92) eqn:E.
      - apply N.eqb_eq in E. subst x. now rewrite IH.
      - destruct x as [|p]; [reflexivity|]. repeat (destruct p as [p|p|]; try reflexivity); cbn in E; discriminate. }
    unfold c_dot. destruct (c =? 46) eqn:E.
    - apply N.eqb_eq in E. subst c. cbn [andb]. now rewrite T.
    - destruct c as [|p]; [reflexivity|]. repeat (destruct p as [p|p|]; try reflexivity); cbn in E; discriminate. }
  rewrite F. destruct (is_fqdn s); apply map_ext; intros c; reflexivity.
Qed.
(* persistable is translated from the source (stage-3 translator, "ascii_strings":
   strings.IndexFunc(s, unicode.IsSpace) as Common.GoList.go_index_space_ascii).  The
   translation is exact for ASCII keys only — outside ASCII the library also finds the
   multi-byte white space (U+0085, U+00A0, U+2000…) — hence the premise; as an equation
   between the two Coq functions it holds for every octet list. *)
Lemma is_space_ascii c : go_is_space_ascii c = is_space c.
Proof.
  unfold go_is_space_ascii, is_space. apply eq_true_iff_eq.
  rewrite !orb_true_iff, andb_true_iff, !N.eqb_eq, !N.leb_le. lia.
Qed.
Lemma index_space_from_neg s : forall i, (0 <= i)%Z ->
  (go_index_space_from s i <? 0)%Z = negb (existsb is_space s).
Proof.
  induction s as [|x r IH]; intros i Hi; cbn [go_index_space_from existsb]; [reflexivity|].
  rewrite is_space_ascii. destruct (is_space x); cbn [orb negb].
  - apply Z.ltb_ge. exact Hi.
  - apply IH. lia.
Qed.
Lemma contains_byte s c : go_contains s [c] = existsb (fun x => x =? c) s.
Proof.
  induction s as [|x r IH]; [reflexivity|]. cbn [go_contains existsb]. rewrite IH. f_equal.
  unfold go_has_prefix. cbn. now rewrite andb_true_r.
Qed.
(* the white space outside ASCII (Model.uspace_seqs) needs an octet above 127 *)
Lemma ascii_no_uspace (k : str) : Forall (fun c : N => (c < 128)%N) k -> has_uspace k = false.
Proof.
  induction 1 as [|c r Hc _ IH]; [reflexivity|].
  cbn [has_uspace]. rewrite IH, orb_false_r.
  unfold uspace_seqs. cbn [existsb has_prefix].
  repeat match goal with |- context [?a =? c] => replace (a =? c) with false by (symmetry; apply N.eqb_neq; lia) end.
  reflexivity.
Qed.
Lemma gen_persistable (k : str) : Forall (fun c => c < 128) k -> go_persistable k = persistable k.
Proof.
  intros Hk. unfold persistable. rewrite (ascii_no_uspace k Hk). cbn [negb]. rewrite andb_true_r. clear Hk.
  unfold go_persistable, go_index_space_ascii, persistable_ascii.
  rewrite contains_byte, index_space_from_neg by lia. change persist_comment_char with 35.
  induction k as [|c r IH]; [reflexivity|]. cbn [existsb forallb]. rewrite <- IH.
  destruct (c =? 35), (is_space c), (existsb (fun x => x =? 35) r), (existsb is_space r); reflexivity.
Qed.
(* the names readBlocklists skips / loadInitial deletes are the ones CreateTemp makes *)
Lemma gen_temp_prefix : hd [] local_temp_prefix_strs ++ [42] = hd [] persist_temp_strs.
Proof. reflexivity. Qed.
(* the refresh pass is the downloads-only one, and downloads are the *.tmp files *)
Lemma gen_refresh : refresh_downloads_only_strs = [[116;114;117;101]] /\ download_ext_strs = [[46;116;109;112]].
Proof. split; reflexivity. Qed.
Lemma gen_comment : comment_str = [35] /\ comment_char = 35 /\ parse_comment_prefix_strs = [[35]; [35]].
Proof. repeat split; reflexivity. Qed.
Lemma gen_reply_consts : ttl_a = 3600 /\ ttl_aaaa = 3600.
Proof. split; reflexivity. Qed.

(* the alternative reading of Exists without its two shortcuts *)
Definition hier (key : str) (m : list str) : bool := mem key m || existsb (fun s => mem s m) (cands key).

Lemma match_hierarchy_alt key m : match_hierarchy key m = hier key m.
Proof.
  unfold match_hierarchy, hier. destruct m as [|x m]; cbn [is_nil].
  - cbn. symmetry. apply not_true_iff_false. intros H. apply existsb_exists in H as (s & _ & H). discriminate.
  - destruct (mem key (x :: m)); reflexivity.
Qed.

Definition blocked_walk (b : bl) (key : str) : bool :=
  mem key (bm b) || existsb (fun s => mem s (bm b) || mem s (bwild b)) (cands key).

Lemma bl_exists_alt b key0 :
  bl_exists b key0 = negb (hier (canonical key0) (bw b)) && blocked_walk b (canonical key0).
Proof.
  unfold bl_exists, blocked_walk. rewrite match_hierarchy_alt.
  destruct (hier (canonical key0) (bw b)); cbn [negb andb]; [reflexivity|].
  destruct (mem (canonical key0) (bm b)) eqn:E; cbn [orb]; [reflexivity|].
  destruct (bm b) as [|x m]; destruct (bwild b) as [|y wl]; cbn [is_nil andb]; try reflexivity.
  symmetry. apply not_true_iff_false. intros H. apply existsb_exists in H as (s & _ & H). discriminate.
Qed.

(* ---------------------------------------------------------------- names as strings *)

Definition okc (c : N) : Prop := c < 256.
Definition wireP (n : name) : Prop := wire_name n = true.

Lemma wire_label_inv l : wire_label l = true -> l <> [] /\ Forall okc l.
Proof.
  unfold wire_label. intros H. apply andb_true_iff in H as [H1 H2]. split.
  - destruct l; [discriminate|congruence].
  - rewrite forallb_forall in H2. apply Forall_forall. intros c Hc. apply N.ltb_lt. now apply H2.
Qed.
Lemma wireP_cons l n : wireP (l :: n) <-> wire_label l = true /\ wireP n.
Proof. unfold wireP. cbn. now rewrite andb_true_iff. Qed.

(* all proper tails, the root included *)
Fixpoint tails (n : name) : list name :=
  match n with [] => [] | _ :: r => r :: tails r end.

Lemma parents_tails n : parents n = filter (fun p => negb (is_nil p)) (tails n).
Proof.
  induction n as [|l n IH]; [reflexivity|]. cbn [parents tails filter].
  destruct n as [|l' n']; [reflexivity|]. cbn [is_nil negb]. now rewrite IH.
Qed.

Lemma lower_dot : lower c_dot = c_dot.
Proof. reflexivity. Qed.

Definition plainc (d : N) : Prop := d <> c_dot /\ d <> c_bs.

Lemma dot_suffixes_plain ds rest : Forall plainc ds -> dot_suffixes (ds ++ rest) = dot_suffixes rest.
Proof.
  induction 1 as [|d ds [H1 H2] _ IH]; [reflexivity|]. cbn [app dot_suffixes].
  apply N.eqb_neq in H1, H2. now rewrite H1, H2.
Qed.

Lemma In_tails p n : In p (tails n) <-> strict_parent p n.
Proof.
  unfold strict_parent. induction n as [|l n IH]; cbn.
  - split; [easy|]. intros (pre & Hne & E). destruct pre; [congruence|discriminate].
  - split.
    + intros [<-|H]; [exists [l]; split; [discriminate|reflexivity]|].
      apply IH in H as (pre & Hne & ->). exists (l :: pre). split; [discriminate|reflexivity].
    + intros (pre & Hne & E). destruct pre as [|x pre]; [congruence|]. cbn in E. injection E as -> ->.
      destruct pre as [|y pre]; [now left|]. right. apply IH. exists (y :: pre). split; [discriminate|reflexivity].
Qed.

Lemma In_parents p n : In p (parents n) <-> strict_parent p n /\ p <> [].
Proof.
  rewrite parents_tails, filter_In, In_tails. split; intros [A B]; split; try exact A.
  - destruct p; [discriminate|congruence].
  - destruct p; [congruence|reflexivity].
Qed.

Section Escaping.
  (* any way of writing label bytes that the walk can read: a byte is written as
     itself (then it is neither '.' nor a backslash) or as a backslash, one
     arbitrary byte, and bytes that are neither; compatible with ASCII folding;
     uniquely decodable *)
  Variable esc : N -> str.
  Hypothesis esc_shape : forall c, okc c ->
    (esc c = [c] /\ plainc c) \/ (exists x ds, esc c = c_bs :: x :: ds /\ Forall plainc ds).
  Hypothesis esc_lower : forall c, okc c -> map lower (esc c) = esc (lower c).
  Hypothesis esc_prefix_free : forall c d s t, okc c -> okc d -> esc c ++ s = esc d ++ t -> c = d.

  Let elabel := label_with esc.
  Let erender' := render'_with esc.
  Let erender := render_with esc.
  Let erender_suffix := render_suffix_with esc.

  Lemma erender_nonroot n : n <> [] -> erender n = erender' n.
  Proof. destruct n; [congruence|reflexivity]. Qed.

  Lemma erender'_cons l n : erender' (l :: n) = elabel l ++ c_dot :: erender' n.
  Proof. unfold erender', render'_with. cbn. now rewrite <- app_assoc. Qed.

  Lemma elabel_cons c l : elabel (c :: l) = esc c ++ elabel l.
  Proof. reflexivity. Qed.

  Lemma esc_head c : okc c -> exists h t, esc c = h :: t /\ h <> c_dot.
  Proof.
    intros Hc. destruct (esc_shape c Hc) as [[E [H1 _]]|(x & ds & E & _)]; rewrite E; eexists _, _; split; try reflexivity.
    - exact H1.
    - discriminate.
  Qed.

  Lemma dot_suffixes_esc c rest : okc c -> dot_suffixes (esc c ++ rest) = dot_suffixes rest.
  Proof.
    intros Hc. destruct (esc_shape c Hc) as [[E [H1 H2]]|(x & ds & E & Hds)]; rewrite E.
    - cbn [app dot_suffixes]. apply N.eqb_neq in H1, H2. now rewrite H1, H2.
    - cbn [app dot_suffixes]. rewrite N.eqb_refl. now apply dot_suffixes_plain.
  Qed.

  Lemma dot_suffixes_label l rest : Forall okc l ->
    dot_suffixes (elabel l ++ c_dot :: rest) = rest :: dot_suffixes rest.
  Proof.
    induction 1 as [|c l Hc _ IH].
    - reflexivity.
    - rewrite elabel_cons, <- app_assoc, dot_suffixes_esc by exact Hc. exact IH.
  Qed.

  Lemma elabel_nonempty l : l <> [] -> Forall okc l -> elabel l <> [].
  Proof.
    intros Hne H. destruct H as [|c l Hc _]; [congruence|]. rewrite elabel_cons.
    destruct (esc_head c Hc) as (h & t & E & _). rewrite E. discriminate.
  Qed.

  Lemma erender'_nonempty n : n <> [] -> erender' n <> [].
  Proof. destruct n as [|l n]; [congruence|]. intros _. rewrite erender'_cons. destruct (elabel l); discriminate. Qed.

  Lemma dot_suffixes_erender' n : wireP n -> dot_suffixes (erender' n) = map erender' (tails n).
  Proof.
    induction n as [|l n IH]; intros H; [reflexivity|].
    apply wireP_cons in H as [Hl Hn]. apply wire_label_inv in Hl as [_ Hl].
    rewrite erender'_cons, dot_suffixes_label by exact Hl. cbn. f_equal. now apply IH.
  Qed.

  Lemma cands_erender' n : wireP n -> cands (erender' n) = map erender' (parents n).
  Proof.
    intros H. unfold cands. rewrite dot_suffixes_erender' by exact H. rewrite parents_tails.
    induction (tails n) as [|p t IH]; [reflexivity|]. cbn [map filter].
    destruct p as [|l p]; cbn [is_nil negb].
    - exact IH.
    - assert (E : nonempty (erender' (l :: p)) = true).
      { unfold nonempty. destruct (erender' (l :: p)) eqn:E; [|reflexivity]. exfalso. now apply (erender'_nonempty (l :: p)). }
      rewrite E. cbn [map]. f_equal. exact IH.
  Qed.

  Lemma cands_erender n : wireP n -> cands (erender n) = map erender (parents n).
  Proof.
    intros H. destruct n as [|l n]; [reflexivity|].
    rewrite erender_nonroot by discriminate. rewrite cands_erender' by exact H.
    apply map_ext_in. intros p Hp. symmetry. apply erender_nonroot.
    rewrite parents_tails in Hp. apply filter_In in Hp as [_ Hp]. destruct p; [discriminate|congruence].
  Qed.

  (* unique decoding *)
  Lemma label_dot_inj l1 l2 r1 r2 : Forall okc l1 -> Forall okc l2 ->
    elabel l1 ++ c_dot :: r1 = elabel l2 ++ c_dot :: r2 -> l1 = l2 /\ r1 = r2.
  Proof.
    intros H1. revert l2. induction H1 as [|c l1 Hc _ IH]; intros l2 H2 E.
    - destruct H2 as [|d l2 Hd _]; [cbn in E; now injection E|].
      exfalso. rewrite elabel_cons in E. destruct (esc_head d Hd) as (h & t & Eh & Hh). rewrite Eh in E.
      cbn in E. injection E as E _. congruence.
    - destruct H2 as [|d l2 Hd H2].
      + exfalso. rewrite elabel_cons in E. destruct (esc_head c Hc) as (h & t & Eh & Hh). rewrite Eh in E.
        cbn in E. injection E as E _. congruence.
      + rewrite !elabel_cons, <- !app_assoc in E.
        pose proof (esc_prefix_free c d _ _ Hc Hd E) as ->. apply app_inv_head in E.
        destruct (IH l2 H2 E) as [-> ->]. easy.
  Qed.

  Lemma erender'_inj a b : wireP a -> wireP b -> erender' a = erender' b -> a = b.
  Proof.
    revert b; induction a as [|l a IH]; intros [|k b] Ha Hb E; try reflexivity.
    - exfalso. symmetry in E. now apply (erender'_nonempty (k :: b)).
    - exfalso. now apply (erender'_nonempty (l :: a)).
    - apply wireP_cons in Ha as [Hl Ha]. apply wireP_cons in Hb as [Hk Hb].
      apply wire_label_inv in Hl as [_ Hl]. apply wire_label_inv in Hk as [_ Hk].
      rewrite !erender'_cons in E. destruct (label_dot_inj _ _ _ _ Hl Hk E) as [-> E']. f_equal. now apply IH.
  Qed.

  Lemma erender_root_ne l a : wireP (l :: a) -> erender (l :: a) <> [c_dot].
  Proof.
    intros H E. rewrite erender_nonroot in E by discriminate. rewrite erender'_cons in E.
    apply wireP_cons in H as [Hl _]. apply wire_label_inv in Hl as [Hne Hl].
    destruct Hl as [|c l Hc _]; [congruence|]. rewrite elabel_cons in E.
    destruct (esc_head c Hc) as (h & t & Eh & Hh). rewrite Eh in E. cbn in E. injection E as E _. congruence.
  Qed.

  Lemma erender_inj a b : wireP a -> wireP b -> erender a = erender b -> a = b.
  Proof.
    intros Ha Hb E. destruct a as [|l a], b as [|k b]; try reflexivity.
    - exfalso. symmetry in E. now apply (erender_root_ne k b).
    - exfalso. now apply (erender_root_ne l a).
    - rewrite !erender_nonroot in E by discriminate. now apply erender'_inj.
  Qed.

  Lemma mem_erender a M : wireP a -> Forall wireP M -> (mem (erender a) (map erender M) = true <-> In a M).
  Proof.
    intros Ha HM. rewrite mem_In, in_map_iff. split.
    - intros (x & E & Hx). rewrite Forall_forall in HM. apply erender_inj in E; [now subst| now apply HM | exact Ha].
    - intros H. now exists a.
  Qed.

  Lemma mem_erender_suffix p W : wireP p -> p <> [] -> Forall wireP W ->
    (mem (erender p) (map erender_suffix W) = true <-> In p W).
  Proof.
    intros Hp Hne HW. rewrite mem_In, in_map_iff. split.
    - intros (x & E & Hx). rewrite Forall_forall in HW. destruct x as [|l x].
      + exfalso. cbn in E. rewrite erender_nonroot in E by exact Hne. symmetry in E. now apply (erender'_nonempty p).
      + change (erender_suffix (l :: x)) with (erender (l :: x)) in E.
        apply erender_inj in E; [now subst| now apply HW | exact Hp].
    - intros H. exists p. split; [|exact H]. destruct p; [congruence|reflexivity].
  Qed.

  (* ---- canonical form *)
  Lemma okc_lower c : okc c -> okc (lower c).
  Proof.
    unfold okc, lower. intros H. destruct ((65 <=? c) && (c <=? 90)) eqn:E; [|exact H].
    apply andb_true_iff in E as [E1 E2]. apply N.leb_le in E1, E2. lia.
  Qed.

  Lemma fold_wire_label l : wire_label l = true -> wire_label (fold_label l) = true.
  Proof.
    intros H. apply wire_label_inv in H as [Hne H]. unfold wire_label, fold_label.
    apply andb_true_iff. split.
    - destruct l; [congruence|reflexivity].
    - apply forallb_forall. intros c Hc. apply in_map_iff in Hc as (d & <- & Hd).
      rewrite Forall_forall in H. apply N.ltb_lt. apply okc_lower. now apply H.
  Qed.

  Lemma fold_wire n : wireP n -> wireP (fold_name n).
  Proof.
    unfold wireP, wire_name, fold_name. rewrite !forallb_forall. intros H l Hl.
    apply in_map_iff in Hl as (k & <- & Hk). apply fold_wire_label. now apply H.
  Qed.

  Lemma map_lower_elabel l : Forall okc l -> map lower (elabel l) = elabel (fold_label l).
  Proof.
    induction 1 as [|c l Hc _ IH]; [reflexivity|].
    rewrite elabel_cons, map_app, IH, esc_lower by exact Hc. reflexivity.
  Qed.

  Lemma map_lower_erender' n : wireP n -> map lower (erender' n) = erender' (fold_name n).
  Proof.
    induction n as [|l n IH]; intros H; [reflexivity|].
    apply wireP_cons in H as [Hl Hn]. apply wire_label_inv in Hl as [_ Hl].
    rewrite erender'_cons. cbn [fold_name map]. rewrite erender'_cons, map_app. cbn [map].
    rewrite lower_dot, map_lower_elabel by exact Hl. fold (fold_name n). now rewrite IH.
  Qed.

  Lemma map_lower_erender n : wireP n -> map lower (erender n) = erender (fold_name n).
  Proof.
    intros H. destruct n as [|l n]; [reflexivity|]. rewrite erender_nonroot by discriminate.
    rewrite map_lower_erender' by exact H. symmetry. apply erender_nonroot. discriminate.
  Qed.

  (* the run of backslashes before the final dot is made of whole "\\" pairs *)
  Lemma even_bs_esc c rest : okc c -> Nat.even (count_bs rest) = true ->
    Nat.even (count_bs (rev (esc c) ++ rest)) = true.
  Proof.
    intros Hc He. destruct (esc_shape c Hc) as [[E [_ H2]]|(x & ds & E & Hds)]; rewrite E.
    - cbn. apply N.eqb_neq in H2. now rewrite H2.
    - cbn [rev]. rewrite <- !app_assoc. cbn [app].
      destruct (rev ds) as [|d r] eqn:Er.
      + cbn [app count_bs]. destruct (x =? c_bs) eqn:Ex; [|reflexivity].
        rewrite N.eqb_refl. cbn. exact He.
      + assert (Hin : In d ds) by (apply in_rev; rewrite Er; now left).
        rewrite Forall_forall in Hds. destruct (Hds d Hin) as [_ Hb]. cbn. apply N.eqb_neq in Hb. now rewrite Hb.
  Qed.

  Lemma even_bs_label l rest : Forall okc l -> Nat.even (count_bs rest) = true ->
    Nat.even (count_bs (rev (elabel l) ++ rest)) = true.
  Proof.
    intros H. revert rest. induction H as [|c l Hc _ IH]; intros rest He; [exact He|].
    rewrite elabel_cons, rev_app_distr, <- app_assoc. apply IH. now apply even_bs_esc.
  Qed.

  Lemma erender'_app a b : erender' (a ++ b) = erender' a ++ erender' b.
  Proof. unfold erender', render'_with. apply flat_map_app. Qed.

  Lemma count_bs_rev_erender' ls : count_bs (rev (erender' ls)) = O.
  Proof.
    destruct ls as [|x ls] using rev_ind; [reflexivity|].
    rewrite erender'_app. unfold erender' at 2, render'_with. cbn [flat_map]. rewrite app_nil_r.
    rewrite !rev_app_distr. reflexivity.
  Qed.

  Lemma is_fqdn_erender n : wireP n -> is_fqdn (erender n) = true.
  Proof.
    intros H. destruct n as [|l n]; [reflexivity|]. rewrite erender_nonroot by discriminate.
    destruct (@exists_last _ (l :: n)) as (ls & lst & E); [discriminate|]. rewrite E in *.
    unfold wireP, wire_name in H. rewrite forallb_app in H. apply andb_true_iff in H as [_ Hl].
    cbn in Hl. rewrite andb_true_r in Hl. apply wire_label_inv in Hl as [_ Hl].
    rewrite erender'_app. unfold erender' at 2, render'_with. cbn [flat_map]. rewrite app_nil_r.
    unfold is_fqdn. rewrite !rev_app_distr. cbn [rev app]. rewrite N.eqb_refl. cbn [andb].
    apply even_bs_label; [exact Hl|]. now rewrite count_bs_rev_erender'.
  Qed.

  Lemma canonical_erender n : wireP n -> canonical (erender n) = erender (fold_name n).
  Proof. intros H. unfold canonical, fqdn. rewrite is_fqdn_erender by exact H. now apply map_lower_erender. Qed.

  (* ---- parents as a relation *)
  Lemma wire_parents p n : wireP n -> In p (parents n) -> wireP p.
  Proof.
    intros Hn Hp. rewrite parents_tails in Hp. apply filter_In in Hp as [Hp _].
    revert p Hp. induction n as [|l n IH]; intros p Hp; [destruct Hp|].
    apply wireP_cons in Hn as [_ Hn]. destruct Hp as [<-|Hp]; [exact Hn|]. now apply IH.
  Qed.

  Definition state_with (M W Wl : list name) : bl :=
    mk_bl (map erender M) (map erender_suffix W) (map erender Wl).

  Lemma existsb_parents_iff (f : str -> bool) (P : name -> Prop) n :
    (forall p, In p (parents n) -> (f (erender p) = true <-> P p)) ->
    (existsb f (map erender (parents n)) = true <-> exists p, In p (parents n) /\ P p).
  Proof.
    intros H. rewrite existsb_exists. split.
    - intros (s & Hs & Hf). apply in_map_iff in Hs as (p & <- & Hp). exists p. split; [exact Hp|]. now apply H.
    - intros (p & Hp & HP). exists (erender p). split; [now apply in_map|]. now apply H.
  Qed.
  (* ---- exists_spec, for any such way of writing names *)
  Lemma exists_spec_with M W Wl q :
    Forall wireP M -> Forall wireP W -> Forall wireP Wl -> wireP q ->
    (bl_exists (state_with M W Wl) (erender q) = true <-> blocked_spec M W Wl (fold_name q)).
  Proof.
    intros HM HW HWl Hq0.
    assert (Hq : wireP (fold_name q)) by now apply fold_wire.
    rewrite bl_exists_alt, canonical_erender by exact Hq0. set (n := fold_name q) in *.
    unfold hier, blocked_walk, state_with. cbn [bm bwild bw]. rewrite cands_erender by exact Hq.
    rewrite andb_true_iff, negb_true_iff, and_comm. unfold blocked_spec. apply and_iff_both.
    - rewrite orb_true_iff. apply or_iff_both; [now apply mem_erender|].
      rewrite (existsb_parents_iff _ (fun p => In p M \/ In p W)).
      + split.
        * intros (p & Hp & HP). apply In_parents in Hp as [A B]. now exists p.
        * intros (p & A & B & HP). exists p. split; [now apply In_parents|exact HP].
      + intros p Hp. assert (wireP p) by now apply (wire_parents p n).
        apply In_parents in Hp as [_ Hne].
        rewrite orb_true_iff. apply or_iff_both; [now apply mem_erender|now apply mem_erender_suffix].
    - rewrite <- not_true_iff_false. apply not_iff_compat.
      rewrite orb_true_iff, (existsb_parents_iff _ (fun p => In p Wl)).
      + rewrite mem_erender by assumption. split.
        * intros [H|(p & Hp & H)]; [exists n; split; [now left|exact H]|].
          apply In_parents in Hp. exists p. split; [now right|exact H].
        * intros (a & [->|Ha] & H); [now left|]. right. exists a. split; [now apply In_parents|exact H].
      + intros p Hp. assert (wireP p) by now apply (wire_parents p n). now apply mem_erender.
  Qed.

  (* a listed name that is only a byte-suffix of the query's first label plays no role *)
  Lemma label_boundary_with (l x : label) (p : name) :
    wire_label l = true -> wire_label (x ++ l) = true -> x <> [] -> wireP p ->
    forall W, Forall wireP W ->
    bl_exists (state_with [l :: p] W []) (erender ((x ++ l) :: p)) = false <->
    ~ (exists a, In a (parents (fold_name ((x ++ l) :: p))) /\ (a = l :: p \/ In a W)).
  Proof.
    intros Hl Hxl Hx Hp W HW.
    assert (Hq : wireP ((x ++ l) :: p)) by (apply wireP_cons; easy).
    assert (HM : Forall wireP [l :: p]) by (constructor; [apply wireP_cons; easy|constructor]).
    rewrite <- not_true_iff_false. apply not_iff_compat.
    rewrite (exists_spec_with [l :: p] W [] _ HM HW (Forall_nil _) Hq). unfold blocked_spec. split.
    - intros [[H|(a & A & B & H)] _].
      + exfalso. destruct H as [H|[]]. cbn [fold_name map] in H. injection H as H _.
        apply (f_equal (@length N)) in H. unfold fold_label in H. rewrite map_length, app_length in H.
        destruct x; [congruence|cbn in H; lia].
      + exists a. split; [now apply In_parents|]. destruct H as [[H|[]]|H]; [now left|now right].
    - intros (a & Ha & H). apply In_parents in Ha as [A B]. split.
      + right. exists a. repeat split; try assumption. destruct H as [->|H]; [left; now left|now right].
      + intros (b & _ & []).
  Qed.

  Lemma root_entries_with q : wireP q -> q <> [] ->
    bl_exists (state_with [[]] [[]] []) (erender q) = false /\
    bl_exists (state_with [[]] [] []) (erender []) = true /\
    (forall M W, Forall wireP M -> Forall wireP W ->
       bl_exists (state_with M W [[]]) (erender q) = bl_exists (state_with M W []) (erender q)).
  Proof.
    intros Hq Hne. split; [|split].
    - apply not_true_iff_false. intros H.
      apply (exists_spec_with [[]] [[]] []) in H; try (repeat constructor); try exact Hq.
      destruct H as [[[H|[]]|(p & A & B & [[H|[]]|[H|[]]])] _]; try congruence.
      destruct q; [congruence|discriminate].
    - reflexivity.
    - intros M W HM HW.
      assert (HR : Forall wireP [[]]) by (repeat constructor).
      destruct (bl_exists (state_with M W [[]]) (erender q)) eqn:E1, (bl_exists (state_with M W []) (erender q)) eqn:E2; try reflexivity; exfalso.
      + apply (exists_spec_with M W [[]] q HM HW HR Hq) in E1. apply not_true_iff_false in E2. apply E2.
        apply (exists_spec_with M W [] q HM HW (Forall_nil _) Hq). destruct E1 as [A _]. split; [exact A|].
        intros (a & _ & []).
      + apply (exists_spec_with M W [] q HM HW (Forall_nil _) Hq) in E2. apply not_true_iff_false in E1. apply E1.
        apply (exists_spec_with M W [[]] q HM HW HR Hq). destruct E2 as [A _]. split; [exact A|].
        intros (a & [Ea|[_ Ha]] & [Er|[]]); [|congruence]. subst a. destruct q; [congruence|discriminate].
  Qed.
End Escaping.

(* ---------------------------------------------------------------- dns.UnpackDomainName's escaping qualifies *)

Definition all_bytes : list N := map N.of_nat (seq 0 256).
Lemma In_all_bytes c : okc c -> In c all_bytes.
Proof.
  unfold okc, all_bytes. intros H. apply in_map_iff. exists (N.to_nat c). split; [apply N2Nat.id|].
  apply in_seq. lia.
Qed.

Definition plainb (d : N) : bool := negb (d =? c_dot) && negb (d =? c_bs).
Lemma plainb_spec d : plainb d = true -> plainc d.
Proof. unfold plainb, plainc. intros H. apply andb_true_iff in H as [A B]. apply negb_true_iff, N.eqb_neq in A, B. easy. Qed.

Definition shape_b (c : N) : bool :=
  match esc_byte c with
  | [x] => (x =? c) && plainb x
  | b :: _ :: ds => (b =? c_bs) && forallb plainb ds
  | [] => false
  end.

Lemma esc_byte_shape c : okc c ->
  (esc_byte c = [c] /\ plainc c) \/ (exists x ds, esc_byte c = c_bs :: x :: ds /\ Forall plainc ds).
Proof.
  intros Hc. assert (H : forallb shape_b all_bytes = true) by (vm_compute; reflexivity).
  rewrite forallb_forall in H. specialize (H c (In_all_bytes c Hc)). unfold shape_b in H.
  destruct (esc_byte c) as [|b [|x ds]]; [discriminate| |].
  - apply andb_true_iff in H as [A B]. apply N.eqb_eq in A. subst. left. split; [reflexivity|now apply plainb_spec].
  - apply andb_true_iff in H as [A B]. apply N.eqb_eq in A. subst. right. exists x, ds. split; [reflexivity|].
    apply Forall_forall. intros d Hd. rewrite forallb_forall in B. now apply plainb_spec, B.
Qed.

Lemma esc_byte_lower c : okc c -> map lower (esc_byte c) = esc_byte (lower c).
Proof.
  intros Hc. assert (H : forallb (fun c => str_eqb (map lower (esc_byte c)) (esc_byte (lower c))) all_bytes = true)
    by (vm_compute; reflexivity).
  rewrite forallb_forall in H. apply str_eqb_eq. exact (H c (In_all_bytes c Hc)).
Qed.

Lemma app_eq_prefix (a b s t : str) : a ++ s = b ++ t -> has_prefix a b = true \/ has_prefix b a = true.
Proof.
  revert b; induction a as [|x a IH]; intros [|y b] E; cbn; auto.
  cbn in E. injection E as -> E. rewrite N.eqb_refl. cbn. now apply IH.
Qed.

Lemma esc_byte_prefix_free c d s t : okc c -> okc d -> esc_byte c ++ s = esc_byte d ++ t -> c = d.
Proof.
  intros Hc Hd E.
  assert (H : forallb (fun c => forallb (fun d => negb (has_prefix (esc_byte c) (esc_byte d)) || (c =? d)) all_bytes) all_bytes = true)
    by (vm_compute; reflexivity).
  rewrite forallb_forall in H.
  destruct (app_eq_prefix _ _ _ _ E) as [P|P].
  - specialize (H c (In_all_bytes c Hc)). rewrite forallb_forall in H. specialize (H d (In_all_bytes d Hd)).
    rewrite P in H. cbn in H. now apply N.eqb_eq.
  - specialize (H d (In_all_bytes d Hd)). rewrite forallb_forall in H. specialize (H c (In_all_bytes c Hc)).
    rewrite P in H. cbn in H. symmetry. now apply N.eqb_eq.
Qed.

Definition state_of (M W Wl : list name) : bl :=
  mk_bl (map present M) (map present_suffix W) (map present Wl).

Lemma exists_spec_lemma M W Wl q :
  Forall wireP M -> Forall wireP W -> Forall wireP Wl -> wireP q ->
  (bl_exists (state_of M W Wl) (present q) = true <-> blocked_spec M W Wl (fold_name q)).
Proof. exact (exists_spec_with esc_byte esc_byte_shape esc_byte_lower esc_byte_prefix_free M W Wl q). Qed.

Lemma label_boundary_lemma (l x : label) (p : name) :
  wire_label l = true -> wire_label (x ++ l) = true -> x <> [] -> wireP p ->
  forall W, Forall wireP W ->
  bl_exists (state_of [l :: p] W []) (present ((x ++ l) :: p)) = false <->
  ~ (exists a, In a (parents (fold_name ((x ++ l) :: p))) /\ (a = l :: p \/ In a W)).
Proof. exact (label_boundary_with esc_byte esc_byte_shape esc_byte_lower esc_byte_prefix_free l x p). Qed.

Lemma root_entries_lemma q : wireP q -> q <> [] ->
  bl_exists (state_of [[]] [[]] []) (present q) = false /\
  bl_exists (state_of [[]] [] []) (present []) = true /\
  (forall M W, Forall wireP M -> Forall wireP W ->
     bl_exists (state_of M W [[]]) (present q) = bl_exists (state_of M W []) (present q)).
Proof. exact (root_entries_with esc_byte esc_byte_shape esc_byte_lower esc_byte_prefix_free q). Qed.

(* the textbook instances, on the strings the code sees *)
Definition s_example_com : str := [101;120;97;109;112;108;101;46;99;111;109;46].
Definition s_notexample_com : str := [110;111;116] ++ s_example_com.
Lemma label_boundary_example :
  bl_exists (mk_bl [s_example_com] [] []) s_notexample_com = false /\
  bl_exists (mk_bl [] [s_example_com] []) s_notexample_com = false /\
  bl_exists (mk_bl [s_example_com] [] []) ([119;119;119;46] ++ s_example_com) = true /\
  bl_exists (mk_bl [s_example_com] [] []) [69;88;65;77;80;76;69;46;67;79;77] = true.
Proof. repeat split; reflexivity. Qed.

(* a label that contains a dot: "a.b" under test. is written a\.b.test. and is not
   a child of b.test. (it was, before commit 329a134) *)
Definition esc_query : str := [97; 92; 46; 98; 46; 116; 101; 115; 116; 46].   (* a\.b.test. *)
Definition esc_entry : str := [98; 46; 116; 101; 115; 116; 46].               (* b.test.    *)
Lemma escaped_dot_example :
  present [[97; 46; 98]; [116; 101; 115; 116]] = esc_query /\
  name_of esc_query = [[97; 46; 98]; [116; 101; 115; 116]] /\
  bl_exists (mk_bl [esc_entry] [] []) esc_query = false /\
  bl_exists (mk_bl [[116; 101; 115; 116; 46]] [] []) esc_query = true /\
  bl_exists (mk_bl [] [[116; 101; 115; 116; 46]] [esc_entry]) esc_query = true.
Proof. repeat split; reflexivity. Qed.

(* the executable specification agrees with the propositional one *)
Lemma name_eqb_eq a b : name_eqb a b = true <-> a = b.
Proof.
  revert b; induction a as [|x a IH]; intros [|y b]; cbn; split; intros H; try easy.
  - apply andb_true_iff in H as [H1 H2]. apply str_eqb_eq in H1. apply IH in H2. now subst.
  - injection H as -> ->. rewrite str_eqb_refl. cbn. now apply IH.
Qed.
Lemma memn_In a l : memn a l = true <-> In a l.
Proof.
  unfold memn. rewrite existsb_exists. split.
  - intros (x & Hx & E). apply name_eqb_eq in E. now subst.
  - intros H. exists a. split; [easy|now apply name_eqb_eq].
Qed.
Lemma spec_blocked_b_spec M W Wl q : spec_blocked_b M W Wl q = true <-> blocked_spec M W Wl q.
Proof.
  unfold spec_blocked_b, blocked_spec. rewrite andb_true_iff, and_comm. apply and_iff_both.
  - rewrite orb_true_iff, memn_In, existsb_exists. apply or_iff_compat_l. split.
    + intros (p & Hp & H). apply In_parents in Hp as [A B]. exists p. repeat split; try assumption.
      apply orb_true_iff in H. now rewrite !memn_In in H.
    + intros (p & A & B & H). exists p. split; [now apply In_parents|]. apply orb_true_iff. now rewrite !memn_In.
  - rewrite negb_true_iff, <- not_true_iff_false. apply not_iff_compat. rewrite existsb_exists. split.
    + intros (a & [<-|Ha] & H); apply memn_In in H; [exists q; split; [now left|exact H]|].
      apply In_parents in Ha. exists a. split; [now right|exact H].
    + intros (a & [->|Ha] & H); [exists q; split; [now left|now apply memn_In]|].
      exists a. split; [right; now apply In_parents|now apply memn_In].
Qed.

(* ---------------------------------------------------------------- reply shape *)

Lemma reply_shape_lemma b nr nr6 qname qtype :
  (bl_exists b qname = true ->
     exists an ns, serve b nr nr6 qname qtype = OReply 0 true true an ns /\
       (qtype = type_a -> an = [RR type_a ttl_a qname nr] /\ ns = []) /\
       (qtype = type_aaaa -> an = [RR type_aaaa ttl_aaaa qname nr6] /\ ns = []) /\
       (qtype <> type_a -> qtype <> type_aaaa -> an = [] /\ exists soa, ns = [soa])) /\
  (bl_exists b qname = false -> serve b nr nr6 qname qtype = ONext).
Proof.
  split; intros E.
  - unfold serve. rewrite E. cbn [negb].
    assert (Hne : is_nil (bm b) && is_nil (bwild b) = false).
    { rewrite bl_exists_alt in E. apply andb_true_iff in E as [_ E]. unfold blocked_walk in E.
      destruct (bm b), (bwild b); try reflexivity. cbn in E.
      exfalso. apply existsb_exists in E as (s & _ & H). discriminate. }
    rewrite Hne.
    destruct (qtype =? type_a) eqn:EA; [|destruct (qtype =? type_aaaa) eqn:E6].
    + apply N.eqb_eq in EA. subst. eexists _, _. split; [reflexivity|]. repeat split; try easy.
    + apply N.eqb_eq in E6. subst. eexists _, _. split; [reflexivity|]. repeat split; try easy.
    + apply N.eqb_neq in EA, E6. eexists _, _. split; [reflexivity|]. repeat split; try easy. now eexists.
  - unfold serve. rewrite E. cbn [negb]. now destruct (is_nil (bm b) && is_nil (bwild b)).
Qed.
