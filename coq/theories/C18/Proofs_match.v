(* C18 — matching: the string walk of Exists/matchHierarchy decides the
   label-level specification (Spec.blocked_spec) for every list and every
   name whose labels need no escaping; label boundaries; root entries;
   the counterexample for labels containing an escaped dot; reply shape. *)
From Sdns Require Import Common.Base Gen.C18 C18.Model C18.Spec.
Open Scope N_scope.

Lemma and_iff_both (A B C D : Prop) : (A <-> B) -> (C <-> D) -> (A /\ C <-> B /\ D).
Proof. tauto. Qed.
Lemma or_iff_both (A B C D : Prop) : (A <-> B) -> (C <-> D) -> (A \/ C <-> B \/ D).
Proof. tauto. Qed.

(* ---------------------------------------------------------------- strings *)

Lemma str_eqb_eq a b : str_eqb a b = true <-> a = b.
Proof.
  revert b; induction a as [|x a IH]; intros [|y b]; cbn; split; intros H; try easy.
  - apply andb_true_iff in H as [H1 H2]. apply N.eqb_eq in H1. apply IH in H2. now subst.
  - injection H as -> ->. rewrite N.eqb_refl. cbn. now apply IH.
Qed.
Lemma str_eqb_refl a : str_eqb a a = true.
Proof. now apply str_eqb_eq. Qed.

Lemma mem_In k l : mem k l = true <-> In k l.
Proof.
  unfold mem. rewrite existsb_exists. split.
  - intros (x & Hx & E). apply str_eqb_eq in E. now subst.
  - intros H. exists k. split; [easy|apply str_eqb_refl].
Qed.
Lemma mem_false_In k l : mem k l = false <-> ~ In k l.
Proof. rewrite <- mem_In. destruct (mem k l); split; congruence. Qed.

Lemma gen_wild_prefix :
  set_wildp = [42; 46] /\ remove_wildp = [42; 46] /\ persist_wildp = [42; 46] /\
  set_wild_skip = 2 /\ remove_wild_skip = 2.
Proof. repeat split; reflexivity. Qed.
Lemma gen_comment : comment_str = [35] /\ comment_char = 35 /\ parse_comment_prefix_strs = [[35]; [35]].
Proof. repeat split; reflexivity. Qed.
Lemma gen_reply_consts : ttl_a = 3600 /\ ttl_aaaa = 3600.
Proof. split; reflexivity. Qed.

(* the alternative reading of Exists without its two shortcuts *)
Definition hier (key : str) (m : list str) : bool := mem key m || existsb (fun s => mem s m) (cands key).

Lemma match_hierarchy_alt key m : match_hierarchy key m = hier key m.
Proof.
  unfold match_hierarchy, hier. destruct m as [|x m]; cbn [is_nil].
  - cbn. symmetry. apply not_true_iff_false. intros H. apply existsb_exists in H as (s & _ & H). discriminate.
  - destruct (mem key (x :: m)); reflexivity.
Qed.

Definition blocked_walk (b : bl) (key : str) : bool :=
  mem key (bm b) || existsb (fun s => mem s (bm b) || mem s (bwild b)) (cands key).

Lemma bl_exists_alt b key0 :
  bl_exists b key0 = negb (hier (canonical key0) (bw b)) && blocked_walk b (canonical key0).
Proof.
  unfold bl_exists, blocked_walk. rewrite match_hierarchy_alt.
  destruct (hier (canonical key0) (bw b)); cbn [negb andb]; [reflexivity|].
  destruct (mem (canonical key0) (bm b)) eqn:E; cbn [orb]; [reflexivity|].
  destruct (bm b) as [|x m]; destruct (bwild b) as [|y wl]; cbn [is_nil andb]; try reflexivity.
  symmetry. apply not_true_iff_false. intros H. apply existsb_exists in H as (s & _ & H). discriminate.
Qed.

(* ---------------------------------------------------------------- names as strings *)

Definition render' (n : name) : str := flat_map (fun l => l ++ [c_dot]) n.

Lemma render_nonroot n : n <> [] -> render n = render' n.
Proof. destruct n; [congruence|reflexivity]. Qed.

Definition plainP (n : name) : Prop := plain_name n = true.
Definition lowerP (n : name) : Prop := lower_name n = true.

Lemma plain_label_inv l : plain_label l = true ->
  l <> [] /\ Forall (fun c => c <> c_dot /\ c <> c_bs) l.
Proof.
  unfold plain_label. intros H. apply andb_true_iff in H as [H1 H2]. split.
  - destruct l; [discriminate|congruence].
  - rewrite forallb_forall in H2. apply Forall_forall. intros c Hc. specialize (H2 c Hc).
    unfold plain_char in H2. apply andb_true_iff in H2 as [A B].
    apply negb_true_iff, N.eqb_neq in A. apply negb_true_iff, N.eqb_neq in B. easy.
Qed.

Lemma plainP_cons l n : plainP (l :: n) <-> plain_label l = true /\ plainP n.
Proof. unfold plainP. cbn. now rewrite andb_true_iff. Qed.

Lemma dot_suffixes_label l rest :
  Forall (fun c => c <> c_dot /\ c <> c_bs) l ->
  dot_suffixes (l ++ c_dot :: rest) = rest :: dot_suffixes rest.
Proof.
  induction 1 as [|c l [Hc _] _ IH]; cbn.
  - reflexivity.
  - apply N.eqb_neq in Hc. rewrite Hc. exact IH.
Qed.

Lemma render'_cons l n : render' (l :: n) = l ++ c_dot :: render' n.
Proof. unfold render'. cbn. now rewrite <- app_assoc. Qed.

Lemma render'_nonempty n : n <> [] -> render' n <> [].
Proof. destruct n as [|l n]; [congruence|]. intros _. rewrite render'_cons. destruct l; discriminate. Qed.

(* all proper tails, the root included *)
Fixpoint tails (n : name) : list name :=
  match n with [] => [] | _ :: r => r :: tails r end.

Lemma dot_suffixes_render' n : plainP n -> dot_suffixes (render' n) = map render' (tails n).
Proof.
  induction n as [|l n IH]; intros H; [reflexivity|].
  apply plainP_cons in H as [Hl Hn]. apply plain_label_inv in Hl as [_ Hl].
  rewrite render'_cons, dot_suffixes_label by exact Hl. cbn. f_equal. now apply IH.
Qed.

Lemma parents_tails n : parents n = filter (fun p => negb (is_nil p)) (tails n).
Proof.
  induction n as [|l n IH]; [reflexivity|]. cbn [parents tails filter].
  destruct n as [|l' n']; [reflexivity|]. cbn [is_nil negb]. now rewrite IH.
Qed.

Lemma cands_render' n : plainP n -> cands (render' n) = map render' (parents n).
Proof.
  intros H. unfold cands. rewrite dot_suffixes_render' by exact H. rewrite parents_tails.
  induction (tails n) as [|p t IH]; [reflexivity|]. cbn [map filter].
  destruct p as [|l p]; cbn [is_nil negb nonempty render' flat_map]; [exact IH|].
  assert (E : nonempty (render' (l :: p)) = true).
  { unfold nonempty. destruct (render' (l :: p)) eqn:E; [|reflexivity]. exfalso. now apply (render'_nonempty (l :: p)). }
  unfold render' in E at 1. cbn [flat_map] in E. rewrite E. cbn [map]. f_equal. exact IH.
Qed.

Lemma cands_render n : plainP n -> cands (render n) = map render (parents n).
Proof.
  intros H. destruct n as [|l n]; [reflexivity|].
  rewrite render_nonroot by discriminate. rewrite cands_render' by exact H.
  apply map_ext_in. intros p Hp. symmetry. apply render_nonroot.
  rewrite parents_tails in Hp. apply filter_In in Hp as [_ Hp]. destruct p; [discriminate|congruence].
Qed.

(* render is injective on plain names *)
Lemma app_dot_inj l1 l2 r1 r2 :
  Forall (fun c => c <> c_dot /\ c <> c_bs) l1 -> Forall (fun c => c <> c_dot /\ c <> c_bs) l2 ->
  l1 ++ c_dot :: r1 = l2 ++ c_dot :: r2 -> l1 = l2 /\ r1 = r2.
Proof.
  intros H1. revert l2. induction H1 as [|c l1 [Hc _] _ IH]; intros l2 H2 E.
  - destruct H2 as [|d l2 [Hd _] _]; cbn in E; [now injection E|]. injection E as E _. congruence.
  - destruct H2 as [|d l2 [Hd _] H2]; cbn in E; [injection E as E _; congruence|].
    injection E as -> E. destruct (IH l2 H2 E) as [-> ->]. easy.
Qed.

Lemma render'_inj a b : plainP a -> plainP b -> render' a = render' b -> a = b.
Proof.
  revert b; induction a as [|l a IH]; intros [|k b] Ha Hb E; try reflexivity.
  - exfalso. symmetry in E. now apply (render'_nonempty (k :: b)).
  - exfalso. now apply (render'_nonempty (l :: a)).
  - apply plainP_cons in Ha as [Hl Ha]. apply plainP_cons in Hb as [Hk Hb].
    apply plain_label_inv in Hl as [_ Hl]. apply plain_label_inv in Hk as [_ Hk].
    rewrite !render'_cons in E. destruct (app_dot_inj _ _ _ _ Hl Hk E) as [-> E']. f_equal. now apply IH.
Qed.

Lemma render_inj a b : plainP a -> plainP b -> render a = render b -> a = b.
Proof.
  intros Ha Hb E. destruct a as [|l a], b as [|k b]; try reflexivity.
  - exfalso. cbn [render] in E. change (flat_map _ (k :: b)) with (render' (k :: b)) in E.
    rewrite render'_cons in E. apply plainP_cons in Hb as [Hk _]. apply plain_label_inv in Hk as [Hne Hk].
    destruct k as [|c k]; [congruence|]. cbn in E. injection E as E _. inversion Hk as [|? ? [Hc _] _]. congruence.
  - exfalso. cbn [render] in E. change (flat_map _ (l :: a)) with (render' (l :: a)) in E.
    rewrite render'_cons in E. apply plainP_cons in Ha as [Hl _]. apply plain_label_inv in Hl as [Hne Hl].
    destruct l as [|c l]; [congruence|]. cbn in E. injection E as E _. inversion Hl as [|? ? [Hc _] _]. congruence.
  - rewrite !render_nonroot in E by discriminate. now apply render'_inj.
Qed.

Lemma mem_render a M : plainP a -> Forall plainP M -> (mem (render a) (map render M) = true <-> In a M).
Proof.
  intros Ha HM. rewrite mem_In, in_map_iff. split.
  - intros (x & E & Hx). rewrite Forall_forall in HM. apply render_inj in E; [now subst| now apply HM | exact Ha].
  - intros H. now exists a.
Qed.

Lemma mem_render_suffix p W : plainP p -> p <> [] -> Forall plainP W ->
  (mem (render p) (map render_suffix W) = true <-> In p W).
Proof.
  intros Hp Hne HW. rewrite mem_In, in_map_iff. split.
  - intros (x & E & Hx). rewrite Forall_forall in HW. destruct x as [|l x].
    + exfalso. cbn in E. rewrite render_nonroot in E by exact Hne. symmetry in E. now apply (render'_nonempty p).
    + change (render_suffix (l :: x)) with (render (l :: x)) in E.
      apply render_inj in E; [now subst| now apply HW | exact Hp].
  - intros H. exists p. split; [|exact H]. destruct p; [congruence|reflexivity].
Qed.

(* ---------------------------------------------------------------- canonical form *)

Lemma lower_not_special c : c <> c_dot /\ c <> c_bs -> lower c <> c_dot /\ lower c <> c_bs.
Proof.
  unfold lower, c_dot, c_bs. intros [A B].
  destruct ((65 <=? c) && (c <=? 90)) eqn:E; [|easy]. apply andb_true_iff in E as [E1 E2].
  apply N.leb_le in E1, E2. lia.
Qed.

Lemma fold_plain_label l : plain_label l = true -> plain_label (fold_label l) = true.
Proof.
  intros H. apply plain_label_inv in H as [Hne H]. unfold plain_label, fold_label.
  apply andb_true_iff. split.
  - destruct l; [congruence|reflexivity].
  - apply forallb_forall. intros c Hc. apply in_map_iff in Hc as (d & <- & Hd).
    rewrite Forall_forall in H. destruct (lower_not_special d (H d Hd)) as [A B].
    unfold plain_char. apply N.eqb_neq in A, B. now rewrite A, B.
Qed.

Lemma fold_plain n : plainP n -> plainP (fold_name n).
Proof.
  unfold plainP, plain_name, fold_name. rewrite !forallb_forall. intros H l Hl.
  apply in_map_iff in Hl as (k & <- & Hk). apply fold_plain_label. now apply H.
Qed.

Lemma lower_dot : lower c_dot = c_dot.
Proof. reflexivity. Qed.

Lemma map_lower_render' n : map lower (render' n) = render' (fold_name n).
Proof.
  induction n as [|l n IH]; [reflexivity|].
  rewrite render'_cons. cbn [fold_name map]. rewrite render'_cons, map_app. cbn [map].
  rewrite lower_dot. fold (fold_name n). now rewrite IH.
Qed.

Lemma map_lower_render n : map lower (render n) = render (fold_name n).
Proof.
  destruct n as [|l n]; [reflexivity|]. rewrite render_nonroot by discriminate.
  rewrite map_lower_render'. symmetry. apply render_nonroot. discriminate.
Qed.

Lemma count_bs_plain l rest : l <> [] -> Forall (fun c => c <> c_dot /\ c <> c_bs) l ->
  count_bs (rev l ++ rest) = O.
Proof.
  intros Hne H. destruct (rev l) as [|c r] eqn:E.
  - apply (f_equal (@rev N)) in E. rewrite rev_involutive in E. cbn in E. congruence.
  - assert (Hin : In c l). { apply in_rev. rewrite E. now left. }
    rewrite Forall_forall in H. destruct (H c Hin) as [_ Hb]. cbn. apply N.eqb_neq in Hb. now rewrite Hb.
Qed.

Lemma is_fqdn_render n : plainP n -> is_fqdn (render n) = true.
Proof.
  intros H. destruct n as [|l n]; [reflexivity|]. rewrite render_nonroot by discriminate.
  (* the last label decides *)
  assert (exists pre lst, render' (l :: n) = pre ++ lst ++ [c_dot] /\ plain_label lst = true) as (pre & lst & E & Hl).
  { clear -H. revert l H. induction n as [|k n IH]; intros l H.
    - exists [], l. apply plainP_cons in H as [Hl _]. split; [|exact Hl]. rewrite render'_cons. reflexivity.
    - apply plainP_cons in H as [Hl Hn]. destruct (IH k Hn) as (pre & lst & E & Hk).
      exists (l ++ c_dot :: pre), lst. split; [|exact Hk]. rewrite render'_cons, E. now rewrite <- app_assoc. }
  unfold is_fqdn. rewrite E, !rev_app_distr. cbn [rev app]. rewrite N.eqb_refl. cbn [andb].
  apply plain_label_inv in Hl as [Hne Hl]. now rewrite count_bs_plain.
Qed.

Lemma canonical_render n : plainP n -> canonical (render n) = render (fold_name n).
Proof. intros H. unfold canonical, fqdn. rewrite is_fqdn_render by exact H. apply map_lower_render. Qed.

(* ---------------------------------------------------------------- parents as a relation *)

Lemma In_tails p n : In p (tails n) <-> strict_parent p n.
Proof.
  unfold strict_parent. induction n as [|l n IH]; cbn.
  - split; [easy|]. intros (pre & Hne & E). destruct pre; [congruence|discriminate].
  - split.
    + intros [<-|H]; [exists [l]; split; [discriminate|reflexivity]|].
      apply IH in H as (pre & Hne & ->). exists (l :: pre). split; [discriminate|reflexivity].
    + intros (pre & Hne & E). destruct pre as [|x pre]; [congruence|]. cbn in E. injection E as -> ->.
      destruct pre as [|y pre]; [now left|]. right. apply IH. exists (y :: pre). split; [discriminate|reflexivity].
Qed.

Lemma In_parents p n : In p (parents n) <-> strict_parent p n /\ p <> [].
Proof.
  rewrite parents_tails, filter_In, In_tails. split; intros [A B]; split; try exact A.
  - destruct p; [discriminate|congruence].
  - destruct p; [congruence|reflexivity].
Qed.

Lemma plain_parents p n : plainP n -> In p (parents n) -> plainP p.
Proof.
  intros Hn Hp. apply In_parents in Hp as [(pre & _ & ->) _].
  unfold plainP, plain_name in *. rewrite forallb_app in Hn. now apply andb_true_iff in Hn.
Qed.

(* ---------------------------------------------------------------- exists_spec *)

Definition state_of (M W Wl : list name) : bl :=
  mk_bl (map render M) (map render_suffix W) (map render Wl).

Lemma existsb_parents_iff (f : str -> bool) (P : name -> Prop) n :
  (forall p, In p (parents n) -> (f (render p) = true <-> P p)) ->
  (existsb f (map render (parents n)) = true <-> exists p, In p (parents n) /\ P p).
Proof.
  intros H. rewrite existsb_exists. split.
  - intros (s & Hs & Hf). apply in_map_iff in Hs as (p & <- & Hp). exists p. split; [exact Hp|]. now apply H.
  - intros (p & Hp & HP). exists (render p). split; [now apply in_map|]. now apply H.
Qed.

Lemma exists_spec_lemma M W Wl q :
  Forall plainP M -> Forall plainP W -> Forall plainP Wl -> plainP q ->
  (bl_exists (state_of M W Wl) (render q) = true <-> blocked_spec M W Wl (fold_name q)).
Proof.
  intros HM HW HWl Hq0.
  assert (Hq : plainP (fold_name q)) by now apply fold_plain.
  rewrite bl_exists_alt, canonical_render by exact Hq0. set (n := fold_name q) in *.
  unfold hier, blocked_walk, state_of. cbn [bm bwild bw]. rewrite cands_render by exact Hq.
  rewrite andb_true_iff, negb_true_iff, and_comm. unfold blocked_spec. apply and_iff_both.
  - (* the block walk *)
    rewrite orb_true_iff. apply or_iff_both; [now apply mem_render|].
    rewrite (existsb_parents_iff _ (fun p => In p M \/ In p W)).
    + split.
      * intros (p & Hp & HP). apply In_parents in Hp as [A B]. now exists p.
      * intros (p & A & B & HP). exists p. split; [now apply In_parents|exact HP].
    + intros p Hp. assert (plainP p) by now apply (plain_parents p n).
      apply In_parents in Hp as [_ Hne].
      rewrite orb_true_iff. apply or_iff_both; [now apply mem_render|now apply mem_render_suffix].
  - (* the whitelist walk *)
    rewrite <- not_true_iff_false. apply not_iff_compat.
    rewrite orb_true_iff, (existsb_parents_iff _ (fun p => In p Wl)).
    + rewrite mem_render by assumption. split.
      * intros [H|(p & Hp & H)]; [exists n; split; [now left|exact H]|].
        apply In_parents in Hp. exists p. split; [now right|exact H].
      * intros (a & [->|Ha] & H); [now left|]. right. exists a. split; [now apply In_parents|exact H].
    + intros p Hp. assert (plainP p) by now apply (plain_parents p n). now apply mem_render.
Qed.

(* reachable memories hold canonical keys, so stored names are lower case; the
   theorem does not need that hypothesis: matching is exact on stored keys and
   case-insensitive on the query. *)

(* ---------------------------------------------------------------- label boundary *)

(* a string that merely ends like a listed name, without the cut falling on a
   label boundary, is not matched: "notexample.com." against "example.com." *)
Lemma label_boundary_lemma (l x : label) (p : name) :
  plain_label l = true -> plain_label (x ++ l) = true -> x <> [] -> plainP p ->
  forall W, Forall plainP W ->
  bl_exists (state_of [l :: p] W []) (render ((x ++ l) :: p)) = false <->
  ~ (exists a, In a (parents (fold_name ((x ++ l) :: p))) /\ (a = l :: p \/ In a W)).
Proof.
  intros Hl Hxl Hx Hp W HW.
  assert (Hq : plainP ((x ++ l) :: p)) by (apply plainP_cons; easy).
  assert (HM : Forall plainP [l :: p]) by (constructor; [apply plainP_cons; easy|constructor]).
  rewrite <- not_true_iff_false. apply not_iff_compat.
  rewrite (exists_spec_lemma [l :: p] W [] _ HM HW (Forall_nil _) Hq). unfold blocked_spec. split.
  - intros [[H|(a & A & B & H)] _].
    + exfalso. destruct H as [H|[]]. cbn [fold_name map] in H. injection H as H _.
      (* |l| = |fold (x ++ l)| is impossible with x non-empty *)
      apply (f_equal (@length N)) in H. unfold fold_label in H. rewrite map_length, app_length in H.
      destruct x; [congruence|cbn in H; lia].
    + exists a. split; [now apply In_parents|]. destruct H as [[H|[]]|H]; [now left|now right].
  - intros (a & Ha & H). apply In_parents in Ha as [A B]. split.
    + right. exists a. repeat split; try assumption. destruct H as [->|H]; [left; now left|now right].
    + intros (b & _ & []).
Qed.

(* the textbook instance, on the strings the code sees *)
Definition s_example_com : str := [101;120;97;109;112;108;101;46;99;111;109;46].
Definition s_notexample_com : str := [110;111;116] ++ s_example_com.
Lemma label_boundary_example :
  bl_exists (mk_bl [s_example_com] [] []) s_notexample_com = false /\
  bl_exists (mk_bl [] [s_example_com] []) s_notexample_com = false /\
  bl_exists (mk_bl [s_example_com] [] []) ([119;119;119;46] ++ s_example_com) = true /\
  bl_exists (mk_bl [s_example_com] [] []) [69;88;65;77;80;76;69;46;67;79;77] = true.
Proof. repeat split; reflexivity. Qed.

(* ---------------------------------------------------------------- root entries *)

(* the reading fixed in Spec.v, as facts about the code's model: a plain "."
   blocks the root name only, "*." blocks nothing, a whitelisted "." exempts the
   root name only *)
Lemma root_entries_lemma q : plainP q -> q <> [] ->
  bl_exists (state_of [[]] [[]] []) (render q) = false /\
  bl_exists (state_of [[]] [] []) (render []) = true /\
  (forall M W, Forall plainP M -> Forall plainP W ->
     bl_exists (state_of M W [[]]) (render q) = bl_exists (state_of M W []) (render q)).
Proof.
  intros Hq Hne. split; [|split].
  - apply not_true_iff_false. intros H.
    apply (exists_spec_lemma [[]] [[]] []) in H; try (repeat constructor); try exact Hq.
    destruct H as [[[H|[]]|(p & A & B & [[H|[]]|[H|[]]])] _]; try congruence.
    destruct q; [congruence|discriminate].
  - reflexivity.
  - intros M W HM HW.
    assert (HR : Forall plainP [[]]) by (repeat constructor).
    destruct (bl_exists (state_of M W [[]]) (render q)) eqn:E1, (bl_exists (state_of M W []) (render q)) eqn:E2; try reflexivity; exfalso.
    + apply (exists_spec_lemma M W [[]] q HM HW HR Hq) in E1. apply not_true_iff_false in E2. apply E2.
      apply (exists_spec_lemma M W [] q HM HW (Forall_nil _) Hq). destruct E1 as [A _]. split; [exact A|].
      intros (a & _ & []).
    + apply (exists_spec_lemma M W [] q HM HW (Forall_nil _) Hq) in E2. apply not_true_iff_false in E1. apply E1.
      apply (exists_spec_lemma M W [[]] q HM HW HR Hq). destruct E2 as [A _]. split; [exact A|].
      intros (a & [Ea|[_ Ha]] & [Er|[]]); [|congruence]. subst a. destruct q; [congruence|discriminate].
Qed.

(* ---------------------------------------------------------------- escaped dots: refuted *)

(* Full statement (what "on whole labels" asks for every wire name):
     forall M W Wl q, bl_exists (state of M W Wl) (presentation of q) = true <-> blocked_spec M W Wl (fold q)
   with labels that may contain any byte.  It fails as soon as a label contains a
   dot: the name with the two labels "a.b", "test" (presentation a\.b.test.) is
   matched by the entry b.test., which is not one of its parents. *)
Definition esc_query : str := [97; 92; 46; 98; 46; 116; 101; 115; 116; 46].   (* a\.b.test. *)
Definition esc_entry : str := [98; 46; 116; 101; 115; 116; 46].               (* b.test.    *)
Lemma escaped_dot_refuted_lemma :
  name_of esc_query = [[97; 46; 98]; [116; 101; 115; 116]] /\
  name_of esc_entry = [[98]; [116; 101; 115; 116]] /\
  bl_exists (mk_bl [esc_entry] [] []) esc_query = true /\
  spec_blocked_b [name_of esc_entry] [] [] (name_of esc_query) = false /\
  (* and the other way round through the whitelist *)
  bl_exists (mk_bl [] [[116; 101; 115; 116; 46]] [esc_entry]) esc_query = false /\
  spec_blocked_b [] [name_of [116; 101; 115; 116; 46]] [name_of esc_entry] (name_of esc_query) = true.
Proof. repeat split; reflexivity. Qed.

(* the executable specification agrees with the propositional one *)
Lemma name_eqb_eq a b : name_eqb a b = true <-> a = b.
Proof.
  revert b; induction a as [|x a IH]; intros [|y b]; cbn; split; intros H; try easy.
  - apply andb_true_iff in H as [H1 H2]. apply str_eqb_eq in H1. apply IH in H2. now subst.
  - injection H as -> ->. rewrite str_eqb_refl. cbn. now apply IH.
Qed.
Lemma memn_In a l : memn a l = true <-> In a l.
Proof.
  unfold memn. rewrite existsb_exists. split.
  - intros (x & Hx & E). apply name_eqb_eq in E. now subst.
  - intros H. exists a. split; [easy|now apply name_eqb_eq].
Qed.
Lemma spec_blocked_b_spec M W Wl q : spec_blocked_b M W Wl q = true <-> blocked_spec M W Wl q.
Proof.
  unfold spec_blocked_b, blocked_spec. rewrite andb_true_iff, and_comm. apply and_iff_both.
  - rewrite orb_true_iff, memn_In, existsb_exists. apply or_iff_compat_l. split.
    + intros (p & Hp & H). apply In_parents in Hp as [A B]. exists p. repeat split; try assumption.
      apply orb_true_iff in H. now rewrite !memn_In in H.
    + intros (p & A & B & H). exists p. split; [now apply In_parents|]. apply orb_true_iff. now rewrite !memn_In.
  - rewrite negb_true_iff, <- not_true_iff_false. apply not_iff_compat. rewrite existsb_exists. split.
    + intros (a & [<-|Ha] & H); apply memn_In in H; [exists q; split; [now left|exact H]|].
      apply In_parents in Ha. exists a. split; [now right|exact H].
    + intros (a & [->|Ha] & H); [exists q; split; [now left|now apply memn_In]|].
      exists a. split; [right; now apply In_parents|now apply memn_In].
Qed.

(* ---------------------------------------------------------------- reply shape *)

Lemma reply_shape_lemma b nr nr6 qname qtype :
  (bl_exists b qname = true ->
     exists an ns, serve b nr nr6 qname qtype = OReply 0 true true an ns /\
       (qtype = type_a -> an = [RR type_a ttl_a qname nr] /\ ns = []) /\
       (qtype = type_aaaa -> an = [RR type_aaaa ttl_aaaa qname nr6] /\ ns = []) /\
       (qtype <> type_a -> qtype <> type_aaaa -> an = [] /\ exists soa, ns = [soa])) /\
  (bl_exists b qname = false -> serve b nr nr6 qname qtype = ONext).
Proof.
  split; intros E.
  - unfold serve. rewrite E. cbn [negb].
    assert (Hne : is_nil (bm b) && is_nil (bwild b) = false).
    { rewrite bl_exists_alt in E. apply andb_true_iff in E as [_ E]. unfold blocked_walk in E.
      destruct (bm b), (bwild b); try reflexivity. cbn in E.
      exfalso. apply existsb_exists in E as (s & _ & H). discriminate. }
    rewrite Hne.
    destruct (qtype =? type_a) eqn:EA; [|destruct (qtype =? type_aaaa) eqn:E6].
    + apply N.eqb_eq in EA. subst. eexists _, _. split; [reflexivity|]. repeat split; try easy.
    + apply N.eqb_eq in E6. subst. eexists _, _. split; [reflexivity|]. repeat split; try easy.
    + apply N.eqb_neq in EA, E6. eexists _, _. split; [reflexivity|]. repeat split; try easy. now eexists.
  - unfold serve. rewrite E. cbn [negb]. now destruct (is_nil (bm b) && is_nil (bwild b)).
Qed.
