(* C18 — the hypotheses of the property theorems are satisfiable by non-trivial states. *)
From Coq Require Import Permutation.
From Sdns Require Import Common.Base Gen.C18 C18.Model C18.Spec C18.Proofs_match C18.Proofs_disk C18.Proofs_reload C18.Proofs_final.
Open Scope N_scope.

Definition l_example : label := [101;120;97;109;112;108;101].
Definition l_com : label := [99;111;109].
Definition l_ads : label := [97;100;115].
Definition l_ok : label := [111;107].

(* exists_spec: a plain entry, a wildcard entry, a whitelist entry; a mixed-case
   query; a label with a dot, a space and a byte above 126 *)
Definition l_odd : label := [97; 46; 98; 32; 200].
Example exists_spec_example :
  let M := [[l_example; l_com]] in let W := [[l_ads; l_com]] in let Wl := [[l_ok; l_ads; l_com]] in
  Forall wireP M /\ Forall wireP W /\ Forall wireP Wl /\
  wireP [[88]; [69;120;65;109;80;108;69]; l_com] /\ wireP [l_odd; l_ads; l_com] /\
  bl_exists (state_of M W Wl) (present [[88]; [69;120;65;109;80;108;69]; l_com]) = true /\
  bl_exists (state_of M W Wl) (present [[120]; l_ads; l_com]) = true /\
  bl_exists (state_of M W Wl) (present [l_odd; l_ads; l_com]) = true /\
  bl_exists (state_of M W Wl) (present [l_ads; l_com]) = false /\
  bl_exists (state_of M W Wl) (present [[120]; l_ok; l_ads; l_com]) = false.
Proof. cbn zeta. repeat split; repeat constructor. Qed.

(* reload_equiv / reload_exact_partial: good, clean; redundant and irredundant lists *)
Definition e_ex : str := [101;120;46;116;101;115;116;46].          (* ex.test. *)
Definition e_sub : str := [115;117;98;46] ++ e_ex.                 (* sub.ex.test. *)
Definition e_other : str := [111;46;116;101;115;116;46].           (* o.test. *)
Definition w_ok : list str := [[111;107;46;116;101;115;116;46]].   (* ok.test. *)

Example reload_equiv_example :
  Forall (good_entry w_ok) (entries_of [e_sub; e_ex] [e_other]) /\
  ~ irredundant (entries_of [e_sub; e_ex] [e_other]).
Proof.
  split.
  - repeat constructor.
  - intros [_ H]. apply (H (EPlain e_sub) (EPlain e_ex)).
    + now left.
    + right. now left.
    + discriminate.
    + right. now left.
Qed.

Example reload_exact_partial_example :
  Forall (good_entry w_ok) (entries_of [e_ex] [e_other]) /\
  irredundant (entries_of [e_ex] [e_other]).
Proof.
  split.
  - repeat constructor.
  - split.
    + repeat constructor; cbn; intuition discriminate.
    + intros en en' [<-|[<-|[]]] [<-|[<-|[]]] Hne; try congruence; cbn; intuition discriminate.
Qed.

(* crash_leaves_complete_file: a crash in the middle of the second line *)
Example crash_example :
  let d := mk_disk (Some (lines_bytes [header; e_ex])) [] in
  let s := mk_snap 2 [e_ex; e_other] [] in
  crash_at d s 2 3 = mk_disk (Some (lines_bytes [header; e_ex])) [header ++ [c_nl] ++ [101;120;46]] /\
  crash_at d s 2 3 = crash_bytes d s (length (header ++ [c_nl]) + 3).
Proof. vm_compute. split; reflexivity. Qed.

(* ---- finding blocklist-entry-spelling: the maps are keyed by strings, a name has more
   than one spelling.  The entry a person writes, "a@b.test.", and the query name the wire
   decoder produces for the labels [a@b; test], "a\@b.test.", denote the same name
   (Spec.name_of), yet Exists does not find it; the same through the whitelist. *)
Definition sp_entry : str := [97;64;98;46;116;101;115;116;46].
Definition sp_name : name := [[97;64;98]; [116;101;115;116]].
Lemma entry_spelling_refuted_lemma :
  name_of sp_entry = sp_name /\ name_of (present sp_name) = sp_name /\
  present sp_name <> sp_entry /\
  (* listed, not blocked *)
  spec_blocked_b [name_of sp_entry] [] [] sp_name = true /\
  bl_exists (mk_bl [sp_entry] [] []) (present sp_name) = false /\
  (* whitelisted, blocked all the same *)
  spec_blocked_b [] [[[116;101;115;116]]] [name_of sp_entry] sp_name = false /\
  bl_exists (mk_bl [] [[116;101;115;116;46]] [sp_entry]) (present sp_name) = true /\
  (* the decoder's spelling of the entry works *)
  bl_exists (mk_bl [present sp_name] [] []) (present sp_name) = true.
Proof. repeat split; try reflexivity. vm_compute. discriminate. Qed.
