(* C18 — the oracle Run.spec_case uses to say "these two lists block the same names"
   (reload vs memory, restart after an interruption): agreement on every entry and on a
   child of every entry under a label that occurs nowhere implies agreement on EVERY
   name.  Label level, no strings. *)
From Sdns Require Import Common.Base C18.Model C18.Spec C18.Proofs_match.
Open Scope N_scope.

Definition blockedP (M W Wl : list name) (q : name) : Prop :=
  (In q M \/ exists p, In p (parents q) /\ (In p M \/ In p W)) /\
  ~ (exists a, In a (q :: parents q) /\ In a Wl).

Lemma spec_blocked_b_P M W Wl q : spec_blocked_b M W Wl q = true <-> blockedP M W Wl q.
Proof.
  unfold spec_blocked_b, blockedP. rewrite andb_true_iff, and_comm. apply and_iff_both.
  - rewrite orb_true_iff, memn_In, existsb_exists. apply or_iff_compat_l. split.
    + intros (p & Hp & H). exists p. split; [exact Hp|]. apply orb_true_iff in H. now rewrite !memn_In in H.
    + intros (p & Hp & H). exists p. split; [exact Hp|]. apply orb_true_iff. now rewrite !memn_In.
  - rewrite negb_true_iff, <- not_true_iff_false. apply not_iff_compat. rewrite existsb_exists. split.
    + intros (a & Ha & H). exists a. split; [exact Ha|now apply memn_In].
    + intros (a & Ha & H). exists a. split; [exact Ha|now apply memn_In].
Qed.

Lemma parents_cons l r : parents (l :: r) = match r with [] => [] | _ => r :: parents r end.
Proof. reflexivity. Qed.

Lemma parents_trans p q : In p (parents q) -> incl (parents p) (parents q).
Proof.
  induction q as [|l r IH]; [intros []|]. rewrite parents_cons. destruct r as [|l' r']; [intros []|].
  intros [<-|H]; [apply incl_tl, incl_refl|]. apply incl_tl. now apply IH.
Qed.

Lemma parents_nonroot p q : In p (parents q) -> p <> [].
Proof. intros H. apply In_parents in H. easy. Qed.

Lemma fresh_spec z M1 W1 M2 W2 Wl : fresh_for z M1 W1 M2 W2 Wl = true ->
  forall n, In n (M1 ++ W1 ++ M2 ++ W2 ++ Wl) -> ~ In z n.
Proof.
  unfold fresh_for. rewrite forallb_forall. intros H n Hn Hz. specialize (H n Hn).
  apply negb_true_iff in H. apply not_true_iff_false in H. apply H. apply existsb_exists.
  exists z. split; [exact Hz|]. apply str_eqb_refl.
Qed.

Section OneDirection.
  Variables (z : label) (Wl M1 W1 M2 W2 : list name).
  Hypothesis fresh2 : forall n, In n M2 \/ In n Wl -> ~ In z n.
  Hypothesis probes_ok : forall q, In q (M1 ++ W1) \/ (exists e, In e (M1 ++ W1) /\ q = z :: e) ->
    blockedP M1 W1 Wl q -> blockedP M2 W2 Wl q.

  Lemma equiv_one_direction q : blockedP M1 W1 Wl q -> blockedP M2 W2 Wl q.
  Proof.
    intros [H Hnw]. split; [|exact Hnw].
    destruct H as [H|(p & Hp & [H|H])].
    - (* q itself is listed *)
      apply (probes_ok q); [left; apply in_app_iff; now left|split; [now left|exact Hnw]].
    - (* a parent is a plain entry: probe that parent *)
      assert (B1 : blockedP M1 W1 Wl p).
      { split; [now left|]. intros (a & Ha & HW). apply Hnw. exists a. split; [|exact HW].
        right. destruct Ha as [<-|Ha]; [exact Hp|]. now apply (parents_trans p q). }
      destruct (probes_ok p (or_introl (proj2 (in_app_iff _ _ _) (or_introl H))) B1) as [[B|(p' & Hp' & B)] _].
      + right. exists p. split; [exact Hp|now left].
      + right. exists p'. split; [now apply (parents_trans p q)|exact B].
    - (* a parent is a wildcard entry: probe a fresh child of it *)
      assert (Hne : p <> []) by now apply (parents_nonroot p q).
      assert (Hpar : parents (z :: p) = p :: parents p) by (rewrite parents_cons; destruct p; [congruence|reflexivity]).
      assert (B1 : blockedP M1 W1 Wl (z :: p)).
      { split; [right; exists p; split; [rewrite Hpar; now left|now right]|].
        intros (a & Ha & HW). rewrite Hpar in Ha. destruct Ha as [<-|[<-|Ha]].
        - apply (fresh2 (z :: p)); [now right|now left].
        - apply Hnw. exists p. split; [now right|exact HW].
        - apply Hnw. exists a. split; [right; now apply (parents_trans p q)|exact HW]. }
      assert (Hin : exists e, In e (M1 ++ W1) /\ z :: p = z :: e) by (exists p; split; [apply in_app_iff; now right|reflexivity]).
      destruct (probes_ok (z :: p) (or_intror Hin) B1) as [[B|(p' & Hp' & B)] _].
      + exfalso. apply (fresh2 (z :: p)); [now left|now left].
      + right. exists p'. split; [|exact B]. rewrite Hpar in Hp'. destruct Hp' as [<-|Hp']; [exact Hp|].
        now apply (parents_trans p q).
  Qed.
End OneDirection.

Lemma spec_equiv_n_sound z Wl M1 W1 M2 W2 :
  spec_equiv_n z Wl M1 W1 M2 W2 = true ->
  forall q, spec_blocked_b M1 W1 Wl q = spec_blocked_b M2 W2 Wl q.
Proof.
  unfold spec_equiv_n. intros H q. apply andb_true_iff in H as [Hf Hp].
  pose proof (fresh_spec _ _ _ _ _ _ Hf) as Hfresh. rewrite forallb_forall in Hp.
  assert (Hprobe : forall x, In x (equiv_probes_n z M1 W1 M2 W2) ->
                   (blockedP M1 W1 Wl x <-> blockedP M2 W2 Wl x)).
  { intros x Hx. specialize (Hp x Hx). apply eqb_prop in Hp. rewrite <- !spec_blocked_b_P. now rewrite Hp. }
  apply eq_true_iff_eq. rewrite !spec_blocked_b_P. split.
  - apply (equiv_one_direction z Wl M1 W1 M2 W2).
    + intros n [Hn|Hn]; apply Hfresh; rewrite !in_app_iff; auto.
    + intros x Hx. apply Hprobe. unfold equiv_probes_n. rewrite in_app_iff, in_map_iff.
      destruct Hx as [Hx|(e & He & ->)]; [left|right; exists e; split; [reflexivity|]];
        rewrite !in_app_iff in *; tauto.
  - apply (equiv_one_direction z Wl M2 W2 M1 W1).
    + intros n [Hn|Hn]; apply Hfresh; rewrite !in_app_iff; auto.
    + intros x Hx. apply Hprobe. unfold equiv_probes_n. rewrite in_app_iff, in_map_iff.
      destruct Hx as [Hx|(e & He & ->)]; [left|right; exists e; split; [reflexivity|]];
        rewrite !in_app_iff in *; tauto.
Qed.

(* it is not vacuous, and it does tell lists apart *)
Example spec_equiv_n_example :
  let z := [122] in let a := [97] in let b := [98] in let c := [99] in
  spec_equiv_n z [] [[a; c]; [b; a; c]] [] [[a; c]] [] = true /\      (* a redundant entry changes nothing *)
  spec_equiv_n z [] [[a; c]] [] [] [[a; c]] = false /\                (* plain vs wildcard: the apex differs *)
  spec_equiv_n z [[b; a; c]] [[a; c]] [] [[a; c]] [[b; a; c]] = true. (* a whitelisted wildcard blocks nothing more *)
Proof. repeat split; reflexivity. Qed.
