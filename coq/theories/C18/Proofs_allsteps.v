(* C18 — everything at once: API mutations, persists that succeed or fail, and the
   background refresh at the granularity the code has.  refreshRemote does not add a
   downloaded list atomically: parseHostFile takes mu once per NAME (b.set), so API calls
   land between two names of one list; a download that fails, is cut short or stops at a
   line bufio cannot scan contributes a prefix or nothing.  All of that is one step kind:
   "some name goes through set()" ([ASet k], any k, any time).  [refresh_is_sets] shows
   the atomic refresh of Model.sys_refresh is a sequence of such steps, so the system
   below subsumes steps, fsteps, rsteps and gsteps.  The statement has the strength of
   failed_saves_heal: `local` is the initial file or the complete snapshot stamped
   lastPersisted, and once lastPersisted = version it is the list of the newest saving
   call, which the memory contains (remote names reach `local` with the next save). *)
From Coq Require Import Permutation.
From Sdns Require Import Common.Base Gen.C18 C18.Model C18.Spec C18.Proofs_match C18.Proofs_disk C18.Proofs_reload C18.Proofs_fault.
Open Scope N_scope.

Definition sys_set (k : str) (s : sys) : sys :=
  mk_sys (snd (set_locked k (s_mem s))) (s_version s) (s_last s) (s_local s) (s_pending s).

Inductive astep : sys -> sys -> Prop :=
| AApi s t : step s t -> astep s t
| AFail i s : (i < length (s_pending s))%nat -> astep s (sys_persist_fail i s)
| ASet k s : astep s (sys_set k s).
Inductive asteps : sys -> sys -> Prop :=
| asteps_refl s : asteps s s
| asteps_next s t u : asteps s t -> astep t u -> asteps s u.

Lemma asteps_trans s t u : asteps s t -> asteps t u -> asteps s u.
Proof. intros A B. induction B as [|t u v _ IH St]; [exact A|eapply asteps_next; [apply IH; exact A|exact St]]. Qed.

(* ---- the atomic refresh is a sequence of set() steps *)
Definition sets (ks : list str) (b : bl) : bl := fold_left (fun b k => snd (set_locked k b)) ks b.
Lemma sets_app k1 k2 b : sets (k1 ++ k2) b = sets k2 (sets k1 b).
Proof. apply fold_left_app. Qed.

Lemma parse_names_sets names : forall b, exists ks, parse_names names b = sets ks b.
Proof.
  induction names as [|n r IH]; intros b; [now exists []|]. cbn [parse_names].
  destruct (has_prefix comment_str n); [now exists []|].
  destruct (bl_exists b (canonical n)).
  - apply IH.
  - destruct (IH (snd (set_locked (canonical n) b))) as (ks & E). exists (canonical n :: ks). exact E.
Qed.
Lemma parse_line_sets l b : exists ks, parse_line l b = sets ks b.
Proof.
  unfold parse_line. destruct (_ || _); [now exists []|]. destruct (cut_at _ _) as [dom found].
  destruct (fields _) as [|f [|g r]]; [now exists []| |]; apply parse_names_sets.
Qed.
Lemma parse_bytes_sets f b : exists ks, parse_bytes f b = sets ks b.
Proof.
  unfold parse_bytes. revert b. induction (split_lines f) as [|l ls IH]; intros b; [now exists []|].
  cbn [fold_left]. destruct (parse_line_sets l b) as (k1 & E1). destruct (IH (parse_line l b)) as (k2 & E2).
  exists (k1 ++ k2). now rewrite sets_app, <- E1.
Qed.
Lemma parse_files_sets fs : forall b, exists ks, fold_left (fun b f => parse_bytes f b) fs b = sets ks b.
Proof.
  induction fs as [|f fs IH]; intros b; [now exists []|]. cbn [fold_left].
  destruct (parse_bytes_sets f b) as (k1 & E1). destruct (IH (parse_bytes f b)) as (k2 & E2).
  exists (k1 ++ k2). now rewrite sets_app, <- E1.
Qed.

Lemma sets_asteps ks : forall s,
  asteps s (mk_sys (sets ks (s_mem s)) (s_version s) (s_last s) (s_local s) (s_pending s)).
Proof.
  induction ks as [|k ks IH]; intros s; cbn [sets fold_left].
  - destruct s; apply asteps_refl.
  - eapply asteps_trans; [eapply asteps_next; [apply asteps_refl|apply (ASet k)]|].
    apply (IH (sys_set k s)).
Qed.

Lemma refresh_is_sets_lemma dl s : asteps s (sys_refresh dl s).
Proof.
  unfold sys_refresh. destruct (parse_files_sets dl (s_mem s)) as (ks & ->). apply sets_asteps.
Qed.

(* ---- the invariant *)
Record ainv (b0 : bl) (l0 : option str) (s : sys) : Prop := mk_ainv {
  a_zero : s_version s = 0 -> grows b0 (s_mem s) /\ s_local s = l0 /\ s_pending s = [] /\ s_last s = 0;
  a_pending : forall sn, In sn (s_pending s) -> 1 <= sn_ver sn <= s_version s;
  a_last : s_last s <= s_version s;
  a_newest : forall sn, In sn (s_pending s) -> sn_ver sn = s_version s ->
     exists b, snap_matches sn b /\ grows b (s_mem s);
  a_disk : (s_last s = 0 /\ s_local s = l0) \/
           (exists sn, sn_ver sn = s_last s /\ 1 <= s_last s /\ s_local s = Some (snap_bytes sn) /\
                       (s_last s = s_version s -> exists b, snap_matches sn b /\ grows b (s_mem s))) }.

Lemma ainv_init b0 l0 : ainv b0 l0 (init b0 l0).
Proof.
  constructor; cbn; try easy; try (intros; lia).
  all: try (intros _; repeat split; apply incl_refl).
  all: now left.
Qed.

Lemma ainv_step b0 l0 s t : ainv b0 l0 s -> astep s t -> ainv b0 l0 t.
Proof.
  intros I St. destruct St as [s t St|i s Hi|k s].
  - destruct St as [o ex wi s Hm|i s Hi].
    + unfold sys_mutate. pose proof (apply_op_nosnap o (s_mem s)) as Hno.
      destruct (apply_op o (s_mem s)) as [[ret snapped] b'] eqn:E. cbn in Hno, Hm.
      destruct snapped; cbn [snd].
      * constructor; cbn.
        -- intros H. lia.
        -- intros sn H. apply in_app_iff in H as [H|[<-|[]]]; [apply (a_pending _ _ _ I) in H; lia|cbn; lia].
        -- pose proof (a_last _ _ _ I). lia.
        -- intros sn H Hv. apply in_app_iff in H as [H|[<-|[]]]; [apply (a_pending _ _ _ I) in H; lia|].
           exists b'. split; [exact Hm|apply grows_refl].
        -- destruct (a_disk _ _ _ I) as [A|(sn & A & B & C & _)]; [now left|right].
           exists sn. split; [exact A|split; [exact B|split; [exact C|]]].
           intros X. pose proof (a_last _ _ _ I). lia.
      * rewrite (Hno eq_refl). destruct I as [I0 I1 I2 I3 I4]. constructor; cbn; assumption.
    + unfold sys_persist. destruct (nth_error (s_pending s) i) as [sn|] eqn:En; [|exact I].
      assert (Hin : In sn (s_pending s)) by (eapply nth_error_In; eauto).
      pose proof (a_pending _ _ _ I sn Hin) as Hv.
      unfold persist_snap. cbn [s_last s_mem s_version s_local s_pending].
      destruct (negb (sn_ver sn =? 0) && (sn_ver sn <=? s_last s)) eqn:G.
      * constructor; cbn.
        -- intros H. lia.
        -- intros x H. apply In_remove_nth in H. now apply (a_pending _ _ _ I).
        -- apply (a_last _ _ _ I).
        -- intros x H. apply In_remove_nth in H. now apply (a_newest _ _ _ I).
        -- apply (a_disk _ _ _ I).
      * constructor; cbn.
        -- intros H. lia.
        -- intros x H. apply In_remove_nth in H. now apply (a_pending _ _ _ I).
        -- lia.
        -- intros x H. apply In_remove_nth in H. now apply (a_newest _ _ _ I).
        -- right. exists sn. split; [reflexivity|split; [lia|split; [reflexivity|]]].
           intros X. now apply (a_newest _ _ _ I).
  - constructor; cbn.
    + intros H. destruct (a_zero _ _ _ I H) as (A & B & C & D). rewrite C in Hi. cbn in Hi. lia.
    + intros x H. apply In_remove_nth in H. now apply (a_pending _ _ _ I).
    + apply (a_last _ _ _ I).
    + intros x H. apply In_remove_nth in H. now apply (a_newest _ _ _ I).
    + apply (a_disk _ _ _ I).
  - (* one name through set(): the memory grows, nothing else moves *)
    pose proof (set_locked_grows k (s_mem s)) as Hg.
    destruct I as [I0 I1 I2 I3 I4]. constructor; cbn [sys_set s_mem s_version s_last s_local s_pending].
    + intros H. destruct (I0 H) as (A & B & C & D). split; [eapply grows_trans; eauto|split; [exact B|split; [exact C|exact D]]].
    + exact I1.
    + exact I2.
    + intros sn Hs Hv. destruct (I3 sn Hs Hv) as (b & Hb & Hgb). exists b. split; [exact Hb|eapply grows_trans; eauto].
    + destruct I4 as [A|(sn & A & B & C & D)]; [now left|right].
      exists sn. split; [exact A|split; [exact B|split; [exact C|]]].
      intros X. destruct (D X) as (b & Hb & Hgb). exists b. split; [exact Hb|eapply grows_trans; eauto].
Qed.

Lemma ainv_steps b0 l0 s : asteps (init b0 l0) s -> ainv b0 l0 s.
Proof.
  intros H. remember (init b0 l0) as s0 eqn:E. induction H as [s|s t u _ IH St]; subst.
  - apply ainv_init.
  - eapply ainv_step; [apply IH; reflexivity|exact St].
Qed.

Lemma everything_heals_lemma b0 l0 s :
  asteps (init b0 l0) s ->
  (s_last s = 0 /\ s_local s = l0) \/
  (exists ex wi, s_local s = Some (snap_bytes (mk_snap (s_last s) ex wi)) /\
     (s_last s = s_version s ->
      exists b, Permutation ex (bm b) /\ Permutation wi (bwild b) /\ grows b (s_mem s))).
Proof.
  intros St. apply ainv_steps in St.
  destruct (a_disk _ _ _ St) as [A|(sn & A & B & C & D)]; [now left|right].
  exists (sn_exact sn), (sn_wild sn). split.
  - rewrite C. destruct sn; cbn in *. now subst.
  - intros X. destruct (D X) as (b & [P1 P2] & Hg). exists b. split; [exact P1|split; [exact P2|exact Hg]].
Qed.

(* and nothing that happens in between ever unblocks a name the memory blocked, unless an
   API call removed something: a set() step only adds *)
Lemma set_step_never_unblocks k s q :
  bl_exists (s_mem s) q = true -> bl_exists (s_mem (sys_set k s)) q = true.
Proof. apply grows_blocks, set_locked_grows. Qed.

(* non-vacuous: Set a. fails to save; the refresh brings r. in two pieces with Remove(a.)'s
   mutation between them; Remove's save succeeds: the file is {r.} = the newest saving
   call's list, the memory holds r. and s. *)
Example everything_heals_example :
  let a := [97; 46] in let r := [114; 46] in let x := [115; 46] in
  let s0 := init (mk_bl [] [] []) None in
  let s1 := sys_persist_fail 0 (snd (sys_mutate (OpSet a) [a] [] s0)) in
  let s2 := sys_set r s1 in
  let s3 := snd (sys_mutate (OpRemove a) [r] [] s2) in
  let s4 := sys_set x s3 in
  let s5 := sys_persist 0 s4 in
  s_local s1 = None /\ s_last s1 = 0 /\
  s_last s5 = s_version s5 /\ s_local s5 = Some (snap_bytes (mk_snap 2 [r] [])) /\ bm (s_mem s5) = [r; x].
Proof. cbn. repeat split; reflexivity. Qed.
