(* C18 — property theorems (statements only; proofs are in Proofs_*.v).
   They describe /repo after commits 329a134 (persistable keys, stale temp files
   removed, escape-aware label walk) and dba5ede (the refresh parses downloads only). *)
From Coq Require Import Permutation.
From Sdns Require Import Common.Base Common.GoList Gen.C18 C18.Model C18.Spec
  C18.Proofs_match C18.Proofs_disk C18.Proofs_reload C18.Proofs_final C18.Proofs_equiv C18.Proofs_refresh C18.Proofs_walk C18.Proofs_examples C18.Proofs_fault C18.Proofs_allsteps C18.Proofs_spelling C18.Ack C18.Proofs_ack C18.Proofs_listed C18.Proofs_whole C18.Proofs_maps C18.Proofs_ops.
Open Scope N_scope.

(* Matching is exact on whole labels, case-insensitive, whitelist first: for every
   list (plain M, wildcard W, whitelist Wl) and every query name as it exists on the
   wire — labels of arbitrary bytes, dots and backslashes included, written the way
   dns.UnpackDomainName writes them — Exists() says "blocked" exactly when the name or
   a parent is in M, or a strict parent is in W, and neither the name nor a parent is
   in Wl.  (Parents: proper ancestors below the root, see Spec.v.) *)
Theorem exists_spec : forall (M W Wl : list name) (q : name),
  Forall wireP M -> Forall wireP W -> Forall wireP Wl -> wireP q ->
  (bl_exists (state_of M W Wl) (present q) = true <-> blocked_spec M W Wl (fold_name q)).
Proof. exact exists_spec_lemma. Qed.
Print Assumptions exists_spec.

(* the same for every escaping the walk can read (shape, ASCII folding, unique decoding) *)
Theorem exists_spec_any_escaping : forall (esc : N -> str),
  (forall c, okc c -> (esc c = [c] /\ plainc c) \/ (exists x ds, esc c = c_bs :: x :: ds /\ Forall plainc ds)) ->
  (forall c, okc c -> map lower (esc c) = esc (lower c)) ->
  (forall c d s t, okc c -> okc d -> esc c ++ s = esc d ++ t -> c = d) ->
  forall (M W Wl : list name) (q : name),
  Forall wireP M -> Forall wireP W -> Forall wireP Wl -> wireP q ->
  (bl_exists (state_with esc M W Wl) (render_with esc q) = true <-> blocked_spec M W Wl (fold_name q)).
Proof. exact exists_spec_with. Qed.
Print Assumptions exists_spec_any_escaping.

(* notexample.com is not matched by example.com: a listed name that is only a
   byte-suffix of the first label of the query plays no role *)
Theorem label_boundary : forall (l x : label) (p : name),
  wire_label l = true -> wire_label (x ++ l) = true -> x <> [] -> wireP p ->
  forall W, Forall wireP W ->
  bl_exists (state_of [l :: p] W []) (present ((x ++ l) :: p)) = false <->
  ~ (exists a, In a (parents (fold_name ((x ++ l) :: p))) /\ (a = l :: p \/ In a W)).
Proof. exact label_boundary_lemma. Qed.
Print Assumptions label_boundary.

(* the reading of "parent domains" (proper ancestors below the root), as facts *)
Theorem root_entries_not_hierarchical : forall q, wireP q -> q <> [] ->
  bl_exists (state_of [[]] [[]] []) (present q) = false /\
  bl_exists (state_of [[]] [] []) (present []) = true /\
  (forall M W, Forall wireP M -> Forall wireP W ->
     bl_exists (state_of M W [[]]) (present q) = bl_exists (state_of M W []) (present q)).
Proof. exact root_entries_lemma. Qed.
Print Assumptions root_entries_not_hierarchical.

(* blocked A / AAAA get the null route, other types an empty authoritative answer,
   the next handler is never reached; anything else goes on untouched *)
Theorem reply_shape : forall b nr nr6 qname qtype,
  (bl_exists b qname = true ->
     exists an ns, serve b nr nr6 qname qtype = OReply 0 true true an ns /\
       (qtype = type_a -> an = [RR type_a ttl_a qname nr] /\ ns = []) /\
       (qtype = type_aaaa -> an = [RR type_aaaa ttl_aaaa qname nr6] /\ ns = []) /\
       (qtype <> type_a -> qtype <> type_aaaa -> an = [] /\ exists soa, ns = [soa])) /\
  (bl_exists b qname = false -> serve b nr nr6 qname qtype = ONext).
Proof. exact reply_shape_lemma. Qed.
Print Assumptions reply_shape.

(* every interleaving of mutations (atomic under mu) and persists (atomic under saveMu,
   any order): with no persist outstanding, `local` is the highest-version snapshot = memory *)
Theorem disk_converges : forall b0 l0 s,
  steps (init b0 l0) s -> s_pending s = [] ->
  (s_version s = 0 /\ s_mem s = b0 /\ s_local s = l0) \/
  (s_last s = s_version s /\
   exists ex wi, Permutation ex (bm (s_mem s)) /\ Permutation wi (bwild (s_mem s)) /\
                 s_local s = Some (snap_bytes (mk_snap (s_version s) ex wi))).
Proof. exact disk_converges_lemma. Qed.
Print Assumptions disk_converges.

(* interruption after any number of steps and bytes: `local` is the old file or the new one *)
Theorem crash_leaves_complete_file : forall d s k j,
  d_local (crash_at d s k j) = d_local d \/ d_local (crash_at d s k j) = Some (snap_bytes s).
Proof. exact crash_leaves_complete_file_lemma. Qed.
Print Assumptions crash_leaves_complete_file.

(* ... and the restart loads the previous list or the new one, whatever temp files lie
   around; they are gone afterwards *)
Theorem crash_reload : forall wl bl d s k j,
  let d' := crash_at d s k j in
  (load_initial wl bl (disk_files d') = load_initial wl bl (disk_files d) \/
   load_initial wl bl (disk_files d') = load_initial wl bl [snap_bytes s]) /\
  d_temps (after_restart d') = [].
Proof. exact crash_reload_lemma. Qed.
Print Assumptions crash_reload.

(* the file persist() writes, re-read by parseHostFile: same blocking, in any line
   order, redundant entries included; good_entry is an invariant of the running list
   (apply_op_keeps_good) *)
Theorem reload_equiv : forall w v ex wi,
  Forall (good_entry w) (entries_of ex wi) ->
  forall q, bl_exists (parse_bytes (snap_bytes (mk_snap v ex wi)) (mk_bl [] [] w)) q = bl_exists (mk_bl ex wi w) q.
Proof. exact reload_equiv_lemma. Qed.
Print Assumptions reload_equiv.

Theorem memory_invariant : forall o b,
  Forall sane (op_keys o) -> mem_good b -> mem_good (snd (apply_op o b)).
Proof. exact apply_op_keeps_good. Qed.
Print Assumptions memory_invariant.

(* reload gives back the very same maps: refuted for redundant entries (kept or dropped
   depending on the order the map iteration wrote them); block-equivalent by reload_equiv *)
Theorem reload_exact_refuted :
  bm (snd (apply_op (OpSetBatch [k_ex; k_sub]) (mk_bl [] [] []))) = [k_ex; k_sub] /\
  bm (reload [k_ex; k_sub] []) = [k_ex] /\ bm (reload [k_sub; k_ex] []) = [k_sub; k_ex].
Proof. exact reload_exact_refuted_lemma. Qed.
Print Assumptions reload_exact_refuted.

(* ... and holds for irredundant lists *)
Theorem reload_exact_partial : forall w v ex wi,
  Forall (good_entry w) (entries_of ex wi) ->
  irredundant (entries_of ex wi) ->
  parse_bytes (snap_bytes (mk_snap v ex wi)) (mk_bl [] [] w) = mk_bl ex wi w.
Proof. exact reload_exact_partial_lemma. Qed.
Print Assumptions reload_exact_partial.

(* both halves: any interleaving of API calls, all persists done, restart from `local`
   -> blocks exactly what the memory blocks *)
Theorem converged_reload_equiv : forall b0 l0 s,
  csteps (init b0 l0) s -> mem_good b0 ->
  s_pending s = [] -> 0 < s_version s ->
  exists file, s_local s = Some file /\
    forall q, bl_exists (parse_bytes file (mk_bl [] [] (bw b0))) q = bl_exists (s_mem s) q.
Proof. exact converged_reload_equiv_lemma. Qed.
Print Assumptions converged_reload_equiv.

(* the background refresh (refreshRemote) may land anywhere between the API steps: with no
   remote list configured the convergence statement holds for those interleavings too *)
Theorem refresh_convergence : forall b0 l0 s,
  rsteps (init b0 l0) s -> s_pending s = [] ->
  (s_version s = 0 /\ s_mem s = b0 /\ s_local s = l0) \/
  (s_last s = s_version s /\
   exists ex wi, Permutation ex (bm (s_mem s)) /\ Permutation wi (bwild (s_mem s)) /\
                 s_local s = Some (snap_bytes (mk_snap (s_version s) ex wi))).
Proof. exact refresh_convergence_lemma. Qed.
Print Assumptions refresh_convergence.

(* and with remote lists it only ever adds to memory; file, version and outstanding
   snapshots are not touched *)
Theorem refresh_leaves_disk_alone : forall dl s,
  s_local (sys_refresh dl s) = s_local s /\ s_pending (sys_refresh dl s) = s_pending s /\
  s_version (sys_refresh dl s) = s_version s /\ s_last (sys_refresh dl s) = s_last s.
Proof. exact sys_refresh_disk. Qed.
Print Assumptions refresh_leaves_disk_alone.

(* ---- phase 3 *)

(* loadInitial builds a memory that satisfies the invariant whatever the files contain
   (configured entries not ending in a lone backslash) ... *)
Theorem load_initial_invariant : forall wl bl files, Forall sane bl -> mem_good (load_initial wl bl files).
Proof. exact load_initial_good. Qed.
Print Assumptions load_initial_invariant.

(* ... so the whole life cycle needs no hypothesis on the state: start on a directory,
   any interleaving of API calls, all persists done, restart -> same blocking *)
Theorem end_to_end : forall wl l0 s,
  let start := fun l => load_initial wl [] (match l with Some f => [f] | None => [] end) in
  csteps (init (start l0) l0) s -> s_pending s = [] -> 0 < s_version s ->
  forall q, bl_exists (start (s_local s)) q = bl_exists (s_mem s) q.
Proof. exact end_to_end_lemma. Qed.
Print Assumptions end_to_end.

(* the one hypothesis left on API keys (not ending in a lone backslash) is needed *)
Theorem sane_keys_needed :
  let k := [120; 92] in
  ~ sane k /\
  bm (snd (set_locked k (mk_bl [] [] []))) = [[120; 92; 46]] /\
  bm (reload [[120; 92; 46]] []) = [[120; 92; 46; 46]] /\
  bl_exists (mk_bl [[120; 92; 46]] [] []) k = true /\
  bl_exists (reload [[120; 92; 46]] []) k = false.
Proof. exact sane_needed_example. Qed.
Print Assumptions sane_keys_needed.

(* the finite test Run.spec_case uses for "these two lists block the same names" is sound *)
Theorem spec_equiv_sound : forall z Wl M1 W1 M2 W2,
  spec_equiv_n z Wl M1 W1 M2 W2 = true ->
  forall q, spec_blocked_b M1 W1 Wl q = spec_blocked_b M2 W2 Wl q.
Proof. exact spec_equiv_n_sound. Qed.
Print Assumptions spec_equiv_sound.

(* API calls interleaved with refreshes that bring remote lists: the file is the newest
   saving call's list, the memory is that plus what the refreshes added since *)
Theorem refresh_with_downloads : forall b0 l0 s,
  gsteps (init b0 l0) s -> s_pending s = [] ->
  (s_version s = 0 /\ grows b0 (s_mem s) /\ s_local s = l0) \/
  (s_last s = s_version s /\
   exists ex wi b, Permutation ex (bm b) /\ Permutation wi (bwild b) /\ grows b (s_mem s) /\
                   s_local s = Some (snap_bytes (mk_snap (s_version s) ex wi))).
Proof. exact refresh_with_downloads_lemma. Qed.
Print Assumptions refresh_with_downloads.

(* and a refresh never unblocks a name *)
Theorem refresh_never_unblocks : forall dl s q,
  bl_exists (s_mem s) q = true -> bl_exists (s_mem (sys_refresh dl s)) q = true.
Proof. exact refresh_never_unblocks_lemma. Qed.
Print Assumptions refresh_never_unblocks.

(* ---- session 3 *)

(* a step of persist() that RETURNS AN ERROR (CreateTemp, a write after any number of
   bytes, Sync, Close, Rename — k counts the steps of Model.persist_steps): the directory
   is exactly what it was, `local` is the previous complete file and no temp file is left *)
Theorem io_error_leaves_previous_file : forall d s k j,
  (k < length (persist_steps s))%nat -> fail_at d s k j = d.
Proof. exact fail_at_leaves_disk. Qed.
Print Assumptions io_error_leaves_previous_file.

(* ... the four named steps the fault-injection cases use are such steps, and with no
   failing step the run is the complete one *)
Theorem io_error_steps_cover : forall d s,
  (forall which, (which < 4)%nat -> fail_at d s (fault_step s which) 0 = d) /\
  (forall k j, (length (persist_steps s) <= k)%nat -> fail_at d s k j = mk_disk (Some (snap_bytes s)) (d_temps d)).
Proof. exact io_error_steps_cover_lemma. Qed.
Print Assumptions io_error_steps_cover.

(* the label walk is tied to the source by translation: Gen.C18.go_nextDot is srcgen's
   rendering of blocklist.go's nextDot (loop, switch, the extra i++ after a backslash);
   Proofs_walk.gen_nextDot shows it equal to Model.next_dot for every string, and here:
   the suffix list over which exists_spec is proved is produced by exactly the loop of
   Exists / matchHierarchy — offset += nextDot(key[offset:]) + 1; suffix = key[offset:] *)
Theorem walk_follows_next_dot : forall s : str,
  (next_dot s = (-1)%Z /\ dot_suffixes s = []) \/
  ((0 <= next_dot s < Z.of_nat (length s))%Z /\
   dot_suffixes s = skipn (Z.to_nat (next_dot s + 1)) s :: dot_suffixes (skipn (Z.to_nat (next_dot s + 1)) s)).
Proof. exact walk_follows_next_dot_lemma. Qed.
Print Assumptions walk_follows_next_dot.

(* finding blocklist-entry-spelling (KNOWN_FINDINGS.txt): exists_spec holds for lists whose
   entries are spelled the way the wire decoder spells names (state_of renders them with
   Spec.present).  For an entry spelled by hand the statement fails: "a@b.test." and the
   query name for the labels [a@b; test] are the same name, Exists does not find it; and
   a whitelist entry spelled that way does not exempt the name. *)
Theorem entry_spelling_refuted :
  name_of sp_entry = sp_name /\ name_of (present sp_name) = sp_name /\
  present sp_name <> sp_entry /\
  spec_blocked_b [name_of sp_entry] [] [] sp_name = true /\
  bl_exists (mk_bl [sp_entry] [] []) (present sp_name) = false /\
  spec_blocked_b [] [[[116;101;115;116]]] [name_of sp_entry] sp_name = false /\
  bl_exists (mk_bl [] [[116;101;115;116;46]] [sp_entry]) (present sp_name) = true /\
  bl_exists (mk_bl [present sp_name] [] []) (present sp_name) = true.
Proof. exact entry_spelling_refuted_lemma. Qed.
Print Assumptions entry_spelling_refuted.

(* saves that fail, in the interleaving system: a persist() whose step returns an error
   uses up its snapshot and changes nothing (io_error_leaves_previous_file; the code returns
   before lastPersisted is advanced).  Whatever fails and in whatever order, `local` is the
   initial file or a complete snapshot — the one stamped lastPersisted — and as soon as the
   newest snapshot has been saved it is the memory: a later successful save heals every
   earlier failure.  (Without failures this is disk_converges.) *)
Theorem failed_saves_heal : forall b0 l0 s,
  fsteps (init b0 l0) s ->
  (s_last s = 0 /\ s_local s = l0) \/
  (exists ex wi, s_local s = Some (snap_bytes (mk_snap (s_last s) ex wi)) /\
     (s_last s = s_version s -> Permutation ex (bm (s_mem s)) /\ Permutation wi (bwild (s_mem s)))).
Proof. exact failed_saves_heal_lemma. Qed.
Print Assumptions failed_saves_heal.

(* disk_converges speaks of VERSIONS, never of content, so it holds unchanged for A-B-A
   histories — the list returns to the content of the file under a newer version and the
   newer snapshot reaches persist() first: Set a. saved; Remove a. (v2); Set a. (v3);
   persist v3 (same lines as the file: written all the same, lastPersisted := 3); persist v2
   (dropped).  Proofs_disk.skipping_equal_content_is_unsound: a persist() that skips v3
   because its content equals the file without recording its version then writes v2 — the
   file holds the empty list while the memory holds a. (seeded change C18-8). *)
Theorem disk_converges_aba_example :
  steps aba_s0 aba_s5 /\ s_pending aba_s5 = [] /\
  s_local aba_s1 = Some (snap_bytes (mk_snap 3 [aba_k] [])) /\
  s_last aba_s5 = s_version aba_s5 /\
  s_local aba_s5 = Some (snap_bytes (mk_snap (s_version aba_s5) (bm (s_mem aba_s5)) (bwild (s_mem aba_s5)))).
Proof. exact aba_converges_lemma. Qed.
Print Assumptions disk_converges_aba_example.

(* ---- wave 5 *)

(* Everything at once, at the granularity the code has.  refreshRemote does not add a
   downloaded list atomically: parseHostFile takes mu once per name, so API calls land
   between two names; a download that fails or is cut short contributes a prefix or nothing.
   All of that is one step kind, "some name goes through set()" (ASet, any name, any time);
   asteps = API mutations + persists in any order + persists that FAIL + such steps.
   Whatever happens, `local` is the initial file or the complete snapshot stamped
   lastPersisted; once lastPersisted = version it is the list of the newest saving call,
   and the memory is that list plus what the refresh has added since. *)
Theorem everything_heals : forall b0 l0 s,
  asteps (init b0 l0) s ->
  (s_last s = 0 /\ s_local s = l0) \/
  (exists ex wi, s_local s = Some (snap_bytes (mk_snap (s_last s) ex wi)) /\
     (s_last s = s_version s ->
      exists b, Permutation ex (bm b) /\ Permutation wi (bwild b) /\ grows b (s_mem s))).
Proof. exact everything_heals_lemma. Qed.
Print Assumptions everything_heals.

(* the atomic refresh of the earlier theorems (Model.sys_refresh, any downloaded lists) is
   a sequence of such set() steps: asteps subsumes steps, fsteps, rsteps and gsteps *)
Theorem refresh_is_sets : forall dl s, asteps s (sys_refresh dl s).
Proof. exact refresh_is_sets_lemma. Qed.
Print Assumptions refresh_is_sets.

(* "Listed" = acknowledged by the API.  Read a history of calls with the values they
   returned as a list of entries (Ack.v: an accepted Set lists its key, Remove / RemoveBatch
   un-list the keys they name, a SetBatch that counted every key lists them all, one that
   counted only some lists an unknown part of them: none in [lo], all in [hi]).  After EVERY
   sequence of Set / Remove / SetBatch / RemoveBatch calls on a list b0 whose plain entries do
   not read "*.…" (every list the code builds), every name the lower acknowledged list blocks
   is blocked by the memory, every name the memory blocks is blocked by the upper list, and
   when no batch was accepted in part the two lists are ONE: a name is blocked exactly when
   it or a parent is an entry some call has acknowledged and none has taken back, and it is
   not whitelisted — also when the entry was added while a broader one covered it and the
   broader one has been removed since (ack_example; seeded change C18-11).  [blocks b q] is
   Spec.blocked_spec on the names of b's three lists.  Run.check_case evaluates the same
   bracket on what the drivers observed of the real calls (Run.ack_bracket). *)
Theorem acknowledged_is_matched : forall b0 ops, no_wild_plain b0 ->
  let h := fst (run_hist ops b0) in
  let b1 := snd (run_hist ops b0) in
  let lo := fst (ack_lists h b0) in
  let hi := snd (ack_lists h b0) in
  (forall q, blocks lo q -> blocks b1 q) /\
  (forall q, blocks b1 q -> blocks hi q) /\
  (forallb all_or_nothing h = true -> lo = hi).
Proof. exact acknowledged_is_matched_lemma. Qed.
Print Assumptions acknowledged_is_matched.

(* ---- session 5 *)

(* The first sentence of the property for WHOLE API HISTORIES, on the query side.  Start from
   any list in the wire decoder's spelling (every list built from such keys), run ANY sequence
   of Set / Remove / SetBatch / RemoveBatch calls whose keys are — up to case and the final
   dot — the decoder's spelling of a wire name ("Example.COM", "*.u\@v.net"; decoder_key), and
   ask Exists for ANY wire name q (labels of arbitrary bytes, any case, written as
   dns.UnpackDomainName writes them): every name the lower acknowledged list blocks is blocked,
   every blocked name is blocked by the upper acknowledged list, and when no batch was
   accepted in part (the two lists are one)

       Exists(q) = true  <->  q or a proper parent below the root is an acknowledged plain
                              entry, or a strict parent an acknowledged wildcard entry, and
                              neither q nor a parent is whitelisted     (Spec.blocked_spec)

   — "listed" read off the calls and their return values alone (Ack.ack_lists), the memory of
   the list never looked at.  Joins acknowledged_is_matched with exists_spec through
   name_of_present (Spec.parse_pres undoes the decoder's escaping) and the invariant
   apply_op_keeps_dsp.  For keys spelled by hand it fails: entry_spelling_refuted.
   Tie: Run.CaseListed — real calls, then real ServeDNS queries, judged against the
   acknowledged list (spec_case) and against the model's run (check_case). *)
Theorem listed_is_blocked : forall b0 ops q,
  decoder_spelled b0 -> no_wild_plain b0 -> Forall decoder_key (hist_keys ops) -> wireP q ->
  let h := fst (run_hist ops b0) in
  let b1 := snd (run_hist ops b0) in
  let lo := fst (ack_lists h b0) in
  let hi := snd (ack_lists h b0) in
  (blocks lo (fold_name q) -> bl_exists b1 (present q) = true) /\
  (bl_exists b1 (present q) = true -> blocks hi (fold_name q)) /\
  (forallb all_or_nothing h = true -> (bl_exists b1 (present q) = true <-> blocks lo (fold_name q))).
Proof. exact listed_is_blocked_lemma. Qed.
Print Assumptions listed_is_blocked.

(* ... and its second half: after such a history the query for q gets the null route (A / AAAA)
   or the empty authoritative answer and never reaches the next handler exactly when the
   acknowledged list blocks q; every other name goes on untouched *)
Theorem listed_is_served : forall b0 ops q nr nr6 qtype,
  decoder_spelled b0 -> no_wild_plain b0 -> Forall decoder_key (hist_keys ops) -> wireP q ->
  let h := fst (run_hist ops b0) in
  let b1 := snd (run_hist ops b0) in
  let lo := fst (ack_lists h b0) in
  forallb all_or_nothing h = true ->
  (blocks lo (fold_name q) ->
     exists an ns, serve b1 nr nr6 (present q) qtype = OReply 0 true true an ns /\
       (qtype = type_a -> an = [RR type_a ttl_a (present q) nr] /\ ns = []) /\
       (qtype = type_aaaa -> an = [RR type_aaaa ttl_aaaa (present q) nr6] /\ ns = []) /\
       (qtype <> type_a -> qtype <> type_aaaa -> an = [] /\ exists soa, ns = [soa])) /\
  (~ blocks lo (fold_name q) -> serve b1 nr nr6 (present q) qtype = ONext).
Proof. exact listed_is_served_lemma. Qed.
Print Assumptions listed_is_served.

(* the decoder's spelling of a wire name is such a key, whatever its case; and the name it
   denotes is the name it was written from *)
Theorem decoder_spelling_round_trip : forall n, wireP n ->
  decoder_key (present n) /\ name_of (present n) = fold_name n.
Proof. exact decoder_spelling_round_trip_lemma. Qed.
Print Assumptions decoder_spelling_round_trip.

(* BOTH sentences of the property in one statement.  A process starts on a directory (b0 =
   loadInitial on `local`, whitelist wl); API calls run CONCURRENTLY: their mutations take
   effect one at a time under mu in some order — [ops] is that order — and their saves reach
   persist() in ANY order (tsteps = csteps with the calls written down); every call has
   returned and every save is done; the process is restarted on the directory.  Then the NEW
   process blocks a wire name q exactly when the list the calls acknowledged lists q or a
   parent and the whitelist does not (between the lower and the upper list when a batch was
   accepted in part).  Joins end_to_end (disk_converges + reload_equiv + load_initial_invariant)
   with listed_is_blocked.  Premises: the list the process started with and the keys are in the
   wire decoder's spelling, keys do not end in a backslash (sane_keys_needed). *)
Theorem listed_end_to_end : forall wl l0 ops s q,
  let start := fun l => load_initial wl [] (match l with Some f => [f] | None => [] end) in
  let b0 := start l0 in
  tsteps (init b0 l0) ops s -> s_pending s = [] -> 0 < s_version s ->
  decoder_spelled b0 -> Forall decoder_key (hist_keys ops) -> wireP q ->
  let h := fst (run_hist ops b0) in
  let lo := fst (ack_lists h b0) in
  let hi := snd (ack_lists h b0) in
  (blocks lo (fold_name q) -> bl_exists (start (s_local s)) (present q) = true) /\
  (bl_exists (start (s_local s)) (present q) = true -> blocks hi (fold_name q)) /\
  (forallb all_or_nothing h = true ->
     (bl_exists (start (s_local s)) (present q) = true <-> blocks lo (fold_name q))).
Proof. exact listed_end_to_end_lemma. Qed.
Print Assumptions listed_end_to_end.

(* matchHierarchy and BlockList.Exists are tied to the source by TRANSLATION (srcgen: Go maps as
   association lists, the struct's three map fields in T_BlockList): on maps that hold true for
   every key — all the code ever stores ([amap]) — the translated functions are the model's, for
   every name, every list and every fuel above the length of the (canonical) name; the other
   fields of the BlockList play no role.  nextDot was translated before (walk_follows_next_dot). *)
Theorem matchHierarchy_is_translated : forall (name : str) (l : list str) fuel, (length name < fuel)%nat ->
  go_matchHierarchy fuel name (amap l) = Some (match_hierarchy name l).
Proof. exact gen_matchHierarchy. Qed.
Print Assumptions matchHierarchy_is_translated.

Theorem Exists_is_translated : forall (B : T_BlockList) (m wi w : list str) (key0 : str) fuel,
  T_BlockList_m B = amap m -> T_BlockList_wild B = amap wi -> T_BlockList_w B = amap w ->
  (length (canonical key0) < fuel)%nat ->
  go_BlockList_Exists fuel B key0 = Some (bl_exists (mk_bl m wi w) key0).
Proof. exact gen_BlockList_Exists. Qed.
Print Assumptions Exists_is_translated.

(* ... hence exists_spec holds of the Go function as srcgen reads it from blocklist.go *)
Theorem translated_exists_spec : forall (B : T_BlockList) (M W Wl : list name) (q : name) fuel,
  Forall wireP M -> Forall wireP W -> Forall wireP Wl -> wireP q ->
  T_BlockList_m B = amap (map present M) -> T_BlockList_wild B = amap (map present_suffix W) ->
  T_BlockList_w B = amap (map present Wl) ->
  (length (canonical (present q)) < fuel)%nat ->
  (go_BlockList_Exists fuel B (present q) = Some true <-> blocked_spec M W Wl (fold_name q)).
Proof. exact translated_exists_spec_lemma. Qed.
Print Assumptions translated_exists_spec.

(* setLocked and removeLocked are tied to the source by TRANSLATION as well (receiver-mutating
   methods: the translation hands the final receiver back).  [rep B b]: the BlockList of the
   source holds exactly the model's three lists (every value true).  For every key — for
   setLocked: whose canonical form is ASCII (persistable's translation is exact there) and shorter
   than the fuel — the translated function gives the model's answer, leaves a BlockList that
   again holds the model's lists, and touches nothing but the maps.  These two functions are ALL
   that Set / Remove / SetBatch / RemoveBatch do to the memory (Model.apply_op), so the operation
   steps of acknowledged_is_matched and listed_is_blocked rest on translated code; the four
   source-text pins on setLocked / removeLocked ("*." twice, key[2:] twice) are dropped. *)
Theorem setLocked_is_translated : forall (B : T_BlockList) (b : bl) (key0 : str) fuel,
  rep B b -> (length (canonical key0) < fuel)%nat -> Forall (fun c => c < 128) (canonical key0) ->
  exists B', go_BlockList_setLocked fuel B key0 = Some (fst (set_locked key0 b), B') /\
             rep B' (snd (set_locked key0 b)) /\ same_rest B B'.
Proof. exact gen_setLocked. Qed.
Print Assumptions setLocked_is_translated.

Theorem removeLocked_is_translated : forall (B : T_BlockList) (b : bl) (key0 : str),
  rep B b ->
  exists B', go_BlockList_removeLocked B key0 = (fst (remove_locked key0 b), B') /\
             rep B' (snd (remove_locked key0 b)) /\ same_rest B B'.
Proof. exact gen_removeLocked. Qed.
Print Assumptions removeLocked_is_translated.

(* the loops of SetBatch / RemoveBatch over the translated single steps are the model's batch *)
Theorem batches_are_translated_steps : forall fuel ks B b n, rep B b ->
  (Forall (key_ok fuel) ks ->
   exists B', go_set_all fuel B ks n = Some (fst (batch set_locked ks b n), B') /\ rep B' (snd (batch set_locked ks b n))) /\
  (exists B', go_remove_all B ks n = (fst (batch remove_locked ks b n), B') /\ rep B' (snd (batch remove_locked ks b n))).
Proof. exact gen_batches. Qed.
Print Assumptions batches_are_translated_steps.

(* ABOUT THE PROPOSED CODE (props/C18/fix.patch, on offer for the finding
   blocklist-entry-spelling; NOT in /repo): with canonicalKey — as a function on names
   Spec.present after Spec.name_of (Proofs_spelling.canonical_key; compared with the patch's
   Go function on 600 random keys in a scratch worktree: equal on all) — at every entry point,
   the matching statement holds for entries and probes in ANY spelling: typed by hand,
   \DDD, mixed case, or the wire decoder's.  W: the suffixes of the wildcard entries. *)
Theorem exists_spec_any_spelling_proposed : forall (M W Wl : list str) (q : str),
  Forall (fun s => wireP (name_of s)) M -> Forall (fun s => wireP (name_of s)) W ->
  Forall (fun s => wireP (name_of s)) Wl -> wireP (name_of q) ->
  (bl_exists_proposed (state_proposed M W Wl) q = true <->
   blocked_spec (map name_of M) (map name_of W) (map name_of Wl) (name_of q)).
Proof. exact exists_spec_any_spelling_lemma. Qed.
Print Assumptions exists_spec_any_spelling_proposed.
