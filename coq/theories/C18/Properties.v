(* C18 — property theorems (statements only; proofs are in Proofs_*.v). *)
From Coq Require Import Permutation.
From Sdns Require Import Common.Base Gen.C18 C18.Model C18.Spec
  C18.Proofs_match C18.Proofs_disk C18.Proofs_reload C18.Proofs_final.
Open Scope N_scope.

(* Matching is exact on whole labels, case-insensitive, whitelist first: for every
   list (plain M, wildcard W, whitelist Wl) and every query name whose labels need no
   escaping, Exists() says "blocked" exactly when the name or a parent is in M, or a
   strict parent is in W, and neither the name nor a parent is in Wl. *)
Theorem exists_spec : forall (M W Wl : list name) (q : name),
  Forall plainP M -> Forall plainP W -> Forall plainP Wl -> plainP q ->
  (bl_exists (state_of M W Wl) (render q) = true <-> blocked_spec M W Wl (fold_name q)).
Proof. exact exists_spec_lemma. Qed.
Print Assumptions exists_spec.

(* notexample.com is not matched by example.com: a listed name that is only a
   byte-suffix of the first label of the query plays no role *)
Theorem label_boundary : forall (l x : label) (p : name),
  plain_label l = true -> plain_label (x ++ l) = true -> x <> [] -> plainP p ->
  forall W, Forall plainP W ->
  bl_exists (state_of [l :: p] W []) (render ((x ++ l) :: p)) = false <->
  ~ (exists a, In a (parents (fold_name ((x ++ l) :: p))) /\ (a = l :: p \/ In a W)).
Proof. exact label_boundary_lemma. Qed.
Print Assumptions label_boundary.

(* the reading of "parent domains" (proper ancestors below the root), as facts *)
Theorem root_entries_not_hierarchical : forall q, plainP q -> q <> [] ->
  bl_exists (state_of [[]] [[]] []) (render q) = false /\
  bl_exists (state_of [[]] [] []) (render []) = true /\
  (forall M W, Forall plainP M -> Forall plainP W ->
     bl_exists (state_of M W [[]]) (render q) = bl_exists (state_of M W []) (render q)).
Proof. exact root_entries_lemma. Qed.
Print Assumptions root_entries_not_hierarchical.

(* exists_spec for every wire name (labels with arbitrary bytes): refuted by a label
   that contains a dot — finding blocklist-escaped-dot-label *)
Theorem whole_labels_escaped_dot_refuted :
  name_of esc_query = [[97; 46; 98]; [116; 101; 115; 116]] /\
  name_of esc_entry = [[98]; [116; 101; 115; 116]] /\
  bl_exists (mk_bl [esc_entry] [] []) esc_query = true /\
  spec_blocked_b [name_of esc_entry] [] [] (name_of esc_query) = false /\
  bl_exists (mk_bl [] [[116; 101; 115; 116; 46]] [esc_entry]) esc_query = false /\
  spec_blocked_b [] [name_of [116; 101; 115; 116; 46]] [name_of esc_entry] (name_of esc_query) = true.
Proof. exact escaped_dot_refuted_lemma. Qed.
Print Assumptions whole_labels_escaped_dot_refuted.

(* blocked A / AAAA get the null route, other types an empty authoritative answer,
   the next handler is never reached; anything else goes on untouched *)
Theorem reply_shape : forall b nr nr6 qname qtype,
  (bl_exists b qname = true ->
     exists an ns, serve b nr nr6 qname qtype = OReply 0 true true an ns /\
       (qtype = type_a -> an = [RR type_a ttl_a qname nr] /\ ns = []) /\
       (qtype = type_aaaa -> an = [RR type_aaaa ttl_aaaa qname nr6] /\ ns = []) /\
       (qtype <> type_a -> qtype <> type_aaaa -> an = [] /\ exists soa, ns = [soa])) /\
  (bl_exists b qname = false -> serve b nr nr6 qname qtype = ONext).
Proof. exact reply_shape_lemma. Qed.
Print Assumptions reply_shape.

(* every interleaving of mutations (atomic under mu) and persists (atomic under saveMu,
   any order): with no persist outstanding, `local` is the highest-version snapshot = memory *)
Theorem disk_converges : forall b0 l0 s,
  steps (init b0 l0) s -> s_pending s = [] ->
  (s_version s = 0 /\ s_mem s = b0 /\ s_local s = l0) \/
  (s_last s = s_version s /\
   exists ex wi, Permutation ex (bm (s_mem s)) /\ Permutation wi (bwild (s_mem s)) /\
                 s_local s = Some (snap_bytes (mk_snap (s_version s) ex wi))).
Proof. exact disk_converges_lemma. Qed.
Print Assumptions disk_converges.

(* interruption after any number of steps and bytes: `local` is the old file or the new one *)
Theorem crash_leaves_complete_file : forall d s k j,
  d_local (crash_at d s k j) = d_local d \/ d_local (crash_at d s k j) = Some (snap_bytes s).
Proof. exact crash_leaves_complete_file_lemma. Qed.
Print Assumptions crash_leaves_complete_file.

(* ... but the restart also reads the interrupted temp file: refuted —
   finding blocklist-stale-temp-reloaded *)
Theorem crash_reload_refuted :
  let d := mk_disk (Some crash_old) [] in
  let d' := crash_at d crash_snap 2 3 in
  d_local d' = Some crash_old /\
  let before := load_initial [] [] (disk_files d) in
  let wanted := mk_bl (sn_exact crash_snap) (sn_wild crash_snap) [] in
  let after := load_initial [] [] (disk_files d') in
  bl_exists before crash_probe = false /\ bl_exists wanted crash_probe = false /\ bl_exists after crash_probe = true.
Proof. exact crash_reload_refuted_lemma. Qed.
Print Assumptions crash_reload_refuted.

(* the file persist() writes, re-read by parseHostFile: same blocking, for keys
   without '#' and whitespace, in any line order, redundant entries included *)
Theorem reload_equiv : forall w v ex wi,
  Forall (good_entry w) (entries_of ex wi) -> Forall clean_entry (entries_of ex wi) ->
  forall q, bl_exists (parse_bytes (snap_bytes (mk_snap v ex wi)) (mk_bl [] [] w)) q = bl_exists (mk_bl ex wi w) q.
Proof. exact reload_equiv_lemma. Qed.
Print Assumptions reload_equiv.

(* reload gives back the very same maps: refuted ('#', whitespace, redundant entries) —
   finding blocklist-reload-special-chars *)
Theorem reload_exact_refuted :
  bm (snd (set_locked k_hash (mk_bl [] [] []))) = [k_hash] /\
  bm (snd (set_locked k_space (mk_bl [] [] []))) = [k_space] /\
  bm (reload [k_hash] []) = [[97; 46]] /\
  bl_exists (reload [k_hash] []) [120; 46; 97; 46] = true /\ bl_exists (mk_bl [k_hash] [] []) [120; 46; 97; 46] = false /\
  bm (reload [k_space] []) = [[98; 46; 116; 101; 115; 116; 46]] /\
  bm (reload [k_ex; k_sub] []) = [k_ex] /\ bm (reload [k_sub; k_ex] []) = [k_sub; k_ex].
Proof. exact reload_exact_refuted_lemma. Qed.
Print Assumptions reload_exact_refuted.

(* ... and holds for clean, irredundant lists *)
Theorem reload_exact_partial : forall w v ex wi,
  Forall (good_entry w) (entries_of ex wi) -> Forall clean_entry (entries_of ex wi) ->
  irredundant (entries_of ex wi) ->
  parse_bytes (snap_bytes (mk_snap v ex wi)) (mk_bl [] [] w) = mk_bl ex wi w.
Proof. exact reload_exact_partial_lemma. Qed.
Print Assumptions reload_exact_partial.

(* both halves: any interleaving of API calls with clean keys, all persists done,
   restart from `local` -> blocks exactly what the memory blocks *)
Theorem converged_reload_equiv : forall b0 l0 s,
  csteps (init b0 l0) s -> mem_good b0 -> mem_clean b0 ->
  s_pending s = [] -> 0 < s_version s ->
  exists file, s_local s = Some file /\
    forall q, bl_exists (parse_bytes file (mk_bl [] [] (bw b0))) q = bl_exists (s_mem s) q.
Proof. exact converged_reload_equiv_lemma. Qed.
Print Assumptions converged_reload_equiv.
