(* C18 — "listed" means acknowledged by the API: after EVERY sequence of Set / Remove /
   SetBatch / RemoveBatch calls the memory of the list lies between the lower and the
   upper acknowledged list (Ack.v), which coincide unless a batch was accepted in part;
   so the names the list blocks are the names the acknowledged entries block. *)
From Sdns Require Import Common.Base Gen.C18 C18.Model C18.Spec C18.Ack C18.Proofs_match C18.Proofs_disk C18.Proofs_reload.
Open Scope N_scope.

Lemma In_del x k l : In x (del k l) <-> In x l /\ x <> k.
Proof.
  unfold del. rewrite filter_In. split; intros [A B]; split; try exact A.
  - intros ->. rewrite str_eqb_refl in B. discriminate.
  - destruct (str_eqb k x) eqn:E; [|reflexivity]. apply str_eqb_eq in E. congruence.
Qed.
Lemma del_absent k l : mem k l = false -> del k l = l.
Proof.
  intros H. unfold del. induction l as [|x r IH]; [reflexivity|].
  cbn in H. apply orb_false_iff in H as [A B]. cbn. rewrite A. cbn. now rewrite IH.
Qed.
Lemma incl_add_both k a b : incl a b -> incl (add k a) (add k b).
Proof. intros H x Hx. apply In_add in Hx as [Hx| ->]; apply In_add; [left; now apply H|now right]. Qed.
Lemma incl_add_r k a b : incl a b -> incl a (add k b).
Proof. intros H x Hx. apply In_add. left. now apply H. Qed.
Lemma incl_del_both k a b : incl a b -> incl (del k a) (del k b).
Proof. intros H x Hx. apply In_del in Hx as [A B]. apply In_del. split; [now apply H|exact B]. Qed.

Definition sub (a b : bl) : Prop := incl (bm a) (bm b) /\ incl (bwild a) (bwild b).
Definition bracket (lo m hi : bl) : Prop := sub lo m /\ sub m hi /\ no_wild_plain m.

Lemma sub_refl a : sub a a.
Proof. split; apply incl_refl. Qed.
Lemma sub_ack_set_both k a b : sub a b -> sub (ack_set k a) (ack_set k b).
Proof.
  intros [A B]. unfold ack_set. destruct (has_prefix set_wildp (canonical k)); split; cbn; auto using incl_add_both.
Qed.
Lemma sub_ack_set_r k a b : sub a b -> sub a (ack_set k b).
Proof.
  intros [A B]. unfold ack_set. destruct (has_prefix set_wildp (canonical k)); split; cbn; auto using incl_add_r.
Qed.
Lemma sub_ack_remove_both k a b : sub a b -> sub (ack_remove k a) (ack_remove k b).
Proof.
  intros [A B]. unfold ack_remove. destruct (has_prefix remove_wildp (canonical k)); split; cbn; auto using incl_del_both.
Qed.

Lemma wildp_values : set_wildp = [42; 46] /\ remove_wildp = [42; 46].
Proof. split; reflexivity. Qed.

Lemma ack_set_nwp k b : no_wild_plain b -> no_wild_plain (ack_set k b).
Proof.
  intros H. unfold ack_set. destruct (has_prefix set_wildp (canonical k)) eqn:E; intros e He; cbn in He.
  - now apply H.
  - apply In_add in He as [He| ->]; [now apply H|]. destruct wildp_values as [A _]. now rewrite A in E.
Qed.
Lemma ack_remove_nwp k b : no_wild_plain b -> no_wild_plain (ack_remove k b).
Proof.
  intros H. unfold ack_remove. destruct (has_prefix remove_wildp (canonical k)); intros e He; cbn in He.
  - now apply H.
  - apply In_del in He as [He _]. now apply H.
Qed.

(* setLocked either files the key the way ack_set does, or refuses it and changes nothing *)
Lemma set_locked_ack k b : set_locked k b = (true, ack_set k b) \/ set_locked k b = (false, b).
Proof.
  unfold set_locked, ack_set. destruct (match_hierarchy (canonical k) (bw b)); [now right|].
  destruct (negb (persistable (canonical k))); [now right|].
  destruct (has_prefix set_wildp (canonical k)); now left.
Qed.
(* removeLocked, whatever it answers, leaves the list without the entry the key names *)
Lemma remove_locked_ack k b : no_wild_plain b -> snd (remove_locked k b) = ack_remove k b.
Proof.
  intros H. unfold remove_locked, ack_remove. destruct wildp_values as [_ R].
  destruct (has_prefix remove_wildp (canonical k)) eqn:E.
  - assert (M : mem (canonical k) (bm b) = false).
    { destruct (mem (canonical k) (bm b)) eqn:M; [|reflexivity]. apply mem_In, H in M. rewrite R in E. congruence. }
    rewrite M. destruct (mem (skipn (N.to_nat remove_wild_skip) (canonical k)) (bwild b)) eqn:W; cbn [snd]; [reflexivity|].
    rewrite (del_absent _ _ W). now destruct b.
  - destruct (mem (canonical k) (bm b)) eqn:M; cbn [snd]; [reflexivity|].
    rewrite (del_absent _ _ M). now destruct b.
Qed.

Lemma set_step lo m hi k : bracket lo m hi ->
  bracket lo (snd (set_locked k m)) (ack_set k hi) /\
  (fst (set_locked k m) = true -> bracket (ack_set k lo) (snd (set_locked k m)) (ack_set k hi)) /\
  (fst (set_locked k m) = false -> snd (set_locked k m) = m).
Proof.
  intros (A & B & C). destruct (set_locked_ack k m) as [E|E]; rewrite E; cbn [fst snd].
  - split; [|split].
    + split; [|split].
      * now apply sub_ack_set_r.
      * now apply sub_ack_set_both.
      * now apply ack_set_nwp.
    + intros _. split; [|split].
      * now apply sub_ack_set_both.
      * now apply sub_ack_set_both.
      * now apply ack_set_nwp.
    + discriminate.
  - split; [|split].
    + split; [exact A|split; [now apply sub_ack_set_r|exact C]].
    + discriminate.
    + reflexivity.
Qed.

Lemma remove_step lo m hi k : bracket lo m hi ->
  bracket (ack_remove k lo) (snd (remove_locked k m)) (ack_remove k hi).
Proof.
  intros (A & B & C). rewrite (remove_locked_ack k m C). split; [|split].
  - now apply sub_ack_remove_both.
  - now apply sub_ack_remove_both.
  - now apply ack_remove_nwp.
Qed.

(* ---- batches *)
Lemma batch_upper (f : str -> bl -> bool * bl) : forall ks b n, fst (batch f ks b n) <= n + N.of_nat (length ks).
Proof.
  induction ks as [|k ks IH]; intros b n; cbn [batch length]; [cbn; lia|].
  destruct (f k b) as [ok b']. specialize (IH b' (if ok then n + 1 else n)). destruct ok; lia.
Qed.

Lemma batch_set_hi : forall ks lo m hi n, bracket lo m hi ->
  bracket lo (snd (batch set_locked ks m n)) (ack_sets ks hi).
Proof.
  induction ks as [|k ks IH]; intros lo m hi n H; [exact H|].
  cbn [batch]. unfold ack_sets. cbn [fold_left]. fold (ack_sets ks (ack_set k hi)).
  destruct (set_step lo m hi k H) as (A & _ & _).
  destruct (set_locked k m) as [ok m']. cbn [snd] in A. now apply IH.
Qed.

Lemma batch_set_full : forall ks lo m hi n, bracket lo m hi ->
  fst (batch set_locked ks m n) = n + N.of_nat (length ks) ->
  bracket (ack_sets ks lo) (snd (batch set_locked ks m n)) (ack_sets ks hi).
Proof.
  induction ks as [|k ks IH]; intros lo m hi n H Hn; [exact H|].
  cbn [batch] in *. unfold ack_sets. cbn [fold_left]. fold (ack_sets ks (ack_set k hi)). fold (ack_sets ks (ack_set k lo)).
  destruct (set_step lo m hi k H) as (_ & A & _).
  destruct (set_locked k m) as [ok m']. cbn [fst snd] in A. destruct ok.
  - apply IH; [now apply A|]. rewrite Hn. cbn [length]. lia.
  - exfalso. pose proof (batch_upper set_locked ks m' n) as U. rewrite Hn in U. cbn [length] in U. lia.
Qed.

Lemma batch_remove : forall ks lo m hi n, bracket lo m hi ->
  bracket (ack_removes ks lo) (snd (batch remove_locked ks m n)) (ack_removes ks hi).
Proof.
  induction ks as [|k ks IH]; intros lo m hi n H; [exact H|].
  cbn [batch]. unfold ack_removes. cbn [fold_left]. fold (ack_removes ks (ack_remove k hi)). fold (ack_removes ks (ack_remove k lo)).
  pose proof (remove_step lo m hi k H) as A.
  destruct (remove_locked k m) as [ok m']. cbn [snd] in A. now apply IH.
Qed.

(* ---- one call *)
Lemma step_bracket lo m hi o : bracket lo m hi ->
  bracket (fst (ack_step (lo, hi) (o, fst (fst (apply_op o m)))))
          (snd (apply_op o m))
          (snd (ack_step (lo, hi) (o, fst (fst (apply_op o m))))).
Proof.
  intros H. destruct o as [k|k|ks|ks]; cbn [apply_op].
  - destruct (set_step lo m hi k H) as (_ & A & B).
    destruct (set_locked k m) as [ok m']. cbn [fst snd] in *. destruct ok; cbn [b2n ack_step fst snd].
    + change (1 =? 0) with false. cbn [fst snd]. now apply A.
    + change (0 =? 0) with true. cbn [fst snd]. now rewrite B.
  - pose proof (remove_step lo m hi k H) as A.
    destruct (remove_locked k m) as [ok m']. cbn [fst snd ack_step] in *. exact A.
  - destruct (is_nil ks) eqn:Enil; [cbn; exact H|].
    pose proof (batch_set_hi ks lo m hi 0 H) as Hhi.
    pose proof (batch_set_full ks lo m hi 0 H) as Hfull.
    pose proof (batch_zero set_locked set_locked_false ks m 0) as [_ Hz].
    destruct (batch set_locked ks m 0) as [n m']. cbn [fst snd] in *.
    destruct (n =? 0) eqn:En; cbn [fst snd ack_step].
    + change (0 =? 0) with true. cbn [fst snd]. apply N.eqb_eq in En. now rewrite (Hz En).
    + rewrite En. destruct (n =? N.of_nat (length ks)) eqn:Ef; cbn [fst snd].
      * apply Hfull. apply N.eqb_eq in Ef. lia.
      * exact Hhi.
  - destruct (is_nil ks) eqn:Enil.
    + destruct ks; [|discriminate]. cbn. exact H.
    + pose proof (batch_remove ks lo m hi 0 H) as A.
      destruct (batch remove_locked ks m 0) as [n m']. cbn [fst snd] in *.
      destruct (n =? 0); cbn [fst snd ack_step]; exact A.
Qed.

(* ---- every history *)
Lemma hist_bracket : forall ops lo m hi, bracket lo m hi ->
  bracket (fst (fold_left ack_step (fst (run_hist ops m)) (lo, hi)))
          (snd (run_hist ops m))
          (snd (fold_left ack_step (fst (run_hist ops m)) (lo, hi))).
Proof.
  induction ops as [|o ops IH]; intros lo m hi H; [exact H|].
  cbn [run_hist]. pose proof (step_bracket lo m hi o H) as S.
  destruct (apply_op o m) as [[ret sn] m']. cbn [fst snd] in S.
  specialize (IH (fst (ack_step (lo, hi) (o, ret))) m' (snd (ack_step (lo, hi) (o, ret))) S).
  destruct (run_hist ops m') as [h m1]. cbn [fst snd fold_left] in *.
  now rewrite <- surjective_pairing in IH.
Qed.

Lemma ack_bracket_lemma b0 ops : no_wild_plain b0 ->
  bracket (fst (ack_lists (fst (run_hist ops b0)) b0)) (snd (run_hist ops b0)) (snd (ack_lists (fst (run_hist ops b0)) b0)).
Proof. intros H. unfold ack_lists. apply hist_bracket. repeat split; try apply incl_refl. exact H. Qed.

(* nothing accepted in part: the two lists are one *)
Lemma ack_exact_lemma : forall h a, forallb all_or_nothing h = true ->
  fst (fold_left ack_step h (a, a)) = snd (fold_left ack_step h (a, a)).
Proof.
  induction h as [|[o r] h IH]; intros a H; [reflexivity|].
  cbn [forallb] in H. apply andb_true_iff in H as [H1 H2]. cbn [fold_left].
  assert (E : exists a', ack_step (a, a) (o, r) = (a', a')).
  { destruct o as [k|k|ks|ks]; cbn [ack_step all_or_nothing] in *.
    - destruct (r =? 0); eauto.
    - eauto.
    - destruct (r =? 0); [eauto|]. cbn [orb] in H1. rewrite H1. eauto.
    - eauto. }
  destruct E as [a' E]. rewrite E. now apply IH.
Qed.

(* ---- what is blocked *)
Lemma blocked_mono M W M' W' Wl q : incl M M' -> incl W W' -> blocked_spec M W Wl q -> blocked_spec M' W' Wl q.
Proof.
  intros HM HW [H N]. split; [|exact N].
  destruct H as [H|(p & A & B & [C|C])]; [left; now apply HM| |]; right; exists p; repeat split; auto.
Qed.
Definition names (l : list str) : list name := map name_of l.
Definition blocks (b : bl) (q : name) : Prop := blocked_spec (names (bm b)) (names (bwild b)) (names (bw b)) q.

Lemma sub_blocks a b q : sub a b -> bw a = bw b -> blocks a q -> blocks b q.
Proof.
  intros [A B] E. unfold blocks. rewrite E. apply blocked_mono; unfold names; now apply incl_map.
Qed.

Lemma ack_set_bw k b : bw (ack_set k b) = bw b.
Proof. unfold ack_set. now destruct (has_prefix _ _). Qed.
Lemma ack_remove_bw k b : bw (ack_remove k b) = bw b.
Proof. unfold ack_remove. now destruct (has_prefix _ _). Qed.
Lemma ack_sets_bw ks : forall b, bw (ack_sets ks b) = bw b.
Proof. induction ks as [|k ks IH]; intros b; [reflexivity|]. unfold ack_sets in *. cbn [fold_left]. now rewrite IH, ack_set_bw. Qed.
Lemma ack_removes_bw ks : forall b, bw (ack_removes ks b) = bw b.
Proof. induction ks as [|k ks IH]; intros b; [reflexivity|]. unfold ack_removes in *. cbn [fold_left]. now rewrite IH, ack_remove_bw. Qed.
Lemma ack_step_bw a p : bw (fst (ack_step a p)) = bw (fst a) /\ bw (snd (ack_step a p)) = bw (snd a).
Proof.
  destruct a as [lo hi], p as [o r]. destruct o as [k|k|ks|ks]; cbn [ack_step].
  - destruct (r =? 0); cbn [fst snd]; now rewrite ?ack_set_bw.
  - cbn [fst snd]. now rewrite !ack_remove_bw.
  - destruct (r =? 0); [now split|]. destruct (r =? _); cbn [fst snd]; now rewrite ?ack_sets_bw.
  - cbn [fst snd]. now rewrite !ack_removes_bw.
Qed.
Lemma ack_fold_bw : forall h a, bw (fst (fold_left ack_step h a)) = bw (fst a) /\ bw (snd (fold_left ack_step h a)) = bw (snd a).
Proof.
  induction h as [|p h IH]; intros a; [now split|]. cbn [fold_left].
  destruct (IH (ack_step a p)) as [A B]. destruct (ack_step_bw a p) as [C D]. split; congruence.
Qed.
Lemma apply_op_bw o b : bw (snd (apply_op o b)) = bw b.
Proof.
  assert (S : forall k b, bw (snd (set_locked k b)) = bw b).
  { intros k b0. destruct (set_locked_ack k b0) as [E|E]; rewrite E; cbn [snd]; [apply ack_set_bw|reflexivity]. }
  assert (R : forall k b, bw (snd (remove_locked k b)) = bw b).
  { intros k b0. unfold remove_locked. destruct (mem _ (bm b0)); [reflexivity|]. destruct (has_prefix _ _); [|reflexivity].
    now destruct (mem _ (bwild b0)). }
  assert (B : forall f, (forall k b, bw (snd (f k b)) = bw b) -> forall ks b n, bw (snd (batch f ks b n)) = bw b).
  { intros f Hf. induction ks as [|k ks IH]; intros b0 n; [reflexivity|]. cbn [batch].
    specialize (Hf k b0). destruct (f k b0) as [ok b']. cbn [snd] in Hf. now rewrite IH. }
  destruct o as [k|k|ks|ks]; cbn [apply_op].
  - specialize (S k b). now destruct (set_locked k b).
  - specialize (R k b). now destruct (remove_locked k b).
  - destruct (is_nil ks); [reflexivity|]. specialize (B _ S ks b 0). destruct (batch set_locked ks b 0) as [n b'].
    now destruct (n =? 0).
  - destruct (is_nil ks); [reflexivity|]. specialize (B _ R ks b 0). destruct (batch remove_locked ks b 0) as [n b'].
    now destruct (n =? 0).
Qed.
Lemma run_hist_bw : forall ops b, bw (snd (run_hist ops b)) = bw b.
Proof.
  induction ops as [|o ops IH]; intros b; [reflexivity|]. cbn [run_hist].
  pose proof (apply_op_bw o b) as A. destruct (apply_op o b) as [[ret sn] b']. cbn [snd] in A.
  specialize (IH b'). destruct (run_hist ops b') as [h b1]. cbn [snd] in *. congruence.
Qed.

(* the statement *)
Lemma acknowledged_is_matched_lemma b0 ops : no_wild_plain b0 ->
  let h := fst (run_hist ops b0) in
  let b1 := snd (run_hist ops b0) in
  let lo := fst (ack_lists h b0) in
  let hi := snd (ack_lists h b0) in
  (forall q, blocks lo q -> blocks b1 q) /\
  (forall q, blocks b1 q -> blocks hi q) /\
  (forallb all_or_nothing h = true -> lo = hi).
Proof.
  intros H h b1 lo hi. destruct (ack_bracket_lemma b0 ops H) as (A & B & _).
  destruct (ack_fold_bw h (b0, b0)) as [Wlo Whi]. cbn [fst snd] in Wlo, Whi.
  pose proof (run_hist_bw ops b0) as W1.
  split; [|split].
  - intros q. apply sub_blocks; [exact A|]. unfold lo, ack_lists. fold h. fold b1 in W1. congruence.
  - intros q. apply sub_blocks; [exact B|]. unfold hi, ack_lists. fold h. fold b1 in W1. congruence.
  - intros F. unfold lo, hi, ack_lists. now apply ack_exact_lemma.
Qed.

(* non-vacuity: cover, then uncover.  example.com. is listed, ads.example.com. is added while
   it is covered, the broad entry is removed: the narrow one is what remains listed AND
   matched.  (A setLocked that answers "added" for a covered key without filing it — the
   seeded change C18-11 — leaves the memory empty here: below [lo].) *)
Example ack_example :
  let ops := [OpSet [101;120;97;109;112;108;101;46;99;111;109];
              OpSet [97;100;115;46;69;120;97;109;112;108;101;46;99;111;109;46];
              OpSetBatch [[42;46;116;46;110;101;116]; [119;46;110;101;116]];
              OpRemove [101;120;97;109;112;108;101;46;99;111;109;46]] in
  let b0 := mk_bl [] [] [[119;46;110;101;116;46]] in
  fst (run_hist ops b0) = [(OpSet [101;120;97;109;112;108;101;46;99;111;109], 1);
                           (OpSet [97;100;115;46;69;120;97;109;112;108;101;46;99;111;109;46], 1);
                           (OpSetBatch [[42;46;116;46;110;101;116]; [119;46;110;101;116]], 1);
                           (OpRemove [101;120;97;109;112;108;101;46;99;111;109;46], 1)] /\
  bm (snd (run_hist ops b0)) = [[97;100;115;46;101;120;97;109;112;108;101;46;99;111;109;46]] /\
  bwild (snd (run_hist ops b0)) = [[116;46;110;101;116;46]] /\
  bm (fst (ack_lists (fst (run_hist ops b0)) b0)) = [[97;100;115;46;101;120;97;109;112;108;101;46;99;111;109;46]] /\
  bwild (fst (ack_lists (fst (run_hist ops b0)) b0)) = [] /\
  bm (snd (ack_lists (fst (run_hist ops b0)) b0)) =
    [[97;100;115;46;101;120;97;109;112;108;101;46;99;111;109;46]; [119;46;110;101;116;46]] /\
  bwild (snd (ack_lists (fst (run_hist ops b0)) b0)) = [[116;46;110;101;116;46]].
Proof. vm_compute. repeat split. Qed.
