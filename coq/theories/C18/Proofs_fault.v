(* C18 — saves that fail.  Model.fail_at (io_error_leaves_previous_file) says what a
   persist() whose step returns an error does to the directory: nothing; and the code
   returns before `lastPersisted = s.version`.  At the level of the interleaving system
   such a persist just uses up its snapshot.  Whatever fails, `local` is never anything
   but the initial file or a complete snapshot, and once the newest snapshot has been
   saved (lastPersisted = version) it is the memory: a later successful save heals every
   earlier failure. *)
From Coq Require Import Permutation.
From Sdns Require Import Common.Base Gen.C18 C18.Model C18.Spec C18.Proofs_match C18.Proofs_disk.
Open Scope N_scope.

Definition sys_persist_fail (i : nat) (s : sys) : sys :=
  mk_sys (s_mem s) (s_version s) (s_last s) (s_local s) (remove_nth i (s_pending s)).

Inductive fstep : sys -> sys -> Prop :=
| FStepOk s t : step s t -> fstep s t
| FStepFail i s : (i < length (s_pending s))%nat -> fstep s (sys_persist_fail i s).

Inductive fsteps : sys -> sys -> Prop :=
| fsteps_refl s : fsteps s s
| fsteps_next s t u : fsteps s t -> fstep t u -> fsteps s u.

Record finv (b0 : bl) (l0 : option str) (s : sys) : Prop := mk_finv {
  f_zero : s_version s = 0 -> s_mem s = b0 /\ s_local s = l0 /\ s_pending s = [] /\ s_last s = 0;
  f_pending : forall sn, In sn (s_pending s) -> 1 <= sn_ver sn <= s_version s;
  f_last : s_last s <= s_version s;
  f_newest : forall sn, In sn (s_pending s) -> sn_ver sn = s_version s -> snap_matches sn (s_mem s);
  f_disk : (s_last s = 0 /\ s_local s = l0) \/
           (exists sn, sn_ver sn = s_last s /\ 1 <= s_last s /\ s_local s = Some (snap_bytes sn) /\
                       (s_last s = s_version s -> snap_matches sn (s_mem s))) }.

Lemma finv_init b0 l0 : finv b0 l0 (init b0 l0).
Proof. constructor; cbn; try easy; intros; try lia. now left. Qed.

Lemma finv_step b0 l0 s t : finv b0 l0 s -> fstep s t -> finv b0 l0 t.
Proof.
  intros I St. destruct St as [s t St|i s Hi].
  - destruct St as [o ex wi s Hm|i s Hi].
    + unfold sys_mutate. pose proof (apply_op_nosnap o (s_mem s)) as Hno.
      destruct (apply_op o (s_mem s)) as [[ret snapped] b'] eqn:E. cbn in Hno, Hm.
      destruct snapped; cbn [snd].
      * constructor; cbn.
        -- intros H. lia.
        -- intros sn H. apply in_app_iff in H as [H|[<-|[]]]; [apply (f_pending _ _ _ I) in H; lia|cbn; lia].
        -- pose proof (f_last _ _ _ I). lia.
        -- intros sn H Hv. apply in_app_iff in H as [H|[<-|[]]]; [apply (f_pending _ _ _ I) in H; lia|exact Hm].
        -- destruct (f_disk _ _ _ I) as [A|(sn & A & B & C & _)]; [now left|right].
           exists sn. split; [exact A|split; [exact B|split; [exact C|]]].
           intros X. pose proof (f_last _ _ _ I). lia.
      * rewrite (Hno eq_refl). destruct I as [I0 I1 I2 I3 I4]. constructor; cbn; assumption.
    + unfold sys_persist. destruct (nth_error (s_pending s) i) as [sn|] eqn:En; [|exact I].
      assert (Hin : In sn (s_pending s)) by (eapply nth_error_In; eauto).
      pose proof (f_pending _ _ _ I sn Hin) as Hv.
      unfold persist_snap. cbn [s_last s_mem s_version s_local s_pending].
      destruct (negb (sn_ver sn =? 0) && (sn_ver sn <=? s_last s)) eqn:G.
      * constructor; cbn.
        -- intros H. lia.
        -- intros x H. apply In_remove_nth in H. now apply (f_pending _ _ _ I).
        -- apply (f_last _ _ _ I).
        -- intros x H. apply In_remove_nth in H. now apply (f_newest _ _ _ I).
        -- apply (f_disk _ _ _ I).
      * constructor; cbn.
        -- intros H. lia.
        -- intros x H. apply In_remove_nth in H. now apply (f_pending _ _ _ I).
        -- lia.
        -- intros x H. apply In_remove_nth in H. now apply (f_newest _ _ _ I).
        -- right. exists sn. split; [reflexivity|split; [lia|split; [reflexivity|]]].
           intros X. now apply (f_newest _ _ _ I).
  - constructor; cbn.
    + intros H. destruct (f_zero _ _ _ I H) as (A & B & C & D). rewrite C in Hi. cbn in Hi. lia.
    + intros x H. apply In_remove_nth in H. now apply (f_pending _ _ _ I).
    + apply (f_last _ _ _ I).
    + intros x H. apply In_remove_nth in H. now apply (f_newest _ _ _ I).
    + apply (f_disk _ _ _ I).
Qed.

Lemma finv_steps b0 l0 s : fsteps (init b0 l0) s -> finv b0 l0 s.
Proof.
  intros H. remember (init b0 l0) as s0 eqn:E. induction H as [s|s t u _ IH St]; subst.
  - apply finv_init.
  - eapply finv_step; [apply IH; reflexivity|exact St].
Qed.

Lemma failed_saves_heal_lemma b0 l0 s :
  fsteps (init b0 l0) s ->
  (s_last s = 0 /\ s_local s = l0) \/
  (exists ex wi, s_local s = Some (snap_bytes (mk_snap (s_last s) ex wi)) /\
     (s_last s = s_version s -> Permutation ex (bm (s_mem s)) /\ Permutation wi (bwild (s_mem s)))).
Proof.
  intros St. apply finv_steps in St.
  destruct (f_disk _ _ _ St) as [A|(sn & A & B & C & D)]; [now left|right].
  exists (sn_exact sn), (sn_wild sn). split.
  - rewrite C. destruct sn; cbn in *. now subst.
  - intros X. exact (D X).
Qed.

(* non-vacuous: Set a. fails to save, Set b. saves: the file holds both *)
Example failed_saves_heal_example :
  let ka := [97; 46] in let kb := [98; 46] in
  let s0 := init (mk_bl [] [] []) None in
  let s1 := sys_persist_fail 0 (snd (sys_mutate (OpSet ka) [ka] [] s0)) in
  let s2 := sys_persist 0 (snd (sys_mutate (OpSet kb) (bm (snd (apply_op (OpSet kb) (s_mem s1)))) [] s1)) in
  s_local s1 = None /\ s_last s1 = 0 /\ s_version s1 = 1 /\
  s_last s2 = s_version s2 /\ s_local s2 = Some (snap_bytes (mk_snap 2 (bm (s_mem s2)) [])) /\ length (bm (s_mem s2)) = 2%nat.
Proof. cbn. repeat split; reflexivity. Qed.
