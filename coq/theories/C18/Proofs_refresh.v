(* C18 — API calls interleaved with refreshes that DO bring remote lists (refreshRemote
   after downloads, since dba5ede: the freshly downloaded files only).  A refresh adds to
   memory and to nothing else, so the convergence statement takes the form: with no
   persist outstanding, `local` is byte for byte the snapshot of the newest saving call,
   and the memory is that list plus what refreshes have added since (remote entries reach
   `local` with the next saving call). *)
From Coq Require Import Permutation.
From Sdns Require Import Common.Base Gen.C18 C18.Model C18.Spec C18.Proofs_match C18.Proofs_disk C18.Proofs_reload.
Open Scope N_scope.

Inductive gstep : sys -> sys -> Prop :=
| GApi s t : step s t -> gstep s t
| GRefresh dl s : gstep s (sys_refresh dl s).
Inductive gsteps : sys -> sys -> Prop :=
| gsteps_refl s : gsteps s s
| gsteps_next s t u : gsteps s t -> gstep t u -> gsteps s u.

Record ginv (b0 : bl) (l0 : option str) (s : sys) : Prop := mk_ginv {
  g_zero : s_version s = 0 -> grows b0 (s_mem s) /\ s_local s = l0 /\ s_pending s = [] /\ s_last s = 0;
  g_pending : forall sn, In sn (s_pending s) -> 1 <= sn_ver sn <= s_version s;
  g_last : s_last s <= s_version s;
  g_newest : forall sn, In sn (s_pending s) -> sn_ver sn = s_version s ->
     exists b, snap_matches sn b /\ grows b (s_mem s);
  g_disk : 0 < s_version s ->
     (s_last s = s_version s /\ exists sn b, sn_ver sn = s_version s /\ snap_matches sn b /\ grows b (s_mem s) /\
                                             s_local s = Some (snap_bytes sn))
     \/ (s_last s < s_version s /\ exists sn, In sn (s_pending s) /\ sn_ver sn = s_version s) }.

Lemma ginv_init b0 l0 : ginv b0 l0 (init b0 l0).
Proof.
  constructor; cbn; try easy; try (intros; lia).
  all: try (intros _; repeat split; apply incl_refl).
Qed.

Lemma ginv_step b0 l0 s t : ginv b0 l0 s -> gstep s t -> ginv b0 l0 t.
Proof.
  intros I St. destruct St as [s t St|dl s].
  - destruct St as [o ex wi s Hm|i s Hi].
    + unfold sys_mutate. pose proof (apply_op_nosnap o (s_mem s)) as Hno.
      destruct (apply_op o (s_mem s)) as [[ret snapped] b'] eqn:E. cbn in Hno, Hm.
      destruct snapped; cbn [snd].
      * constructor; cbn.
        -- intros H. lia.
        -- intros sn H. apply in_app_iff in H as [H|[<-|[]]]; [apply (g_pending _ _ _ I) in H; lia|cbn; lia].
        -- pose proof (g_last _ _ _ I). lia.
        -- intros sn H Hv. apply in_app_iff in H as [H|[<-|[]]]; [apply (g_pending _ _ _ I) in H; lia|].
           exists b'. split; [exact Hm|apply grows_refl].
        -- intros _. right. split; [pose proof (g_last _ _ _ I); lia|].
           eexists. split; [apply in_app_iff; right; now left|reflexivity].
      * rewrite (Hno eq_refl). destruct I as [I0 I1 I2 I3 I4]. constructor; cbn; assumption.
    + unfold sys_persist. destruct (nth_error (s_pending s) i) as [sn|] eqn:En; [|exact I].
      assert (Hin : In sn (s_pending s)) by (eapply nth_error_In; eauto).
      pose proof (g_pending _ _ _ I sn Hin) as Hv.
      unfold persist_snap. cbn [s_last s_mem s_version s_local s_pending].
      destruct (negb (sn_ver sn =? 0) && (sn_ver sn <=? s_last s)) eqn:G.
      * apply andb_true_iff in G as [_ G]. apply N.leb_le in G.
        constructor; cbn.
        -- intros H. lia.
        -- intros x H. apply In_remove_nth in H. now apply (g_pending _ _ _ I).
        -- apply (g_last _ _ _ I).
        -- intros x H. apply In_remove_nth in H. now apply (g_newest _ _ _ I).
        -- intros Hp. destruct (g_disk _ _ _ I Hp) as [A|[A (x & Hx & Hxv)]]; [now left|].
           right. split; [exact A|]. exists x. split; [|exact Hxv].
           eapply In_remove_nth_other; eauto. intros ->. lia.
      * assert (G' : s_last s < sn_ver sn).
        { apply andb_false_iff in G as [G|G].
          - apply negb_false_iff, N.eqb_eq in G. lia.
          - apply N.leb_gt in G. exact G. }
        constructor; cbn.
        -- intros H. lia.
        -- intros x H. apply In_remove_nth in H. now apply (g_pending _ _ _ I).
        -- lia.
        -- intros x H. apply In_remove_nth in H. now apply (g_newest _ _ _ I).
        -- intros Hp. destruct (N.eq_dec (sn_ver sn) (s_version s)) as [Ev|Ev].
           ++ left. split; [exact Ev|]. destruct (g_newest _ _ _ I sn Hin Ev) as (b & Hb & Hg).
              exists sn, b. split; [exact Ev|split; [exact Hb|split; [exact Hg|reflexivity]]].
           ++ right. split; [lia|]. destruct (g_disk _ _ _ I Hp) as [[A _]|[A (x & Hx & Hxv)]]; [lia|].
              exists x. split; [|exact Hxv]. eapply In_remove_nth_other; eauto. intros ->. congruence.
  - (* refresh: memory grows, nothing else moves *)
    pose proof (parse_files_grows dl (s_mem s)) as Hg.
    destruct I as [I0 I1 I2 I3 I4]. constructor; cbn [sys_refresh s_mem s_version s_last s_local s_pending].
    + intros H. destruct (I0 H) as (A & B & C & D). split; [eapply grows_trans; eauto|split; [exact B|split; [exact C|exact D]]].
    + exact I1.
    + exact I2.
    + intros sn Hs Hv. destruct (I3 sn Hs Hv) as (b & Hb & Hgb). exists b. split; [exact Hb|eapply grows_trans; eauto].
    + intros Hp. destruct (I4 Hp) as [(A & sn & b & Hv & Hb & Hgb & Hl)|B]; [left|now right].
      split; [exact A|]. exists sn, b. split; [exact Hv|split; [exact Hb|split; [eapply grows_trans; eauto|exact Hl]]].
Qed.

Lemma ginv_steps b0 l0 s : gsteps (init b0 l0) s -> ginv b0 l0 s.
Proof.
  intros H. remember (init b0 l0) as s0 eqn:E. induction H as [s|s t u _ IH St]; subst.
  - apply ginv_init.
  - eapply ginv_step; [apply IH; reflexivity|exact St].
Qed.

Lemma refresh_with_downloads_lemma b0 l0 s :
  gsteps (init b0 l0) s -> s_pending s = [] ->
  (s_version s = 0 /\ grows b0 (s_mem s) /\ s_local s = l0) \/
  (s_last s = s_version s /\
   exists ex wi b, Permutation ex (bm b) /\ Permutation wi (bwild b) /\ grows b (s_mem s) /\
                   s_local s = Some (snap_bytes (mk_snap (s_version s) ex wi))).
Proof.
  intros St Hp. apply ginv_steps in St. destruct (N.eq_dec (s_version s) 0) as [E|E].
  - left. destruct (g_zero _ _ _ St E) as (A & B & _). easy.
  - right. assert (Hpos : 0 < s_version s) by lia.
    destruct (g_disk _ _ _ St Hpos) as [[A (sn & b & Hv & [P1 P2] & Hg & Hl)]|[_ (x & Hx & _)]]; [|rewrite Hp in Hx; destruct Hx].
    split; [exact A|]. exists (sn_exact sn), (sn_wild sn), b. split; [exact P1|split; [exact P2|split; [exact Hg|]]].
    rewrite Hl. destruct sn; cbn in *. now subst.
Qed.

(* non-vacuity: Set(a.), a refresh that brings r. from a remote list, Remove(a.) *)
Example refresh_with_downloads_example :
  let a := [97; 46] in let dl := [114; 46; 10] in
  let s1 := snd (sys_call (OpSet a) (init (mk_bl [] [] []) None)) in
  let s2 := sys_refresh [dl] s1 in
  let s3 := snd (sys_call (OpRemove a) s2) in
  s_local s2 = Some (lines_bytes [header; a]) /\ bm (s_mem s2) = [a; [114; 46]] /\
  s_local s3 = Some (lines_bytes [header; [114; 46]]) /\ bm (s_mem s3) = [[114; 46]].
Proof. vm_compute. repeat split; reflexivity. Qed.

Lemma refresh_never_unblocks_lemma dl s q :
  bl_exists (s_mem s) q = true -> bl_exists (s_mem (sys_refresh dl s)) q = true.
Proof. apply grows_blocks. apply parse_files_grows. Qed.
