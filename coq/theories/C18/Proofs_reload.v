(* C18 — reload: parsing the file persist() writes.
   reload_equiv : the reloaded list blocks exactly the names the persisted memory
                  blocks (any order of the lines, redundant entries included); the
                  hypotheses are invariants of the running list since setLocked
                  refuses keys with '#' or white space (commit 329a134);
   reload_exact : the reloaded maps equal the memory's — still refuted for
                  redundant entries (the Exists pre-check of parseHostFile drops
                  them depending on line order), proved for irredundant lists. *)
From Coq Require Import Permutation.
From Sdns Require Import Common.Base Gen.C18 C18.Model C18.Spec C18.Proofs_match.
Open Scope N_scope.

(* ---------------------------------------------------------------- the line parser on clean lines *)

Definition clean_char (c : N) : Prop := is_space c = false /\ c <> 35.
Definition clean_line (l : str) : Prop := l <> [] /\ Forall clean_char l.

Lemma trim_left_clean l : clean_line l -> trim_left l = l.
Proof. intros [Hne H]. destruct H as [|c l [Hc _] _]; [congruence|]. cbn. now rewrite Hc. Qed.

Lemma clean_rev l : clean_line l -> clean_line (rev l).
Proof.
  intros [Hne H]. split.
  - intros E. apply (f_equal (@rev N)) in E. rewrite rev_involutive in E. now cbn in E.
  - apply Forall_rev. exact H.
Qed.

Lemma trim_clean l : clean_line l -> trim l = l.
Proof.
  intros H. unfold trim. rewrite (trim_left_clean l H), (trim_left_clean _ (clean_rev l H)). apply rev_involutive.
Qed.

Lemma cut_clean l : Forall clean_char l -> cut_at 35 l = (l, false).
Proof.
  induction 1 as [|c l [_ Hc] _ IH]; [reflexivity|]. cbn. apply N.eqb_neq in Hc. rewrite Hc, IH. reflexivity.
Qed.

Lemma fields_aux_clean l cur : Forall clean_char l -> (l <> [] \/ cur <> []) -> fields_aux l cur = [rev cur ++ l].
Proof.
  intros H. revert cur. induction H as [|c l [Hc _] _ IH]; intros cur Hne.
  - cbn. destruct cur; [destruct Hne; congruence|]. cbn [is_nil]. now rewrite app_nil_r.
  - cbn. rewrite Hc. rewrite IH by (right; discriminate). cbn. now rewrite <- app_assoc.
Qed.

Lemma fields_clean l : clean_line l -> fields l = [l].
Proof. intros [Hne H]. unfold fields. rewrite fields_aux_clean; [reflexivity|exact H|now left]. Qed.

Lemma no_comment_prefix l : clean_line l -> has_prefix comment_str l = false.
Proof.
  intros [Hne H]. destruct H as [|c l [_ Hc] _]; [congruence|].
  change comment_str with [35]. cbn [has_prefix].
  destruct (35 =? c) eqn:E; [apply N.eqb_eq in E; congruence|reflexivity].
Qed.

(* what one clean line does *)
Definition step_key (l : str) (b : bl) : bl := if bl_exists b l then b else snd (set_locked l b).

Lemma parse_line_clean l b : clean_line l -> canonical l = l -> parse_line l b = step_key l b.
Proof.
  intros Hc Hcan. unfold parse_line. rewrite (trim_clean l Hc).
  assert (is_nil l = false) as -> by (destruct Hc as [Hne _]; destruct l; [congruence|reflexivity]).
  rewrite (no_comment_prefix l Hc). cbn [orb].
  change comment_char with 35. rewrite (cut_clean l (proj2 Hc)). rewrite (fields_clean l Hc).
  cbn [parse_names]. rewrite (no_comment_prefix l Hc), Hcan. reflexivity.
Qed.

Lemma parse_line_header b : parse_line header b = b.
Proof. reflexivity. Qed.

(* bufio.ScanLines gives back the lines persist() wrote *)
Definition line_ok (l : str) : Prop := Forall (fun c => c <> c_nl) l /\ drop_cr l = l.

Lemma split_lines_aux_line l rest cur :
  Forall (fun c => c <> c_nl) l ->
  split_lines_aux (l ++ c_nl :: rest) cur = drop_cr (rev cur ++ l) :: split_lines_aux rest [].
Proof.
  intros H. revert cur. induction H as [|c l Hc _ IH]; intros cur; cbn.
  - now rewrite app_nil_r.
  - apply N.eqb_neq in Hc. rewrite Hc, IH. cbn. now rewrite <- app_assoc.
Qed.

Lemma split_lines_bytes ls : Forall line_ok ls -> split_lines (lines_bytes ls) = ls.
Proof.
  unfold split_lines, lines_bytes. induction 1 as [|l ls [H1 H2] _ IH]; [reflexivity|].
  cbn [flat_map]. rewrite <- app_assoc. cbn [app]. rewrite split_lines_aux_line by exact H1.
  cbn [rev app]. rewrite H2. f_equal. exact IH.
Qed.

Lemma clean_line_ok l : clean_line l -> line_ok l.
Proof.
  intros [Hne H]. split.
  - eapply Forall_impl; [|exact H]. intros c [Hs _] ->. discriminate.
  - unfold drop_cr. destruct (rev l) as [|c r] eqn:E; [reflexivity|].
    assert (Hin : In c l) by (apply in_rev; rewrite E; now left).
    rewrite Forall_forall in H. destruct (H c Hin) as [Hs _].
    destruct (c =? c_cr) eqn:Ec; [|reflexivity]. apply N.eqb_eq in Ec. subst c. discriminate.
Qed.

Lemma header_ok : line_ok header.
Proof. split; [repeat constructor; discriminate|reflexivity]. Qed.

(* ---------------------------------------------------------------- entries and what they cover *)

Inductive entry := EPlain (e : str) | EWild (s : str).
Definition wline (s : str) : str := [42; 46] ++ s.
Definition line_of (en : entry) : str := match en with EPlain e => e | EWild s => wline s end.

Definition covers (en : entry) (c : str) : Prop :=
  match en with
  | EPlain e => c = e \/ In e (cands c)
  | EWild s => In s (cands c)
  end.

Definition no_star (e : str) : Prop := has_prefix [42; 46] e = false.

(* invariants of every reachable memory (reachable_good below), the whitelist being fixed *)
Definition good_entry (w : list str) (en : entry) : Prop :=
  canonical (line_of en) = line_of en /\ hier (line_of en) w = false /\
  persistable (line_of en) = true /\
  match en with EPlain e => no_star e | EWild _ => True end.

Fixpoint plains (l : list entry) : list str :=
  match l with [] => [] | EPlain e :: r => e :: plains r | EWild _ :: r => plains r end.
Fixpoint wilds (l : list entry) : list str :=
  match l with [] => [] | EWild s :: r => s :: wilds r | EPlain _ :: r => wilds r end.
Definition entries_of (ex wi : list str) : list entry := map EPlain ex ++ map EWild wi.

Lemma plains_entries ex wi : plains (entries_of ex wi) = ex.
Proof. unfold entries_of. induction ex; cbn; [induction wi; cbn; auto|congruence]. Qed.
Lemma wilds_entries ex wi : wilds (entries_of ex wi) = wi.
Proof. unfold entries_of. induction ex; cbn; [induction wi; cbn; congruence|auto]. Qed.
Lemma In_plains e l : In e (plains l) <-> In (EPlain e) l.
Proof.
  induction l as [|[x|x] l IH]; cbn; [easy| |].
  - rewrite IH. split; intros [H|H]; auto; [left; congruence|injection H; auto].
  - rewrite IH. split; [auto|]. intros [H|H]; [discriminate|exact H].
Qed.
Lemma In_wilds s l : In s (wilds l) <-> In (EWild s) l.
Proof.
  induction l as [|[x|x] l IH]; cbn; [easy| |].
  - rewrite IH. split; [auto|]. intros [H|H]; [discriminate|exact H].
  - rewrite IH. split; intros [H|H]; auto; [left; congruence|injection H; auto].
Qed.

Lemma blocked_walk_iff b c :
  blocked_walk b c = true <->
  (exists e, In e (bm b) /\ (c = e \/ In e (cands c))) \/ (exists s, In s (bwild b) /\ In s (cands c)).
Proof.
  unfold blocked_walk. rewrite orb_true_iff, mem_In, existsb_exists. split.
  - intros [H|(t & Ht & H)].
    + left. exists c. split; [exact H|now left].
    + apply orb_true_iff in H as [H|H]; apply mem_In in H; [left|right]; exists t; auto.
  - intros [(e & He & [->|H])|(s & Hs & H)].
    + now left.
    + right. exists e. split; [exact H|]. apply orb_true_iff. left. now apply mem_In.
    + right. exists s. split; [exact H|]. apply orb_true_iff. right. now apply mem_In.
Qed.

Lemma blocked_walk_entries l w c :
  blocked_walk (mk_bl (plains l) (wilds l) w) c = true <-> exists en, In en l /\ covers en c.
Proof.
  rewrite blocked_walk_iff. cbn [bm bwild]. split.
  - intros [(e & He & H)|(s & Hs & H)].
    + exists (EPlain e). split; [now apply In_plains|exact H].
    + exists (EWild s). split; [now apply In_wilds|exact H].
  - intros ([e|s] & Hin & H).
    + left. exists e. split; [now apply In_plains|exact H].
    + right. exists s. split; [now apply In_wilds|exact H].
Qed.

(* the walk is transitive: a suffix of a suffix is a suffix *)
Lemma dot_suffixes_trans_len n : forall s c, (length c <= n)%nat ->
  In s (dot_suffixes c) -> incl (dot_suffixes s) (dot_suffixes c).
Proof.
  induction n as [|n IH]; intros s c Hl Hin.
  - destruct c; [destruct Hin|cbn in Hl; lia].
  - destruct c as [|x c]; [destruct Hin|]. cbn [dot_suffixes] in *. cbn in Hl.
    destruct (x =? c_bs).
    + destruct c as [|y c']; [destruct Hin|]. apply IH; [cbn in Hl; lia|exact Hin].
    + destruct (x =? c_dot).
      * destruct Hin as [<-|H]; [apply incl_tl, incl_refl|]. apply incl_tl. apply IH; [lia|exact H].
      * apply IH; [lia|exact Hin].
Qed.
Lemma dot_suffixes_trans s c : In s (dot_suffixes c) -> incl (dot_suffixes s) (dot_suffixes c).
Proof. apply (dot_suffixes_trans_len (length c)). apply le_n. Qed.
Lemma cands_trans s c : In s (cands c) -> incl (cands s) (cands c).
Proof.
  unfold cands. intros H t Ht. apply filter_In in H as [H _]. apply filter_In in Ht as [Ht Hn].
  apply filter_In. split; [|exact Hn]. now apply (dot_suffixes_trans s c).
Qed.
Lemma cands_wline s : cands (wline s) = (if nonempty s then [s] else []) ++ cands s.
Proof. unfold cands, wline. cbn. destruct (nonempty s); reflexivity. Qed.
Lemma cands_nonempty s c : In s (cands c) -> nonempty s = true.
Proof. unfold cands. intros H. now apply filter_In in H. Qed.

(* whatever an entry covers is blocked as soon as the entry's own line is *)
Lemma covered_when_line_blocked b en c :
  (forall e, In e (bm b) -> no_star e) ->
  blocked_walk b (line_of en) = true -> covers en c -> blocked_walk b c = true.
Proof.
  intros Hns Hb Hc. apply blocked_walk_iff in Hb. apply blocked_walk_iff.
  destruct en as [e|s]; cbn [line_of covers] in *.
  - destruct Hc as [->|Hc]; [exact Hb|].
    destruct Hb as [(x & Hx & [->|H])|(x & Hx & H)].
    + left. exists x. auto.
    + left. exists x. split; [exact Hx|right]. now apply (cands_trans e c).
    + right. exists x. split; [exact Hx|]. now apply (cands_trans e c).
  - assert (Hsub : incl (cands (wline s)) (cands c)).
    { rewrite cands_wline. rewrite (cands_nonempty s c Hc). cbn. intros t [<-|Ht]; [exact Hc|]. now apply (cands_trans s c). }
    destruct Hb as [(x & Hx & [E|H])|(x & Hx & H)].
    + exfalso. apply Hns in Hx. subst x. discriminate.
    + left. exists x. split; [exact Hx|right]. now apply Hsub.
    + right. exists x. split; [exact Hx|]. now apply Hsub.
Qed.

Lemma mem_add x k l : mem x (add k l) = mem x l || str_eqb x k.
Proof.
  unfold add. destruct (mem k l) eqn:E.
  - destruct (str_eqb x k) eqn:Ex; [|now rewrite orb_false_r].
    apply str_eqb_eq in Ex. subst. now rewrite E.
  - unfold mem. rewrite existsb_app. cbn. now rewrite orb_false_r.
Qed.
Lemma In_add x k l : In x (add k l) <-> In x l \/ x = k.
Proof. rewrite <- !mem_In, mem_add, orb_true_iff, str_eqb_eq. reflexivity. Qed.

Lemma set_locked_good w en b : good_entry w en -> bw b = w ->
  snd (set_locked (line_of en) b) =
  match en with
  | EPlain e => mk_bl (add e (bm b)) (bwild b) w
  | EWild s => mk_bl (bm b) (add s (bwild b)) w
  end.
Proof.
  intros (Hcan & Hw & Hp & Hs) <-. unfold set_locked. rewrite Hcan, match_hierarchy_alt, Hw, Hp. cbn [negb].
  destruct en as [e|s]; cbn [line_of] in *.
  - change set_wildp with [42; 46]. unfold no_star in Hs. rewrite Hs. reflexivity.
  - reflexivity.
Qed.

(* one line of the file *)
Lemma step_equiv w en b :
  good_entry w en -> bw b = w -> (forall e, In e (bm b) -> no_star e) ->
  let b' := step_key (line_of en) b in
  bw b' = w /\ (forall e, In e (bm b') -> no_star e) /\
  forall c, blocked_walk b' c = true <-> blocked_walk b c = true \/ covers en c.
Proof.
  intros Hg Hw Hns. cbn zeta. unfold step_key.
  destruct (bl_exists b (line_of en)) eqn:E.
  - repeat split; try assumption; [now left|].
    intros [H|H]; [exact H|]. rewrite bl_exists_alt in E. destruct Hg as (Hcan & _ & _ & _). rewrite Hcan in E.
    apply andb_true_iff in E as [_ E]. now apply (covered_when_line_blocked b en c).
  - rewrite (set_locked_good w en b Hg Hw). destruct en as [e|s]; cbn [bw bm].
    + split; [reflexivity|]. split.
      * intros x Hx. apply In_add in Hx as [Hx| ->]; [now apply Hns|]. now destruct Hg as (_ & _ & _ & Hs).
      * intros c. rewrite !blocked_walk_iff. cbn [bm bwild covers]. split.
        -- intros [(x & Hx & H)|H]; [|left; now right]. apply In_add in Hx as [Hx| ->]; [left; left; now exists x|now right].
        -- intros [[(x & Hx & H)|H]|H]; [left; exists x; split; [apply In_add; now left|exact H]|now right|].
           left. exists e. split; [apply In_add; now right|exact H].
    + split; [reflexivity|]. split; [exact Hns|].
      intros c. rewrite !blocked_walk_iff. cbn [bm bwild covers]. split.
      * intros [H|(x & Hx & H)]; [left; now left|]. apply In_add in Hx as [Hx| ->]; [left; right; now exists x|now right].
      * intros [[H|(x & Hx & H)]|H]; [now left|right; exists x; split; [apply In_add; now left|exact H]|].
        right. exists s. split; [apply In_add; now right|exact H].
Qed.

Lemma fold_equiv w ens b :
  Forall (good_entry w) ens -> bw b = w -> (forall e, In e (bm b) -> no_star e) ->
  let b' := fold_left (fun b l => step_key l b) (map line_of ens) b in
  bw b' = w /\
  forall c, blocked_walk b' c = true <-> blocked_walk b c = true \/ exists en, In en ens /\ covers en c.
Proof.
  intros H. revert b. induction H as [|en ens Hg _ IH]; intros b Hw Hns; cbn zeta.
  - split; [exact Hw|]. intros c. split; [now left|]. intros [H|(en & [] & _)]. exact H.
  - cbn [map fold_left]. destruct (step_equiv w en b Hg Hw Hns) as (Hw' & Hns' & Hc).
    destruct (IH _ Hw' Hns') as (Hw'' & Hc''). split; [exact Hw''|].
    intros c. rewrite Hc'', Hc. split.
    + intros [[H|H]|(x & Hx & H)]; [now left|right; exists en; split; [now left|exact H]|right; exists x; split; [now right|exact H]].
    + intros [H|(x & [<-|Hx] & H)]; [left; now left|left; now right|right; now exists x].
Qed.

(* ---------------------------------------------------------------- the file *)

Definition clean_entry (en : entry) : Prop := clean_line (line_of en).

Lemma snap_lines_entries v ex wi :
  snap_lines (mk_snap v ex wi) = header :: map line_of (entries_of ex wi).
Proof.
  unfold snap_lines, entries_of. cbn [sn_exact sn_wild]. f_equal. rewrite map_app, !map_map. cbn [line_of].
  rewrite map_id. reflexivity.
Qed.

Lemma parse_snapshot v ex wi b :
  Forall clean_entry (entries_of ex wi) ->
  Forall (fun en => canonical (line_of en) = line_of en) (entries_of ex wi) ->
  parse_bytes (snap_bytes (mk_snap v ex wi)) b =
  fold_left (fun b l => step_key l b) (map line_of (entries_of ex wi)) b.
Proof.
  intros Hc Hcan. unfold parse_bytes, snap_bytes. rewrite snap_lines_entries.
  rewrite split_lines_bytes.
  - cbn [fold_left]. rewrite parse_line_header. revert b.
    induction (entries_of ex wi) as [|en l IH]; intros b; [reflexivity|].
    cbn [map fold_left]. inversion Hc; inversion Hcan; subst.
    rewrite parse_line_clean by assumption. now apply IH.
  - constructor; [apply header_ok|]. apply Forall_forall. intros l Hl.
    apply in_map_iff in Hl as (en & <- & Hen). apply clean_line_ok. rewrite Forall_forall in Hc. now apply Hc.
Qed.

Lemma good_canonical w l : Forall (good_entry w) l -> Forall (fun en => canonical (line_of en) = line_of en) l.
Proof. intros H. eapply Forall_impl; [|exact H]. now intros en (A & _). Qed.

(* a canonical, persistable line is clean in the parser's sense *)
Lemma canonical_nonempty k : canonical k <> [].
Proof.
  unfold canonical, fqdn. destruct (is_fqdn k) eqn:E.
  - destruct k; [discriminate|discriminate].
  - destruct k; discriminate.
Qed.
Lemma persistable_clean l : l <> [] -> persistable l = true -> clean_line l.
Proof.
  intros Hne H. split; [exact Hne|]. unfold persistable in H. apply andb_true_iff in H as [H _].
  unfold persistable_ascii in H. rewrite forallb_forall in H.
  apply Forall_forall. intros c Hc. specialize (H c Hc). apply andb_true_iff in H as [A B].
  change persist_comment_char with 35 in A. apply negb_true_iff in A, B. apply N.eqb_neq in A. split; assumption.
Qed.
Lemma good_clean w l : Forall (good_entry w) l -> Forall clean_entry l.
Proof.
  intros H. eapply Forall_impl; [|exact H]. intros en (A & _ & P & _). unfold clean_entry.
  apply persistable_clean; [|exact P]. rewrite <- A. apply canonical_nonempty.
Qed.

(* reload_equiv *)
Lemma reload_equiv_lemma w v ex wi :
  Forall (good_entry w) (entries_of ex wi) ->
  forall q, bl_exists (parse_bytes (snap_bytes (mk_snap v ex wi)) (mk_bl [] [] w)) q = bl_exists (mk_bl ex wi w) q.
Proof.
  intros Hg q. pose proof (good_clean w _ Hg) as Hc. rewrite (parse_snapshot v ex wi _ Hc (good_canonical w _ Hg)).
  destruct (fold_equiv w (entries_of ex wi) (mk_bl [] [] w) Hg eq_refl) as (Hw & Hb); [intros e []|].
  cbn zeta in *. rewrite !bl_exists_alt, Hw. cbn [bw]. f_equal.
  set (c := canonical q). apply eq_true_iff_eq. rewrite Hb.
  replace (mk_bl ex wi w) with (mk_bl (plains (entries_of ex wi)) (wilds (entries_of ex wi)) w)
    by now rewrite plains_entries, wilds_entries.
  rewrite blocked_walk_entries. split; [|now right].
  intros [H|H]; [|exact H]. apply blocked_walk_iff in H. cbn in H. destruct H as [(? & [] & _)|(? & [] & _)].
Qed.

(* the restart as loadInitial performs it: whitelist from the configuration, the
   `local` file the only list in the directory *)
Lemma load_initial_local wl file :
  load_initial wl [] [file] = parse_bytes file (mk_bl [] [] (fold_left (fun w e => add (canonical e) w) wl [])).
Proof. reflexivity. Qed.

(* ---------------------------------------------------------------- reload_exact: refuted, and the part that holds *)

(* Full statement: for every memory (ex, wi) the reloaded maps are ex and wi.
   The '#' / white space part is repaired (such keys are refused now); redundant
   entries still make it fail, in a way that depends on the order of the lines. *)
Definition k_hash : str := [97; 35; 98; 46; 116; 101; 115; 116; 46].                 (* a#b.test. *)
Definition k_space : str := [97; 32; 98; 46; 116; 101; 115; 116; 46].                (* a b.test. *)
Definition k_ex : str := [101; 120; 46; 116; 101; 115; 116; 46].                     (* ex.test.  *)
Definition k_sub : str := [115; 117; 98; 46] ++ k_ex.                                (* sub.ex.test. *)
Definition reload (ex wi : list str) : bl := parse_bytes (snap_bytes (mk_snap 1 ex wi)) (mk_bl [] [] []).

Lemma special_keys_refused :
  set_locked k_hash (mk_bl [] [] []) = (false, mk_bl [] [] []) /\
  set_locked k_space (mk_bl [] [] []) = (false, mk_bl [] [] []) /\
  fst (apply_op (OpSetBatch [k_hash; k_ex; k_space]) (mk_bl [] [] [])) = (1, true).
Proof. vm_compute. repeat split; reflexivity. Qed.

Lemma reload_exact_refuted_lemma :
  bm (snd (apply_op (OpSetBatch [k_ex; k_sub]) (mk_bl [] [] []))) = [k_ex; k_sub] /\
  bm (reload [k_ex; k_sub] []) = [k_ex] /\ bm (reload [k_sub; k_ex] []) = [k_sub; k_ex].
Proof. vm_compute. repeat split; reflexivity. Qed.

(* no entry's own line is covered by another entry, no duplicates *)
Definition irredundant (l : list entry) : Prop :=
  NoDup l /\ forall en en', In en l -> In en' l -> en' <> en -> ~ covers en' (line_of en).

Lemma plains_app a b : plains (a ++ b) = plains a ++ plains b.
Proof. induction a as [|[e|s] a IH]; cbn; congruence. Qed.
Lemma wilds_app a b : wilds (a ++ b) = wilds a ++ wilds b.
Proof. induction a as [|[e|s] a IH]; cbn; congruence. Qed.

Lemma fold_exact w ens : forall done,
  Forall (good_entry w) (done ++ ens) -> irredundant (done ++ ens) ->
  fold_left (fun b l => step_key l b) (map line_of ens) (mk_bl (plains done) (wilds done) w)
  = mk_bl (plains (done ++ ens)) (wilds (done ++ ens)) w.
Proof.
  induction ens as [|en ens IH]; intros done Hg Hi; [now rewrite app_nil_r|].
  cbn [map fold_left].
  assert (Hgen : good_entry w en) by (rewrite Forall_forall in Hg; apply Hg, in_app_iff; right; now left).
  assert (Hnd : ~ In en done).
  { destruct Hi as [Hnd _]. apply NoDup_remove_2 in Hnd. intros H. apply Hnd, in_app_iff. now left. }
  assert (Hstep : step_key (line_of en) (mk_bl (plains done) (wilds done) w)
                  = mk_bl (plains (done ++ [en])) (wilds (done ++ [en])) w).
  { unfold step_key.
    assert (E : bl_exists (mk_bl (plains done) (wilds done) w) (line_of en) = false).
    { rewrite bl_exists_alt. destruct Hgen as (Hcan & Hw & _). rewrite Hcan. cbn [bw]. rewrite Hw. cbn [negb andb].
      apply not_true_iff_false. intros H. apply blocked_walk_entries in H as (en' & Hin & Hc).
      destruct Hi as [_ Hi]. apply (Hi en en'); try (apply in_app_iff; auto; right; now left); [|exact Hc].
      intros ->. contradiction. }
    rewrite E, (set_locked_good w en (mk_bl (plains done) (wilds done) w) Hgen eq_refl). cbn [bm bwild].
    rewrite plains_app, wilds_app. destruct en as [e|s]; cbn [plains wilds]; rewrite ?app_nil_r.
    - unfold add. destruct (mem e (plains done)) eqn:M; [|reflexivity].
      apply mem_In, In_plains in M. contradiction.
    - unfold add. destruct (mem s (wilds done)) eqn:M; [|reflexivity].
      apply mem_In, In_wilds in M. contradiction. }
  rewrite Hstep. replace (done ++ en :: ens) with ((done ++ [en]) ++ ens) in * by now rewrite <- app_assoc.
  now apply IH.
Qed.

Lemma reload_exact_partial_lemma w v ex wi :
  Forall (good_entry w) (entries_of ex wi) ->
  irredundant (entries_of ex wi) ->
  parse_bytes (snap_bytes (mk_snap v ex wi)) (mk_bl [] [] w) = mk_bl ex wi w.
Proof.
  intros Hg Hi. pose proof (good_clean w _ Hg) as Hc. rewrite (parse_snapshot v ex wi _ Hc (good_canonical w _ Hg)).
  pose proof (fold_exact w (entries_of ex wi) [] Hg Hi) as H. cbn [app plains wilds] in H. rewrite H.
  now rewrite plains_entries, wilds_entries.
Qed.

(* ---------------------------------------------------------------- the hypotheses are invariants of the running list *)

(* keys that do not end in a backslash (a trailing lone escape makes dns.Fqdn's
   output non-idempotent: "x\" -> "x\." -> "x\..") *)
Definition sane (k : str) : Prop := match rev k with c :: _ => c <> c_bs | [] => True end.

Lemma lower_eq_dot c : lower c = c_dot <-> c = c_dot.
Proof.
  unfold lower, c_dot. destruct ((65 <=? c) && (c <=? 90)) eqn:E; [|easy].
  apply andb_true_iff in E as [E1 E2]. apply N.leb_le in E1, E2. lia.
Qed.
Lemma lower_eq_bs c : lower c = c_bs <-> c = c_bs.
Proof.
  unfold lower, c_bs. destruct ((65 <=? c) && (c <=? 90)) eqn:E; [|easy].
  apply andb_true_iff in E as [E1 E2]. apply N.leb_le in E1, E2. lia.
Qed.
Lemma lower_idem c : lower (lower c) = lower c.
Proof.
  unfold lower. destruct ((65 <=? c) && (c <=? 90)) eqn:E; [|now rewrite E].
  apply andb_true_iff in E as [E1 E2]. apply N.leb_le in E1, E2.
  destruct ((65 <=? c + 32) && (c + 32 <=? 90)) eqn:E'; [|reflexivity].
  apply andb_true_iff in E' as [E3 E4]. apply N.leb_le in E3, E4. lia.
Qed.
Lemma count_bs_lower r : count_bs (map lower r) = count_bs r.
Proof.
  induction r as [|c r IH]; [reflexivity|]. cbn.
  destruct (c =? c_bs) eqn:E.
  - apply N.eqb_eq in E. subst. cbn. now rewrite IH.
  - destruct (lower c =? c_bs) eqn:E'; [|reflexivity]. apply N.eqb_eq in E'. apply (proj1 (lower_eq_bs c)) in E'. apply N.eqb_neq in E. congruence.
Qed.
Lemma is_fqdn_lower s : is_fqdn (map lower s) = is_fqdn s.
Proof.
  unfold is_fqdn. rewrite <- map_rev. destruct (rev s) as [|c r]; [reflexivity|]. cbn [map].
  rewrite count_bs_lower. f_equal. destruct (c =? c_dot) eqn:E.
  - apply N.eqb_eq in E. subst. reflexivity.
  - destruct (lower c =? c_dot) eqn:E'; [|reflexivity]. apply N.eqb_eq in E'. apply (proj1 (lower_eq_dot c)) in E'. apply N.eqb_neq in E. congruence.
Qed.
Lemma is_fqdn_fqdn k : sane k -> is_fqdn (fqdn k) = true.
Proof.
  intros Hs. unfold fqdn. destruct (is_fqdn k) eqn:E; [exact E|].
  unfold is_fqdn. rewrite rev_app_distr. cbn. unfold sane in Hs.
  destruct (rev k) as [|c r]; [reflexivity|]. cbn. apply N.eqb_neq in Hs. now rewrite Hs.
Qed.
Lemma canonical_idem k : sane k -> canonical (canonical k) = canonical k.
Proof.
  intros Hs. unfold canonical at 1. unfold fqdn.
  assert (is_fqdn (canonical k) = true) as -> by (unfold canonical; rewrite is_fqdn_lower; now apply is_fqdn_fqdn).
  unfold canonical. rewrite map_map. apply map_ext. apply lower_idem.
Qed.

(* the memory invariant: what good_entry asks, for every key of both maps *)
Definition mem_good (b : bl) : Prop :=
  Forall (good_entry (bw b)) (entries_of (bm b) (bwild b)).

Lemma good_entries_iff w m wl :
  Forall (good_entry w) (entries_of m wl) <->
  (forall e, In e m -> good_entry w (EPlain e)) /\ (forall s, In s wl -> good_entry w (EWild s)).
Proof.
  unfold entries_of. rewrite Forall_app, !Forall_forall. split.
  - intros [A B]. split; intros x Hx; [apply A|apply B]; now apply in_map.
  - intros [A B]. split; intros x Hx; apply in_map_iff in Hx as (y & <- & Hy); auto.
Qed.

Lemma skipn2_wline key : has_prefix [42; 46] key = true -> wline (skipn 2 key) = key.
Proof.
  destruct key as [|a [|b r]]; cbn [has_prefix]; intros H.
  - discriminate.
  - apply andb_true_iff in H as [_ H]. discriminate.
  - apply andb_true_iff in H as [H1 H2]. apply andb_true_iff in H2 as [H2 _].
    apply N.eqb_eq in H1, H2. subst. reflexivity.
Qed.

Lemma set_locked_keeps_good k b : sane k -> mem_good b -> mem_good (snd (set_locked k b)).
Proof.
  intros Hs Hg. unfold set_locked. destruct (match_hierarchy (canonical k) (bw b)) eqn:Ew; [exact Hg|].
  destruct (persistable (canonical k)) eqn:Ep'; [|exact Hg]. cbn [negb].
  rewrite match_hierarchy_alt in Ew. unfold mem_good in *. change set_wildp with [42; 46]. change (N.to_nat set_wild_skip) with 2%nat.
  apply good_entries_iff in Hg as [A B].
  destruct (has_prefix [42; 46] (canonical k)) eqn:Ep; cbn [snd bm bwild bw]; apply good_entries_iff; split; try assumption.
  - intros s Hs'. apply In_add in Hs' as [Hs'| ->]; [now apply B|].
    unfold good_entry. cbn [line_of]. rewrite (skipn2_wline _ Ep). repeat split; [now apply canonical_idem|exact Ew|exact Ep'].
  - intros e He. apply In_add in He as [He| ->]; [now apply A|].
    unfold good_entry. cbn [line_of]. repeat split; [now apply canonical_idem|exact Ew|exact Ep'|exact Ep].
Qed.

Lemma In_del x k l : In x (del k l) -> In x l.
Proof. unfold del. intros H. now apply filter_In in H. Qed.

Lemma remove_locked_keeps_good k b : mem_good b -> mem_good (snd (remove_locked k b)).
Proof.
  intros Hg. unfold remove_locked, mem_good in *. apply good_entries_iff in Hg as [A B].
  destruct (mem (canonical k) (bm b)); cbn [snd bm bwild bw].
  - apply good_entries_iff. split; [|exact B]. intros e He. apply A. eapply In_del; eauto.
  - destruct (has_prefix remove_wildp (canonical k)); [|now apply good_entries_iff].
    destruct (mem _ (bwild b)); cbn [snd bm bwild bw]; apply good_entries_iff; split; try assumption.
    intros s Hs. apply B. eapply In_del; eauto.
Qed.

Lemma batch_keeps (P : bl -> Prop) (Q : str -> Prop) f :
  (forall k b, Q k -> P b -> P (snd (f k b))) ->
  forall keys b n, Forall Q keys -> P b -> P (snd (batch f keys b n)).
Proof.
  intros Hf. induction keys as [|k keys IH]; intros b n HQ Hb; [exact Hb|].
  cbn. inversion HQ; subst. specialize (Hf k b). destruct (f k b) as [ok b']. cbn in Hf. apply IH; auto.
Qed.

Definition op_keys (o : op) : list str :=
  match o with OpSet k | OpRemove k => [k] | OpSetBatch ks | OpRemoveBatch ks => ks end.

Lemma apply_op_keeps_good o b : Forall sane (op_keys o) -> mem_good b -> mem_good (snd (apply_op o b)).
Proof.
  intros Hs Hg. destruct o as [k|k|ks|ks]; cbn in *.
  - inversion Hs; subst. pose proof (set_locked_keeps_good k b H1 Hg). destruct (set_locked k b). exact H.
  - pose proof (remove_locked_keeps_good k b Hg). destruct (remove_locked k b). exact H.
  - destruct (is_nil ks); [exact Hg|].
    pose proof (batch_keeps mem_good sane set_locked set_locked_keeps_good ks b 0 Hs Hg) as H.
    destruct (batch set_locked ks b 0) as [n b']. cbn in H. now destruct (n =? 0).
  - destruct (is_nil ks); [exact Hg|].
    pose proof (batch_keeps mem_good (fun _ => True) remove_locked (fun k b _ => remove_locked_keeps_good k b) ks b 0) as H.
    destruct (batch remove_locked ks b 0) as [n b']. cbn in H.
    assert (mem_good b') by (apply H; [apply Forall_forall; easy|exact Hg]). now destruct (n =? 0).
Qed.

Lemma apply_op_keeps_w o b : bw (snd (apply_op o b)) = bw b.
Proof.
  assert (Hs : forall k b, bw (snd (set_locked k b)) = bw b).
  { intros k b0. unfold set_locked. destruct (match_hierarchy _ _); [reflexivity|].
    destruct (negb _); [reflexivity|]. now destruct (has_prefix _ _). }
  assert (Hr : forall k b, bw (snd (remove_locked k b)) = bw b).
  { intros k b0. unfold remove_locked. destruct (mem _ (bm b0)); [reflexivity|].
    destruct (has_prefix _ _); [|reflexivity]. now destruct (mem _ (bwild b0)). }
  assert (Hb : forall f, (forall k b, bw (snd (f k b)) = bw b) -> forall ks b n, bw (snd (batch f ks b n)) = bw b).
  { intros f Hf. induction ks as [|k ks IH]; intros b0 n; [reflexivity|]. cbn. specialize (Hf k b0).
    destruct (f k b0) as [ok b']. cbn in Hf. now rewrite IH. }
  destruct o as [k|k|ks|ks]; cbn.
  - specialize (Hs k b). now destruct (set_locked k b).
  - specialize (Hr k b). now destruct (remove_locked k b).
  - destruct (is_nil ks); [reflexivity|]. specialize (Hb set_locked Hs ks b 0).
    destruct (batch set_locked ks b 0) as [n b']. now destruct (n =? 0).
  - destruct (is_nil ks); [reflexivity|]. specialize (Hb remove_locked Hr ks b 0).
    destruct (batch remove_locked ks b 0) as [n b']. now destruct (n =? 0).
Qed.

(* ---------------------------------------------------------------- the background re-read (refreshRemote) *)

(* when nothing is in flight — the file is a listing of the memory — parsing it again
   into the live list changes nothing *)
Lemma step_key_present w en b : good_entry w en -> bw b = w ->
  match en with EPlain e => In e (bm b) | EWild s => In s (bwild b) end ->
  step_key (line_of en) b = b.
Proof.
  intros Hg Hw Hin. unfold step_key. destruct (bl_exists b (line_of en)); [reflexivity|].
  rewrite (set_locked_good w en b Hg Hw). destruct b as [m wl w']. cbn in *. subst w'.
  destruct en as [e|s]; unfold add; apply mem_In in Hin; now rewrite Hin.
Qed.

Lemma refresh_idle_lemma w v ex wi b :
  bw b = w -> Permutation ex (bm b) -> Permutation wi (bwild b) ->
  Forall (good_entry w) (entries_of ex wi) ->
  parse_bytes (snap_bytes (mk_snap v ex wi)) b = b.
Proof.
  intros Hw P1 P2 Hg. rewrite (parse_snapshot v ex wi b (good_clean w _ Hg) (good_canonical w _ Hg)).
  assert (Hall : forall en, In en (entries_of ex wi) ->
                 match en with EPlain e => In e (bm b) | EWild s => In s (bwild b) end).
  { intros en Hen. unfold entries_of in Hen. apply in_app_iff in Hen as [H|H]; apply in_map_iff in H as (x & <- & Hx).
    - eapply Permutation_in; eauto.
    - eapply Permutation_in; eauto. }
  induction (entries_of ex wi) as [|en l IH]; [reflexivity|]. cbn [map fold_left].
  inversion Hg; subst. rewrite (step_key_present (bw b) en b); auto; [|apply Hall; now left].
  apply IH; [assumption|]. intros x Hx. apply Hall. now right.
Qed.

(* ---------------------------------------------------------------- the loader keeps the invariant *)

Lemma sane_canonical k : sane (canonical k).
Proof.
  unfold sane, canonical. rewrite <- map_rev. unfold fqdn. destruct (is_fqdn k) eqn:E.
  - unfold is_fqdn in E. destruct (rev k) as [|c r]; [discriminate|]. apply andb_true_iff in E as [E _].
    apply N.eqb_eq in E. subst. cbn. discriminate.
  - rewrite rev_app_distr. cbn. discriminate.
Qed.

Lemma parse_names_keeps_good names b : mem_good b -> mem_good (parse_names names b).
Proof.
  revert b; induction names as [|n r IH]; intros b Hg; [exact Hg|]. cbn [parse_names].
  destruct (has_prefix comment_str n); [exact Hg|]. apply IH.
  destruct (bl_exists b (canonical n)); [exact Hg|]. apply set_locked_keeps_good; [apply sane_canonical|exact Hg].
Qed.

Lemma parse_line_keeps_good l b : mem_good b -> mem_good (parse_line l b).
Proof.
  intros Hg. unfold parse_line. destruct (is_nil (trim l) || has_prefix comment_str (trim l)); [exact Hg|].
  destruct (cut_at comment_char (trim l)) as [dom found].
  destruct (fields (if found then trim dom else trim l)) as [|f [|g r]]; [exact Hg| |]; now apply parse_names_keeps_good.
Qed.

Lemma parse_bytes_keeps_good f b : mem_good b -> mem_good (parse_bytes f b).
Proof.
  unfold parse_bytes. revert b. induction (split_lines f) as [|l ls IH]; intros b Hg; [exact Hg|].
  cbn [fold_left]. apply IH. now apply parse_line_keeps_good.
Qed.

(* loadInitial: whatever the files contain, the memory it builds satisfies the invariant
   (configured entries must not end in a lone backslash) *)
Lemma load_initial_good wl bl files : Forall sane bl -> mem_good (load_initial wl bl files).
Proof.
  intros Hs. unfold load_initial.
  assert (Hset : forall l b, Forall sane l -> mem_good b -> mem_good (fold_left (fun b e => snd (set_locked e b)) l b)).
  { induction l as [|e l IH]; intros b Hl Hb; [exact Hb|]. inversion Hl; subst. cbn [fold_left].
    apply IH; [assumption|]. now apply set_locked_keeps_good. }
  assert (Hfiles : forall fs b, mem_good b -> mem_good (fold_left (fun b f => parse_bytes f b) fs b)).
  { induction fs as [|f fs IH]; intros b Hb; [exact Hb|]. cbn [fold_left]. apply IH. now apply parse_bytes_keeps_good. }
  apply Hfiles, Hset; [exact Hs|constructor].
Qed.

Lemma load_initial_w wl bl files : bw (load_initial wl bl files) = fold_left (fun w e => add (canonical e) w) wl [].
Proof.
  assert (Hs : forall k b, bw (snd (set_locked k b)) = bw b).
  { intros k b0. unfold set_locked. destruct (match_hierarchy _ _); [reflexivity|].
    destruct (negb _); [reflexivity|]. now destruct (has_prefix _ _). }
  assert (Hn : forall names b, bw (parse_names names b) = bw b).
  { induction names as [|n r IH]; intros b; [reflexivity|]. cbn [parse_names]. destruct (has_prefix comment_str n); [reflexivity|].
    rewrite IH. destruct (bl_exists b (canonical n)); [reflexivity|apply Hs]. }
  assert (Hl : forall l b, bw (parse_line l b) = bw b).
  { intros l b. unfold parse_line. destruct (_ || _); [reflexivity|]. destruct (cut_at _ _) as [dom found].
    destruct (fields _) as [|f [|g r]]; [reflexivity| |]; apply Hn. }
  assert (Hb : forall f b, bw (parse_bytes f b) = bw b).
  { intros f b. unfold parse_bytes. revert b. induction (split_lines f) as [|l ls IH]; intros b; [reflexivity|].
    cbn [fold_left]. now rewrite IH, Hl. }
  unfold load_initial. set (w := fold_left _ wl []).
  assert (H1 : forall bl b, bw (fold_left (fun b e => snd (set_locked e b)) bl b) = bw b).
  { intros l. induction l as [|e r IH]; intros b; [reflexivity|]. cbn [fold_left]. now rewrite IH, Hs. }
  assert (H2 : forall fs b, bw (fold_left (fun b f => parse_bytes f b) fs b) = bw b).
  { induction fs as [|f r IH]; intros b; [reflexivity|]. cbn [fold_left]. now rewrite IH, Hb. }
  now rewrite H2, H1.
Qed.

(* the lone-backslash hypothesis is needed: "x\" is stored as "x\." (dns.Fqdn appends a
   dot that IsFqdn then takes for escaped), written as such, and read back as "x\..":
   the reloaded list no longer answers Exists("x\").  "x\" is not a domain name
   (dangling escape), which is why this is an assumption and not a finding. *)
Lemma sane_needed_example :
  let k := [120; 92] in
  ~ sane k /\
  bm (snd (set_locked k (mk_bl [] [] []))) = [[120; 92; 46]] /\
  bm (reload [[120; 92; 46]] []) = [[120; 92; 46; 46]] /\
  bl_exists (mk_bl [[120; 92; 46]] [] []) k = true /\
  bl_exists (reload [[120; 92; 46]] []) k = false.
Proof. vm_compute. repeat split; try reflexivity. intros H. now apply H. Qed.

(* ---------------------------------------------------------------- parsing only ever adds *)

Definition grows (b b' : bl) : Prop := incl (bm b) (bm b') /\ incl (bwild b) (bwild b') /\ bw b = bw b'.
Lemma grows_refl b : grows b b.
Proof. repeat split; apply incl_refl. Qed.
Lemma grows_trans a b c : grows a b -> grows b c -> grows a c.
Proof. intros (A1 & A2 & A3) (B1 & B2 & B3). repeat split; [eapply incl_tran; eauto|eapply incl_tran; eauto|congruence]. Qed.

Lemma incl_add k l : incl l (add k l).
Proof. intros x Hx. apply In_add. now left. Qed.

Lemma set_locked_grows k b : grows b (snd (set_locked k b)).
Proof.
  unfold set_locked. destruct (match_hierarchy _ _); [apply grows_refl|].
  destruct (negb _); [apply grows_refl|]. destruct (has_prefix _ _); cbn [snd]; repeat split; cbn;
    try apply incl_refl; apply incl_add.
Qed.
Lemma parse_names_grows names b : grows b (parse_names names b).
Proof.
  revert b; induction names as [|n r IH]; intros b; [apply grows_refl|]. cbn [parse_names].
  destruct (has_prefix comment_str n); [apply grows_refl|]. eapply grows_trans; [|apply IH].
  destruct (bl_exists b (canonical n)); [apply grows_refl|apply set_locked_grows].
Qed.
Lemma parse_line_grows l b : grows b (parse_line l b).
Proof.
  unfold parse_line. destruct (_ || _); [apply grows_refl|]. destruct (cut_at _ _) as [dom found].
  destruct (fields _) as [|f [|g r]]; [apply grows_refl| |]; apply parse_names_grows.
Qed.
Lemma parse_bytes_grows f b : grows b (parse_bytes f b).
Proof.
  unfold parse_bytes. revert b. induction (split_lines f) as [|l ls IH]; intros b; [apply grows_refl|].
  cbn [fold_left]. eapply grows_trans; [apply parse_line_grows|apply IH].
Qed.
Lemma parse_files_grows fs b : grows b (fold_left (fun b f => parse_bytes f b) fs b).
Proof.
  revert b; induction fs as [|f fs IH]; intros b; [apply grows_refl|]. cbn [fold_left].
  eapply grows_trans; [apply parse_bytes_grows|apply IH].
Qed.

(* what a list blocks, a bigger list with the same whitelist blocks *)
Lemma grows_blocks b b' q : grows b b' -> bl_exists b q = true -> bl_exists b' q = true.
Proof.
  intros (H1 & H2 & H3). rewrite !bl_exists_alt, <- H3. intros H. apply andb_true_iff in H as [Hw Hb].
  rewrite Hw. cbn [andb]. apply blocked_walk_iff in Hb. apply blocked_walk_iff.
  destruct Hb as [(e & He & H)|(s & Hs & H)]; [left; exists e|right; exists s]; auto.
Qed.
