(* C18 — matchHierarchy and BlockList.Exists are TRANSLATED from the Go source (srcgen, maps as
   association lists, "map_fields"): Gen.C18.go_matchHierarchy / go_BlockList_Exists.  Here: on
   maps that hold the value true for every key (all the code ever stores) they are Model's
   match_hierarchy / bl_exists, for every name and every fuel above its length.  A behaviour-
   changing edit of either function, of nextDot, or of the order of the tests in Exists now
   breaks a proof; a behaviour-preserving rewrite does not. *)
From Sdns Require Import Common.Base Common.GoList Gen.C18 C18.Model C18.Spec C18.Proofs_match C18.Proofs_walk.
Open Scope N_scope.

(* a Go map[string]bool whose keys are the list l, every value true *)
Definition amap (l : list str) : list (str * bool) := map (fun k => (k, true)) l.

Lemma go_list_eqb_str : forall a b : str, go_list_eqb N.eqb a b = str_eqb a b.
Proof. induction a as [|x a IH]; destruct b as [|y b]; cbn; try reflexivity. now rewrite IH. Qed.
Lemma str_eqb_sym : forall a b : str, str_eqb a b = str_eqb b a.
Proof. induction a as [|x a IH]; destruct b as [|y b]; cbn; try reflexivity. now rewrite IH, N.eqb_sym. Qed.

Lemma map_get_amap l k : go_map_get (go_list_eqb N.eqb) false (amap l) k = mem k l.
Proof.
  unfold go_map_get, mem, amap. induction l as [|x l IH]; [reflexivity|]. cbn [map find existsb fst].
  rewrite go_list_eqb_str, (str_eqb_sym x k). destruct (str_eqb k x); [reflexivity|exact IH].
Qed.
Lemma len_amap_zero l : (Z.of_nat (length (amap l)) =? 0)%Z = is_nil l.
Proof. unfold amap. rewrite map_length. now destruct l. Qed.

Lemma nonempty_skipn (s : str) o : nonempty (skipn o s) = (o <? length s)%nat.
Proof.
  unfold nonempty. destruct (skipn o s) eqn:E; cbn.
  - symmetry. apply Nat.ltb_ge. apply (f_equal (@length N)) in E. rewrite skipn_length in E. cbn in E. lia.
  - symmetry. apply Nat.ltb_lt. apply (f_equal (@length N)) in E. rewrite skipn_length in E. cbn in E. lia.
Qed.

Lemma skipn_skipn {A} : forall x y (l : list A), skipn x (skipn y l) = skipn (x + y) l.
Proof.
  intros x y. revert x. induction y as [|y IH]; intros x l.
  - now rewrite Nat.add_0_r.
  - rewrite Nat.add_succ_r. destruct l; [now rewrite !skipn_nil|]. cbn [skipn]. apply IH.
Qed.

(* one turn of either walk: where the next candidate suffix starts *)
Lemma walk_step (name : str) o : (o <= length name)%nat ->
  let s := skipn o name in
  (next_dot s = (-1)%Z /\ cands s = []) \/
  (exists o', (o < o')%nat /\ (o' <= length name)%nat /\ (Z.of_nat o + (next_dot s + 1))%Z = Z.of_nat o' /\
     next_dot s <> (-1)%Z /\
     cands s = (if (o' <? length name)%nat then [skipn o' name] else []) ++ cands (skipn o' name)).
Proof.
  intros Ho s. destruct (walk_follows_next_dot_lemma s) as [[E D]|[[R1 R2] D]].
  - left. split; [exact E|]. unfold cands. now rewrite D.
  - right. exists (o + Z.to_nat (next_dot s + 1))%nat.
    assert (L : length s = (length name - o)%nat) by (unfold s; apply skipn_length).
    split; [lia|]. split; [lia|]. split; [lia|]. split; [lia|].
    unfold cands. rewrite D. cbn [filter]. unfold s at 1 2. rewrite skipn_skipn.
    replace (Z.to_nat (next_dot s + 1) + o)%nat with (o + Z.to_nat (next_dot s + 1))%nat by lia.
    rewrite nonempty_skipn. unfold s. rewrite skipn_skipn.
    replace (Z.to_nat (next_dot (skipn o name) + 1) + o)%nat with (o + Z.to_nat (next_dot (skipn o name) + 1))%nat by lia.
    now destruct (_ <? _)%nat.
Qed.

(* ---------------------------------------------------------------- matchHierarchy *)
Lemma mh_loop l (name : str) fuel : (length name < fuel)%nat ->
  forall lf o, (o <= length name)%nat -> (length name - o < lf)%nat ->
  fst (go_matchHierarchy_loop1 fuel lf name (amap l) (Z.of_nat o)) =
  GoRet (existsb (fun c => mem c l) (cands (skipn o name))).
Proof.
  intros Hf. induction lf as [|lf IH]; intros o Ho Hl; [lia|].
  cbn [go_matchHierarchy_loop1]. unfold go_slice_from at 1. rewrite Nat2Z.id.
  rewrite gen_nextDot by (rewrite skipn_length; lia).
  destruct (walk_step name o Ho) as [[E C]|(o' & A & B & Eo & Ne & C)]; cbv zeta in *.
  - rewrite E, C. reflexivity.
  - apply Z.eqb_neq in Ne. rewrite Ne, Eo. unfold go_slice_from, go_len. rewrite Nat2Z.id, map_get_amap, C.
    destruct (o' <? length name)%nat eqn:Lt.
    + apply Nat.ltb_lt in Lt. replace (Z.of_nat o' <? Z.of_nat (length name))%Z with true by (symmetry; apply Z.ltb_lt; lia).
      cbn [andb app existsb]. destruct (mem (skipn o' name) l); [reflexivity|]. cbn [orb]. apply IH; lia.
    + apply Nat.ltb_ge in Lt. replace (Z.of_nat o' <? Z.of_nat (length name))%Z with false by (symmetry; apply Z.ltb_ge; lia).
      cbn [andb app]. apply IH; lia.
Qed.

Lemma gen_matchHierarchy (name : str) (l : list str) fuel : (length name < fuel)%nat ->
  go_matchHierarchy fuel name (amap l) = Some (match_hierarchy name l).
Proof.
  intros Hf. unfold go_matchHierarchy, match_hierarchy. rewrite len_amap_zero, map_get_amap.
  destruct (is_nil l); [reflexivity|]. destruct (mem name l); [reflexivity|].
  pose proof (mh_loop l name fuel Hf fuel 0%nat ltac:(lia) ltac:(lia)) as L. cbn [Z.of_nat skipn] in L.
  destruct (go_matchHierarchy_loop1 fuel fuel name (amap l) 0) as [c st]. cbn [fst] in L. now subst c.
Qed.

(* ---------------------------------------------------------------- Exists *)
Section ExistsWalk.
  Variable B : T_BlockList.
  Variables m wi w : list str.
  Hypothesis Bm : T_BlockList_m B = amap m.
  Hypothesis Bwild : T_BlockList_wild B = amap wi.
  Hypothesis Bw : T_BlockList_w B = amap w.

  Lemma ex_loop (key : str) fuel : (length key < fuel)%nat ->
    forall lf o, (o <= length key)%nat -> (length key - o < lf)%nat ->
    fst (go_BlockList_Exists_loop1 fuel lf B key (Z.of_nat o)) =
    if existsb (fun s => mem s m || mem s wi) (cands (skipn o key)) then GoRet true else GoNext.
  Proof.
    intros Hf. induction lf as [|lf IH]; intros o Ho Hl; [lia|].
    cbn [go_BlockList_Exists_loop1]. unfold go_slice_from at 1. rewrite Nat2Z.id.
    rewrite gen_nextDot by (rewrite skipn_length; lia).
    destruct (walk_step key o Ho) as [[E C]|(o' & A & Bd & Eo & Ne & C)]; cbv zeta in *.
    - rewrite E, C. reflexivity.
    - apply Z.eqb_neq in Ne. rewrite Ne, Eo. unfold go_slice_from, go_len. rewrite Nat2Z.id, Bm, Bwild, !map_get_amap, C.
      destruct (o' <? length key)%nat eqn:Lt.
      + apply Nat.ltb_lt in Lt. replace (Z.of_nat o' <? Z.of_nat (length key))%Z with true by (symmetry; apply Z.ltb_lt; lia).
        cbn [app existsb]. destruct (mem (skipn o' key) m || mem (skipn o' key) wi); [reflexivity|]. cbn [orb]. apply IH; lia.
      + apply Nat.ltb_ge in Lt. replace (Z.of_nat o' <? Z.of_nat (length key))%Z with false by (symmetry; apply Z.ltb_ge; lia).
        cbn [app]. apply IH; lia.
  Qed.

  Lemma gen_Exists_section (key0 : str) fuel : (length (canonical key0) < fuel)%nat ->
    go_BlockList_Exists fuel B key0 = Some (bl_exists (mk_bl m wi w) key0).
  Proof.
    intros Hf. unfold go_BlockList_Exists, bl_exists. rewrite gen_canonical. cbn [bm bwild bw].
    rewrite Bw, gen_matchHierarchy by exact Hf.
    destruct (match_hierarchy (canonical key0) w); [reflexivity|].
    rewrite Bm, Bwild, map_get_amap, !len_amap_zero.
    destruct (mem (canonical key0) m); [reflexivity|].
    destruct (is_nil m && is_nil wi); [reflexivity|].
    pose proof (ex_loop (canonical key0) fuel Hf fuel 0%nat ltac:(lia) ltac:(lia)) as L. cbn [Z.of_nat skipn] in L.
    destruct (go_BlockList_Exists_loop1 fuel fuel B (canonical key0) 0) as [c st]. cbn [fst] in L. subst c.
    destruct (existsb _ _); [reflexivity|]. now destruct st as [[? ?] ?].
  Qed.
End ExistsWalk.

Lemma gen_BlockList_Exists (B : T_BlockList) (m wi w key0 : _) fuel :
  T_BlockList_m B = amap m -> T_BlockList_wild B = amap wi -> T_BlockList_w B = amap w ->
  (length (canonical key0) < fuel)%nat ->
  go_BlockList_Exists fuel B key0 = Some (bl_exists (mk_bl m wi w) key0).
Proof. intros. now apply gen_Exists_section. Qed.

(* exists_spec for the TRANSLATED function: whatever the other fields of the BlockList hold, on
   maps keyed by the decoder's spelling of the entries the Go function Exists — as srcgen reads
   it from the source — answers true exactly when the specification blocks the name *)
Lemma translated_exists_spec_lemma (B : T_BlockList) (M W Wl : list name) (q : name) fuel :
  Forall wireP M -> Forall wireP W -> Forall wireP Wl -> wireP q ->
  T_BlockList_m B = amap (map present M) -> T_BlockList_wild B = amap (map present_suffix W) ->
  T_BlockList_w B = amap (map present Wl) ->
  (length (canonical (present q)) < fuel)%nat ->
  (go_BlockList_Exists fuel B (present q) = Some true <-> blocked_spec M W Wl (fold_name q)).
Proof.
  intros HM HW HWl Hq Em Ew El Hf.
  rewrite (gen_BlockList_Exists B _ _ _ (present q) fuel Em Ew El Hf).
  change (mk_bl (map present M) (map present_suffix W) (map present Wl)) with (state_of M W Wl).
  rewrite <- (exists_spec_lemma M W Wl q HM HW HWl Hq). split; [now intros [= ->]|now intros ->].
Qed.

(* non-vacuity: the translated function, run *)
Example translated_exists_example :
  let B := mk_T_BlockList 0 0 [] [] (amap [[101;120;97;109;112;108;101;46;99;111;109;46]]) (amap [[116;46;110;101;116;46]])
                          (amap [[103;111;111;100;46;101;120;97;109;112;108;101;46;99;111;109;46]]) in
  forall cfg,
  go_BlockList_Exists 64 (B cfg) [119;119;119;46;69;120;97;109;112;108;101;46;67;79;77] = Some true /\     (* www.Example.COM *)
  go_BlockList_Exists 64 (B cfg) [110;111;116;101;120;97;109;112;108;101;46;99;111;109;46] = Some false /\  (* notexample.com. *)
  go_BlockList_Exists 64 (B cfg) [120;46;103;111;111;100;46;101;120;97;109;112;108;101;46;99;111;109] = Some false /\ (* x.good.example.com: whitelisted parent *)
  go_BlockList_Exists 64 (B cfg) [116;46;110;101;116] = Some false /\                                          (* t.net: apex of the wildcard *)
  go_BlockList_Exists 64 (B cfg) [97;46;116;46;110;101;116] = Some true.                                        (* a.t.net *)
Proof. intros B cfg. vm_compute. repeat split. Qed.
