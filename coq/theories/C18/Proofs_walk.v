(* C18 — the translated nextDot (Gen.C18.go_nextDot, regenerated from blocklist.go on
   every run) is Model.next_dot, and the suffix walk of the model (Model.dot_suffixes,
   over which exists_spec is proved) is the walk Exists / matchHierarchy perform with it:
   offset += nextDot(key[offset:]) + 1; suffix = key[offset:]. *)
From Sdns Require Import Common.Base Common.GoList Gen.C18 C18.Model.
Open Scope Z_scope.

Lemma nth_middle_str (pre : str) c r d : nth (length pre) (pre ++ c :: r) d = c.
Proof. induction pre as [|x pre IH]; cbn; [reflexivity|exact IH]. Qed.

(* the loop, started at index |pre| of pre ++ rest, with more budget than bytes left *)
Lemma nextDot_loop_spec fuel lf : forall (rest pre : str),
  (length rest < lf)%nat ->
  fst (go_nextDot_loop1 fuel lf (pre ++ rest) (Z.of_nat (length pre))) =
    (let r := next_dot_from rest (Z.of_nat (length pre)) in if r =? -1 then GoNext else GoRet r).
Proof.
  induction lf as [|lf IH]; intros rest pre Hl; [lia|].
  cbn [go_nextDot_loop1]. unfold go_len. rewrite app_length.
  destruct rest as [|c r].
  - cbn [length next_dot_from]. rewrite Nat.add_0_r, Z.ltb_irrefl. reflexivity.
  - replace (Z.of_nat (length pre) <? Z.of_nat (length pre + length (c :: r))) with true
      by (symmetry; apply Z.ltb_lt; cbn [length]; lia).
    rewrite go_idx_nth by lia. rewrite Nat2Z.id, nth_middle_str.
    cbn [next_dot_from]. change 92%N with c_bs. change 46%N with c_dot.
    destruct (N.eqb c c_bs) eqn:Ebs.
    + destruct r as [|x r'].
      * (* a backslash as the last byte: i runs past the end *)
        destruct lf as [|lf']; [cbn [length] in Hl; lia|].
        cbn [go_nextDot_loop1]. unfold go_len. rewrite app_length. cbn [length].
        replace (_ <? _) with false by (symmetry; apply Z.ltb_ge; lia). reflexivity.
      * specialize (IH r' (pre ++ [c; x])). rewrite <- app_assoc in IH. cbn [app] in IH.
        rewrite app_length in IH. cbn [length] in IH.
        replace (Z.of_nat (length pre) + 1 + 1) with (Z.of_nat (length pre + 2)) by lia.
        rewrite IH by (cbn [length] in Hl; lia).
        replace (Z.of_nat (length pre + 2)) with (Z.of_nat (length pre) + 2) by lia. reflexivity.
    + destruct (N.eqb c c_dot) eqn:Edot.
      * cbn [fst]. replace (_ =? -1) with false by (symmetry; apply Z.eqb_neq; lia). reflexivity.
      * specialize (IH r (pre ++ [c])). rewrite <- app_assoc in IH. cbn [app] in IH.
        rewrite app_length in IH. cbn [length] in IH.
        replace (Z.of_nat (length pre) + 1) with (Z.of_nat (length pre + 1)) by lia.
        rewrite IH by (cbn [length] in Hl; lia).
        replace (Z.of_nat (length pre + 1)) with (Z.of_nat (length pre) + 1) by lia. reflexivity.
Qed.

(* where the scan lands *)
Lemma next_dot_from_range : forall n (s : str) i, (length s <= n)%nat -> 0 <= i ->
  next_dot_from s i = -1 \/ (i <= next_dot_from s i < i + Z.of_nat (length s)).
Proof.
  induction n as [|n IH]; intros s i Hn Hi.
  - destruct s; [now left|cbn in Hn; lia].
  - destruct s as [|c r]; [now left|]. cbn [next_dot_from length] in *.
    destruct (N.eqb c c_bs).
    + destruct r as [|x r']; [now left|]. cbn [length] in *.
      destruct (IH r' (i + 2)) as [H|H]; [lia|lia|now left|right; lia].
    + destruct (N.eqb c c_dot); [right; lia|].
      destruct (IH r (i + 1)) as [H|H]; [lia|lia|now left|right; lia].
Qed.

(* gen_nextDot: with a budget above the length, the translated function is the model's *)
Lemma gen_nextDot (s : str) fuel : (length s < fuel)%nat -> go_nextDot fuel s = Some (next_dot s).
Proof.
  intros Hf. unfold go_nextDot, next_dot.
  pose proof (nextDot_loop_spec fuel fuel s [] Hf) as L. cbn [app length Z.of_nat] in L.
  destruct (go_nextDot_loop1 fuel fuel s 0) as [ctl st]. cbn [fst] in L. subst ctl.
  destruct (next_dot_from s 0 =? -1) eqn:E.
  - apply Z.eqb_eq in E. rewrite E. now destruct st.
  - reflexivity.
Qed.

(* walk_follows_next_dot: one turn of the loop in Exists / matchHierarchy — cut after the
   next separating dot — yields the head of dot_suffixes, and the walk continues from there *)
Lemma dot_suffixes_from : forall n (s : str) i, (length s <= n)%nat -> 0 <= i ->
  let r := next_dot_from s i in
  (r = -1 /\ dot_suffixes s = []) \/
  (i <= r /\ dot_suffixes s = skipn (Z.to_nat (r - i + 1)) s :: dot_suffixes (skipn (Z.to_nat (r - i + 1)) s)).
Proof.
  induction n as [|n IH]; intros s i Hn Hi; cbn zeta.
  - destruct s; [left; split; reflexivity|cbn in Hn; lia].
  - destruct s as [|c r]; [left; split; reflexivity|]. cbn [next_dot_from dot_suffixes length] in *.
    destruct (N.eqb c c_bs).
    + destruct r as [|x r']; [left; split; reflexivity|]. cbn [length] in *.
      destruct (IH r' (i + 2)) as [[H1 H2]|[H1 H2]]; [lia|lia|left; split; assumption|].
      right. split; [lia|].
      replace (Z.to_nat (next_dot_from r' (i + 2) - i + 1)) with (S (S (Z.to_nat (next_dot_from r' (i + 2) - (i + 2) + 1)))) by lia.
      cbn [skipn]. exact H2.
    + destruct (N.eqb c c_dot).
      * right. split; [lia|]. replace (Z.to_nat (i - i + 1)) with 1%nat by lia. reflexivity.
      * destruct (IH r (i + 1)) as [[H1 H2]|[H1 H2]]; [lia|lia|left; split; assumption|].
        right. split; [lia|].
        replace (Z.to_nat (next_dot_from r (i + 1) - i + 1)) with (S (Z.to_nat (next_dot_from r (i + 1) - (i + 1) + 1))) by lia.
        cbn [skipn]. exact H2.
Qed.

Lemma walk_follows_next_dot_lemma (s : str) :
  (next_dot s = -1 /\ dot_suffixes s = []) \/
  (0 <= next_dot s < Z.of_nat (length s) /\
   dot_suffixes s = skipn (Z.to_nat (next_dot s + 1)) s :: dot_suffixes (skipn (Z.to_nat (next_dot s + 1)) s)).
Proof.
  unfold next_dot.
  destruct (dot_suffixes_from (length s) s 0 (le_n _) (Z.le_refl 0)) as [H|[H1 H2]]; [now left|right].
  rewrite Z.sub_0_r in H2. split; [|exact H2].
  destruct (next_dot_from_range (length s) s 0 (le_n _) (Z.le_refl 0)) as [E|E]; lia.
Qed.

(* non-vacuous: "a\.b.test." — the escaped dot is skipped, the cut falls after "a\.b" *)
Example next_dot_example :
  go_nextDot 11 [97;92;46;98;46;116;101;115;116;46]%N = Some 4 /\
  dot_suffixes [97;92;46;98;46;116;101;115;116;46]%N = [[116;101;115;116;46]%N; []].
Proof. split; reflexivity. Qed.
