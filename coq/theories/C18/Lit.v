(* C18 — compact byte-string literals for the generated case files:
   (S "example.com.") is the list of the ASCII codes. *)
From Coq Require Import Ascii List NArith.
From Coq Require Export String.
Definition S (s : string) : list N := List.map N_of_ascii (list_ascii_of_string s).
Arguments S s%string.
