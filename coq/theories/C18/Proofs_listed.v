(* C18 — the first sentence of the property for whole API histories: a query name is
   blocked (Exists, ServeDNS) exactly when the list the API calls have ACKNOWLEDGED lists it
   or a parent, and not its whitelist.

   acknowledged_is_matched (Proofs_ack) brackets the MEMORY between the acknowledged lists;
   exists_spec (Proofs_match) reads Exists on a memory whose keys are spelled the way the
   wire decoder spells names.  This file joins them: keys in the decoder's spelling (any
   case, with or without the final dot) keep the memory in that spelling through every call
   (apply_op_keeps_dsp), the name such a key denotes is the name it was written from
   (name_of_present: Spec.parse_pres undoes dns.UnpackDomainName's escaping), hence for
   every history and every wire name q

       Exists (present q)  <->  the acknowledged entries block q  (Spec.blocked_spec).

   For keys spelled by hand the statement fails (finding blocklist-entry-spelling). *)
From Sdns Require Import Common.Base Gen.C18 C18.Model C18.Spec C18.Ack C18.Proofs_match C18.Proofs_disk
  C18.Proofs_reload C18.Proofs_spelling C18.Proofs_ack.
Open Scope N_scope.

(* ---------------------------------------------------------------- decoding undoes the decoder's escaping *)

Definition ddd_ok (c : N) : bool :=
  match esc_byte c with
  | [x] => (x =? c) && negb (x =? c_bs) && negb (x =? c_dot)
  | [b; x] => (b =? c_bs) && (x =? c) && negb (is_digit x)
  | [b; x; y; z] => (b =? c_bs) && is_digit x && is_digit y && is_digit z &&
                    ((((x - 48) * 100 + (y - 48) * 10 + (z - 48)) mod 256) =? c)
  | _ => false
  end.

Lemma parse_esc c s cur : okc c -> parse_pres (esc_byte c ++ s) cur = parse_pres s (c :: cur).
Proof.
  intros Hc. assert (H : forallb ddd_ok all_bytes = true) by (vm_compute; reflexivity).
  rewrite forallb_forall in H. specialize (H c (In_all_bytes c Hc)). unfold ddd_ok in H.
  destruct (esc_byte c) as [|b [|x [|y [|z [|u r]]]]]; try discriminate.
  - apply andb_true_iff in H as [H C]. apply andb_true_iff in H as [A B]. apply N.eqb_eq in A. subst b.
    apply negb_true_iff in B, C. cbn [app parse_pres]. now rewrite B, C.
  - apply andb_true_iff in H as [H C]. apply andb_true_iff in H as [A B]. apply N.eqb_eq in A, B. subst b x.
    apply negb_true_iff in C. cbn [app parse_pres]. rewrite N.eqb_refl.
    destruct s as [|p [|q t]]; try reflexivity. now rewrite C.
  - apply andb_true_iff in H as [H E]. apply andb_true_iff in H as [H Dz]. apply andb_true_iff in H as [H Dy].
    apply andb_true_iff in H as [A Dx]. apply N.eqb_eq in A, E. subst b.
    cbn [app parse_pres]. rewrite N.eqb_refl, Dx, Dy, Dz. cbn [andb]. now rewrite E.
Qed.

Lemma parse_label l s cur : Forall okc l ->
  parse_pres (label_with esc_byte l ++ c_dot :: s) cur = (rev cur ++ l) :: parse_pres s [].
Proof.
  intros H. revert cur. induction H as [|c l Hc _ IH]; intros cur.
  - cbn [label_with flat_map app parse_pres]. change (c_dot =? c_bs) with false. rewrite N.eqb_refl. now rewrite app_nil_r.
  - rewrite elabel_cons, <- app_assoc, parse_esc by exact Hc. rewrite IH. cbn [rev]. now rewrite <- app_assoc.
Qed.

Lemma parse_render' n : wireP n -> parse_pres (render'_with esc_byte n) [] = n.
Proof.
  induction n as [|l n IH]; intros H; [reflexivity|].
  apply wireP_cons in H as [Hl Hn]. apply wire_label_inv in Hl as [_ Hl].
  rewrite erender'_cons, parse_label by exact Hl. cbn [rev app]. now rewrite IH.
Qed.

Lemma name_of_raw s : name_of s = fold_name (raw_name_of s).
Proof. unfold name_of, raw_name_of. destruct s as [|c [|d r]]; try reflexivity. now destruct (c =? c_dot). Qed.

Lemma render'_two l n : wire_label l = true -> exists a b r, render'_with esc_byte (l :: n) = a :: b :: r.
Proof.
  intros Hl. apply wire_label_inv in Hl as [Hne Hl]. rewrite erender'_cons.
  destruct Hl as [|c l Hc _]; [congruence|]. rewrite elabel_cons.
  destruct (esc_head esc_byte esc_byte_shape c Hc) as (h & t & E & _). rewrite E. cbn [app].
  destruct (t ++ label_with esc_byte l) as [|b r'] eqn:T; cbn [app]; eauto.
Qed.

Lemma raw_name_of_present n : wireP n -> raw_name_of (present n) = n.
Proof.
  intros H. destruct n as [|l n]; [reflexivity|]. unfold present. rewrite erender_nonroot by discriminate.
  pose proof (parse_render' (l :: n) H) as P. apply wireP_cons in H as [Hl _].
  destruct (render'_two l n Hl) as (a & b & r & E). rewrite E in *. exact P.
Qed.

(* the name the decoder's spelling of n denotes is n (case-folded) *)
Lemma name_of_present n : wireP n -> name_of (present n) = fold_name n.
Proof. intros H. now rewrite name_of_raw, raw_name_of_present. Qed.

Lemma name_of_present_suffix n : wireP n -> name_of (present_suffix n) = fold_name n.
Proof. intros H. destruct n as [|l n]; [reflexivity|]. now apply name_of_present. Qed.

(* ---------------------------------------------------------------- lists and keys in the decoder's spelling *)

Definition folded (n : name) : Prop := fold_name n = n.
(* an entry of m / of the whitelist; an entry of wild (the suffix the wildcard covers) *)
Definition gm (e : str) : Prop := exists n, wireP n /\ folded n /\ e = present n.
Definition gw (e : str) : Prop := exists n, wireP n /\ folded n /\ e = present_suffix n.
Definition decoder_spelled (b : bl) : Prop := Forall gm (bm b) /\ Forall gw (bwild b) /\ Forall gm (bw b).
(* a key of an API call: up to case and the final dot, the decoder's spelling of a wire name
   ("*.suffix" is the decoder's spelling of the name whose first label is "*") *)
Definition decoder_key (k : str) : Prop := exists n, wireP n /\ folded n /\ canonical k = present n.

Lemma present_is_decoder_key n : wireP n -> decoder_key (present n).
Proof.
  intros H. exists (fold_name n). split; [|split].
  - now apply (fold_wire esc_byte esc_byte_shape esc_byte_lower esc_byte_prefix_free).
  - apply fold_name_idem.
  - now apply (canonical_erender esc_byte esc_byte_shape esc_byte_lower).
Qed.

Lemma decoder_spelling_round_trip_lemma n : wireP n ->
  decoder_key (present n) /\ name_of (present n) = fold_name n.
Proof. intros H. split; [now apply present_is_decoder_key|now apply name_of_present]. Qed.

Lemma folded_tail l p : folded (l :: p) -> folded p.
Proof. unfold folded. cbn [fold_name map]. intros H. now injection H. Qed.

(* a key that reads "*.…" is the name  * . p ; what follows the prefix is the suffix entry of p *)
Lemma star_prefix m : wireP m -> has_prefix [42; 46] (present m) = true ->
  exists p, m = [42] :: p /\ skipn 2 (present m) = present_suffix p.
Proof.
  intros Hm H. destruct m as [|l p]; [discriminate|].
  pose proof Hm as Hm'. apply wireP_cons in Hm' as [Hl Hp]. apply wire_label_inv in Hl as [Hne Hl].
  unfold present in *. rewrite erender_nonroot in * by discriminate. rewrite erender'_cons in *.
  destruct Hl as [|c l Hc Hl]; [congruence|]. rewrite elabel_cons in *.
  destruct (esc_byte_shape c Hc) as [[E [P1 P2]]|(x & ds & E & _)]; rewrite E in *; [|discriminate].
  cbn [app has_prefix] in H. apply andb_true_iff in H as [A B]. apply N.eqb_eq in A. subst c.
  destruct Hl as [|c2 l Hc2 _].
  - exists p. split; [reflexivity|]. cbn [label_with flat_map app skipn]. destruct p; reflexivity.
  - exfalso. rewrite elabel_cons in B. destruct (esc_head esc_byte esc_byte_shape c2 Hc2) as (h & t & Eh & Hh).
    rewrite Eh in B. cbn [app has_prefix] in B. apply andb_true_iff in B as [B _]. apply N.eqb_eq in B. apply Hh. symmetry. exact B.
Qed.

Lemma Forall_add (P : str -> Prop) k l : P k -> Forall P l -> Forall P (add k l).
Proof.
  intros Hk Hl. apply Forall_forall. intros x Hx. apply In_add in Hx as [Hx| ->]; [|exact Hk].
  rewrite Forall_forall in Hl. now apply Hl.
Qed.
Lemma Forall_del (P : str -> Prop) k l : Forall P l -> Forall P (del k l).
Proof.
  intros Hl. apply Forall_forall. intros x Hx. apply In_del in Hx as [Hx _]. rewrite Forall_forall in Hl. now apply Hl.
Qed.

Lemma ack_set_dsp k b : decoder_key k -> decoder_spelled b -> decoder_spelled (ack_set k b).
Proof.
  intros (n & Hn & Fn & E) (A & B & C). unfold ack_set. rewrite E.
  destruct wildp_values as [S _]. rewrite S. change (N.to_nat set_wild_skip) with 2%nat.
  destruct (has_prefix [42; 46] (present n)) eqn:P; split; cbn [bm bwild bw]; try split; try assumption.
  - destruct (star_prefix n Hn P) as (p & -> & Sk). rewrite Sk. apply Forall_add; [|exact B].
    exists p. apply wireP_cons in Hn as [_ Hp]. split; [exact Hp|]. split; [now apply (folded_tail [42])|reflexivity].
  - apply Forall_add; [|exact A]. now exists n.
Qed.

Lemma set_locked_dsp k b : decoder_key k -> decoder_spelled b -> decoder_spelled (snd (set_locked k b)).
Proof.
  intros Hk Hb. destruct (set_locked_ack k b) as [E|E]; rewrite E; cbn [snd]; [now apply ack_set_dsp|exact Hb].
Qed.

Lemma remove_locked_dsp k b : decoder_spelled b -> decoder_spelled (snd (remove_locked k b)).
Proof.
  intros (A & B & C). unfold remove_locked.
  destruct (mem (canonical k) (bm b)); cbn [snd].
  - split; [|split]; cbn [bm bwild bw]; try assumption. now apply Forall_del.
  - destruct (has_prefix remove_wildp (canonical k)); [|now split].
    destruct (mem _ (bwild b)); cbn [snd]; [|now split].
    split; [|split]; cbn [bm bwild bw]; try assumption. now apply Forall_del.
Qed.

Lemma apply_op_keeps_dsp o b : Forall decoder_key (op_keys o) -> decoder_spelled b -> decoder_spelled (snd (apply_op o b)).
Proof.
  intros Hk Hb. destruct o as [k|k|ks|ks]; cbn [apply_op op_keys] in *.
  - inversion Hk; subst. pose proof (set_locked_dsp k b H1 Hb) as H. now destruct (set_locked k b).
  - pose proof (remove_locked_dsp k b Hb) as H. now destruct (remove_locked k b).
  - destruct (is_nil ks); [exact Hb|].
    pose proof (batch_keeps decoder_spelled decoder_key set_locked set_locked_dsp ks b 0 Hk Hb) as H.
    destruct (batch set_locked ks b 0) as [n b']. cbn [snd] in H. now destruct (n =? 0).
  - destruct (is_nil ks); [exact Hb|].
    pose proof (batch_keeps decoder_spelled (fun _ => True) remove_locked (fun k b _ => remove_locked_dsp k b) ks b 0) as H.
    destruct (batch remove_locked ks b 0) as [n b']. cbn [snd] in H.
    assert (decoder_spelled b') by (apply H; [apply Forall_forall; easy|exact Hb]). now destruct (n =? 0).
Qed.

Definition hist_keys (ops : list op) : list str := concat (map op_keys ops).

Lemma run_hist_keeps_dsp : forall ops b, Forall decoder_key (hist_keys ops) -> decoder_spelled b ->
  decoder_spelled (snd (run_hist ops b)).
Proof.
  induction ops as [|o ops IH]; intros b Hk Hb; [exact Hb|].
  unfold hist_keys in Hk. cbn [map concat] in Hk. apply Forall_app in Hk as [Ho Hr].
  cbn [run_hist]. pose proof (apply_op_keeps_dsp o b Ho Hb) as A.
  destruct (apply_op o b) as [[ret sn] b']. cbn [snd] in A. specialize (IH b' Hr A).
  now destruct (run_hist ops b').
Qed.

(* ---------------------------------------------------------------- Exists on such a list is the specification on its names *)

Lemma gm_list l : Forall gm l -> exists M, l = map present M /\ Forall wireP M /\ names l = M.
Proof.
  induction 1 as [|e l (n & Hn & Fn & ->) _ (M & -> & HM & E)]; [now exists []|].
  exists (n :: M). split; [reflexivity|]. split; [now constructor|].
  unfold names in *. cbn [map]. rewrite E. f_equal. rewrite name_of_present by exact Hn. exact Fn.
Qed.
Lemma gw_list l : Forall gw l -> exists W, l = map present_suffix W /\ Forall wireP W /\ names l = W.
Proof.
  induction 1 as [|e l (n & Hn & Fn & ->) _ (W & -> & HW & E)]; [now exists []|].
  exists (n :: W). split; [reflexivity|]. split; [now constructor|].
  unfold names in *. cbn [map]. rewrite E. f_equal. rewrite name_of_present_suffix by exact Hn. exact Fn.
Qed.

Lemma exists_is_blocks b q : decoder_spelled b -> wireP q ->
  (bl_exists b (present q) = true <-> blocks b (fold_name q)).
Proof.
  intros (A & B & C) Hq.
  destruct (gm_list _ A) as (M & EM & HM & NM). destruct (gw_list _ B) as (W & EW & HW & NW).
  destruct (gm_list _ C) as (Wl & EWl & HWl & NWl).
  unfold blocks. rewrite NM, NW, NWl.
  replace b with (state_of M W Wl) by (destruct b; cbn in *; subst; reflexivity).
  now apply exists_spec_lemma.
Qed.

(* ---------------------------------------------------------------- the statement *)

Lemma listed_is_blocked_lemma b0 ops q :
  decoder_spelled b0 -> no_wild_plain b0 -> Forall decoder_key (hist_keys ops) -> wireP q ->
  let h := fst (run_hist ops b0) in
  let b1 := snd (run_hist ops b0) in
  let lo := fst (ack_lists h b0) in
  let hi := snd (ack_lists h b0) in
  (blocks lo (fold_name q) -> bl_exists b1 (present q) = true) /\
  (bl_exists b1 (present q) = true -> blocks hi (fold_name q)) /\
  (forallb all_or_nothing h = true -> (bl_exists b1 (present q) = true <-> blocks lo (fold_name q))).
Proof.
  intros Hb Hn Hk Hq h b1 lo hi.
  destruct (acknowledged_is_matched_lemma b0 ops Hn) as (L & U & X). fold h b1 lo hi in L, U, X.
  pose proof (exists_is_blocks b1 q (run_hist_keeps_dsp ops b0 Hk Hb) Hq) as E.
  split; [|split].
  - intros H. apply E. now apply L.
  - intros H. apply U. now apply E.
  - intros F. rewrite E. split; [|apply L]. intros H. rewrite (X F). now apply U.
Qed.

(* ... and what ServeDNS does with the query for q: the acknowledged list decides between the
   null-route / empty authoritative reply and the next handler *)
Lemma listed_is_served_lemma b0 ops q nr nr6 qtype :
  decoder_spelled b0 -> no_wild_plain b0 -> Forall decoder_key (hist_keys ops) -> wireP q ->
  let h := fst (run_hist ops b0) in
  let b1 := snd (run_hist ops b0) in
  let lo := fst (ack_lists h b0) in
  forallb all_or_nothing h = true ->
  (blocks lo (fold_name q) ->
     exists an ns, serve b1 nr nr6 (present q) qtype = OReply 0 true true an ns /\
       (qtype = type_a -> an = [RR type_a ttl_a (present q) nr] /\ ns = []) /\
       (qtype = type_aaaa -> an = [RR type_aaaa ttl_aaaa (present q) nr6] /\ ns = []) /\
       (qtype <> type_a -> qtype <> type_aaaa -> an = [] /\ exists soa, ns = [soa])) /\
  (~ blocks lo (fold_name q) -> serve b1 nr nr6 (present q) qtype = ONext).
Proof.
  intros Hb Hn Hk Hq h b1 lo F.
  destruct (listed_is_blocked_lemma b0 ops q Hb Hn Hk Hq) as (_ & _ & X). specialize (X F). fold h b1 lo in X.
  destruct (reply_shape_lemma b1 nr nr6 (present q) qtype) as [R1 R2]. split.
  - intros H. apply R1. now apply X.
  - intros H. apply R2. apply not_true_iff_false. intros T. apply H. now apply X.
Qed.

(* non-vacuity: the cover / uncover history of ack_example with keys typed in mixed case and
   without the final dot, a label with an escaped '@', and the queries that tell the lists apart *)
Example listed_example :
  let k1 := [101;120;97;109;112;108;101;46;99;111;109] in                         (* example.com *)
  let k2 := [97;100;115;46;69;120;97;109;112;108;101;46;99;111;109;46] in        (* ads.Example.com. *)
  let k3 := [42;46;117;92;64;118;46;110;101;116] in                               (* *.u\@v.net *)
  let ops := [OpSet k1; OpSet k2; OpSetBatch [k3]; OpRemove k1] in
  let b0 := mk_bl [] [] [] in
  let q1 := [[119;119;119]; [65;68;83]; [101;120;97;109;112;108;101]; [99;111;109]] in   (* www.ADS.example.com *)
  let q2 := [[119;119;119]; [101;120;97;109;112;108;101]; [99;111;109]] in              (* www.example.com *)
  let q3 := [[120]; [117;64;118]; [110;101;116]] in                                       (* x.u@v.net *)
  let q4 := [[117;64;118]; [110;101;116]] in                                              (* u@v.net: the apex *)
  let b1 := snd (run_hist ops b0) in
  forallb all_or_nothing (fst (run_hist ops b0)) = true /\
  map (fun q => bl_exists b1 (present q)) [q1; q2; q3; q4] = [true; false; true; false] /\
  map (fun q => spec_blocked_b (names (bm (fst (ack_lists (fst (run_hist ops b0)) b0))))
                               (names (bwild (fst (ack_lists (fst (run_hist ops b0)) b0)))) [] (fold_name q))
      [q1; q2; q3; q4] = [true; false; true; false] /\
  present q3 = [120;46;117;92;64;118;46;110;101;116;46].
Proof. vm_compute. repeat split. Qed.

Lemma listed_example_keys :
  Forall decoder_key [[101;120;97;109;112;108;101;46;99;111;109];
                      [97;100;115;46;69;120;97;109;112;108;101;46;99;111;109;46];
                      [42;46;117;92;64;118;46;110;101;116]].
Proof.
  repeat constructor.
  - exists [[101;120;97;109;112;108;101]; [99;111;109]]. repeat split.
  - exists [[97;100;115]; [101;120;97;109;112;108;101]; [99;111;109]]. repeat split.
  - exists [[42]; [117;64;118]; [110;101;116]]. repeat split.
Qed.
