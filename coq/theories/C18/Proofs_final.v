(* C18 — the two halves put together: after any interleaving of API calls with
   any keys (those with '#' or white space are refused by setLocked), once every
   persist() has run, a restart on the `local` file blocks exactly the names the
   memory blocks. *)
From Coq Require Import Permutation.
From Sdns Require Import Common.Base Gen.C18 C18.Model C18.Spec C18.Proofs_match C18.Proofs_disk C18.Proofs_reload.
Open Scope N_scope.

(* interleavings whose API calls carry keys that do not end in a lone backslash
   (dns.Fqdn is not idempotent on those: "x\" -> "x\." -> "x\..") *)

Inductive csteps : sys -> sys -> Prop :=
| csteps_refl s : csteps s s
| csteps_mutate s t o ex wi :
    csteps s t -> Forall sane (op_keys o) ->
    snap_matches (mk_snap 0 ex wi) (snd (apply_op o (s_mem t))) ->
    csteps s (snd (sys_mutate o ex wi t))
| csteps_persist s t i :
    csteps s t -> (i < length (s_pending t))%nat -> csteps s (sys_persist i t).

Lemma csteps_steps s t : csteps s t -> steps s t.
Proof.
  induction 1; [constructor| |]; eapply steps_next; eauto; now constructor.
Qed.

Lemma sys_mutate_mem o ex wi s : s_mem (snd (sys_mutate o ex wi s)) = snd (apply_op o (s_mem s)).
Proof. unfold sys_mutate. destruct (apply_op o (s_mem s)) as [[r sn] b']. now destruct sn. Qed.
Lemma sys_persist_mem i s : s_mem (sys_persist i s) = s_mem s.
Proof.
  unfold sys_persist. destruct (nth_error _ _); [|reflexivity]. unfold persist_snap. cbn. now destruct (_ && _).
Qed.

Lemma csteps_mem_inv s t :
  csteps s t -> mem_good (s_mem s) ->
  mem_good (s_mem t) /\ bw (s_mem t) = bw (s_mem s).
Proof.
  induction 1 as [s|s t o ex wi _ IH Hk _|s t i _ IH _]; intros Hg.
  - easy.
  - destruct (IH Hg) as (A & C). rewrite sys_mutate_mem. split.
    + now apply apply_op_keeps_good.
    + now rewrite apply_op_keeps_w.
  - rewrite sys_persist_mem. now apply IH.
Qed.

Lemma mem_perm k l l' : Permutation l l' -> mem k l = mem k l'.
Proof.
  intros P. apply eq_true_iff_eq. rewrite !mem_In. split; apply Permutation_in; [exact P|now apply Permutation_sym].
Qed.
Lemma existsb_ext' {A} (f g : A -> bool) l : (forall x, f x = g x) -> existsb f l = existsb g l.
Proof. intros H. induction l as [|x l IH]; [reflexivity|]. cbn. now rewrite H, IH. Qed.
Lemma bl_exists_perm ex wi ex' wi' w q :
  Permutation ex ex' -> Permutation wi wi' -> bl_exists (mk_bl ex wi w) q = bl_exists (mk_bl ex' wi' w) q.
Proof.
  intros P1 P2. rewrite !bl_exists_alt. cbn [bw]. f_equal. unfold blocked_walk. cbn [bm bwild].
  rewrite (mem_perm _ _ _ P1). f_equal. apply existsb_ext'. intros s.
  now rewrite (mem_perm _ _ _ P1), (mem_perm _ _ _ P2).
Qed.

Lemma converged_reload_equiv_lemma b0 l0 s :
  csteps (init b0 l0) s -> mem_good b0 ->
  s_pending s = [] -> 0 < s_version s ->
  exists file, s_local s = Some file /\
    forall q, bl_exists (parse_bytes file (mk_bl [] [] (bw b0))) q = bl_exists (s_mem s) q.
Proof.
  intros St Hg Hp Hv.
  destruct (csteps_mem_inv _ _ St Hg) as (A & C). cbn [init s_mem] in C.
  destruct (disk_converges_lemma b0 l0 s (csteps_steps _ _ St) Hp) as [[E _]|(_ & ex & wi & P1 & P2 & Hl)]; [lia|].
  eexists. split; [exact Hl|]. intros q.
  assert (Hg' : Forall (good_entry (bw b0)) (entries_of ex wi)).
  { rewrite <- C. unfold mem_good in A. apply good_entries_iff in A as [A1 A2]. apply good_entries_iff. split; intros x Hx.
    - apply A1. eapply Permutation_in; eauto.
    - apply A2. eapply Permutation_in; eauto. }
  rewrite (reload_equiv_lemma (bw b0) (s_version s) ex wi Hg' q).
  rewrite (bl_exists_perm ex wi (bm (s_mem s)) (bwild (s_mem s)) (bw b0) q P1 P2).
  rewrite <- C. now destruct (s_mem s).
Qed.

(* non-vacuity: an empty list with a whitelist is good and clean, and a
   two-call interleaving with the persists in the "wrong" order is a csteps run *)
Example converged_example :
  let w := [[111; 107; 46; 116; 101; 115; 116; 46]] in
  let b0 := mk_bl [] [] w in
  mem_good b0 /\
  exists s, csteps (init b0 None) s /\ s_pending s = [] /\ s_version s = 2 /\
            bm (s_mem s) = [[97; 46; 116; 101; 115; 116; 46]] /\ bwild (s_mem s) = [[98; 46; 116; 101; 115; 116; 46]].
Proof.
  cbn zeta. split; [constructor|].
  set (k1 := [65; 46; 116; 101; 115; 116]). set (k2 := [42; 46; 98; 46; 116; 101; 115; 116; 46]).
  set (b0 := mk_bl [] [] [[111; 107; 46; 116; 101; 115; 116; 46]]).
  assert (Ck : forall k, k = k1 \/ k = k2 -> sane k).
  { intros k [->| ->]; cbn; discriminate. }
  pose (s1 := snd (sys_mutate (OpSet k1) [[97; 46; 116; 101; 115; 116; 46]] [] (init b0 None))).
  pose (s2 := snd (sys_mutate (OpSet k2) [[97; 46; 116; 101; 115; 116; 46]] [[98; 46; 116; 101; 115; 116; 46]] s1)).
  exists (sys_persist 0 (sys_persist 1 s2)).
  split; [|vm_compute; repeat split; reflexivity].
  apply csteps_persist; [apply csteps_persist|]; [| vm_compute; lia | vm_compute; lia].
  unfold s2. apply csteps_mutate; [|constructor; [apply Ck; now right|constructor]|vm_compute; split; apply Permutation_refl].
  unfold s1. apply csteps_mutate; [constructor|constructor; [apply Ck; now left|constructor]|vm_compute; split; apply Permutation_refl].
Qed.

(* ---------------------------------------------------------------- from start-up to restart, no hypothesis on the state *)

(* start on a directory that holds `local` (or nothing), whatever its contents; any
   interleaving of API calls; every persist done; restart on the directory: the new
   process blocks exactly the names the old one blocked *)
Lemma end_to_end_lemma wl l0 s :
  let start := fun l => load_initial wl [] (match l with Some f => [f] | None => [] end) in
  csteps (init (start l0) l0) s -> s_pending s = [] -> 0 < s_version s ->
  forall q, bl_exists (start (s_local s)) q = bl_exists (s_mem s) q.
Proof.
  cbn zeta. intros St Hp Hv q.
  assert (Hg : mem_good (load_initial wl [] (match l0 with Some f => [f] | None => [] end)))
    by (apply load_initial_good; constructor).
  destruct (converged_reload_equiv_lemma _ _ _ St Hg Hp Hv) as (file & Hl & H).
  rewrite Hl. rewrite load_initial_local. rewrite load_initial_w in H. apply H.
Qed.
