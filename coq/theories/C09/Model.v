(* C09 — RFC 5011 trust anchors across crashes and faults: executable model.

   Written from /repo/middleware/resolver/auto_trust_anchor.go (Resolver.AutoTA,
   verifyFetchedKeysWithWork, stageRevocationSelfSignatures, sameKeyExceptRevoke,
   dnskeyMaterialFP, read/write helpers), resolver.go (NewResolver seeding
   rootKeys/configuredRootKeys from cfg.RootKeys, hasTrustAnchors) and
   dnssec/verify.go (verifyRRSIGWithWork / verifyOneSigWithWork) block by block.

   Abstractions (see props/C09/NOTES.md):
   * a DNSKEY is (material, flags); material stands for (algorithm, protocol,
     public key) exactly as dnskeyMaterialFP groups them;
   * the key tag is an ARBITRARY function [tag : key -> N] (Section variable);
     nothing relates tag(revoked k) to tag k — the anchor a revoked DNSKEY
     belongs to is looked up under unrevokedKeyTag = tag of the key with the
     REVOKE bit cleared (repaired code, 1f61a03), so every theorem holds for
     every tag function, including the real RFC 4034 checksum with its carry;
   * crypto is symbolic: a fetched response carries, per RRSIG, the key tag
     field, the material of the key whose private half made it, and whether it
     is a valid signature over exactly this DNSKEY RRset (period included);
   * time is a Z in minutes; FirstSeen stamps are instants, [now] is the
     clock value of the run (the code reads the clock several times in one
     run; the model uses one value);
   * the disk holds two optional gob maps; reads and writes can fail as inputs
     (faults); atomicGobWrite is "old or new" per file, in program order. *)
From Sdns Require Import Common.Base Common.GoList Gen.C09.
Open Scope N_scope.

(* ---------------------------------------------------------------- keys *)
Record key := mk_key { k_mat : N; k_flags : N }.
Definition key_eqb (a b : key) : bool := (k_mat a =? k_mat b) && (k_flags a =? k_flags b).
Definition has_flag (f : N) (k : key) : bool := negb (N.land (k_flags k) f =? 0).
Definition is_ksk : key -> bool := has_flag go_flag_ksk.      (* Flags&DNSKEYFlagKSK != 0 *)
Definition is_rev : key -> bool := has_flag go_flag_revoke.   (* Flags&DNSKEYFlagRevoke != 0 *)
Definition flag_zone : N := go_flag_zone.                      (* dns.ZONE, read from usableSignatureCandidate *)
Definition is_zone : key -> bool := has_flag flag_zone.

(* sameKeyExceptRevoke(currentKey, revokedKey) *)
Definition same_except_revoke (cur rev : key) : bool :=
  (k_mat cur =? k_mat rev) && (k_flags cur =? N.lxor (k_flags rev) go_flag_revoke).

(* --------------------------------------------------------------- states *)
Inductive st := SStart | SAddPend | SValid | SMissing | SRevoked | SRemoved.
Definition st_code (s : st) : N :=
  match s with SStart => 0 | SAddPend => 1 | SValid => 2 | SMissing => 3 | SRevoked => 4 | SRemoved => 5 end.
Definition st_eqb (a b : st) : bool := st_code a =? st_code b.

Record ta := mk_ta { ta_key : key; ta_st : st; ta_fs : Z }.
Record tomb := mk_tomb { tb_key : key; tb_fs : Z }.

(* Go maps as association lists without duplicate keys; m[k] = v is [set] *)
Fixpoint lookup {A} (t : N) (l : list (N * A)) : option A :=
  match l with
  | [] => None
  | (t', v) :: r => if t' =? t then Some v else lookup t r
  end.
Definition remove {A} (t : N) (l : list (N * A)) : list (N * A) :=
  filter (fun p => negb (fst p =? t)) l.
Definition set {A} (t : N) (v : A) (l : list (N * A)) : list (N * A) := (t, v) :: remove t l.
Definition mem {A} (t : N) (l : list (N * A)) : bool :=
  match lookup t l with Some _ => true | None => false end.

Definition kmap := list (N * ta).      (* TrustAnchors: key tag -> anchor *)
Definition tmap := list (N * tomb).    (* Tombstones: material -> tombstone *)

Definition is_marker (a : ta) : bool := match ta_st a with SRevoked | SRemoved => true | _ => false end.
Definition is_trusted_st (a : ta) : bool := match ta_st a with SValid | SMissing => true | _ => false end.
Definition ta_mat (a : ta) : N := k_mat (ta_key a).

(* hold-down timers in minutes (720h / 2160h in the source, nanoseconds there) *)
Definition ns_per_min : Z := 60000000000%Z.
Definition hold_add : Z := (go_hold_add_ns / ns_per_min)%Z.
Definition hold_rem : Z := (go_hold_rem_ns / ns_per_min)%Z.

(* unrevokedKeyTag's argument: the same key with the REVOKE bit cleared (plain.Flags &^= DNSKEYFlagRevoke) *)
Definition unrev (k : key) : key := mk_key (k_mat k) (N.ldiff (k_flags k) go_unrevoke_mask).

(* dnssec.KeyTag (keytag.go), RFC 4034 Appendix B, for every key the chunked read handles itself
   (well-formed base64, not RSAMD5, not oversized): the encoded key is consumed keyTagChunk (256)
   characters at a time, i.e. 192 decoded octets per chunk; each chunk is summed by the loop srcgen
   translates from the function body (go_KeyTag_loop2_run, the octet index restarts at 0 in every chunk —
   192 is even, so the parity is the parity in the RDATA) into one uint32 accumulator.  The head (flags,
   protocol, algorithm) and the final fold are written from the source.  Input here: the DECODED octets
   (the base64 step and the library fall-backs are C14's subject).  The property theorems never use it —
   there the tag is an arbitrary function; it is tied to the code by the CTag cases. *)
Definition keytag_chunk_octets : nat := N.to_nat (go_keytag_chunk / 4 * 3).
Fixpoint chunks (n fuel : nat) (l : list N) : list (list N) :=
  match fuel with
  | O => []
  | S f => match l with [] => [] | _ => firstn n l :: chunks n f (skipn n l) end
  end.
Definition chunk_sum (sum : N) (c : list N) : N :=
  let '(_, (s, _, _)) := go_KeyTag_loop2_run sum c (Z.of_nat (length c)) in s.
Definition keytag_of (flags proto alg : N) (material : list N) : N :=
  let sum0 := wrap32 (wrap32 (wrap32 (N.shiftl (N.shiftr flags 8) 8 + N.land flags 255) + N.shiftl proto 8) + alg) in
  let sum1 := fold_left chunk_sum (chunks keytag_chunk_octets (S (length material)) material) sum0 in
  let sum2 := wrap32 (sum1 + N.land (N.shiftr sum1 16) 65535) in
  N.land sum2 65535.

(* ---------------------------------------------------------------- fetch *)
Record sig := mk_sig { s_tag : N; s_mat : N; s_ok : bool }.
Inductive fetch := FErr | FResp (keys : list key) (sigs : list sig).

(* ----------------------------------------------------------- disk, faults *)
Record disk := mk_disk { d_state : option kmap; d_tomb : option tmap }.
Inductive tread := TROk | TRCorrupt | TRUnreadable.
Record faults := mk_faults { f_sread : bool; f_tread : tread; f_twrite : bool; f_swrite : bool }.
Definition no_faults : faults := mk_faults false TROk false false.

Inductive wfile := WTomb (t : tmap) | WState (s : kmap).
Definition apply_write (d : disk) (w : wfile) : disk :=
  match w with
  | WTomb t => mk_disk (d_state d) (Some t)
  | WState s => mk_disk (Some s) (d_tomb d)
  end.
Definition apply_writes (d : disk) (ws : list wfile) : disk := fold_left apply_write ws d.

Inductive outcome := OSuccess | OQuery | OValidation | OPersistence.
Record result := mk_result {
  r_live : list key;          (* Resolver.rootKeys after the run *)
  r_disk : disk;              (* disk after the run completed *)
  r_writes : list wfile;      (* the successful renames, in program order *)
  r_out : outcome;            (* which refresh counter was incremented *)
  r_revoked : list N          (* materials whose revocation this run accepted (one taRevoked.Inc each) *)
}.
Definition r_nrev (r : result) : N := N.of_nat (length (r_revoked r)).

Inductive auth := AuthFail | AuthFull | AuthRevOnly.

Fixpoint insert_sorted (x : N) (l : list N) : list N :=
  match l with
  | [] => [x]
  | y :: r => if x <=? y then x :: l else y :: insert_sorted x r
  end.
Definition sort_tags (l : list N) : list N := fold_right insert_sorted [] l.

Record pst := mk_pst { p_ksk : kmap; p_tombs : tmap; p_newrev : bool; p_revs : list N }.

Section WithTag.
Variable tag : key -> N.

(* AutoTA: fallback seeding from r.rootKeys when the state file cannot be read *)
Definition seed_step (now : Z) (m : kmap) (k : key) : kmap :=
  if is_ksk k then set (tag k) (mk_ta k (if is_rev k then SRevoked else SValid) now) m else m.
Definition seed_from_live (now : Z) (live : list key) : kmap := fold_left (seed_step now) live [].

(* legacy Revoked/Removed markers copied into the material-keyed tombstones *)
Definition migrate_step (t : tmap) (e : N * ta) : tmap :=
  let a := snd e in
  if is_marker a && negb (mem (ta_mat a) t) then set (ta_mat a) (mk_tomb (ta_key a) (ta_fs a)) t else t.
Definition migrate (ksk : kmap) (tombs : tmap) : tmap := fold_left migrate_step ksk tombs.

(* admin pre-seeded revocations (configured DNSKEY with the REVOKE bit) become tombstones
   BEFORE the precedence pass *)
Definition cfgrev_step (now : Z) (t : tmap) (k : key) : tmap :=
  if is_ksk k && is_rev k && negb (mem (k_mat k) t) then set (k_mat k) (mk_tomb k now) t else t.
Definition cfgrev (now : Z) (cfg : list key) (tombs : tmap) : tmap := fold_left (cfgrev_step now) cfg tombs.

(* tombstone precedence over non-marker entries *)
Definition precedence (ksk : kmap) (tombs : tmap) : kmap :=
  filter (fun e => is_marker (snd e) || negb (mem (ta_mat (snd e)) tombs)) ksk.

(* merge of configuredRootKeys *)
Definition merge_step (now : Z) (acc : kmap * tmap) (k : key) : kmap * tmap :=
  let '(ksk, tombs) := acc in
  if negb (is_ksk k) then acc else
  match lookup (tag k) ksk with
  | Some _ => acc
  | None =>
      if mem (k_mat k) tombs then acc
      else if is_rev k then (ksk, set (k_mat k) (mk_tomb k now) tombs)
      else (set (tag k) (mk_ta k SValid now) ksk, tombs)
  end.
Definition merge (now : Z) (cfg : list key) (ksk : kmap) (tombs : tmap) : kmap * tmap :=
  fold_left (merge_step now) cfg (ksk, tombs).

(* Valid|Missing anchors: candidate / finalRootKeys *)
Definition trusted_keys (ksk : kmap) : list key :=
  map (fun e => ta_key (snd e)) (filter (fun e => is_trusted_st (snd e)) ksk).

(* finalRootKeys (repaired code): Valid|Missing anchors whose key material is not tombstoned — a
   revocation accepted in this very run withholds EVERY entry of that material (the same public key
   filed under another flags value / tag), not only from the next run's precedence pass on *)
Definition published (ksk : kmap) (tombs : tmap) : list key :=
  trusted_keys (filter (fun e => negb (mem (ta_mat (snd e)) tombs)) ksk).

(* dnssec.VerifyRRSIGWithWork restricted to one DNSKEY RRset at the root:
   some RRSIG is valid and its key tag selects, in the supplied key map, a key
   of the signing material that is usable (ZONE flag; tag equality is how the
   map is keyed and what usableSignatureCandidate re-checks) *)
Definition sig_by (ks : list key) (s : sig) : bool :=
  s_ok s && existsb (fun k => (tag k =? s_tag s) && (k_mat k =? s_mat s) && is_zone k) ks.
Definition verify_with (ks : list key) (sigs : list sig) : bool := existsb (sig_by ks) sigs.

(* verifyFetchedKeysWithWork *)
Definition bootstrap (current keys : list key) : list key :=
  filter (fun k' => is_rev k' &&
            existsb (fun c => (tag c =? tag (unrev k')) && same_except_revoke c k') current) keys.
Definition authenticate (cand keys : list key) (sigs : list sig) : auth :=
  match keys with
  | [] => AuthFail
  | _ =>
    let current := filter is_ksk cand in
    match current with
    | [] => AuthFail
    | _ =>
      if verify_with current sigs then AuthFull
      else match bootstrap current keys with
           | [] => AuthFail
           | rb => if verify_with rb sigs then AuthRevOnly else AuthFail
           end
    end
  end.

(* kskFetched: later records overwrite earlier ones with the same tag *)
Definition fetched_map (keys : list key) : list (N * key) :=
  fold_left (fun m k => if is_ksk k then set (tag k) k m else m) keys [].

Definition ident_existing (ksk : kmap) (t : N) (k : key) : bool :=
  match lookup t ksk with Some a => key_eqb (ta_key a) k | None => false end.

(* stageRevocationSelfSignatures *)
Definition stage_one (ksk : kmap) (tombs : tmap) (sigs : list sig) (fm : list (N * key)) (t : N) : list (N * bool) :=
  match lookup t fm with
  | None => []
  | Some k' =>
    if negb (is_rev k') then []
    else if mem (k_mat k') tombs then []
    else if ident_existing ksk t k' then []
    else match lookup (tag (unrev k')) ksk with
         | None => []
         | Some old =>
           if negb (is_trusted_st old) then []
           else if negb (same_except_revoke (ta_key old) k') then []
           else [(t, verify_with [k'] sigs)]
         end
  end.
Definition stage (ksk : kmap) (tombs : tmap) (sigs : list sig) (fm : list (N * key)) (tags : list N) : list (N * bool) :=
  flat_map (stage_one ksk tombs sigs fm) tags.
Definition staged_ok (staged : list (N * bool)) (t : N) : bool :=
  match lookup t staged with Some b => b | None => false end.

(* the per-tag loop over the sorted fetched tags *)
Definition process_one (now : Z) (rev_only : bool) (fm : list (N * key)) (staged : list (N * bool)) (s : pst) (t : N) : pst :=
  match lookup t fm with
  | None => s
  | Some k =>
    if mem (k_mat k) (p_tombs s) then s
    else if ident_existing (p_ksk s) t k then s
    else if is_rev k then
      let ot := tag (unrev k) in
      match lookup ot (p_ksk s) with
      | Some old =>
        if is_trusted_st old && same_except_revoke (ta_key old) k && staged_ok staged t
        then mk_pst (set ot (mk_ta (ta_key old) SRevoked now) (p_ksk s))
                    (set (k_mat k) (mk_tomb k now) (p_tombs s)) true (k_mat k :: p_revs s)
        else s
      | None => s
      end
    else if rev_only then s
    else match lookup t (p_ksk s) with
         | Some _ => s
         | None => mk_pst (set t (mk_ta k SAddPend now) (p_ksk s)) (p_tombs s) (p_newrev s) (p_revs s)
         end
  end.
Definition process (now : Z) (rev_only : bool) (fm : list (N * key)) (staged : list (N * bool)) (tags : list N) (s : pst) : pst :=
  fold_left (process_one now rev_only fm staged) tags s.

(* KeyRem / KeyPres / hold-down transitions; presence by tag AND material (repaired code) *)
(* present = the fetched key under this tag has this entry's material *)
Definition fm_has (fm : list (N * key)) (t : N) (a : ta) : bool :=
  match lookup t fm with Some k => k_mat k =? ta_mat a | None => false end.
Definition keyrem_one (now : Z) (fm : list (N * key)) (e : N * ta) : list (N * ta) :=
  let t := fst e in let a := snd e in
  match (if fm_has fm t a then Some tt else None) with
  | None =>
    match ta_st a with
    | SAddPend | SStart => []
    | _ =>
      let a1 := match ta_st a with SValid => mk_ta (ta_key a) SMissing now | _ => a end in
      match ta_st a1 with
      | SMissing => if (now - ta_fs a1 >? hold_rem)%Z then [] else [(t, a1)]
      | _ => [(t, a1)]
      end
    end
  | Some _ =>
    let a1 := match ta_st a with
              | SAddPend => if (now - ta_fs a >? hold_add)%Z then mk_ta (ta_key a) SValid (ta_fs a) else a
              | _ => a end in
    let a2 := match ta_st a1 with SMissing => mk_ta (ta_key a1) SValid (ta_fs a1) | _ => a1 end in
    [(t, a2)]
  end.
Definition keyrem (now : Z) (fm : list (N * key)) (ksk : kmap) : kmap := flat_map (keyrem_one now fm) ksk.

Definition is_nil {A} (l : list A) : bool := match l with [] => true | _ => false end.

(* everything AutoTA computes before the external fetch *)
Definition prefetch (live cfg : list key) (d : disk) (now : Z) (fl : faults) : option (kmap * tmap) :=
  (* state file: exists but unreadable/corrupt -> fail closed; absent -> first start, seed from the live set *)
  if f_sread fl then None else
  let ksk0 := match d_state d with
              | Some s => s
              | None => seed_from_live now live
              end in
  (* tombstone file: corrupt or unreadable -> fail closed; absent -> empty store *)
  match f_tread fl with
  | TROk =>
    let tombs0 := match d_tomb d with Some t => t | None => [] end in
    let tombs1 := cfgrev now cfg (migrate ksk0 tombs0) in
    let ksk1 := precedence ksk0 tombs1 in
    Some (merge now cfg ksk1 tombs1)
  | _ => None
  end.

(* the persistence tail and the publication policy *)
Definition tail (live1 : list key) (d : disk) (fl : faults) (s : pst) : result :=
  let tomb_ok := negb (f_twrite fl) in
  let state_ok := negb (f_swrite fl) in
  let ksk5 := if tomb_ok then filter (fun e => negb (is_marker (snd e))) (p_ksk s) else p_ksk s in
  let ws := (if tomb_ok then [WTomb (p_tombs s)] else []) ++ (if state_ok then [WState ksk5] else []) in
  let live' := if negb tomb_ok && negb state_ok
               then (if p_newrev s then [] else live1)
               else published ksk5 (p_tombs s) in
  mk_result live' (apply_writes d ws) ws
            (if tomb_ok && state_ok then OSuccess else OPersistence) (p_revs s).

(* Resolver.AutoTA *)
Definition autota (live cfg : list key) (d : disk) (now : Z) (fe : fetch) (fl : faults) : result :=
  match prefetch live cfg d now fl with
  | None => mk_result [] d [] OPersistence []
  | Some (ksk2, tombs2) =>
    let cand := trusted_keys ksk2 in
    let live1 := if is_nil live then live else cand in
    match fe with
    | FErr => mk_result live1 d [] OQuery []
    | FResp keys sigs =>
      match authenticate cand keys sigs with
      | AuthFail => mk_result live1 d [] OValidation []
      | a =>
        let rev_only := match a with AuthRevOnly => true | _ => false end in
        let fm := fetched_map keys in
        let tags := sort_tags (map fst fm) in
        let staged := stage ksk2 tombs2 sigs fm tags in
        let s3 := process now rev_only fm staged tags (mk_pst ksk2 tombs2 false []) in
        let s4 := if rev_only then s3
                  else mk_pst (keyrem now fm (p_ksk s3)) (p_tombs s3) (p_newrev s3) (p_revs s3) in
        tail live1 d fl s4
      end
    end
  end.

(* the trust set AutoTA authenticates the response against (and publishes before the fetch) *)
Definition candidate (live cfg : list key) (d : disk) (now : Z) (fl : faults) : list key :=
  match prefetch live cfg d now fl with
  | Some (ksk2, _) => trusted_keys ksk2
  | None => []
  end.

(* NewResolver (repaired, 1f61a03 + 4ce6577): rootKeys := cfg.RootKeys without REVOKE-flagged keys and
   without keys whose material is tombstoned on disk OR held as a StateRevoked/Removed marker in the
   state file; a tombstone or state file that exists but cannot be read gives an empty set.
   configuredRootKeys keeps the whole list.  [tr] / [sr]: how the two files read at start-up. *)
Definition restart_live (cfg : list key) (d : disk) (tr : tread) (sr : bool) : list key :=
  match tr with
  | TROk =>
      if sr then [] else
      let tombs0 := match d_tomb d with Some t => t | None => [] end in
      let st := match d_state d with Some s => s | None => [] end in
      let tombs := migrate st tombs0 in
      filter (fun k => negb (is_rev k) && negb (mem (k_mat k) tombs)) cfg
  | _ => []
  end.

(* ------------------------------------- the consumers of the live trust set *)
(* What Resolver.rootKeys MEANS to validation (resolver.go).
   verifyRootKeys(msg): the keys validation trusts are the live keys whose Flags field is EXACTLY 257
   (go_root_key_flags); none -> ErrTrustAnchorsUnavailable.  Their DS records are computed from the live keys
   themselves (dsRRFromRootKeys) and matched back against them (VerifyDS: self-consistent, always succeeds for
   keys of a supported algorithm — trusted base), then dnssec.VerifyRRSIG decides: some RRSIG over the DNSKEY
   RRset verifies under one of those keys [verify_with]; a message without any record of the root zone has
   nothing to validate (VerifyRRSIG: len(rrsets) == 0 -> true). *)
Inductive rootv := RVAccept | RVUnavailable | RVReject.
Definition root_key_flags : N := go_root_key_flags.
Definition root_keys (live : list key) : list key := filter (fun k => k_flags k =? root_key_flags) live.
Definition verify_root (live keys : list key) (sigs : list sig) : rootv :=
  match root_keys live with
  | [] => RVUnavailable
  | ks => if is_nil keys then RVAccept else if verify_with ks sigs then RVAccept else RVReject
  end.
(* Resolver.Resolve for the question (., DNSKEY) with CD=0 — the query AutoTA sends minus the CD bit, and what any
   client asking for the root keys goes through — once the scripted root has answered with a non-empty DNSKEY
   RRset: answer() refuses with ErrTrustAnchorsUnavailable while the trust set is EMPTY (hasTrustAnchors:
   len(rootKeys) > 0 — fail closed); a response without any RRSIG is passed on as insecure (AD clear: there is no
   DS above the root, isZoneSecure says no); otherwise verifyDNSSEC hands it to verifyRootKeys. *)
Inductive resolved := RSecure | RUnavailable | RBogus | RInsecure.
Definition resolve_root (live keys : list key) (sigs : list sig) : resolved :=
  if is_nil live then RUnavailable
  else if is_nil sigs then RInsecure
  else match verify_root live keys sigs with
       | RVAccept => RSecure
       | RVUnavailable => RUnavailable
       | RVReject => RBogus
       end.

(* The other validating queries.  Every CD=0 lookup passes one of three gates before anything in the response is
   looked at: answer() (positive answers, above), authority() (NXDOMAIN / NODATA) and validateDelegation()
   (referrals), each "if r.dnssec && !r.hasTrustAnchors() { return nil, ErrTrustAnchorsUnavailable }" with
   hasTrustAnchors = len(rootKeys) > 0.  [gate live = Some RUnavailable]: the query is refused whatever the
   authority said; [None]: validation proper goes on (not this property's subject). *)
Definition has_trust_anchors (live : list key) : bool := negb (is_nil live).
Definition gate (live : list key) : option resolved := if has_trust_anchors live then None else Some RUnavailable.

(* ------------------------------------------------- the system across runs *)
Record sys := mk_sys { s_live : list key; s_cfg : list key; s_disk : disk }.

Inductive event :=
| ERun (now : Z) (fe : fetch) (fl : faults)
    (* the process dies after [k] of the run's successful renames; restart with config [cfg'] *)
| ECrash (now : Z) (fe : fetch) (fl : faults) (k : nat) (cfg' : list key) (tr : tread) (sr : bool)
    (* NewResolver with configuration cfg'; tr / sr = how the tombstone / state file read at start-up *)
| ERestart (cfg' : list key) (tr : tread) (sr : bool).

Definition run_of (s : sys) (now : Z) (fe : fetch) (fl : faults) : result :=
  autota (s_live s) (s_cfg s) (s_disk s) now fe fl.

Definition step (s : sys) (e : event) : sys :=
  match e with
  | ERun now fe fl => let r := run_of s now fe fl in mk_sys (r_live r) (s_cfg s) (r_disk r)
  | ECrash now fe fl k cfg' tr sr =>
      let r := run_of s now fe fl in
      let d' := apply_writes (s_disk s) (firstn k (r_writes r)) in
      mk_sys (restart_live cfg' d' tr sr) cfg' d'
  | ERestart cfg' tr sr => mk_sys (restart_live cfg' (s_disk s) tr sr) cfg' (s_disk s)
  end.
Definition exec (s : sys) (h : list event) : sys := fold_left step h s.

End WithTag.
