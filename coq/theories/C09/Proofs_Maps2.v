(* C09 — translator ties over Go maps (srcgen: maps as association lists, `map_range_in_list_order`, dns.RR as a sum
   type): two loops of Resolver.AutoTA translated from the function body and proved equal to the model's functions.

   * loop 6 (source order; item nth 5): `for _, ta := range kskCurrent { if ta.State == StateValid || ta.State ==
     StateMissing { candidate = append(candidate, ta.DNSKey) } }` — WHICH anchors are trusted: the model's trusted_keys.
     Order-insensitive up to the order of the resulting list: the candidate list is used as a set (keyed by tag in
     verifyFetchedKeys, published as rootKeys whose consumers build maps from it); the lemma is stated for the list
     order of the association list, and every use in the model is through In / filter / existsb.
   * loop 13 (item nth 12): `for tag, ta := range kskCurrent { if ta.State == StateRevoked || ta.State == StateRemoved
     { delete(kskCurrent, tag) } }` — the marker clean-up after a successful tombstone write: the model's
     filter (negb is_marker).  Order-insensitive: each iteration deletes at most the entry it visits, deletions of
     distinct keys commute, and Go's range over a map never produces an entry deleted before it is reached — with
     unique keys (NoDup, what a Go map is) the result is the same set of entries in every order. *)
From Sdns Require Import Common.Base Common.GoList Gen.C09 C09.Model C09.Proofs_Gen.
Open Scope Z_scope.

(* ------------------------------------------------------------------ generic: reading the i-th element *)
Lemma go_idx_app_at {A} (d x : A) done rest :
  go_idx d (done ++ x :: rest) (Z.of_nat (length done)) = x.
Proof.
  rewrite go_idx_nth by lia. rewrite Nat2Z.id. rewrite app_nth2 by lia. rewrite Nat.sub_diag. reflexivity.
Qed.

Lemma go_len_app_lt {A} (x : A) done rest : Z.ltb (Z.of_nat (length done)) (go_len (done ++ x :: rest)) = true.
Proof. apply Z.ltb_lt. unfold go_len. rewrite app_length. cbn [length]. lia. Qed.

Lemma go_len_app_nil {A} (done : list A) : Z.ltb (Z.of_nat (length done)) (go_len (done ++ [])) = false.
Proof. apply Z.ltb_ge. unfold go_len. rewrite app_nil_r. lia. Qed.

(* ------------------------------------------------------------------ the abstraction *)
Section Abs.
Variable enc : N * N * list N -> N.
Variable fs_of : Z -> Z.          (* how an instant (ns) is read as the model's minutes: any function *)

Definition st_of_state (z : Z) : st :=
  if Z.eqb z 0 then SStart else if Z.eqb z 1 then SAddPend else if Z.eqb z (Z.of_N go_state_valid) then SValid
  else if Z.eqb z (Z.of_N go_state_missing) then SMissing else if Z.eqb z (Z.of_N go_state_revoked) then SRevoked else SRemoved.
(* the states the code has (State is an int enum: a gob file could hold anything) *)
Definition state_in_range (a : T_TrustAnchor) : Prop := 0 <= T_TrustAnchor_State a <= 5.

Definition abs_ta (a : T_TrustAnchor) : ta :=
  mk_ta (abs_key enc (T_TrustAnchor_DNSKey a)) (st_of_state (T_TrustAnchor_State a)) (fs_of (T_TrustAnchor_FirstSeen a)).
Definition abs_kmap (m : list (N * T_TrustAnchor)) : kmap := map (fun p => (fst p, abs_ta (snd p))) m.
Definition abs_rr (x : I_RR) : key :=
  match x with I_RR_of_DNSKEY k => abs_key enc k | _ => mk_key 0 0 end.

Definition trusted_z (a : T_TrustAnchor) : bool :=
  Z.eqb (T_TrustAnchor_State a) 2 || Z.eqb (T_TrustAnchor_State a) 3.
Definition marker_z (a : T_TrustAnchor) : bool :=
  Z.eqb (T_TrustAnchor_State a) 4 || Z.eqb (T_TrustAnchor_State a) 5.

Lemma trusted_z_abs a : is_trusted_st (abs_ta a) = trusted_z a.
Proof.
  destruct a as [k z f]. unfold is_trusted_st, abs_ta, trusted_z, st_of_state. cbn [ta_st T_TrustAnchor_State].
  change (Z.of_N go_state_valid) with 2. change (Z.of_N go_state_missing) with 3. change (Z.of_N go_state_revoked) with 4.
  destruct (Z.eqb_spec z 0); [subst; reflexivity|].
  destruct (Z.eqb_spec z 1); [subst; reflexivity|].
  destruct (Z.eqb_spec z 2); [subst; reflexivity|].
  destruct (Z.eqb_spec z 3); [subst; reflexivity|].
  destruct (Z.eqb_spec z 4); reflexivity.
Qed.

Lemma marker_z_abs a : state_in_range a -> is_marker (abs_ta a) = marker_z a.
Proof.
  destruct a as [k z f]. unfold state_in_range, is_marker, abs_ta, marker_z, st_of_state. cbn [ta_st T_TrustAnchor_State]. intros H.
  change (Z.of_N go_state_valid) with 2. change (Z.of_N go_state_missing) with 3. change (Z.of_N go_state_revoked) with 4.
  destruct (Z.eqb_spec z 0); [subst; reflexivity|].
  destruct (Z.eqb_spec z 1); [subst; reflexivity|].
  destruct (Z.eqb_spec z 2); [subst; reflexivity|].
  destruct (Z.eqb_spec z 3); [subst; reflexivity|].
  destruct (Z.eqb_spec z 4); [subst; reflexivity|].
  assert (z = 5) by lia. subst. reflexivity.
Qed.

(* ------------------------------------------------------------------ loop 6: the candidate trust set *)
Definition cand_of (l : list (N * T_TrustAnchor)) : list I_RR :=
  map (fun p => I_RR_of_DNSKEY (T_TrustAnchor_DNSKey (snd p))) (filter (fun p => trusted_z (snd p)) l).

Lemma loop6_spec rest : forall done fuel k c, (length rest < fuel)%nat ->
  go_Resolver_AutoTA_loop6 (done ++ rest) fuel (Z.of_nat (length done)) k c = (GoNext, (k, c ++ cand_of rest)).
Proof.
  induction rest as [|x rest IH]; intros done fuel k c Hf; destruct fuel as [|fuel]; try (cbn in Hf; lia).
  - cbn [go_Resolver_AutoTA_loop6]. rewrite go_len_app_nil. unfold cand_of. cbn. rewrite app_nil_r. reflexivity.
  - cbn [go_Resolver_AutoTA_loop6]. rewrite go_len_app_lt, go_idx_app_at.
    assert (E : done ++ x :: rest = (done ++ [x]) ++ rest) by (rewrite <- app_assoc; reflexivity).
    assert (L : Z.of_nat (length done) + 1 = Z.of_nat (length (done ++ [x]))) by (rewrite app_length; cbn [length]; lia).
    unfold cand_of. cbn [filter]. fold (trusted_z (snd x)).
    change (Z.eqb (T_TrustAnchor_State (snd x)) 2 || Z.eqb (T_TrustAnchor_State (snd x)) 3) with (trusted_z (snd x)).
    destruct (trusted_z (snd x)); rewrite E, L, IH by (cbn in Hf; lia); unfold cand_of.
    + cbn [map]. rewrite <- app_assoc. reflexivity.
    + reflexivity.
Qed.

(* gen lemma: the translated loop appends, in list order, the DNSKEY of every entry whose State is Valid or Missing *)
Lemma gen_candidate_loop ksk c :
  go_Resolver_AutoTA_loop6_run ksk c = (GoNext, (ksk, c ++ cand_of ksk)).
Proof. unfold go_Resolver_AutoTA_loop6_run. apply (loop6_spec ksk [] (S (length ksk)) ksk c). lia. Qed.

(* ... which is the model's trusted_keys of the abstracted table *)
Lemma cand_of_abs ksk : map abs_rr (cand_of ksk) = trusted_keys (abs_kmap ksk).
Proof.
  unfold cand_of, trusted_keys, abs_kmap. induction ksk as [|[t a] ksk IH]; [reflexivity|].
  cbn [map filter fst snd]. rewrite trusted_z_abs. destruct (trusted_z a); cbn [map snd]; rewrite IH; reflexivity.
Qed.

Lemma gen_candidate_is_trusted_keys ksk :
  exists cand, go_Resolver_AutoTA_loop6_run ksk [] = (GoNext, (ksk, cand)) /\ map abs_rr cand = trusted_keys (abs_kmap ksk).
Proof. exists (cand_of ksk). split; [apply (gen_candidate_loop ksk [])|apply cand_of_abs]. Qed.

(* ------------------------------------------------------------------ loop 13: the marker clean-up *)
Definition del_step (k : list (N * T_TrustAnchor)) (p : N * T_TrustAnchor) : list (N * T_TrustAnchor) :=
  if marker_z (snd p) then go_map_del N.eqb k (fst p) else k.

Lemma loop13_spec rest : forall done fuel k, (length rest < fuel)%nat ->
  go_Resolver_AutoTA_loop13 (done ++ rest) fuel (Z.of_nat (length done)) k = (GoNext, fold_left del_step rest k).
Proof.
  induction rest as [|x rest IH]; intros done fuel k Hf; destruct fuel as [|fuel]; try (cbn in Hf; lia).
  - cbn [go_Resolver_AutoTA_loop13]. rewrite go_len_app_nil. reflexivity.
  - cbn [go_Resolver_AutoTA_loop13]. rewrite go_len_app_lt, go_idx_app_at.
    assert (E : done ++ x :: rest = (done ++ [x]) ++ rest) by (rewrite <- app_assoc; reflexivity).
    assert (L : Z.of_nat (length done) + 1 = Z.of_nat (length (done ++ [x]))) by (rewrite app_length; cbn [length]; lia).
    cbn [fold_left]. unfold del_step at 2.
    change (Z.eqb (T_TrustAnchor_State (snd x)) 4 || Z.eqb (T_TrustAnchor_State (snd x)) 5) with (marker_z (snd x)).
    destruct (marker_z (snd x)); rewrite E, L, IH by (cbn in Hf; lia); reflexivity.
Qed.

Lemma filter_filter' {A} (f g : A -> bool) l : filter f (filter g l) = filter (fun x => g x && f x) l.
Proof.
  induction l as [|a l IH]; [reflexivity|]. cbn. destruct (g a); cbn; [destruct (f a); rewrite IH; reflexivity|exact IH].
Qed.

(* deleting the tags of the markers among [rest] from [k] keeps the entries whose tag is not the tag of a marker in [rest] *)
Lemma fold_del_filter rest : forall k,
  fold_left del_step rest k =
  filter (fun p => negb (existsb (fun q => marker_z (snd q) && N.eqb (fst q) (fst p)) rest)) k.
Proof.
  induction rest as [|x rest IH]; intros k; cbn [fold_left existsb].
  - induction k as [|p k IHk]; [reflexivity|]. cbn in *. rewrite <- IHk. reflexivity.
  - rewrite IH. unfold del_step. destruct (marker_z (snd x)); cbn [andb orb].
    + unfold go_map_del. rewrite filter_filter'. apply filter_ext. intros p.
      rewrite (N.eqb_sym (fst x) (fst p)). destruct (N.eqb (fst p) (fst x)); reflexivity.
    + reflexivity.
Qed.

(* with unique keys — what a Go map is — "the tag of a marker" and "a marker" are the same entry *)
Lemma marker_tag_unique (m : list (N * T_TrustAnchor)) : NoDup (map fst m) ->
  forall p, In p m -> existsb (fun q => marker_z (snd q) && N.eqb (fst q) (fst p)) m = marker_z (snd p).
Proof.
  induction m as [|x m IH]; intros Hn p Hin; [destruct Hin|]. inversion Hn as [|? ? Hx Hn']; subst.
  cbn [existsb]. destruct Hin as [->|Hin].
  - rewrite N.eqb_refl, andb_true_r. destruct (marker_z (snd p)); [reflexivity|]. cbn [orb].
    apply Bool.not_true_is_false. intros H. apply existsb_exists in H. destruct H as (q & Hq & Hb).
    apply andb_true_iff in Hb. destruct Hb as [_ Hb]. apply N.eqb_eq in Hb. apply Hx. rewrite <- Hb. apply in_map. exact Hq.
  - assert (Hne : N.eqb (fst x) (fst p) = false).
    { apply N.eqb_neq. intros E. apply Hx. rewrite E. apply in_map. exact Hin. }
    rewrite Hne, andb_false_r. cbn [orb]. apply IH; assumption.
Qed.

(* gen lemma: on a table with unique tags the translated loop leaves exactly the entries that are not markers *)
Lemma gen_marker_cleanup_loop ksk : NoDup (map fst ksk) ->
  go_Resolver_AutoTA_loop13_run ksk = (GoNext, filter (fun p => negb (marker_z (snd p))) ksk).
Proof.
  intros Hn. unfold go_Resolver_AutoTA_loop13_run.
  pose proof (loop13_spec ksk [] (S (length ksk)) ksk) as H. cbn [app length Z.of_nat] in H. rewrite H by lia. clear H.
  f_equal. rewrite fold_del_filter.
  apply filter_ext_in. intros p Hin. rewrite (marker_tag_unique ksk Hn p Hin). reflexivity.
Qed.

(* ... which is the model's filter of the abstracted table (tail: ksk5) when every State is one the code has *)
Lemma gen_marker_cleanup_is_model ksk : NoDup (map fst ksk) -> Forall (fun p => state_in_range (snd p)) ksk ->
  exists ksk', go_Resolver_AutoTA_loop13_run ksk = (GoNext, ksk') /\
               abs_kmap ksk' = filter (fun e => negb (is_marker (snd e))) (abs_kmap ksk).
Proof.
  intros Hn Hr. exists (filter (fun p => negb (marker_z (snd p))) ksk). split; [apply gen_marker_cleanup_loop; exact Hn|].
  clear Hn. unfold abs_kmap. induction ksk as [|[t a] ksk IH]; [reflexivity|].
  inversion Hr as [|? ? Ha Hr']; subst. cbn [map filter fst snd]. rewrite (marker_z_abs a Ha).
  destruct (marker_z a); cbn [negb map fst snd]; rewrite IH by exact Hr'; reflexivity.
Qed.

End Abs.

(* ------------------------------------------------------------------ example (non-vacuity) *)
Definition xk (n flags : N) : T_DNSKEY := mk_T_DNSKEY (mk_T_RR_Header [] 48%N 1%N 3600%N 0%N) flags 3%N 15%N [n].
Definition xenc (m : N * N * list N) : N := match m with (_, _, [n]) => n | _ => 0%N end.
Definition xta (n : N) (state : Z) : T_TrustAnchor := mk_T_TrustAnchor (xk n 257%N) state 0.
Definition xtab : list (N * T_TrustAnchor) :=
  [ (11%N, xta 1%N 2); (12%N, xta 2%N 1); (13%N, xta 3%N 3); (14%N, xta 4%N 4); (15%N, xta 5%N 5) ].
(* Valid and Missing are candidates, AddPend / Revoked / Removed are not; the clean-up drops Revoked and Removed *)
Example map_loops_example :
  map (abs_rr xenc) (snd (snd (go_Resolver_AutoTA_loop6_run xtab []))) = [mk_key 1%N 257%N; mk_key 3%N 257%N] /\
  trusted_keys (abs_kmap xenc (fun z => z) xtab) = [mk_key 1%N 257%N; mk_key 3%N 257%N] /\
  map fst (snd (go_Resolver_AutoTA_loop13_run xtab)) = [11%N; 12%N; 13%N].
Proof. repeat split; reflexivity. Qed.
