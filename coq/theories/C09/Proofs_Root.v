(* C09 — the consumers of the live trust set: Resolver.verifyRootKeys / hasTrustAnchors / the CD=0 query for the
   root DNSKEY RRset (Model.v: verify_root, resolve_root).  What "validation fails closed" and "never published as
   a trust anchor again" mean to a validating query. *)
From Sdns Require Import Common.Base Common.GoList Gen.C09 C09.Model C09.Proofs_Maps C09.Proofs_Rev C09.Proofs_Step
  C09.Proofs_Prov C09.Proofs_Thm C09.Proofs_Hist C09.Proofs_Live.
Open Scope N_scope.

(* translator ties: the flags value verifyRootKeys demands, the gate in answer(), the definition of hasTrustAnchors *)
Lemma gen_root_consumers :
  go_root_key_flags = 257 /\ length go_answer_gate = 1%nat /\
  length go_authority_gate = 1%nat /\ length go_delegation_gate = 1%nat.
Proof. repeat split; reflexivity. Qed.

(* Resolver.hasTrustAnchors, TRANSLATED from the source (srcgen purefunc with dns.RR as a sum type; RLock / RUnlock are
   no-ops: one thread's view): it is the model's has_trust_anchors on the live set, whatever the records are read as *)
Lemma gen_hasTrustAnchors (abs : I_RR -> key) (r : T_Resolver) :
  go_Resolver_hasTrustAnchors r = has_trust_anchors (map abs (T_Resolver_rootKeys r)).
Proof.
  unfold go_Resolver_hasTrustAnchors, has_trust_anchors, go_len.
  destruct (T_Resolver_rootKeys r) as [|x l]; [reflexivity|].
  cbn [map is_nil negb length]. apply Z.ltb_lt. lia.
Qed.

Section Root.
Variable tag : key -> N.

Lemma verify_root_empty keys sigs : verify_root tag [] keys sigs = RVUnavailable.
Proof. reflexivity. Qed.

Lemma resolve_root_empty keys sigs : resolve_root tag [] keys sigs = RUnavailable.
Proof. reflexivity. Qed.

(* an accepted root DNSKEY RRset carries a valid signature made with a live key whose flags are exactly 257 *)
Lemma verify_root_sound live keys sigs :
  keys <> [] -> verify_root tag live keys sigs = RVAccept ->
  exists s k, In s sigs /\ In k live /\ s_ok s = true /\ k_mat k = s_mat s /\ tag k = s_tag s /\
              k_flags k = root_key_flags.
Proof.
  intros Hk. unfold verify_root.
  destruct (root_keys live) as [|k0 ks] eqn:E; [discriminate|].
  destruct keys as [|x xs]; [contradiction|]. cbn [is_nil].
  destruct (verify_with tag (k0 :: ks) sigs) eqn:V; [|discriminate]. intros _.
  unfold verify_with in V. apply existsb_exists in V. destruct V as (s & Hs & Hb).
  unfold sig_by in Hb. apply andb_true_iff in Hb. destruct Hb as (Hok & Hex).
  apply existsb_exists in Hex. destruct Hex as (k & Hkin & Hkb).
  rewrite <- E in Hkin. unfold root_keys in Hkin. apply filter_In in Hkin. destruct Hkin as (Hlive & Hfl).
  apply andb_true_iff in Hkb. destruct Hkb as (Hkb & Hz). apply andb_true_iff in Hkb. destruct Hkb as (Ht & Hm).
  apply N.eqb_eq in Ht. apply N.eqb_eq in Hm. apply N.eqb_eq in Hfl.
  exists s, k. repeat split; assumption.
Qed.

Lemma resolve_root_secure live keys sigs :
  resolve_root tag live keys sigs = RSecure -> verify_root tag live keys sigs = RVAccept /\ live <> [].
Proof.
  unfold resolve_root. destruct live as [|l0 ls]; cbn [is_nil]; [discriminate|].
  destruct (is_nil sigs); [discriminate|].
  destruct (verify_root tag (l0 :: ls) keys sigs); try discriminate. intros _. split; [reflexivity|discriminate].
Qed.

(* the answer to the query is never positive under an empty trust set, and never AD without verifyRootKeys *)
Lemma resolve_root_answered_nonempty live keys sigs :
  resolve_root tag live keys sigs <> RUnavailable -> live <> [].
Proof. unfold resolve_root. destruct live; cbn [is_nil]; [congruence|discriminate]. Qed.

Lemma authenticated_only_by_live_anchor_lemma live keys sigs :
  keys <> [] ->
  verify_root tag live keys sigs = RVAccept \/ resolve_root tag live keys sigs = RSecure ->
  exists s k, In s sigs /\ In k live /\ s_ok s = true /\ k_mat k = s_mat s /\ tag k = s_tag s /\ k_flags k = 257.
Proof.
  intros Hk [H|H].
  - exact (verify_root_sound live keys sigs Hk H).
  - apply resolve_root_secure in H. destruct H as (H & _). exact (verify_root_sound live keys sigs Hk H).
Qed.

(* "validation fails closed": the three fail-closed outcomes of AutoTA (unreadable / corrupt revocation store,
   unreadable state file, both writes of a NEW revocation failed) leave a trust set under which verifyRootKeys
   accepts nothing and the query is refused with "trust anchors unavailable" — for every response *)
Lemma fail_closed_validates_nothing_lemma live cfg d now fe fl :
  (f_tread fl <> TROk \/ f_sread fl = true) \/
  (f_twrite fl = true /\ f_swrite fl = true /\ r_revoked (autota tag live cfg d now fe fl) <> []) ->
  forall keys sigs,
    verify_root tag (r_live (autota tag live cfg d now fe fl)) keys sigs = RVUnavailable /\
    resolve_root tag (r_live (autota tag live cfg d now fe fl)) keys sigs = RUnavailable.
Proof.
  intros H keys sigs.
  assert (E : r_live (autota tag live cfg d now fe fl) = []).
  { destruct H as [H|(Ht & Hs & Hr)].
    - exact (proj1 (unreadable_store_fails_closed_lemma tag live cfg d now fe fl H)).
    - exact (proj1 (dual_write_failure_fails_closed_lemma tag live cfg d now fe fl Ht Hs Hr)). }
  rewrite E. split; reflexivity.
Qed.

(* ... and every other validating query (NXDOMAIN / NODATA through authority(), referrals through
   validateDelegation()) is refused at its gate *)
Lemma fail_closed_refuses_every_query_lemma live cfg d now fe fl :
  (f_tread fl <> TROk \/ f_sread fl = true) \/
  (f_twrite fl = true /\ f_swrite fl = true /\ r_revoked (autota tag live cfg d now fe fl) <> []) ->
  gate (r_live (autota tag live cfg d now fe fl)) = Some RUnavailable /\
  has_trust_anchors (r_live (autota tag live cfg d now fe fl)) = false.
Proof.
  intros H.
  assert (E : r_live (autota tag live cfg d now fe fl) = []).
  { destruct H as [H|(Ht & Hs & Hr)].
    - exact (proj1 (unreadable_store_fails_closed_lemma tag live cfg d now fe fl H)).
    - exact (proj1 (dual_write_failure_fails_closed_lemma tag live cfg d now fe fl Ht Hs Hr)). }
  rewrite E. split; reflexivity.
Qed.

(* the gate and the root-key query agree on what "no trust anchors" means *)
Lemma gate_agrees_with_root_query live :
  (gate live = Some RUnavailable <-> live = []) /\
  (forall keys sigs, gate live = Some RUnavailable -> resolve_root tag live keys sigs = RUnavailable).
Proof.
  unfold gate, has_trust_anchors. destruct live; cbn; split; try split; try congruence; intros; reflexivity.
Qed.

(* "never published as a trust anchor again", at the consumer: once a run accepted the revocation of material m and
   one file replacement landed, then after every later history a root DNSKEY RRset is accepted (verifyRootKeys), or
   answered as authenticated data (CD=0 query), only if it carries a valid signature made with ANOTHER key — the
   revoked key's own signatures never authenticate anything again *)
Lemma revoked_key_never_validates_again_lemma (m : N) (s : sys) now fe fl :
  In m (r_revoked (run_of tag s now fe fl)) ->
  forall s1,
  ((s1 = step tag s (ERun now fe fl) /\ r_writes (run_of tag s now fe fl) <> []) \/
   (exists k cfg' tr sr, s1 = step tag s (ECrash now fe fl k cfg' tr sr) /\ firstn k (r_writes (run_of tag s now fe fl)) <> [])) ->
  forall h keys sigs, keys <> [] ->
    (verify_root tag (s_live (exec tag s1 h)) keys sigs = RVAccept \/
     resolve_root tag (s_live (exec tag s1 h)) keys sigs = RSecure) ->
    exists sg, In sg sigs /\ s_ok sg = true /\ s_mat sg <> m.
Proof.
  intros Hin s1 Hs1 h keys sigs Hk Hacc.
  destruct (authenticated_only_by_live_anchor_lemma _ keys sigs Hk Hacc) as (sg & k & Hsg & Hkl & Hok & Hmat & _).
  exists sg. repeat split; auto. rewrite <- Hmat.
  exact (revocation_never_again_lemma tag m s now fe fl Hin s1 Hs1 h k Hkl).
Qed.

End Root.

(* ------------------------------------------------------------------ examples (non-vacuity) *)
Definition xtag (k : key) : N := k_mat k * 1000 + k_flags k.
Definition kA := mk_key 1 257.
Definition kB := mk_key 2 257.
Definition kB' := mk_key 2 385.
Definition kS := mk_key 1 513.      (* the public key of A filed under another flags value: live, but not a validation key *)

(* accepted: signed by the live anchor A; refused: signed only by a key that is not live, or only by a live key
   whose flags are not 257; unavailable: no live key with flags 257 *)
Example verify_root_accepts :
  verify_root xtag [kA; kB] [kA; kB] [mk_sig (xtag kA) 1 true] = RVAccept /\
  resolve_root xtag [kA; kB] [kA; kB] [mk_sig (xtag kA) 1 true] = RSecure.
Proof. split; reflexivity. Qed.
Example verify_root_refuses_stranger :
  verify_root xtag [kA] [kA; kB] [mk_sig (xtag kB) 2 true] = RVReject /\
  resolve_root xtag [kA] [kA; kB] [mk_sig (xtag kB) 2 true] = RBogus.
Proof. split; reflexivity. Qed.
Example verify_root_refuses_sibling_flags :
  verify_root xtag [kA; kS] [kA; kS] [mk_sig (xtag kS) 1 true] = RVReject /\
  verify_root xtag [kS] [kA; kS] [mk_sig (xtag kS) 1 true] = RVUnavailable.
Proof. split; reflexivity. Qed.
Example unsigned_root_keys_are_insecure_not_authentic :
  resolve_root xtag [kA] [kA; kB] [] = RInsecure /\ verify_root xtag [kA] [kA; kB] [] = RVReject.
Proof. split; reflexivity. Qed.

(* the premises of revoked_key_never_validates_again are satisfiable and its conclusion bites: A and B configured,
   B' self-signed and co-signed by A is accepted; afterwards a response signed only with B's key is refused, one
   co-signed by A is accepted *)
Definition xs0 : sys := mk_sys [kA; kB] [kA; kB] (mk_disk None None).
Definition xfe : fetch := FResp [kA; kB'] [mk_sig (xtag kA) 1 true; mk_sig (xtag kB') 2 true].
Example revocation_then_validation :
  In 2 (r_revoked (run_of xtag xs0 0%Z xfe no_faults)) /\
  r_writes (run_of xtag xs0 0%Z xfe no_faults) <> [] /\
  let s1 := step xtag xs0 (ERun 0%Z xfe no_faults) in
  s_live s1 = [kA] /\
  verify_root xtag (s_live s1) [kA; kB'] [mk_sig (xtag kB') 2 true] = RVReject /\
  verify_root xtag (s_live s1) [kA; kB] [mk_sig (xtag kB) 2 true] = RVReject /\
  verify_root xtag (s_live s1) [kA; kB'] [mk_sig (xtag kA) 1 true; mk_sig (xtag kB') 2 true] = RVAccept.
Proof. vm_compute. repeat split; try (left; reflexivity); discriminate. Qed.

(* fail closed, end to end: the same revocation while both writes fail *)
Example dual_failure_then_validation :
  let r := autota xtag [kA; kB] [kA; kB] (mk_disk None None) 0%Z xfe (mk_faults false TROk true true) in
  r_revoked r <> [] /\ r_live r = [] /\
  resolve_root xtag (r_live r) [kA; kB'] [mk_sig (xtag kA) 1 true] = RUnavailable.
Proof. vm_compute. repeat split; discriminate. Qed.
