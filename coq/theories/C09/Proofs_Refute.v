(* C09 — computed witnesses: where the faithful model violates the full-strength
   statements.  Each witness is replayed on the Go code by the driver (kinds
   window-*, unreadable, sreadloss, collide, carry) and listed in KNOWN_FINDINGS.txt. *)
From Sdns Require Import Common.Base Gen.C09 C09.Model.
Open Scope N_scope.

(* an injective tag function with tag(revoked k) = tag k + 128 *)
Definition tag_inj (k : key) : N := k_mat k * 1000 + N.land (k_flags k) 128.
(* materials 2 and 3 collide; tag(revoked k) = tag k + 128 *)
Definition tag_coll (k : key) : N := (match k_mat k with 2 | 3 => 7 | x => x end) * 1000 + N.land (k_flags k) 128.
(* material 1 "carries": its revoked form has tag + 129 (RFC 4034 App. B checksum fold) *)
Definition tag_carry (k : key) : N := k_mat k * 1000 + (if N.land (k_flags k) 128 =? 0 then 0 else if k_mat k =? 1 then 129 else 128).

Definition kA := mk_key 1 257.  Definition kA' := mk_key 1 385.
Definition kB := mk_key 2 257.  Definition kC := mk_key 3 257.
Definition sg (tag : key -> N) (k : key) : sig := mk_sig (tag k) (k_mat k) true.
Definition empty_disk := mk_disk None None.
Definition day : Z := 1440%Z.

(* start: configuration [A; B], fresh directory; first refresh makes both Valid on disk *)
Definition s0 (tag : key -> N) : sys :=
  step tag (mk_sys [kA; kB] [kA; kB] empty_disk) (ERun 0 (FResp [kA; kB] [sg tag kA; sg tag kB]) no_faults).
(* the root revokes A: A' self-signed, B co-signs *)
Definition rev_fetch (tag : key -> N) : fetch := FResp [kA'; kB] [sg tag kA'; sg tag kB].
Definition plain_fetch (tag : key -> N) : fetch := FResp [kB] [sg tag kB].

(* F2 — restart window: the revocation of A was accepted and BOTH files landed; after a
   restart with the unchanged configuration A is a live trust anchor again (until AutoTA runs) *)
Lemma revocation_permanent_refuted_restart_window :
  exists tag s now fe fl h key,
    In 1 (r_revoked (run_of tag s now fe fl)) /\ length (r_writes (run_of tag s now fe fl)) = 2%nat /\
    In key (s_live (exec tag (step tag s (ERun now fe fl)) h)) /\ k_mat key = 1.
Proof.
  exists tag_inj, (s0 tag_inj), 10%Z, (rev_fetch tag_inj), no_faults, [ERestart [kA; kB]], kA.
  vm_compute. repeat split; auto.
Qed.

(* the same run; later the tombstone file cannot be opened (not ENOENT, not a decode error):
   a COMPLETED run publishes A again *)
Lemma revocation_permanent_refuted_unreadable_tombstones :
  exists tag s now fe fl now' fe' fl' key,
    In 1 (r_revoked (run_of tag s now fe fl)) /\ length (r_writes (run_of tag s now fe fl)) = 2%nat /\
    f_tread fl' = TRUnreadable /\
    In key (s_live (exec tag (step tag s (ERun now fe fl)) [ERun now' fe' fl'])) /\ k_mat key = 1.
Proof.
  exists tag_inj, (s0 tag_inj), 10%Z, (rev_fetch tag_inj), no_faults, 20%Z, FErr, (mk_faults false TRUnreadable false false), kA.
  vm_compute. repeat split; auto.
Qed.

(* ... and when that run's fetch succeeds, the tombstone is overwritten: A stays trusted for good *)
Lemma revocation_lost_after_unreadable_tombstones :
  exists tag s now fe fl now' fe' fl' key,
    In 1 (r_revoked (run_of tag s now fe fl)) /\
    f_tread fl' = TRUnreadable /\
    let s2 := exec tag (step tag s (ERun now fe fl)) [ERun now' fe' fl'; ERun (now' + 1)%Z fe' no_faults] in
    In key (s_live s2) /\ k_mat key = 1 /\ d_tomb (s_disk s2) = Some [].
Proof.
  exists tag_inj, (s0 tag_inj), 10%Z, (rev_fetch tag_inj), no_faults, 20%Z, (plain_fetch tag_inj), (mk_faults false TRUnreadable false false), kA.
  vm_compute. repeat split; auto.
Qed.

(* the tombstone write failed, the StateRevoked marker landed (one record persisted); the next
   run cannot read the state file: A comes back from the configuration and the marker is overwritten *)
Lemma revocation_permanent_refuted_state_read_fault :
  exists tag s now fe fl now' fe' fl' key,
    In 1 (r_revoked (run_of tag s now fe fl)) /\ length (r_writes (run_of tag s now fe fl)) = 1%nat /\
    f_sread fl' = true /\ f_tread fl' = TROk /\
    let s2 := exec tag (step tag s (ERun now fe fl)) [ERun now' fe' fl'; ERun (now' + 1)%Z fe' no_faults] in
    In key (s_live s2) /\ k_mat key = 1.
Proof.
  exists tag_inj, (s0 tag_inj), 10%Z, (rev_fetch tag_inj), (mk_faults false TROk true false),
         20%Z, (plain_fetch tag_inj), (mk_faults true TROk false false), kA.
  vm_compute. repeat split; auto.
Qed.

(* F4 — presence is tested by key tag: B (material 2) is seen once, then replaced by the
   colliding key C (material 3); B ages to Valid without being present in the accepted refreshes *)
Definition fetch_with (tag : key -> N) (k : key) : fetch := FResp [kA; k] [sg tag kA].
Definition coll_history : list event :=
  [ ERun 0 (FResp [kA] [sg tag_coll kA]) no_faults;
    ERun 0 (fetch_with tag_coll kB) no_faults;
    ERun (10 * day) (fetch_with tag_coll kC) no_faults;
    ERun (31 * day) (fetch_with tag_coll kC) no_faults ].
Definition contains_mat (m : N) (e : event) : bool :=
  match e with ERun _ (FResp keys _) _ => existsb (fun k => k_mat k =? m) keys | _ => false end.

Lemma new_key_needs_30d_refuted :
  exists tag cfg h key,
    let s := exec tag (mk_sys cfg cfg empty_disk) h in
    (* every event is a complete, fault-free run fully authenticated by the configured anchor *)
    forallb (fun e => match e with ERun _ (FResp _ sigs) fl => existsb (fun g => s_ok g && (s_mat g =? 1)) sigs | _ => false end) h = true /\
    ~ In key cfg /\ In key (s_live s) /\
    (* the key's material was in exactly one of the four accepted refreshes *)
    length (filter (contains_mat (k_mat key)) h) = 1%nat /\ length h = 4%nat.
Proof.
  exists tag_coll, [kA], coll_history, kB. vm_compute. repeat split; auto.
  intros [H|[]]. discriminate.
Qed.

(* with an injective tag the same publications abort the add hold-down *)
Example new_key_collision_needed :
  let s := exec tag_inj (mk_sys [kA] [kA] empty_disk)
             [ ERun 0 (FResp [kA] [sg tag_inj kA]) no_faults; ERun 0 (fetch_with tag_inj kB) no_faults;
               ERun (10 * day) (fetch_with tag_inj kC) no_faults; ERun (31 * day) (fetch_with tag_inj kC) no_faults ] in
  s_live s = [kA].
Proof. vm_compute. reflexivity. Qed.

(* the revoked form's tag is tag + 129: the `tag - 0x80` lookups miss the anchor, the valid,
   self-signed, co-signed revocation is ignored and A stays in the trust set *)
Lemma revocation_ignored_when_tag_carries :
  exists tag s now fe,
    (forall k, tag (mk_key (k_mat k) (N.lor (k_flags k) 128)) = tag k + 128 \/ tag (mk_key (k_mat k) (N.lor (k_flags k) 128)) = tag k + 129 \/ N.land (k_flags k) 128 <> 0) /\
    let r := run_of tag s now fe no_faults in
    r_out r = OSuccess /\ r_revoked r = [] /\ In kA (r_live r).
Proof.
  exists tag_carry, (s0 tag_carry), 10%Z, (rev_fetch tag_carry). split.
  - intros [m f]. unfold tag_carry. cbn [k_mat k_flags].
    destruct (N.land f 128 =? 0) eqn:E.
    + assert (H : N.land (N.lor f 128) 128 =? 0 = false).
      { apply N.eqb_neq. intros H. apply (f_equal (fun x => N.testbit x 7)) in H.
        rewrite N.land_spec, N.lor_spec in H. cbn in H. rewrite orb_true_r in H. discriminate. }
      rewrite H. destruct (m =? 1); [right; left|left]; lia.
    + right. right. apply N.eqb_neq. exact E.
  - vm_compute. repeat split; auto.
Qed.

(* satisfiability of the premises of revocation_permanent_partial: the accepting run exists *)
Example accepting_run_exists :
  In 1 (r_revoked (run_of tag_inj (s0 tag_inj) 10%Z (rev_fetch tag_inj) no_faults)) /\
  r_live (run_of tag_inj (s0 tag_inj) 10%Z (rev_fetch tag_inj) no_faults) = [kB].
Proof. vm_compute. auto. Qed.
