(* C09 — computed examples on the model of the REPAIRED code (1f61a03, 4ce6577): the scenarios of the
   seven repaired defects now behave as the property demands. *)
From Sdns Require Import Common.Base Gen.C09 C09.Model.
Open Scope N_scope.

(* an injective tag function with tag(revoked k) = tag k + 128 *)
Definition tag_inj (k : key) : N := k_mat k * 1000 + N.land (k_flags k) 128.
(* materials 2 and 3 collide; tag(revoked k) = tag k + 128 *)
Definition tag_coll (k : key) : N := (match k_mat k with 2 | 3 => 7 | x => x end) * 1000 + N.land (k_flags k) 128.
(* material 1 "carries": its revoked form has tag + 129 (RFC 4034 App. B checksum fold) *)
Definition tag_carry (k : key) : N := k_mat k * 1000 + (if N.land (k_flags k) 128 =? 0 then 0 else if k_mat k =? 1 then 129 else 128).

Definition kA := mk_key 1 257.  Definition kA' := mk_key 1 385.
Definition kB := mk_key 2 257.  Definition kC := mk_key 3 257.
Definition sg (tag : key -> N) (k : key) : sig := mk_sig (tag k) (k_mat k) true.
Definition empty_disk := mk_disk None None.
Definition day : Z := 1440%Z.

(* start: configuration [A; B], fresh directory; first refresh makes both Valid on disk *)
Definition s0 (tag : key -> N) : sys :=
  step tag (mk_sys [kA; kB] [kA; kB] empty_disk) (ERun 0 (FResp [kA; kB] [sg tag kA; sg tag kB]) no_faults).
(* the root revokes A: A' self-signed, B co-signs *)
Definition rev_fetch (tag : key -> N) : fetch := FResp [kA'; kB] [sg tag kA'; sg tag kB].
Definition plain_fetch (tag : key -> N) : fetch := FResp [kB] [sg tag kB].

(* the former residual (repaired by 4ce6577): the tombstone write failed, the state file landed with
   the StateRevoked marker; NewResolver now honours the marker, A is not live after the restart *)
Example marker_only_window_closed :
  let s1 := step tag_inj (s0 tag_inj) (ERun 10%Z (rev_fetch tag_inj) (mk_faults false TROk true false)) in
  d_tomb (s_disk s1) = Some [] /\
  s_live (step tag_inj s1 (ERestart [kA; kB] TROk false)) = [kB] /\
  s_live (step tag_inj s1 (ERestart [kA; kB] TROk true)) = [].
Proof. vm_compute. repeat split; reflexivity. Qed.

(* F2 repaired: both files landed; a restart with the stale configuration does not trust A *)
Example restart_window_closed :
  let s1 := step tag_inj (s0 tag_inj) (ERun 10%Z (rev_fetch tag_inj) no_faults) in
  s_live (step tag_inj s1 (ERestart [kA; kB] TROk false)) = [kB] /\
  s_live (step tag_inj s1 (ERestart [kA; kB] TRUnreadable false)) = [].
Proof. vm_compute. auto. Qed.

(* unreadable tombstones / unreadable state file now fail closed and lose nothing *)
Example unreadable_stores_fail_closed :
  let s1 := step tag_inj (s0 tag_inj) (ERun 10%Z (rev_fetch tag_inj) (mk_faults false TROk true false)) in   (* marker only *)
  let s2 := step tag_inj s1 (ERun 20%Z (plain_fetch tag_inj) (mk_faults true TROk false false)) in           (* state unreadable *)
  let s3 := step tag_inj s2 (ERun 21%Z (plain_fetch tag_inj) (mk_faults false TRUnreadable false false)) in  (* tombstones unreadable *)
  let s4 := step tag_inj s3 (ERun 22%Z (plain_fetch tag_inj) no_faults) in
  s_live s2 = [] /\ s_disk s2 = s_disk s1 /\ s_live s3 = [] /\ s_disk s3 = s_disk s1 /\
  s_live s4 = [kB] /\ d_tomb (s_disk s4) = Some [(1, mk_tomb kA 10%Z)].
Proof. vm_compute. repeat split; reflexivity. Qed.

(* F4 repaired: presence is by material — under the colliding tag function B (seen once, then
   replaced by the colliding C) is dropped from the add hold-down instead of ageing to Valid *)
Definition fetch_with (tag : key -> N) (k : key) : fetch := FResp [kA; k] [sg tag kA].
Definition coll_history : list event :=
  [ ERun 0 (FResp [kA] [sg tag_coll kA]) no_faults;
    ERun 0 (fetch_with tag_coll kB) no_faults;
    ERun (10 * day) (fetch_with tag_coll kC) no_faults;
    ERun (31 * day) (fetch_with tag_coll kC) no_faults ].
Example collision_aborts_hold_down :
  s_live (exec tag_coll (mk_sys [kA] [kA] empty_disk) coll_history) = [kA].
Proof. vm_compute. reflexivity. Qed.

(* carry repaired: the revoked form's tag is tag + 129 and the revocation is accepted all the same *)
Example revocation_accepted_when_tag_carries :
  let r := run_of tag_carry (s0 tag_carry) 10%Z (rev_fetch tag_carry) no_faults in
  tag_carry kA' = tag_carry kA + 129 /\ r_revoked r = [1] /\ r_live r = [kB].
Proof. vm_compute. auto. Qed.

(* configured REVOKE-flagged form: the Valid state entry leaves the trust set in the same run *)
Example configured_revoked_form_applies_at_once :
  let s1 := step tag_inj (s0 tag_inj) (ERestart [kA'; kB] TROk false) in
  s_live s1 = [kB] /\ s_live (step tag_inj s1 (ERun 10%Z FErr no_faults)) = [kB].
Proof. vm_compute. auto. Qed.

(* satisfiability of the premises of revocation_permanent: the accepting run exists *)
Example accepting_run_exists :
  In 1 (r_revoked (run_of tag_inj (s0 tag_inj) 10%Z (rev_fetch tag_inj) no_faults)) /\
  r_live (run_of tag_inj (s0 tag_inj) 10%Z (rev_fetch tag_inj) no_faults) = [kB].
Proof. vm_compute. auto. Qed.

(* repaired by 3c40407 (finalRootKeys skips tombstoned material).  The same public key configured and
   published under two flags values (257 and 1) gives two anchor-table entries of one key material under
   two tags.  Revoking the 257 form tombstones the material; the run that accepts the revocation no longer
   publishes the flags-1 sibling (before the fix it did, for that one run: finding
   one-public-key-under-two-flags-values-survives-its-revocation-for-one-run, driver kind dualflags,
   corpus/C09/09-dualflags.json).  The sibling's state entry is still written by that run — every reader
   applies tombstone precedence — and the next run deletes it. *)
Definition tag_fl (k : key) : N := k_mat k * 1000 + k_flags k.
Definition kA1 := mk_key 1 1.
Definition dual0 : sys :=
  step tag_fl (mk_sys [kA; kA1; kB] [kA; kA1; kB] empty_disk) (ERun 0 (FResp [kA; kA1; kB] [sg tag_fl kA; sg tag_fl kB]) no_faults).
Definition dual_rev : fetch := FResp [kA'; kA1; kB] [sg tag_fl kA'; sg tag_fl kB].
Example dualflags_sibling_withheld :
  let r := run_of tag_fl dual0 10%Z dual_rev no_faults in
  let s1 := step tag_fl dual0 (ERun 10%Z dual_rev no_faults) in
  let s2 := step tag_fl s1 (ERun 11%Z dual_rev no_faults) in
  s_live dual0 = [kB; kA1; kA] /\ r_revoked r = [1] /\ r_live r = [kB] /\
  (* what the old publication rule (all Valid|Missing entries of the written table) would have published *)
  trusted_keys (match d_state (s_disk s1) with Some s => s | None => [] end) = [kB; kA1] /\
  d_state (s_disk s2) = Some [(tag_fl kB, mk_ta kB SValid 0%Z)] /\ s_live s2 = [kB].
Proof. vm_compute. repeat split; reflexivity. Qed.
