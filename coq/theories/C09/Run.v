(* C09 — correspondence: case type and the two checkers evaluated with
   vm_compute on the histories the Go driver recorded against the real
   Resolver.AutoTA / NewResolver.

   check_case: for every step of a recorded history, the model started from
               the OBSERVED pre-state computes the observed post-state
               (live set, decoded state file, decoded tombstone file, refresh
               counter, taRevoked delta, order of file replacements), and for a
               crash the model's prefix of the tail equals the composed disk.
   spec_case : the observed history satisfies the property's specification,
               judged from the inputs and the observations only (it never
               calls [autota]). *)
From Sdns Require Export Common.Base Gen.C09 C09.Model C09.ModelFs.
Open Scope N_scope.

(* ------------------------------------------------------------ case syntax *)
Record obs := O { o_live : list key; o_state : option kmap; o_tomb : option tmap }.

Inductive ostep :=
  (* a complete AutoTA run: clock, scripted response, injected faults; then what
     was observed: state, refresh counter (0 success, 1 query/timeout, 2 validation,
     3 persistence, 4 work budget), taRevoked delta, files replaced in order
     (0 = tombstones, 1 = state) *)
| ORun (now : Z) (fe : fetch) (fl : faults) (post : obs) (out : N) (nrev : N) (renames : list N)
  (* the process died after [k] of the previous run's replacements; restarted with [cfg'] *)
| ORollback (k : nat) (cfg' : list key) (post : obs)
  (* NewResolver on the same directory with config [cfg']; [tr] = how the tombstone file read at
     start-up (0 ok, 1 corrupt, 2 unreadable) *)
| ORestart (cfg' : list key) (tr : N) (sr : bool) (post : obs)
  (* what a watcher of the state directory (inotify) saw during the run just recorded, temp files only plus the
     replacements of the two named files, consecutive repeats collapsed: 10c+k, c = 0 tombstones / 1 state,
     k = 1 temp created, 2 written, 3 closed after writing, 4 moved away, 5 named file replaced, 6 temp deleted *)
| OFs (evs : list N).

Inductive case :=
  (* key table (material, flags, tag); initial config; observation after NewResolver; steps *)
| CHist (tbl : list (N * N * N)) (cfg : list key) (init : obs) (steps : list ostep)
| CCheck (tbl : list (N * N * N)) (cfg : list key) (init : obs) (steps : list ostep)   (* correspondence only *)
| CSpec (tbl : list (N * N * N)) (cfg : list key) (init : obs) (steps : list ostep)    (* specification only *)
  (* restart window: config, decoded disk, how the tombstone file read, rootKeys right after NewResolver *)
| CWindow (tbl : list (N * N * N)) (cfg : list key) (d : obs) (tr : N) (sr : bool) (live : list key)
  (* dnssec.KeyTag observed on a real DNSKEY: flags, protocol, algorithm, decoded public key octets, tag *)
| CTag (flags proto alg : N) (material : list N) (tag : N)
  (* validation under a live trust set: key table, Resolver.rootKeys, a root DNSKEY response; what
     Resolver.verifyRootKeys said (0 accepted, 1 ErrTrustAnchorsUnavailable, 2 refused otherwise) and what
     Resolver.Resolve(., DNSKEY, CD=0) did against the scripted root serving that response (0 answered with AD,
     4 answered without AD, 1 ErrTrustAnchorsUnavailable, 2 another error, 3 not observed) *)
| CRootV (tbl : list (N * N * N)) (live : list key) (fe : fetch) (direct via : N)
  (* a validating query of another kind (1 NXDOMAIN + SOA, 2 NODATA + SOA, 4 bare NXDOMAIN, 5 bare NOERROR:
     authority(); 3 referral: validateDelegation()) through Resolver.Resolve under the trust set [live]; [via] as
     in CRootV *)
| CGate (live : list key) (kind via : N).

(* short constructors for the driver *)
Definition K (m f : N) : key := mk_key m f.
Definition st_of_code (c : N) : st :=
  match c with 0 => SStart | 1 => SAddPend | 2 => SValid | 3 => SMissing | 4 => SRevoked | _ => SRemoved end.
Definition E (t m f c : N) (fs : Z) : N * ta := (t, mk_ta (mk_key m f) (st_of_code c) fs).
Definition TB (m f : N) (fs : Z) : N * tomb := (m, mk_tomb (mk_key m f) fs).
Definition G (t m : N) (ok : bool) : sig := mk_sig t m ok.
Definition FR := FResp.
Definition tread_of_code (c : N) : tread := match c with 0 => TROk | 1 => TRCorrupt | _ => TRUnreadable end.
Definition F (sread : bool) (tr : N) (twrite swrite : bool) : faults := mk_faults sread (tread_of_code tr) twrite swrite.

Definition tag_of (tbl : list (N * N * N)) (k : key) : N :=
  match find (fun e => (fst (fst e) =? k_mat k) && (snd (fst e) =? k_flags k)) tbl with
  | Some e => snd e
  | None => 0
  end.

(* ------------------------------------------------------------ comparisons *)
Definition ta_eqb (a b : ta) : bool := key_eqb (ta_key a) (ta_key b) && st_eqb (ta_st a) (ta_st b) && (ta_fs a =? ta_fs b)%Z.
Definition tomb_eqb (a b : tomb) : bool := key_eqb (tb_key a) (tb_key b) && (tb_fs a =? tb_fs b)%Z.
Definition sub_map {A} (eqb : A -> A -> bool) (a b : list (N * A)) : bool :=
  forallb (fun e => match lookup (fst e) b with Some v => eqb (snd e) v | None => false end) a.
Definition map_eqb {A} (eqb : A -> A -> bool) (a b : list (N * A)) : bool :=
  (length a =? length b)%nat && sub_map eqb a b && sub_map eqb b a.
Definition omap_eqb {A} (eqb : A -> A -> bool) (a b : option (list (N * A))) : bool :=
  match a, b with
  | None, None => true
  | Some x, Some y => map_eqb eqb x y
  | _, _ => false
  end.
Definition key_in (k : key) (l : list key) : bool := existsb (key_eqb k) l.
Definition keys_sub (a b : list key) : bool := forallb (fun k => key_in k b) a.
Definition keys_eqb (a b : list key) : bool := (length a =? length b)%nat && keys_sub a b && keys_sub b a.
Definition disk_eqb (d : disk) (o : obs) : bool :=
  omap_eqb ta_eqb (d_state d) (o_state o) && omap_eqb tomb_eqb (d_tomb d) (o_tomb o).
Definition out_code (o : outcome) : N :=
  match o with OSuccess => 0 | OQuery => 1 | OValidation => 2 | OPersistence => 3 end.
Definition wfile_code (w : wfile) : N := match w with WTomb _ => 0 | WState _ => 1 end.
Fixpoint list_eqb (a b : list N) : bool :=
  match a, b with
  | [], [] => true
  | x :: xs, y :: ys => (x =? y) && list_eqb xs ys
  | _, _ => false
  end.
Definition disk_of (o : obs) : disk := mk_disk (o_state o) (o_tomb o).

(* ------------------------------------------------------------ check_case *)
Fixpoint check_steps (tag : key -> N) (live cfg : list key) (d : disk)
         (prev : option (disk * result * (unit -> list N))) (steps : list ostep) : bool :=
  match steps with
  | [] => true
  | ORun now fe fl post out nrev renames :: rest =>
      (* a run that ended on the request-tree work budget (counter 4; the three places it can happen
         are before any mutation) is a failed fetch for the model *)
      let budget := out =? 4 in
      let r := autota tag live cfg d now (if budget then FErr else fe) fl in
      (* the file-system operations of this run as a directory watcher sees them (ModelFs.v); the write faults the
         driver injects make the RENAME fail (a directory stands where the file should go) *)
      let exp := fun _ : unit =>
        obs_events (autota_ops tag live cfg d now (if budget then FErr else fe) fl
                      (if f_twrite fl then FailRename else NoFail) (if f_swrite fl then FailRename else NoFail)) in
      keys_eqb (r_live r) (o_live post) && disk_eqb (r_disk r) post &&
      (budget && (out_code (r_out r) =? 1) || (out_code (r_out r) =? out)) && (r_nrev r =? nrev) && list_eqb (map wfile_code (r_writes r)) renames &&
      check_steps tag (o_live post) cfg (disk_of post) (Some (d, r, exp)) rest
  | OFs evs :: rest =>
      match prev with
      | None => false
      | Some (_, _, exp) => list_eqb (exp tt) evs && check_steps tag live cfg d prev rest
      end
  | ORollback k cfg' post :: rest =>
      match prev with
      | None => false
      | Some (d0, r, _) =>
          disk_eqb (apply_writes d0 (firstn k (r_writes r))) post &&
          keys_eqb (restart_live cfg' (disk_of post) TROk false) (o_live post) &&
          check_steps tag (o_live post) cfg' (disk_of post) None rest
      end
  | ORestart cfg' tr sr post :: rest =>
      disk_eqb d post && keys_eqb (restart_live cfg' d (tread_of_code tr) sr) (o_live post) &&
      check_steps tag (o_live post) cfg' (disk_of post) None rest
  end.

Definition check_hist (tbl : list (N * N * N)) (cfg : list key) (init : obs) (steps : list ostep) : bool :=
  keys_eqb (restart_live cfg (disk_of init) TROk false) (o_live init) &&
  check_steps (tag_of tbl) (o_live init) cfg (disk_of init) None steps.

(* -------------------------------------------------------------- spec_case *)
(* The specification for the persistence steps, judged from the watcher's event list alone ("atomic file replacement",
   "tombstone first"): each named file is replaced only by moving a temp file into place that was created, written
   and closed before, in that order (never written in place, never a half-written file); a temp file that is not
   moved into place is deleted before the run ends; at most one attempt per file and run; everything about the
   tombstone file happens before anything about the state file; and the replacements seen are the ones the run is
   recorded with. *)
Definition lifecycle_ok (l : list N) : bool :=
  list_eqb l [] || list_eqb l [1; 2; 3; 4; 5] || list_eqb l [1; 6] || list_eqb l [1; 3; 6] || list_eqb l [1; 2; 6] ||
  list_eqb l [1; 2; 3; 6].
Definition spec_events (evs renames : list N) : bool :=
  let tomb := filter (fun e => e <? 10) evs in
  let state := map (fun e => e - 10) (filter (fun e => 10 <=? e) evs) in
  list_eqb evs (tomb ++ map (fun e => e + 10) state) &&
  lifecycle_ok tomb && lifecycle_ok state &&
  list_eqb renames ((if existsb (N.eqb 5) tomb then [0] else []) ++ (if existsb (N.eqb 5) state then [1] else [])).

(* All judgements below are made from the scripted inputs and the observed
   states; [autota] is not used. *)
Section Spec.
Variable tag : key -> N.

(* the specification's own hold-down timers (RFC 5011: 30 days, 90 days), in minutes —
   deliberately NOT the constants read from the source *)
Definition spec_hold_add : Z := (30 * 24 * 60)%Z.
Definition spec_hold_rem : Z := (90 * 24 * 60)%Z.

Definition memN (x : N) (l : list N) : bool := existsb (N.eqb x) l.
Definition mats (l : list key) : list N := map k_mat l.
Definition kmap_mats (s : option kmap) : list N := match s with Some m => map (fun e => ta_mat (snd e)) m | None => [] end.
Definition tomb_mats (t : option tmap) : list N := match t with Some m => map fst m | None => [] end.
Definition marker_mats (s : option kmap) : list N :=
  match s with Some m => map (fun e => ta_mat (snd e)) (filter (fun e => is_marker (snd e)) m) | None => [] end.
(* materials recorded as revoked on this disk *)
Definition recorded (o : obs) : list N := tomb_mats (o_tomb o) ++ marker_mats (o_state o).

(* keys the resolver treats as trust anchors when a run starts: Valid|Missing in
   the state file (or the live set when there is no readable state file), plus
   the configured keys; never REVOKE-flagged, never recorded as revoked *)
(* The anchor table holds ONE key per key tag (TrustAnchors is keyed by tag): when the state file is
   absent the live keys are seeded in order, a later key with the same tag replacing an earlier one;
   a configured key is merged only when its tag is free (so an AddPend entry of the same key keeps it
   pending, and a configured key whose tag is taken is not an anchor). *)
Definition trusted_pre (cfg : list key) (pre : obs) (fl : faults) : list key :=
  let dead := (match f_tread fl with TRUnreadable => [] | _ => tomb_mats (o_tomb pre) end)
              ++ (if f_sread fl then [] else marker_mats (o_state pre))
              ++ mats (filter (fun k => is_ksk k && is_rev k) cfg) in
  let seeded := fold_left (fun acc k => if is_ksk k then k :: filter (fun k2 => negb (tag k2 =? tag k)) acc else acc) (o_live pre) [] in
  let base := match (if f_sread fl then None else o_state pre) with
              | Some s => trusted_keys s
              | None => seeded
              end in
  let occupied := match (if f_sread fl then None else o_state pre) with
                  (* tombstone precedence frees the tag of a non-marker entry whose material is dead *)
                  | Some s => map fst (filter (fun e => is_marker (snd e) || negb (memN (ta_mat (snd e)) dead)) s)
                  | None => map tag (filter (fun k => is_rev k || negb (memN (k_mat k) dead)) seeded)
                  end in
  let merged := fold_left (fun acc k =>
                             if is_ksk k && negb (memN (tag k) (fst acc)) && negb (memN (k_mat k) dead)
                             then (tag k :: fst acc, if is_rev k then snd acc else k :: snd acc) else acc)
                          cfg (occupied, []) in
  filter (fun k => is_ksk k && negb (is_rev k) && negb (memN (k_mat k) dead)) (base ++ snd merged).

(* another fetched KSK with the same key tag: the code keeps one fetched key per tag (kskFetched), so a
   shadowed key is invisible to it in that run — a loss of information in the safe direction that the
   property does not speak about *)
Definition shadowed (keys : list key) (k : key) : bool :=
  existsb (fun k2 => is_ksk k2 && negb (key_eqb k2 k) && (tag k2 =? tag k)) keys.

Definition sig_made_by (k : key) (s : sig) : bool :=
  s_ok s && (s_mat s =? k_mat k) && (s_tag s =? tag k) && is_zone k.
(* fully authenticated: a valid RRSIG by a trusted, non-revoked anchor *)
Definition full_auth (T : list key) (sigs : list sig) : bool :=
  existsb (fun s => existsb (fun k => sig_made_by k s) T) sigs.
(* valid self-signed revocations of trusted anchors presented in this response:
   the trusted (non-revoked) forms *)
Definition revocations (T keys : list key) (sigs : list sig) : list key :=
  filter (fun k => existsb (fun k' => is_rev k' && same_except_revoke k k' && negb (shadowed keys k') && existsb (sig_made_by k') sigs) keys) T.

(* revocations that MAY be applied: the same without the shadowing condition (when two fetched KSKs share a
   tag the code sees one of them — which one is its business; a self-signed revoked form that it does see
   is a legitimate revocation) *)
Definition revocations_may (T keys : list key) (sigs : list sig) : list key :=
  filter (fun k => existsb (fun k' => is_rev k' && same_except_revoke k k' && existsb (sig_made_by k') sigs) keys) T.

Record sstate := mk_ss {
  ss_cfg : list key;
  ss_record : list N;          (* materials that were anchors of record (configured / initially trusted) *)
  ss_streak : list (N * Z);    (* material -> start of its current presence streak in recorded accepted refreshes *)
  ss_prom : list N;            (* materials that completed the add hold-down *)
  ss_rev : list N;             (* materials with an accepted and durably recorded revocation *)
  ss_rev_before : list N;      (* the same before the last run *)
  ss_rev_run : list N;         (* revocations accepted in the last run *)
  ss_absent : list (N * Z);    (* trusted material -> start of its current absence streak *)
  ss_streak_before : list (N * Z);   (* the two streak tables before the last run, and its replacements: *)
  ss_absent_before : list (N * Z);   (* a crash that cuts the run before the state file landed undoes them *)
  ss_renames : list N
}.

Definition zlookup (m : N) (l : list (N * Z)) : option Z := lookup m l.

(* one run judged against the specification; returns (ok, new tracking state) *)
Definition spec_run (ss : sstate) (pre : obs) (now : Z) (fe0 : fetch) (fl : faults)
           (post : obs) (out : N) (renames : list N) : bool * sstate :=
  (* work budget exhausted: must behave as a failed fetch (nothing changes) *)
  let fe := if out =? 4 then FErr else fe0 in
  let cfg := ss_cfg ss in
  let T := trusted_pre cfg pre fl in
  let old_mats := mats (o_live pre) ++ kmap_mats (o_state pre) ++ mats cfg in
  let state_recorded := memN 1 renames in
  (* the tracking state after a run that changes nothing: "before the last run" is now, and the replacements it is
     recorded with (none, if it behaved) are noted for a following rollback / watcher step *)
  let ss0 := mk_ss (ss_cfg ss) (ss_record ss) (ss_streak ss) (ss_prom ss) (ss_rev ss) (ss_rev ss) []
                   (ss_absent ss) (ss_streak ss) (ss_absent ss) renames in
  match f_tread fl with
  | TRCorrupt =>
      (* corrupt revocation store: fail closed, nothing written *)
      (is_nil (o_live post) && disk_eqb (disk_of pre) post, ss0)
  | tr =>
    let unreadable_ok := match tr with TRUnreadable => is_nil (o_live post) | _ => true end in
    (* an unreadable state or tombstone file: failing closed (empty trust set, nothing written) is always acceptable *)
    if (f_sread fl || match tr with TRUnreadable => true | _ => false end)
       && is_nil (o_live post) && disk_eqb (disk_of pre) post then (true, ss0) else
    match fe with
    | FErr =>
        (unreadable_ok && disk_eqb (disk_of pre) post && forallb (fun k => memN (k_mat k) old_mats) (o_live post)
         && (negb (is_nil (o_live pre)) || is_nil (o_live post))
         && forallb (fun k => negb (memN (k_mat k) (ss_rev ss))) (o_live post), ss0)
    | FResp keys sigs =>
      let fa := full_auth T sigs in
      let revs := revocations T keys sigs in
      if negb fa && is_nil revs then
        (* S1: no trusted key authenticates the response: nothing changes (disk untouched, no key
           material enters the live set, a fail-closed empty set stays empty) *)
        (unreadable_ok && disk_eqb (disk_of pre) post && forallb (fun k => memN (k_mat k) old_mats) (o_live post)
         && (negb (is_nil (o_live pre)) || is_nil (o_live post))
         && forallb (fun k => negb (memN (k_mat k) (ss_rev ss))) (o_live post), ss0)
      else
        let rev_mats := mats revs in
        (* S4/S5 immediate: a presented, valid, self-signed revocation of a trusted anchor
           takes it out of the live set in this very run, whatever the writes did *)
        let s_immediate := forallb (fun k => negb (memN (k_mat k) rev_mats)) (o_live post) in
        (* S4: earlier recorded revocations stay out *)
        let s_perm := forallb (fun k => negb (memN (k_mat k) (ss_rev ss))) (o_live post) in
        (* S2: authenticated only by revoked keys: no key material enters, no other transition *)
        let s_revonly :=
          if fa then true else
            forallb (fun m => memN m old_mats) (kmap_mats (o_state post) ++ mats (o_live post)) &&
            match (if f_sread fl then None else o_state pre), o_state post with
            | Some s0, Some s1 =>
                if state_recorded then
                  forallb (fun e => match lookup (fst e) s0 with
                                    | Some a0 => memN (ta_mat a0) rev_mats || negb (key_eqb (ta_key a0) (ta_key (snd e))) || ta_eqb a0 (snd e)
                                    | None => true end) s1
                else true
            | _, _ => true
            end in
        (* S3: a key that is live and was never an anchor of record completed the add hold-down:
           present in every recorded accepted refresh over more than 30 days *)
        let fetched_mats := mats (filter (fun k => is_ksk k && negb (is_rev k)) keys) in
        let prom_now := if fa then
                          filter (fun m => match zlookup m (ss_streak ss) with
                                           | Some t0 => (now - t0 >? spec_hold_add)%Z
                                           | None => false end) fetched_mats
                        else [] in
        let prom := prom_now ++ ss_prom ss in
        let s_new := forallb (fun k => memN (k_mat k) (ss_record ss) || memN (k_mat k) prom) (o_live post) in
        let streak' :=
          if fa && state_recorded then
            map (fun m => (m, match zlookup m (ss_streak ss) with Some t0 => t0 | None => now end)) fetched_mats
          else ss_streak ss in
        (* S7: a trusted key that is still published, or that merely disappears, stays trusted
           (90 days in the latter case); only its own valid revocation removes it *)
        let absent' :=
          if fa && state_recorded then
            map (fun k => (k_mat k, match zlookup (k_mat k) (ss_absent ss) with Some t0 => t0 | None => now end))
                (filter (fun k => negb (memN (k_mat k) fetched_mats) && negb (memN (k_mat k) rev_mats)) T)
          else ss_absent ss in
        let s_missing :=
          if fa then
            forallb (fun k => memN (k_mat k) rev_mats || shadowed keys k
                              || (negb (memN (k_mat k) fetched_mats) &&
                                  match zlookup (k_mat k) (ss_absent ss) with
                                  | Some t0 => (now - t0 >? spec_hold_rem - 2)%Z
                                  | None => false end)
                              || (f_twrite fl && f_swrite fl && negb (is_nil revs))
                              || memN (k_mat k) (mats (o_live post)))
                    (filter (fun k => memN (k_mat k) (mats (o_live pre))) T)
          else true in
        (* S8: a revocation takes effect only on a valid self-signature made with THAT key.  (a) no key
           material becomes recorded as revoked (tombstone or marker) unless it was recorded before, is
           configured with the REVOKE bit, or its own valid self-signed revoked form is in this response;
           (b) in a response accepted in revocation-only mode every other live anchor stays live (the only
           exception is the fail-closed clear when both writes of an accepted revocation fail) *)
        let may_mats := mats (revocations_may T keys sigs) in
        let s_record :=
          forallb (fun m => memN m (recorded pre) || memN m may_mats
                            || memN m (mats (filter (fun k => is_ksk k && is_rev k) cfg)))
                  (recorded post) in
        let s_keep :=
          if fa then true else
            forallb (fun k => memN (k_mat k) may_mats
                              || (f_twrite fl && f_swrite fl && negb (is_nil may_mats))
                              || memN (k_mat k) (mats (o_live post)))
                    (filter (fun k => memN (k_mat k) (mats (o_live pre))) T) in
        (* S5: "if neither record of a new revocation can be persisted ... validation fails closed": a run that
           accepts a presented valid revocation of a trusted anchor and replaces NEITHER file leaves the live set
           EMPTY — not merely without the revoked key: the disk still says Valid, and a non-empty set is what
           lets the next refresh republish from that disk before its fetch *)
        let s_failclosed := negb (is_nil renames) || is_nil revs || is_nil (o_live post) in
        (* S9: the record of a revocation is kept for ever ("tombstone file ... kept forever", "StateRevoked marker until
           it lands"): every key material the disk recorded as revoked before this run (tombstone entry or
           StateRevoked / StateRemoved marker) is still recorded by one of the two files after it *)
        let s_durable := forallb (fun m => memN m (recorded post)) (recorded pre) in
        (* the revocation counts as persisted as soon as one of the two files was replaced in this run *)
        let rev_recorded := if is_nil renames then [] else rev_mats in
        (unreadable_ok && s_immediate && s_perm && s_revonly && s_new && s_missing && s_record && s_keep && s_failclosed && s_durable,
         mk_ss cfg (ss_record ss) streak' prom (rev_recorded ++ ss_rev ss) (ss_rev ss) rev_mats absent'
               (ss_streak ss) (ss_absent ss) renames)
    end
  end.

Fixpoint spec_steps (ss : sstate) (cur : obs) (steps : list ostep) : bool :=
  match steps with
  | [] => true
  | ORun now fe fl post out nrev renames :: rest =>
      let '(ok, ss') := spec_run ss cur now fe fl post out renames in
      ok && spec_steps ss' post rest
  | ORollback k cfg' post :: rest =>
      (* the restart window itself is judged by CWindow cases; here only the tracking is updated:
         a revocation accepted in the cut run counts if its record is on the composed disk *)
      let rev := (if is_nil (firstn k (ss_renames ss)) then [] else ss_rev_run ss) ++ ss_rev_before ss in
      let landed := memN 1 (firstn k (ss_renames ss)) in
      let streak := if landed then ss_streak ss else ss_streak_before ss in
      let absent := if landed then ss_absent ss else ss_absent_before ss in
      spec_steps (mk_ss cfg' (mats (filter (fun k => negb (is_rev k)) cfg') ++ ss_record ss) streak (ss_prom ss) rev rev [] absent streak absent []) post rest
  | OFs evs :: rest => spec_events evs (ss_renames ss) && spec_steps ss cur rest
  | ORestart cfg' tr sr post :: rest =>
      spec_steps (mk_ss cfg' (mats (filter (fun k => negb (is_rev k)) cfg') ++ ss_record ss) (ss_streak ss) (ss_prom ss) (ss_rev ss) (ss_rev ss) [] (ss_absent ss) (ss_streak ss) (ss_absent ss) []) post rest
  end.

Definition spec_hist (cfg : list key) (init : obs) (steps : list ostep) : bool :=
  let record := mats (filter (fun k => negb (is_rev k)) cfg) ++ mats (o_live init)
                ++ match o_state init with Some s => mats (trusted_keys s) | None => [] end in
  spec_steps (mk_ss cfg record [] [] (recorded init) (recorded init) [] [] [] [] []) init steps.

End Spec.

(* RFC 4034 Appendix B, written from the RFC (not from the code): the 16-bit one's-complement-style
   checksum over the RDATA flags | protocol | algorithm | public key *)
Definition rfc4034_tag (flags proto alg : N) (material : list N) : N :=
  let rdata := [N.shiftr flags 8; N.land flags 255; proto; alg] ++ material in
  let ac := snd (fold_left (fun st b => let '(even, ac) := st in (negb even, if even then ac + b * 256 else ac + b))
                           rdata (true, 0)) in
  N.land (ac + N.land (N.shiftr ac 16) 65535) 65535.

Definition rootv_code (v : rootv) : N := match v with RVAccept => 0 | RVUnavailable => 1 | RVReject => 2 end.
Definition resolved_code (v : resolved) : N := match v with RSecure => 0 | RUnavailable => 1 | RBogus => 2 | RInsecure => 4 end.

(* the specification for the consumers, judged from the trust set, the response and the observations only:
   (fail closed) under an EMPTY trust set nothing is validated: verifyRootKeys refuses with "trust anchors
   unavailable" and the query is refused the same way (never answered);
   (anchored) a root DNSKEY RRset counts as authentic — verifyRootKeys accepts, or the answer carries AD — only
   when some VALID signature over it was made with the key material of a live, non-revoked trust anchor
   (by material: the key tag plays no part in the specification) *)
Definition spec_rootv (live keys : list key) (sigs : list sig) (direct via : N) : bool :=
  let anchored := existsb (fun s => s_ok s && existsb (fun k => (k_mat k =? s_mat s) && negb (is_rev k)) live) sigs in
  (negb (is_nil live) || ((direct =? 1) && ((via =? 1) || (via =? 3)))) &&
  (negb (direct =? 0) || is_nil keys || anchored) &&
  (negb (via =? 0) || anchored).

Definition check_case (c : case) : bool :=
  match c with
  | CHist tbl cfg init steps => check_hist tbl cfg init steps
  | CCheck tbl cfg init steps => check_hist tbl cfg init steps
  | CSpec _ _ _ _ => true
  | CWindow tbl cfg d tr sr live => keys_eqb (restart_live cfg (disk_of d) (tread_of_code tr) sr) live
  | CTag flags proto alg material tag => keytag_of flags proto alg material =? tag
  | CRootV tbl live (FResp keys sigs) direct via =>
      (rootv_code (verify_root (tag_of tbl) live keys sigs) =? direct) &&
      ((via =? 3) || is_nil keys || (resolved_code (resolve_root (tag_of tbl) live keys sigs) =? via))
  | CRootV _ _ FErr _ _ => false
  | CGate live kind via =>
      match gate live with
      | Some v => (resolved_code v =? via) || (via =? 3)
      | None => true
      end
  end.

Definition spec_case (c : case) : bool :=
  match c with
  | CHist tbl cfg init steps => spec_hist (tag_of tbl) cfg init steps
  | CCheck _ _ _ _ => true
  | CSpec tbl cfg init steps => spec_hist (tag_of tbl) cfg init steps
    (* a key recorded as revoked on disk (tombstone or StateRevoked marker) is not a trust anchor
       after a restart, nothing but configured keys is, and an unreadable store fails closed *)
  | CWindow tbl cfg d tr sr live =>
      forallb (fun k => negb (memN (k_mat k) (recorded d)) && key_in k cfg) live &&
      match tr with 0 => true | _ => is_nil live end && (negb sr || is_nil live)
  | CTag flags proto alg material tag => rfc4034_tag flags proto alg material =? tag
  | CRootV tbl live (FResp keys sigs) direct via => spec_rootv live keys sigs direct via
  | CRootV _ _ FErr _ _ => false
    (* fail closed: under an empty trust set no validating query is answered *)
  | CGate live kind via => negb (is_nil live) || (via =? 1) || (via =? 3)
  end.
