(* C09 — lemmas about the association-list maps of the model. *)
From Sdns Require Import Common.Base Gen.C09 C09.Model.
Open Scope N_scope.

Lemma lookup_remove_eq {A} t (l : list (N * A)) : lookup t (remove t l) = None.
Proof.
  induction l as [|[t' v] l IH]; cbn; [reflexivity|].
  destruct (t' =? t) eqn:E; cbn; [exact IH|]. rewrite E. exact IH.
Qed.

Lemma lookup_remove_neq {A} t t' (l : list (N * A)) : t <> t' -> lookup t' (remove t l) = lookup t' l.
Proof.
  intros H. induction l as [|[x v] l IH]; cbn; [reflexivity|].
  destruct (x =? t) eqn:E; cbn.
  - apply N.eqb_eq in E. subst x. destruct (t =? t') eqn:E2; [apply N.eqb_eq in E2; contradiction|]. exact IH.
  - destruct (x =? t'); [reflexivity|exact IH].
Qed.

Lemma lookup_set_eq {A} t (v : A) l : lookup t (set t v l) = Some v.
Proof. unfold set. cbn. rewrite N.eqb_refl. reflexivity. Qed.

Lemma lookup_set_neq {A} t t' (v : A) l : t <> t' -> lookup t' (set t v l) = lookup t' l.
Proof.
  intros H. unfold set. cbn. destruct (t =? t') eqn:E; [apply N.eqb_eq in E; contradiction|].
  apply lookup_remove_neq. exact H.
Qed.

Lemma lookup_set {A} t t' (v : A) l : lookup t' (set t v l) = if t =? t' then Some v else lookup t' l.
Proof.
  destruct (t =? t') eqn:E.
  - apply N.eqb_eq in E. subst. apply lookup_set_eq.
  - apply lookup_set_neq. intros ->. rewrite N.eqb_refl in E. discriminate.
Qed.

Lemma mem_set {A} t t' (v : A) l : mem t' (set t v l) = (t =? t') || mem t' l.
Proof. unfold mem. rewrite lookup_set. destruct (t =? t'); reflexivity. Qed.

Lemma mem_set_mono {A} t t' (v : A) l : mem t' l = true -> mem t' (set t v l) = true.
Proof. intros H. rewrite mem_set, H. apply orb_true_r. Qed.

Lemma in_lookup {A} t (a : A) l : In (t, a) l -> exists a', lookup t l = Some a'.
Proof.
  induction l as [|[x v] l IH]; cbn; [intros []|].
  intros [H|H].
  - inversion H; subst. rewrite N.eqb_refl. eauto.
  - destruct (x =? t); eauto.
Qed.

Lemma lookup_in {A} t (a : A) l : lookup t l = Some a -> In (t, a) l.
Proof.
  induction l as [|[x v] l IH]; cbn; [discriminate|].
  destruct (x =? t) eqn:E.
  - intros H. inversion H; subst. apply N.eqb_eq in E. subst. left. reflexivity.
  - intros H. right. apply IH. exact H.
Qed.

Lemma lookup_none_in {A} t (a : A) l : lookup t l = None -> ~ In (t, a) l.
Proof. intros H Hin. apply in_lookup in Hin. destruct Hin as [a' Ha]. congruence. Qed.

Lemma in_remove {A} t x (a : A) l : In (x, a) (remove t l) -> In (x, a) l /\ x <> t.
Proof.
  unfold remove. intros H. apply filter_In in H. destruct H as [H1 H2]. split; [exact H1|].
  cbn in H2. intros ->. rewrite N.eqb_refl in H2. discriminate.
Qed.

Lemma in_set {A} t x (v a : A) l : In (x, a) (set t v l) -> (x = t /\ a = v) \/ (In (x, a) l /\ x <> t).
Proof.
  unfold set. intros [H|H].
  - inversion H; subst. left. split; reflexivity.
  - right. apply in_remove. exact H.
Qed.

Lemma in_set_other {A} t x (v a : A) l : In (x, a) l -> x <> t -> In (x, a) (set t v l).
Proof.
  intros H Hne. unfold set. right. unfold remove. apply filter_In. split; [exact H|].
  cbn. destruct (x =? t) eqn:E; [apply N.eqb_eq in E; contradiction|reflexivity].
Qed.

(* lookup through a filter that keeps the looked-up entry *)
Lemma lookup_filter_keep {A} (f : N * A -> bool) t a l :
  lookup t l = Some a -> f (t, a) = true -> lookup t (filter f l) = Some a.
Proof.
  induction l as [|[x v] l IH]; cbn; [discriminate|].
  destruct (x =? t) eqn:E.
  - intros H Hf. inversion H; subst. apply N.eqb_eq in E. subst. rewrite Hf. cbn. rewrite N.eqb_refl. reflexivity.
  - intros H Hf. destruct (f (x, v)); cbn; [rewrite E|]; apply IH; assumption.
Qed.

(* lookup through a flat_map whose images keep their key *)
Lemma lookup_flat_map_keep {A} (g : N * A -> list (N * A)) t a a' l :
  (forall e x b, In (x, b) (g e) -> x = fst e) ->
  lookup t l = Some a -> g (t, a) = [(t, a')] -> lookup t (flat_map g l) = Some a'.
Proof.
  intros Hkey. induction l as [|[x v] l IH]; cbn; [discriminate|].
  destruct (x =? t) eqn:E.
  - intros H Hg. inversion H; subst. apply N.eqb_eq in E. subst. rewrite Hg. cbn. rewrite N.eqb_refl. reflexivity.
  - intros H Hg.
    assert (Hskip : forall l2, lookup t (g (x, v) ++ l2) = lookup t l2).
    { intros l2. pose proof (Hkey (x, v)) as Hk. induction (g (x, v)) as [|[y b] r IHr]; cbn; [reflexivity|].
      assert (y = x) by (apply (Hk y b); left; reflexivity). subst y. rewrite E.
      apply IHr. intros x0 b0 Hin. apply (Hk x0 b0). right. exact Hin. }
    rewrite Hskip. apply IH; assumption.
Qed.

Lemma fold_left_inv {A B} (P : A -> Prop) (f : A -> B -> A) l a :
  P a -> (forall a b, P a -> P (f a b)) -> P (fold_left f l a).
Proof. revert a. induction l; cbn; intros; auto. Qed.

Lemma fold_left_inv_in {A B} (P : A -> Prop) (f : A -> B -> A) l a :
  P a -> (forall a b, In b l -> P a -> P (f a b)) -> P (fold_left f l a).
Proof.
  revert a. induction l as [|x l IH]; cbn; intros a Ha Hs; [exact Ha|].
  apply IH; [apply Hs; [left; reflexivity|exact Ha]|]. intros a' b Hb. apply Hs. right. exact Hb.
Qed.
