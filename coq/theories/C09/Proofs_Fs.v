(* C09 — "crashes after any prefix of the persistence steps of a refresh": the file-system-operation model of
   atomicGobWrite / AutoTA's persistence tail (ModelFs.v) refines the rename-prefix crash model of Model.v (ECrash),
   so every history theorem about ECrash holds for a crash between ANY two file-system operations. *)
From Sdns Require Import Common.Base Gen.C09 C09.Model C09.ModelFs C09.Proofs_Maps C09.Proofs_Rev C09.Proofs_Step
  C09.Proofs_Prov C09.Proofs_Thm C09.Proofs_Live.
Open Scope N_scope.

(* ------------------------------------------------------------------ generic facts about operation lists *)
Lemma renames_app a b : renames (a ++ b) = renames a ++ renames b.
Proof. unfold renames. apply flat_map_app. Qed.

Lemma fs_run_app dir a b : fs_run dir (a ++ b) = fs_run (fs_run dir a) b.
Proof. unfold fs_run. apply fold_left_app. Qed.

(* the two named files after any operation list: the renames among it applied in order — nothing else touches them *)
Lemma fs_run_disk ops : forall dir, fd_disk (fs_run dir ops) = apply_writes (fd_disk dir) (renames ops).
Proof.
  induction ops as [|op ops IH]; intros dir; [reflexivity|].
  change (fs_run dir (op :: ops)) with (fs_run (fs_apply dir op) ops). rewrite IH.
  destruct op; try reflexivity.
Qed.

(* the renames within a prefix of the operations are a prefix of the renames *)
Lemma renames_firstn ops : forall n, renames (firstn n ops) = firstn (length (renames (firstn n ops))) (renames ops).
Proof.
  induction ops as [|op ops IH]; intros n; [destruct n; reflexivity|].
  destruct n as [|n]; [reflexivity|]. cbn [firstn].
  specialize (IH n).
  destruct op; cbn [renames flat_map app] in *; try exact IH.
  cbn [length firstn]. f_equal. exact IH.
Qed.

Lemma renames_write_ops w fp : renames (write_ops w fp) = if fails fp then [] else [w].
Proof. destruct fp; reflexivity. Qed.

(* ------------------------------------------------------------------ one atomicGobWrite *)

(* no temp file outlives a completed call, whether it succeeds or fails at any point *)
Lemma write_ops_tmps w fp dir : fd_tmps (fs_run dir (write_ops w fp)) = fd_tmps dir.
Proof. destruct fp; cbn; try reflexivity; destruct (fd_tmps dir); reflexivity. Qed.

(* old or new, never anything else — at every crash point; new only once the rename ran, never when the call fails *)
Lemma atomic_write_old_or_new_lemma w fp dir n :
  let dir' := fs_run dir (firstn n (write_ops w fp)) in
  (fd_disk dir' = fd_disk dir /\ (fp = NoFail -> (n <= 4)%nat)) \/
  (fd_disk dir' = apply_write (fd_disk dir) w /\ fp = NoFail /\ (5 <= n)%nat).
Proof.
  cbn zeta. rewrite fs_run_disk.
  destruct fp.
  - (* NoFail *)
    destruct n as [|[|[|[|[|n]]]]]; cbn; try (left; split; [reflexivity|intros _; lia]).
    right. destruct n as [|[|n]]; cbn; (split; [reflexivity|split; [reflexivity|lia]]).
  - left. split; [|discriminate]. destruct n; reflexivity.
  - left. split; [|discriminate]. destruct n as [|[|[|[|n]]]]; reflexivity.
  - left. split; [|discriminate]. destruct n as [|[|[|[|[|n]]]]]; reflexivity.
  - left. split; [|discriminate]. destruct n as [|[|[|[|[|n]]]]]; reflexivity.
  - left. split; [|discriminate]. destruct n as [|[|[|[|[|[|n]]]]]]; reflexivity.
Qed.

Lemma atomic_write_full (w : wfile) (fp : failpoint) (dir : fsdir) (n : nat) :
  let dir' := fs_run dir (firstn n (write_ops w fp)) in
  ((fd_disk dir' = fd_disk dir /\ (fp = NoFail -> (n <= 4)%nat)) \/
   (fd_disk dir' = apply_write (fd_disk dir) w /\ fp = NoFail /\ (5 <= n)%nat)) /\
  fd_tmps (fs_run dir (write_ops w fp)) = fd_tmps dir.
Proof. split; [apply atomic_write_old_or_new_lemma|apply write_ops_tmps]. Qed.

(* ------------------------------------------------------------------ the persistence tail and the run *)
Definition consistent (fl : faults) (fpt fps : failpoint) : Prop :=
  f_twrite fl = fails fpt /\ f_swrite fl = fails fps.

Lemma tail_ops_renames live1 d fl fpt fps s :
  consistent fl fpt fps -> renames (tail_ops fl fpt fps s) = r_writes (tail live1 d fl s).
Proof.
  intros (Ht & Hs). unfold tail_ops, tail. rewrite renames_app, !renames_write_ops. cbn [r_writes].
  rewrite <- Ht, <- Hs. destruct (f_twrite fl), (f_swrite fl); reflexivity.
Qed.

Lemma tail_ops_tmps fl fpt fps s dir : fd_tmps (fs_run dir (tail_ops fl fpt fps s)) = fd_tmps dir.
Proof. unfold tail_ops. rewrite fs_run_app, !write_ops_tmps. reflexivity. Qed.

Section Run.
Variable tag : key -> N.

Lemma autota_ops_renames live cfg d now fe fl fpt fps :
  consistent fl fpt fps ->
  renames (autota_ops tag live cfg d now fe fl fpt fps) = r_writes (autota tag live cfg d now fe fl).
Proof.
  intros Hc. unfold autota_ops, autota.
  destruct (prefetch tag live cfg d now fl) as [[ksk2 tombs2]|]; [|reflexivity].
  destruct fe as [|keys sigs]; [reflexivity|].
  destruct (authenticate tag (trusted_keys ksk2) keys sigs); [reflexivity| |]; apply tail_ops_renames; exact Hc.
Qed.

Lemma autota_ops_tmps live cfg d now fe fl fpt fps dir :
  fd_tmps (fs_run dir (autota_ops tag live cfg d now fe fl fpt fps)) = fd_tmps dir.
Proof.
  unfold autota_ops.
  destruct (prefetch tag live cfg d now fl) as [[ksk2 tombs2]|]; [|reflexivity].
  destruct fe as [|keys sigs]; [reflexivity|].
  destruct (authenticate tag (trusted_keys ksk2) keys sigs); [reflexivity| |]; apply tail_ops_tmps.
Qed.

(* the whole operation list leaves the disk the run's result names *)
Lemma autota_ops_complete live cfg d now fe fl fpt fps junk :
  consistent fl fpt fps ->
  fs_run (mk_fsdir d junk) (autota_ops tag live cfg d now fe fl fpt fps) =
  mk_fsdir (r_disk (autota tag live cfg d now fe fl)) junk.
Proof.
  intros Hc.
  assert (Hd : fd_disk (fs_run (mk_fsdir d junk) (autota_ops tag live cfg d now fe fl fpt fps)) =
               r_disk (autota tag live cfg d now fe fl)).
  { rewrite fs_run_disk, (autota_ops_renames _ _ _ _ _ _ _ _ Hc). cbn [fd_disk].
    unfold autota.
    destruct (prefetch tag live cfg d now fl) as [[ksk2 tombs2]|]; [|reflexivity].
    destruct fe as [|keys sigs]; [reflexivity|].
    destruct (authenticate tag (trusted_keys ksk2) keys sigs); reflexivity. }
  pose proof (autota_ops_tmps live cfg d now fe fl fpt fps (mk_fsdir d junk)) as Ht. cbn [fd_tmps] in Ht.
  destruct (fs_run (mk_fsdir d junk) (autota_ops tag live cfg d now fe fl fpt fps)) as [dd tt].
  cbn in Hd, Ht. subst. reflexivity.
Qed.

(* THE REFINEMENT: a crash after any number n of file-system operations of a run leaves, under the two file names,
   exactly what a crash after k of the run's successful renames leaves — k = the renames among the first n
   operations — whatever temp files lie around *)
Lemma crash_prefix_disk live cfg d now fe fl fpt fps junk n :
  consistent fl fpt fps ->
  let ops := autota_ops tag live cfg d now fe fl fpt fps in
  fd_disk (fs_run (mk_fsdir d junk) (firstn n ops)) =
  apply_writes d (firstn (length (renames (firstn n ops))) (r_writes (autota tag live cfg d now fe fl))).
Proof.
  intros Hc ops. rewrite fs_run_disk. cbn [fd_disk].
  rewrite <- (autota_ops_renames live cfg d now fe fl fpt fps Hc). fold ops.
  rewrite <- renames_firstn. reflexivity.
Qed.

Lemma crash_anywhere_is_crash_between_renames_lemma (s : sys) junk now fe fl fpt fps n cfg' tr sr :
  consistent fl fpt fps ->
  let ops := autota_ops tag (s_live s) (s_cfg s) (s_disk s) now fe fl fpt fps in
  fst (crash_at tag s junk now fe fl fpt fps n cfg' tr sr) =
  step tag s (ECrash now fe fl (length (renames (firstn n ops))) cfg' tr sr).
Proof.
  intros Hc ops. unfold crash_at. cbn [fst step]. fold ops.
  pose proof (crash_prefix_disk (s_live s) (s_cfg s) (s_disk s) now fe fl fpt fps junk n Hc) as E.
  cbn zeta in E. fold ops in E. unfold run_of. rewrite E. reflexivity.
Qed.

(* before the first rename nothing is visible: the directory reads exactly as before the run *)
Lemma crash_before_first_rename_lemma (s : sys) junk now fe fl fpt fps n cfg' tr sr :
  consistent fl fpt fps ->
  renames (firstn n (autota_ops tag (s_live s) (s_cfg s) (s_disk s) now fe fl fpt fps)) = [] ->
  fst (crash_at tag s junk now fe fl fpt fps n cfg' tr sr) = step tag s (ERestart cfg' tr sr).
Proof.
  intros Hc Hn. rewrite (crash_anywhere_is_crash_between_renames_lemma s junk now fe fl fpt fps n cfg' tr sr Hc).
  cbn zeta. rewrite Hn. reflexivity.
Qed.

(* "never published as a trust anchor again — not after ... a crash at any point between the state-file writes":
   the run accepted the revocation of m, the process died after ANY number of file-system operations among which at
   least one rename; after the restart and after every later history no key of material m is live *)
Lemma revocation_never_again_at_any_crash_point_lemma (m : N) (s : sys) junk now fe fl fpt fps n cfg' tr sr :
  consistent fl fpt fps ->
  In m (r_revoked (run_of tag s now fe fl)) ->
  renames (firstn n (autota_ops tag (s_live s) (s_cfg s) (s_disk s) now fe fl fpt fps)) <> [] ->
  forall h key, In key (s_live (exec tag (fst (crash_at tag s junk now fe fl fpt fps n cfg' tr sr)) h)) -> k_mat key <> m.
Proof.
  intros Hc Hin Hn h key.
  rewrite (crash_anywhere_is_crash_between_renames_lemma s junk now fe fl fpt fps n cfg' tr sr Hc). cbn zeta.
  set (ops := autota_ops tag (s_live s) (s_cfg s) (s_disk s) now fe fl fpt fps) in *.
  apply (revocation_never_again_lemma tag m s now fe fl Hin).
  right. exists (length (renames (firstn n ops))), cfg', tr, sr. split; [reflexivity|].
  unfold run_of. rewrite <- (autota_ops_renames (s_live s) (s_cfg s) (s_disk s) now fe fl fpt fps Hc). fold ops.
  rewrite <- renames_firstn. exact Hn.
Qed.

Lemma crash_anywhere_full (s : sys) junk now fe fl fpt fps n cfg' tr sr :
  consistent fl fpt fps ->
  let ops := autota_ops tag (s_live s) (s_cfg s) (s_disk s) now fe fl fpt fps in
  fst (crash_at tag s junk now fe fl fpt fps n cfg' tr sr) =
    step tag s (ECrash now fe fl (length (renames (firstn n ops))) cfg' tr sr) /\
  (renames (firstn n ops) = [] ->
     fst (crash_at tag s junk now fe fl fpt fps n cfg' tr sr) = step tag s (ERestart cfg' tr sr)) /\
  fs_run (mk_fsdir (s_disk s) junk) ops = mk_fsdir (r_disk (run_of tag s now fe fl)) junk.
Proof.
  intros Hc ops. split; [|split].
  - apply crash_anywhere_is_crash_between_renames_lemma; assumption.
  - apply crash_before_first_rename_lemma; assumption.
  - apply autota_ops_complete; assumption.
Qed.

End Run.

(* ------------------------------------------------------------------ the trace a directory watcher sees *)
Lemma gen_fs_names : length go_state_file <> 0%nat /\ length go_tombstone_file <> 0%nat /\ go_state_file <> go_tombstone_file.
Proof. repeat split; try discriminate. Qed.

(* ------------------------------------------------------------------ examples (non-vacuity) *)
Definition ytag (k : key) : N := k_mat k * 1000 + k_flags k.
Definition yA := mk_key 1 257.
Definition yB := mk_key 2 257.
Definition yB' := mk_key 2 385.
Definition ys0 : sys := mk_sys [yA; yB] [yA; yB] (mk_disk None None).
Definition yfe : fetch := FResp [yA; yB'] [mk_sig (ytag yA) 1 true; mk_sig (ytag yB') 2 true].

(* a run that accepts the revocation of B: twelve operations, two renames; a crash after 4 operations (temp file
   written and closed, not yet moved) restarts exactly as if the run had not happened and leaves one temp file; a
   crash after 5 (tombstones moved into place) or 9 (state temp being written) keeps B out although the
   configuration still lists it *)
Example fs_crash_points :
  let ops := autota_ops ytag [yA; yB] [yA; yB] (mk_disk None None) 0%Z yfe no_faults NoFail NoFail in
  length ops = 12%nat /\ length (renames ops) = 2%nat /\
  In 2 (r_revoked (run_of ytag ys0 0%Z yfe no_faults)) /\
  crash_at ytag ys0 [] 0%Z yfe no_faults NoFail NoFail 4 [yA; yB] TROk false =
    (step ytag ys0 (ERestart [yA; yB] TROk false), [mk_tmp TgTomb true]) /\
  s_live (fst (crash_at ytag ys0 [] 0%Z yfe no_faults NoFail NoFail 4 [yA; yB] TROk false)) = [yA; yB] /\
  s_live (fst (crash_at ytag ys0 [] 0%Z yfe no_faults NoFail NoFail 5 [yA; yB] TROk false)) = [yA] /\
  snd (crash_at ytag ys0 [] 0%Z yfe no_faults NoFail NoFail 9 [yA; yB] TROk false) = [mk_tmp TgState true] /\
  s_live (fst (crash_at ytag ys0 [] 0%Z yfe no_faults NoFail NoFail 9 [yA; yB] TROk false)) = [yA].
Proof. vm_compute. repeat split; left; reflexivity. Qed.

(* the watcher's view of that run, and of the same run when the tombstone rename fails *)
Example fs_events :
  obs_events (autota_ops ytag [yA; yB] [yA; yB] (mk_disk None None) 0%Z yfe no_faults NoFail NoFail)
    = [1; 2; 3; 4; 5; 11; 12; 13; 14; 15] /\
  obs_events (autota_ops ytag [yA; yB] [yA; yB] (mk_disk None None) 0%Z yfe (mk_faults false TROk true false) FailRename NoFail)
    = [1; 2; 3; 6; 11; 12; 13; 14; 15].
Proof. split; reflexivity. Qed.
