(* C09 — single-run theorems: fail-closed rules and unauthenticated responses. *)
From Sdns Require Import Common.Base Gen.C09 C09.Model C09.Proofs_Maps C09.Proofs_Rev.
Open Scope N_scope.

Lemma gen_state_order :
  st_code SStart = go_state_start /\ st_code SAddPend = go_state_addpend /\ st_code SValid = go_state_valid /\
  st_code SMissing = go_state_missing /\ st_code SRevoked = go_state_revoked /\ st_code SRemoved = go_state_removed.
Proof. repeat split; reflexivity. Qed.

Lemma gen_hold_downs : hold_add = (30 * 24 * 60)%Z /\ hold_rem = (90 * 24 * 60)%Z /\
  (go_hold_add_ns = hold_add * ns_per_min)%Z /\ (go_hold_rem_ns = hold_rem * ns_per_min)%Z.
Proof. repeat split; reflexivity. Qed.

(* the repaired constructs are where the model says they are: unrevokedKeyTag clears the REVOKE bit and
   is what AutoTA, stageRevocationSelfSignatures and verifyFetchedKeysWithWork look anchors up with;
   presence is by dnskeyMaterialFP; NewResolver filters through withoutTombstoned *)
Lemma gen_fix_sites :
  go_unrevoke_mask = go_flag_revoke /\ go_flag_revoke = 128 /\ go_flag_ksk = 1 /\
  length go_autota_oldtag_via = 1%nat /\ length go_stage_oldtag_via = 1%nat /\ length go_bootstrap_oldtag_via = 1%nat /\
  length go_presence_by = 1%nat /\ length go_newresolver_filter = 1%nat /\ length go_startup_reads_state = 1%nat /\
  length go_publish_skips_tombstoned = 1%nat.
Proof. repeat split; reflexivity. Qed.

Section Step.
Variable tag : key -> N.

(* a revocation store that exists but cannot be read — tombstone file corrupt or unreadable, state
   file corrupt or unreadable: the trust set is cleared and nothing is written *)
Lemma unreadable_store_fails_closed_lemma live cfg d now fe fl :
  f_tread fl <> TROk \/ f_sread fl = true ->
  let r := autota tag live cfg d now fe fl in
  r_live r = [] /\ r_disk r = d /\ r_writes r = [] /\ r_out r = OPersistence.
Proof.
  intros H. unfold autota, prefetch. destruct (f_sread fl); [cbn; repeat split; reflexivity|].
  destruct H as [H|H]; [|discriminate]. destruct (f_tread fl); [contradiction| |]; cbn; repeat split; reflexivity.
Qed.

(* both writes fail in a run that accepted a revocation: fail closed, disk untouched *)
Definition NR (s : pst) : Prop := p_revs s <> [] -> p_newrev s = true.

Lemma process_one_NR now ro fm staged s t : NR s -> NR (process_one tag now ro fm staged s t).
Proof.
  intros H. unfold NR, process_one.
  destruct (lookup t fm) as [k|]; [|exact H].
  destruct (mem (k_mat k) (p_tombs s)); [exact H|].
  destruct (ident_existing (p_ksk s) t k); [exact H|].
  destruct (is_rev k).
  - destruct (lookup (tag (unrev k)) (p_ksk s)) as [old|]; [|exact H].
    destruct (is_trusted_st old && same_except_revoke (ta_key old) k && staged_ok staged t); [|exact H].
    cbn. reflexivity.
  - destruct ro; [exact H|]. destruct (lookup t (p_ksk s)); exact H.
Qed.

Lemma process_NR now ro fm staged tags s : NR s -> NR (process tag now ro fm staged tags s).
Proof.
  intros H. unfold process. apply (fold_left_inv NR); [exact H|]. intros. apply process_one_NR. assumption.
Qed.

Lemma dual_write_failure_fails_closed_lemma live cfg d now fe fl :
  f_twrite fl = true -> f_swrite fl = true ->
  let r := autota tag live cfg d now fe fl in
  r_revoked r <> [] -> r_live r = [] /\ r_disk r = d /\ r_writes r = [].
Proof.
  intros Ht Hs. unfold autota.
  destruct (prefetch tag live cfg d now fl) as [[ksk2 tombs2]|]; [|cbn; congruence].
  destruct fe as [|keys sigs]; [cbn; congruence|].
  assert (Hmain : forall ro,
    let fm := fetched_map tag keys in
    let tags := sort_tags (map fst fm) in
    let staged := stage tag ksk2 tombs2 sigs fm tags in
    let s3 := process tag now ro fm staged tags (mk_pst ksk2 tombs2 false []) in
    let s4 := if ro then s3 else mk_pst (keyrem now fm (p_ksk s3)) (p_tombs s3) (p_newrev s3) (p_revs s3) in
    let r := tail (if is_nil live then live else trusted_keys ksk2) d fl s4 in
    r_revoked r <> [] -> r_live r = [] /\ r_disk r = d /\ r_writes r = []).
  { intros ro fm tags staged s3 s4 r Hne.
    assert (H3 : NR s3) by (apply process_NR; intros H; cbn in H; congruence).
    assert (H4 : p_newrev s4 = true).
    { unfold r, tail in Hne. cbn in Hne. unfold s4 in *. destruct ro; cbn in *; apply H3; exact Hne. }
    unfold r, tail. rewrite Ht, Hs, H4. cbn. repeat split; reflexivity. }
  destruct (authenticate tag (trusted_keys ksk2) keys sigs); [cbn; congruence|apply (Hmain false)|apply (Hmain true)].
Qed.

(* a response carrying no valid signature made with the key material of any
   currently trusted anchor (in plain or revoked form) changes nothing: the run
   ends exactly as if the fetch had failed *)
Definition no_trusted_signature (cand : list key) (sigs : list sig) : Prop :=
  forall s k, In s sigs -> s_ok s = true -> In k cand -> k_mat k <> s_mat s.

Lemma verify_with_false ks cand sigs :
  no_trusted_signature cand sigs -> (forall k, In k ks -> exists c, In c cand /\ k_mat c = k_mat k) ->
  verify_with tag ks sigs = false.
Proof.
  intros Hn Hks. unfold verify_with. apply not_true_is_false. intros H.
  apply existsb_exists in H. destruct H as (s & Hs & Hby). unfold sig_by in Hby.
  apply andb_true_iff in Hby. destruct Hby as [Hok Hex]. apply existsb_exists in Hex.
  destruct Hex as (k & Hk & Hc). apply andb_true_iff in Hc. destruct Hc as [Hc _].
  apply andb_true_iff in Hc. destruct Hc as [_ Hm]. apply N.eqb_eq in Hm.
  destruct (Hks k Hk) as (c & Hc & Hcm). apply (Hn s c Hs Hok Hc). congruence.
Qed.

Lemma authenticate_fail cand keys sigs :
  no_trusted_signature cand sigs -> authenticate tag cand keys sigs = AuthFail.
Proof.
  intros Hn. unfold authenticate. destruct keys as [|k0 keys]; [reflexivity|].
  destruct (filter is_ksk cand) as [|c0 cur] eqn:Ecur; [reflexivity|].
  rewrite (verify_with_false (c0 :: cur) cand sigs Hn).
  2:{ intros k Hk. exists k. split; [|reflexivity]. rewrite <- Ecur in Hk. apply filter_In in Hk. apply Hk. }
  destruct (bootstrap tag (c0 :: cur) (k0 :: keys)) as [|b0 rb] eqn:Erb; [reflexivity|].
  rewrite (verify_with_false (b0 :: rb) cand sigs Hn); [reflexivity|].
  intros k Hk. rewrite <- Erb in Hk. unfold bootstrap in Hk. apply filter_In in Hk. destruct Hk as [_ Hf].
  apply andb_true_iff in Hf. destruct Hf as [_ Hex]. apply existsb_exists in Hex. destruct Hex as (c & Hc & Hcc).
  apply andb_true_iff in Hcc. destruct Hcc as [_ Hse]. apply same_except_revoke_mat in Hse.
  exists c. split; [|exact Hse]. rewrite <- Ecur in Hc. apply filter_In in Hc. apply Hc.
Qed.

Lemma unauthenticated_changes_nothing_lemma live cfg d now keys sigs fl :
  no_trusted_signature (candidate tag live cfg d now fl) sigs ->
  let r := autota tag live cfg d now (FResp keys sigs) fl in
  let r0 := autota tag live cfg d now FErr fl in
  r_disk r = d /\ r_writes r = [] /\ r_revoked r = [] /\ r_live r = r_live r0 /\
  (* and that live set is the tombstone-filtered republication, or unchanged in fail-closed mode *)
  (f_tread fl = TROk -> f_sread fl = false -> r_live r = if is_nil live then live else candidate tag live cfg d now fl).
Proof.
  unfold candidate, autota. destruct (prefetch tag live cfg d now fl) as [[ksk2 tombs2]|] eqn:Ep.
  - intros Hn. rewrite (authenticate_fail _ keys sigs Hn). cbn. repeat split; reflexivity.
  - intros _. cbn. repeat split; try reflexivity. intros H1 H2. exfalso.
    unfold prefetch in Ep. rewrite H1, H2 in Ep. discriminate.
Qed.

End Step.
