(* C09 — "a key that merely disappears stays trusted for 90 days and returns to valid if it reappears", over
   HISTORIES: an anchor of record stays in the live trust set after every event of every history of refreshes,
   crashes and restarts in which its own revocation is never presented, as long as each absence is shorter than
   the remove hold-down.  One-run rules: missing_90d_lemma (Proofs_Thm), revoked_only_keeps_other_anchors_lemma
   (Proofs_Live); here the invariant that carries them along a history. *)
From Sdns Require Import Common.Base Gen.C09 C09.Model C09.Proofs_Maps C09.Proofs_Rev C09.Proofs_Step
  C09.Proofs_Prov C09.Proofs_Thm C09.Proofs_Live C09.Proofs_Inv.
Open Scope N_scope.

Section Stay.
Variable tag : key -> N.
Variable K : key.
Let m := k_mat K.
Let t := tag K.

(* the state map holds K as a trusted (Valid / Missing) anchor under its tag, and no marker of its material *)
Definition state_ok (ksk : kmap) : Prop :=
  (exists a, lookup t ksk = Some a /\ ta_key a = K /\ is_trusted_st a = true) /\
  (forall t' a', In (t', a') ksk -> is_marker a' = true -> ta_mat a' <> m).
(* the disk: such a state file, and a tombstone file (if any) without K's material *)
Definition anchored (d : disk) : Prop :=
  (exists ksk, d_state d = Some ksk /\ state_ok ksk) /\ (forall tb, d_tomb d = Some tb -> mem m tb = false).
(* ... or no state file yet (first start): the run seeds its table from the live set; K is a KSK in it, the only live
   KSK with its tag, and no live KSK of its material carries the REVOKE bit *)
Definition seeds (live : list key) : Prop :=
  In K live /\ is_ksk K = true /\ is_rev K = false /\
  (forall k, In k live -> is_ksk k = true -> tag k = t -> k = K) /\
  (forall k, In k live -> is_ksk k = true -> is_rev k = true -> k_mat k <> m).
Definition fresh (live : list key) (d : disk) : Prop :=
  d_state d = None /\ seeds live /\ (forall tb, d_tomb d = Some tb -> mem m tb = false).

(* the table seeded from the live set *)
Lemma seed_lookup now live : seeds live ->
  lookup t (seed_from_live tag now live) = Some (mk_ta K SValid now).
Proof.
  intros (Hin & Hk & Hr & Hu & _). unfold seed_from_live.
  assert (G : forall l acc, (forall k, In k l -> is_ksk k = true -> tag k = t -> k = K) ->
              (In K l \/ lookup t acc = Some (mk_ta K SValid now)) ->
              lookup t (fold_left (seed_step tag now) l acc) = Some (mk_ta K SValid now)).
  { induction l as [|k l IH]; intros acc Hu' H; [destruct H as [[]|H]; exact H|].
    cbn [fold_left]. apply IH; [intros k' Hk'; apply Hu'; right; exact Hk'|].
    destruct (key_eqb k K) eqn:Ek.
    - right. assert (k = K) as ->.
      { unfold key_eqb in Ek. apply andb_true_iff in Ek. destruct Ek as [E1 E2]. apply N.eqb_eq in E1, E2.
        destruct k, K; cbn in *; congruence. }
      unfold seed_step. rewrite Hk, Hr. fold t. apply lookup_set_eq.
    - destruct H as [[H|H]|H].
      + subst k. unfold key_eqb in Ek. rewrite !N.eqb_refl in Ek. discriminate.
      + left. exact H.
      + right. unfold seed_step. destruct (is_ksk k) eqn:E; [|exact H].
        rewrite lookup_set. destruct (tag k =? t) eqn:Et; [|exact H].
        apply N.eqb_eq in Et. rewrite (Hu' k (or_introl eq_refl) E Et) in Ek.
        unfold key_eqb in Ek. rewrite !N.eqb_refl in Ek. discriminate. }
  apply G; [exact Hu|left; exact Hin].
Qed.

Lemma seed_markers now live : seeds live ->
  forall t' a', In (t', a') (seed_from_live tag now live) -> is_marker a' = true -> ta_mat a' <> m.
Proof.
  intros (_ & _ & _ & _ & Hrv). unfold seed_from_live.
  assert (G : forall l acc, (forall k, In k l -> is_ksk k = true -> is_rev k = true -> k_mat k <> m) ->
              (forall t' a', In (t', a') acc -> is_marker a' = true -> ta_mat a' <> m) ->
              forall t' a', In (t', a') (fold_left (seed_step tag now) l acc) -> is_marker a' = true -> ta_mat a' <> m).
  { induction l as [|k l IH]; intros acc Hr' Hacc; [exact Hacc|].
    cbn [fold_left]. apply IH; [intros k' Hk'; apply Hr'; right; exact Hk'|].
    intros t' a' Hin Hm. unfold seed_step in Hin. destruct (is_ksk k) eqn:E; [|eapply Hacc; eassumption].
    apply in_set in Hin. destruct Hin as [[_ ->]|[Hin _]]; [|eapply Hacc; eassumption].
    unfold ta_mat. cbn [ta_key]. destruct (is_rev k) eqn:Er; [|discriminate].
    apply Hr'; [left; reflexivity|exact E|exact Er]. }
  apply G; [exact Hrv|intros ? ? []].
Qed.
(* the configuration does not list K's material with the REVOKE bit *)
Definition cfg_ok (cfg : list key) : Prop :=
  forall k, In k cfg -> is_ksk k = true -> is_rev k = true -> k_mat k <> m.

(* ---------------------------------------------------------------- where tombstones come from before the fetch *)
Lemma migrate_new ksk : forall tombs x,
  mem x (migrate ksk tombs) = true ->
  mem x tombs = true \/ exists t' a', In (t', a') ksk /\ is_marker a' = true /\ ta_mat a' = x.
Proof.
  induction ksk as [|[t' a'] ksk IH]; intros tombs x H; [left; exact H|].
  change (migrate ((t', a') :: ksk) tombs) with (migrate ksk (migrate_step tombs (t', a'))) in H.
  apply IH in H. destruct H as [H|(t2 & a2 & Hin & Hm & Hx)].
  - unfold migrate_step in H. cbn [snd] in H.
    destruct (is_marker a' && negb (mem (ta_mat a') tombs)) eqn:E; [|left; exact H].
    rewrite mem_set in H. apply orb_true_iff in H. destruct H as [H|H]; [|left; exact H].
    apply N.eqb_eq in H. apply andb_true_iff in E. destruct E as [E _].
    right. exists t', a'. split; [left; reflexivity|split; assumption].
  - right. exists t2, a2. split; [right; exact Hin|split; assumption].
Qed.

Lemma cfgrev_new now cfg : forall tombs x,
  mem x (cfgrev now cfg tombs) = true ->
  mem x tombs = true \/ exists k, In k cfg /\ is_ksk k = true /\ is_rev k = true /\ k_mat k = x.
Proof.
  induction cfg as [|k cfg IH]; intros tombs x H; [left; exact H|].
  change (cfgrev now (k :: cfg) tombs) with (cfgrev now cfg (cfgrev_step now tombs k)) in H.
  apply IH in H. destruct H as [H|(k2 & Hin & H2)].
  - unfold cfgrev_step in H.
    destruct (is_ksk k && is_rev k && negb (mem (k_mat k) tombs)) eqn:E; [|left; exact H].
    rewrite mem_set in H. apply orb_true_iff in H. destruct H as [H|H]; [|left; exact H].
    apply N.eqb_eq in H. apply andb_true_iff in E. destruct E as [E _]. apply andb_true_iff in E. destruct E as [E1 E2].
    right. exists k. split; [left; reflexivity|repeat split; assumption].
  - right. exists k2. split; [right; exact Hin|exact H2].
Qed.

(* the configuration merge keeps every entry and adds no marker *)
Lemma merge_step_keeps now acc k x a :
  lookup x (fst acc) = Some a -> lookup x (fst (merge_step tag now acc k)) = Some a.
Proof.
  destruct acc as [ksk tombs]. cbn [fst]. intros H. unfold merge_step.
  destruct (negb (is_ksk k)); [exact H|].
  destruct (lookup (tag k) ksk) eqn:E; [exact H|].
  destruct (mem (k_mat k) tombs); [exact H|].
  destruct (is_rev k); cbn [fst]; [exact H|].
  rewrite lookup_set. destruct (tag k =? x) eqn:Ex; [|exact H].
  apply N.eqb_eq in Ex. subst x. congruence.
Qed.

Lemma merge_step_markers now acc k t' a' :
  In (t', a') (fst (merge_step tag now acc k)) -> is_marker a' = true -> In (t', a') (fst acc).
Proof.
  destruct acc as [ksk tombs]. cbn [fst]. unfold merge_step.
  destruct (negb (is_ksk k)); [auto|].
  destruct (lookup (tag k) ksk); [auto|].
  destruct (mem (k_mat k) tombs); [auto|].
  destruct (is_rev k); cbn [fst]; [auto|].
  intros Hin Hm. apply in_set in Hin. destruct Hin as [[_ ->]|[Hin _]]; [discriminate|exact Hin].
Qed.

Lemma merge_keeps now cfg : forall acc x a,
  lookup x (fst acc) = Some a -> lookup x (fst (fold_left (merge_step tag now) cfg acc)) = Some a.
Proof.
  induction cfg as [|k cfg IH]; intros acc x a H; [exact H|]. cbn [fold_left]. apply IH. apply merge_step_keeps. exact H.
Qed.

Lemma merge_markers now cfg : forall acc t' a',
  In (t', a') (fst (fold_left (merge_step tag now) cfg acc)) -> is_marker a' = true -> In (t', a') (fst acc).
Proof.
  induction cfg as [|k cfg IH]; intros acc t' a' H Hm; [exact H|]. cbn [fold_left] in H.
  eapply merge_step_markers; [|exact Hm]. eapply IH; eassumption.
Qed.

(* what the run works on when it starts from an anchored disk: the state file's own entry for K *)
Lemma prefetch_anchored live cfg d now fl ksk a :
  ksk = match d_state d with Some s => s | None => seed_from_live tag now live end ->
  lookup t ksk = Some a -> ta_key a = K -> is_trusted_st a = true ->
  (forall t' a', In (t', a') ksk -> is_marker a' = true -> ta_mat a' <> m) ->
  (forall tb, d_tomb d = Some tb -> mem m tb = false) ->
  cfg_ok cfg -> f_sread fl = false -> f_tread fl = TROk ->
  exists ksk2 tombs2, prefetch tag live cfg d now fl = Some (ksk2, tombs2) /\
    lookup t ksk2 = Some a /\
    (forall t' a', In (t', a') ksk2 -> is_marker a' = true -> ta_mat a' <> m) /\ mem m tombs2 = false.
Proof.
  intros Hs Hl Hk Htr Hnm Htb Hc Hsr Htr'.
  set (tombs0 := match d_tomb d with Some x => x | None => [] end).
  set (tombs1 := cfgrev now cfg (migrate ksk tombs0)).
  assert (H0 : mem m tombs0 = false).
  { unfold tombs0. destruct (d_tomb d) as [tb|] eqn:E; [apply Htb; reflexivity|reflexivity]. }
  assert (H1 : mem m tombs1 = false).
  { destruct (mem m tombs1) eqn:E; [|reflexivity]. exfalso. unfold tombs1 in E.
    apply cfgrev_new in E. destruct E as [E|(k & Hin & Hk1 & Hk2 & Hk3)]; [|exact (Hc k Hin Hk1 Hk2 Hk3)].
    apply migrate_new in E. destruct E as [E|(t' & a' & Hin & Hm & Hx)]; [congruence|exact (Hnm t' a' Hin Hm Hx)]. }
  assert (Hna : is_marker a = false).
  { destruct (is_marker a) eqn:E; [|reflexivity]. rewrite (marker_not_trusted _ E) in Htr. discriminate. }
  assert (H2 : lookup t (precedence ksk tombs1) = Some a).
  { unfold precedence. apply lookup_filter_keep; [exact Hl|]. cbn [snd]. rewrite Hna. cbn [orb].
    unfold ta_mat. rewrite Hk. fold m. rewrite H1. reflexivity. }
  destruct (merge tag now cfg (precedence ksk tombs1) tombs1) as [ksk2 tombs2] eqn:Em.
  assert (Hpf : prefetch tag live cfg d now fl = Some (ksk2, tombs2)).
  { unfold prefetch. rewrite Hsr, Htr', <- Hs. fold tombs0. fold tombs1. rewrite Em. reflexivity. }
  exists ksk2, tombs2. split; [exact Hpf|].
  pose proof (merge_keeps now cfg (precedence ksk tombs1, tombs1) t a H2) as H3.
  unfold merge in Em. rewrite Em in H3. cbn [fst] in H3.
  split; [exact H3|split].
  - intros t' a' Hin Hm. eapply Hnm; [|exact Hm].
    pose proof (merge_markers now cfg (precedence ksk tombs1, tombs1) t' a') as H4. rewrite Em in H4. cbn [fst] in H4.
    specialize (H4 Hin Hm). unfold precedence in H4. apply filter_In in H4. apply H4.
  - pose proof (prefetch_clean tag live cfg d now fl ksk2 tombs2 Hpf t a (lookup_in _ _ _ H3) Hna) as Hc2.
    unfold ta_mat in Hc2. rewrite Hk in Hc2. exact Hc2.
Qed.

(* ---------------------------------------------------------------- one run *)
(* no REVOKE-flagged key of K's material in the response *)
Definition no_revoked_form (keys : list key) : Prop := forall k, In k keys -> is_rev k = true -> k_mat k <> m.

Lemma no_revoked_form_fm keys : no_revoked_form keys ->
  forall t' k, lookup t' (fetched_map tag keys) = Some k -> is_rev k = true -> k_mat k <> m.
Proof. intros H t' k Hl Hr. apply fetched_map_in in Hl. destruct Hl as (Hin & _). exact (H k Hin Hr). Qed.

(* the in-memory tombstone map and the markers at the end of the per-tag loops *)
Lemma written_clean live cfg d now keys sigs fl ksk2 tombs2 :
  prefetch tag live cfg d now fl = Some (ksk2, tombs2) -> mem m tombs2 = false -> no_revoked_form keys ->
  let r := autota tag live cfg d now (FResp keys sigs) fl in
  (forall tb, In (WTomb tb) (r_writes r) -> mem m tb = false) /\
  (forall s5 t' a', In (WState s5) (r_writes r) -> In (t', a') s5 -> is_marker a' = true -> ta_mat a' <> m).
Proof.
  intros Hp Hm2 Hno. cbn zeta. unfold autota. rewrite Hp.
  destruct (authenticate tag (trusted_keys ksk2) keys sigs) eqn:Ea; [split; intros; contradiction| |].
  all: set (fm := fetched_map tag keys);
       set (staged := stage tag ksk2 tombs2 sigs fm (sort_tags (map fst fm)));
       match goal with |- context [process tag ?nw ?ro fm staged _ _] =>
         set (s3 := process tag nw ro fm staged (sort_tags (map fst fm)) (mk_pst ksk2 tombs2 false [])) end.
  all: assert (Hm3 : mem m (p_tombs s3) = false) by
         (destruct (mem m (p_tombs s3)) eqn:E; [|reflexivity]; exfalso; apply process_tomb_new in E;
          destruct E as [E|(t' & k & Hf & Hr & Hk)]; [cbn in E; congruence|exact (no_revoked_form_fm keys Hno t' k Hf Hr Hk)]).
  all: assert (HMK : MK (p_ksk s3) (p_tombs s3)) by
         (apply process_MK; cbn [p_ksk p_tombs]; exact (prefetch_MK tag live cfg d now fl ksk2 tombs2 Hp)).
  - (* AuthFull *)
    split.
    + intros tb Hin. apply tail_writes_tomb in Hin. subst tb. cbn [p_tombs]. exact Hm3.
    + intros s5 t' a' Hin Hin' Hmk Hx. pose proof (tail_writes_state _ _ _ _ _ Hin _ Hin') as H5. cbn [p_ksk] in H5.
      pose proof (keyrem_MK now fm _ _ HMK t' a' H5 Hmk) as H6. congruence.
  - (* AuthRevOnly *)
    split.
    + intros tb Hin. apply tail_writes_tomb in Hin. subst tb. exact Hm3.
    + intros s5 t' a' Hin Hin' Hmk Hx. pose proof (tail_writes_state _ _ _ _ _ Hin _ Hin') as H5.
      pose proof (HMK t' a' H5 Hmk) as H6. congruence.
Qed.

(* the premises on one refresh *)
Definition run_ok (d : disk) (now : Z) (fe : fetch) (fl : faults) : Prop :=
  f_sread fl = false /\ f_tread fl = TROk /\ (f_twrite fl = false \/ f_swrite fl = false) /\
  match fe with
  | FErr => True
  | FResp keys sigs =>
      no_revoked_form keys /\
      (* if the state file has K as Missing and this response omits it, then within the remove hold-down *)
      (forall ksk a, d_state d = Some ksk -> lookup t ksk = Some a -> ta_st a = SMissing ->
                     fm_has (fetched_map tag keys) t a = false -> (now - ta_fs a <= hold_rem)%Z)
  end.

Lemma after_refresh_ok now fm a : ta_key a = K -> is_trusted_st a = true ->
  ta_key (after_refresh now fm t a) = K /\ is_trusted_st (after_refresh now fm t a) = true.
Proof.
  intros Hk Htr. unfold after_refresh. destruct (fm_has fm t a); [split; [exact Hk|reflexivity]|].
  destruct a as [k st0 fs]; cbn in *. destruct st0; try discriminate; split; auto.
Qed.

(* one run, from the table it starts with (the state file, or the table seeded from the live set) *)
Lemma run_stays_core live cfg d now fe fl ksk a :
  ksk = match d_state d with Some s => s | None => seed_from_live tag now live end ->
  lookup t ksk = Some a -> ta_key a = K -> is_trusted_st a = true ->
  (forall t' a', In (t', a') ksk -> is_marker a' = true -> ta_mat a' <> m) ->
  (forall tb, d_tomb d = Some tb -> mem m tb = false) ->
  cfg_ok cfg -> In K live ->
  f_sread fl = false -> f_tread fl = TROk -> (f_twrite fl = false \/ f_swrite fl = false) ->
  match fe with
  | FErr => True
  | FResp keys sigs =>
      no_revoked_form keys /\
      (ta_st a = SMissing -> fm_has (fetched_map tag keys) t a = false -> (now - ta_fs a <= hold_rem)%Z)
  end ->
  let r := autota tag live cfg d now fe fl in
  In K (r_live r) /\
  (forall s5, In (WState s5) (r_writes r) -> state_ok s5) /\
  (forall tb, In (WTomb tb) (r_writes r) -> mem m tb = false).
Proof.
  intros Hs Hl0 Hk Hta Hnm Htb Hc Hlive Hsr Htr Hw Hfe. cbn zeta.
  destruct (prefetch_anchored live cfg d now fl ksk a Hs Hl0 Hk Hta Hnm Htb Hc Hsr Htr) as (ksk2 & tombs2 & Hp & Hl & Hnm2 & Hm2).
  assert (Hcand : In K (trusted_keys ksk2)).
  { rewrite <- Hk. eapply trusted_keys_intro; [apply lookup_in; exact Hl|exact Hta]. }
  assert (Hnil : is_nil live = false) by (destruct live; [destruct Hlive|reflexivity]).
  destruct fe as [|keys sigs].
  - unfold autota. rewrite Hp, Hnil. cbn. split; [exact Hcand|split; intros ? []].
  - destruct Hfe as (Hno & Hage).
    destruct (written_clean live cfg d now keys sigs fl ksk2 tombs2 Hp Hm2 Hno) as (Hwt & Hwm).
    destruct (authenticate tag (trusted_keys ksk2) keys sigs) eqn:Ea.
    + unfold autota. rewrite Hp, Ea, Hnil. cbn. split; [exact Hcand|split; intros ? []].
    + (* fully authenticated *)
      destruct (missing_90d_lemma tag live cfg d now keys sigs fl ksk2 tombs2 t a Hp Ea Hl Hta) as (Hin & Hst).
      * intros t' k Hf Hr. unfold ta_mat. rewrite Hk. exact (no_revoked_form_fm keys Hno t' k Hf Hr).
      * exact Hw.
      * intros Hf Hst'. exact (Hage Hst' Hf).
      * rewrite Hk in Hin. split; [exact Hin|split; [|exact Hwt]].
        intros s5 H5. split.
        -- exists (after_refresh now (fetched_map tag keys) t a). split; [apply Hst; exact H5|apply after_refresh_ok; assumption].
        -- intros t' a' Hin' Hmk. exact (Hwm s5 t' a' H5 Hin' Hmk).
    + (* revocation-only *)
      destruct (revoked_only_keeps_other_anchors_lemma tag live cfg d now keys sigs fl ksk2 tombs2 t a Hp Ea Hl Hta) as (Hin & Hst & _).
      * intros t' k Hf Hr Hkm. exfalso. unfold ta_mat in Hkm. rewrite Hk in Hkm. exact (no_revoked_form_fm keys Hno t' k Hf Hr Hkm).
      * exact Hw.
      * rewrite Hk in Hin. split; [exact Hin|split; [|exact Hwt]].
        intros s5 H5. split.
        -- exists a. split; [apply Hst; exact H5|split; assumption].
        -- intros t' a' Hin' Hmk. exact (Hwm s5 t' a' H5 Hin' Hmk).
Qed.

Lemma run_stays live cfg d now fe fl :
  anchored d -> cfg_ok cfg -> In K live -> run_ok d now fe fl ->
  let r := autota tag live cfg d now fe fl in
  In K (r_live r) /\
  (forall s5, In (WState s5) (r_writes r) -> state_ok s5) /\
  (forall tb, In (WTomb tb) (r_writes r) -> mem m tb = false).
Proof.
  intros ((ksk & Hs & (a & Hl0 & Hk & Hta) & Hnm) & Htb) Hc Hlive (Hsr & Htr & Hw & Hfe).
  apply (run_stays_core live cfg d now fe fl ksk a); try assumption.
  - rewrite Hs. reflexivity.
  - destruct fe as [|keys sigs]; [exact I|]. destruct Hfe as (Hno & Hage). split; [exact Hno|].
    intros Hst Hf. exact (Hage ksk a Hs Hl0 Hst Hf).
Qed.

(* the first refresh on a fresh directory: the table is seeded from the live set *)
Lemma run_stays_fresh live cfg d now fe fl :
  fresh live d -> cfg_ok cfg ->
  f_sread fl = false -> f_tread fl = TROk -> (f_twrite fl = false \/ f_swrite fl = false) ->
  match fe with FErr => True | FResp keys sigs => no_revoked_form keys end ->
  let r := autota tag live cfg d now fe fl in
  In K (r_live r) /\
  (forall s5, In (WState s5) (r_writes r) -> state_ok s5) /\
  (forall tb, In (WTomb tb) (r_writes r) -> mem m tb = false).
Proof.
  intros (Hs & Hseed & Htb) Hc Hsr Htr Hw Hfe.
  apply (run_stays_core live cfg d now fe fl (seed_from_live tag now live) (mk_ta K SValid now)); try assumption.
  - rewrite Hs. reflexivity.
  - apply seed_lookup. exact Hseed.
  - reflexivity.
  - reflexivity.
  - apply seed_markers. exact Hseed.
  - apply Hseed.
  - destruct fe as [|keys sigs]; [exact I|]. split; [exact Hfe|]. cbn. discriminate.
Qed.

(* ---------------------------------------------------------------- histories *)
Hypothesis K_plain : is_rev K = false.

Lemma anchored_apply_writes ws : forall d,
  anchored d -> (forall s5, In (WState s5) ws -> state_ok s5) -> (forall tb, In (WTomb tb) ws -> mem m tb = false) ->
  anchored (apply_writes d ws).
Proof.
  induction ws as [|w ws IH]; intros d Ha Hs Ht; [exact Ha|].
  change (apply_writes d (w :: ws)) with (apply_writes (apply_write d w) ws).
  apply IH; [|intros s5 H; apply Hs; right; exact H|intros tb H; apply Ht; right; exact H].
  destruct Ha as ((ksk & Hd & Hok) & Htb). destruct w as [tb|s5]; cbn [apply_write].
  - split; [exists ksk; split; [exact Hd|exact Hok]|]. cbn [d_tomb]. intros tb' E. inversion E. subst tb'. apply Ht. left. reflexivity.
  - split; [exists s5; split; [reflexivity|apply Hs; left; reflexivity]|]. exact Htb.
Qed.

Lemma restart_keeps cfg' d :
  anchored d -> In K cfg' -> In K (restart_live cfg' d TROk false).
Proof.
  intros ((ksk & Hd & (_ & Hnm)) & Htb) Hin. unfold restart_live. rewrite Hd.
  apply filter_In. split; [exact Hin|]. rewrite K_plain. cbn [negb andb].
  set (tombs0 := match d_tomb d with Some x => x | None => [] end).
  destruct (mem (k_mat K) (migrate ksk tombs0)) eqn:E; [|reflexivity]. exfalso.
  apply migrate_new in E. destruct E as [E|(t' & a' & Hi & Hm & Hx)]; [|exact (Hnm t' a' Hi Hm Hx)].
  unfold tombs0 in E. destruct (d_tomb d) as [tb|] eqn:E2; [|discriminate]. fold m in E. rewrite (Htb tb eq_refl) in E. discriminate.
Qed.

Definition event_ok (s : sys) (e : event) : Prop :=
  match e with
  | ERun now fe fl => run_ok (s_disk s) now fe fl
  | ECrash now fe fl k cfg' tr sr => run_ok (s_disk s) now fe fl /\ In K cfg' /\ cfg_ok cfg' /\ tr = TROk /\ sr = false
  | ERestart cfg' tr sr => In K cfg' /\ cfg_ok cfg' /\ tr = TROk /\ sr = false
  end.
Fixpoint hist_ok (s : sys) (h : list event) : Prop :=
  match h with
  | [] => True
  | e :: r => event_ok s e /\ hist_ok (step tag s e) r
  end.
Definition good (s : sys) : Prop := anchored (s_disk s) /\ cfg_ok (s_cfg s) /\ In K (s_live s).

Lemma in_firstn_in {A} (x : A) n l : In x (firstn n l) -> In x l.
Proof. revert l. induction n; intros [|y l] H; cbn in *; try contradiction. destruct H; [left; assumption|right; auto]. Qed.

Lemma step_good s e : good s -> event_ok s e -> good (step tag s e).
Proof.
  intros (Ha & Hc & Hl) He. destruct e as [now fe fl|now fe fl k cfg' tr sr|cfg' tr sr]; cbn [event_ok] in He.
  - destruct (run_stays (s_live s) (s_cfg s) (s_disk s) now fe fl Ha Hc Hl He) as (H1 & H2 & H3).
    cbn [step]. unfold run_of. split; [|split; [exact Hc|exact H1]]. cbn [s_disk].
    rewrite r_disk_writes. apply anchored_apply_writes; assumption.
  - destruct He as (Hr & Hin & Hc' & -> & ->).
    destruct (run_stays (s_live s) (s_cfg s) (s_disk s) now fe fl Ha Hc Hl Hr) as (H1 & H2 & H3).
    cbn [step]. unfold run_of.
    assert (Ha' : anchored (apply_writes (s_disk s) (firstn k (r_writes (autota tag (s_live s) (s_cfg s) (s_disk s) now fe fl))))).
    { apply anchored_apply_writes; [exact Ha|intros s5 H; apply H2; eapply in_firstn_in; exact H|intros tb H; apply H3; eapply in_firstn_in; exact H]. }
    split; [exact Ha'|split; [exact Hc'|]]. cbn [s_live s_disk]. apply restart_keeps; assumption.
  - destruct He as (Hin & Hc' & -> & ->). cbn [step]. split; [exact Ha|split; [exact Hc'|]]. cbn [s_live s_disk]. apply restart_keeps; assumption.
Qed.

(* from a fresh directory: the first refresh keeps K live, and once a refresh has written the state file the disk is
   anchored *)
Lemma anchored_after_state_write ws : forall d,
  (forall tb, d_tomb d = Some tb -> mem m tb = false) ->
  (forall s5, In (WState s5) ws -> state_ok s5) -> (forall tb, In (WTomb tb) ws -> mem m tb = false) ->
  (exists s5, In (WState s5) ws) -> anchored (apply_writes d ws).
Proof.
  induction ws as [|w ws IH]; intros d Htb Hs Ht (s5 & Hin); [destruct Hin|].
  change (apply_writes d (w :: ws)) with (apply_writes (apply_write d w) ws).
  destruct w as [tb|s6].
  - destruct Hin as [Hin|Hin]; [discriminate|].
    apply IH; [|intros x H; apply Hs; right; exact H|intros x H; apply Ht; right; exact H|exists s5; exact Hin].
    cbn. intros tb' E. inversion E. subst tb'. apply Ht. left. reflexivity.
  - apply anchored_apply_writes; [|intros x H; apply Hs; right; exact H|intros x H; apply Ht; right; exact H].
    split; [exists s6; split; [reflexivity|apply Hs; left; reflexivity]|exact Htb].
Qed.

Lemma first_refresh_anchors_lemma (s : sys) now fe fl :
  fresh (s_live s) (s_disk s) -> cfg_ok (s_cfg s) ->
  f_sread fl = false -> f_tread fl = TROk -> (f_twrite fl = false \/ f_swrite fl = false) ->
  match fe with FErr => True | FResp keys sigs => no_revoked_form keys end ->
  let s' := step tag s (ERun now fe fl) in
  In K (s_live s') /\
  ((exists s5, In (WState s5) (r_writes (run_of tag s now fe fl))) -> good s').
Proof.
  intros Hf Hc Hsr Htr Hw Hfe. cbn zeta.
  destruct (run_stays_fresh (s_live s) (s_cfg s) (s_disk s) now fe fl Hf Hc Hsr Htr Hw Hfe) as (H1 & H2 & H3).
  cbn [step]. unfold run_of. cbn [s_live]. split; [exact H1|].
  intros Hex. split; [|split; [exact Hc|exact H1]]. cbn [s_disk]. rewrite r_disk_writes.
  destruct Hf as (_ & _ & Htb). apply anchored_after_state_write; assumption.
Qed.

Lemma anchor_stays_trusted_lemma h : forall s, good s -> hist_ok s h -> good (exec tag s h).
Proof.
  induction h as [|e h IH]; intros s Hg Hh; [exact Hg|]. destruct Hh as (He & Hh).
  change (exec tag s (e :: h)) with (exec tag (step tag s e) h). apply IH; [apply step_good; assumption|exact Hh].
Qed.

End Stay.

(* ------------------------------------------------------------------ example (non-vacuity) *)
Definition ztag (k : key) : N := k_mat k * 1000 + k_flags k.
Definition zA := mk_key 1 257.
Definition zB := mk_key 2 257.
Definition zs0 : sys := mk_sys [zA] [zA] (mk_disk (Some [(ztag zA, mk_ta zA SValid 0%Z)]) None).
Definition zsigA := mk_sig (ztag zA) 1 true.
Definition zh : list event :=
  [ ERun 10%Z (FResp [zA; zB] [zsigA]) no_faults;                               (* A and a new key B published *)
    ERun 20%Z (FResp [zB] [zsigA]) no_faults;                                   (* A disappears: Missing since 20 *)
    ERun 30%Z FErr no_faults;                                                   (* failed fetch *)
    ECrash 40%Z (FResp [zB] [zsigA]) no_faults 1 [zA] TROk false;               (* crash between the two renames *)
    ERun (20 + hold_rem)%Z (FResp [zB] [zsigA]) (mk_faults false TROk true false);   (* day 90, tombstone write fails *)
    ERun (25 + hold_rem)%Z (FResp [zA; zB] [zsigA]) no_faults ].                (* A is back: Valid again *)

Ltac ev_ok :=
  match goal with
  | |- no_revoked_form _ _ =>
      let k := fresh "k" in let Hin := fresh "Hin" in let Hr := fresh "Hr" in
      intros k Hin Hr; repeat (destruct Hin as [<-|Hin]; [vm_compute in Hr; discriminate|]); destruct Hin
  | |- forall ksk a, d_state _ = Some ksk -> _ =>
      let ksk := fresh "ksk" in let a := fresh "a" in let Hd := fresh "Hd" in let Hl := fresh "Hl" in
      let Hst := fresh "Hst" in let Hf := fresh "Hf" in
      intros ksk a Hd Hl Hst Hf; vm_compute in Hd; inversion Hd; subst ksk; vm_compute in Hl; inversion Hl; subst a;
      vm_compute in Hst; try discriminate; vm_compute; discriminate
  | |- _ \/ _ => first [left; reflexivity | right; reflexivity]
  | |- In _ _ => left; reflexivity
  | |- cfg_ok _ _ =>
      let k := fresh "k" in let Hin := fresh "Hin" in
      intros k Hin _ Hr; repeat (destruct Hin as [<-|Hin]; [vm_compute in Hr; discriminate|]); destruct Hin
  | |- _ => reflexivity
  end.

(* the same from a fresh directory: the first refresh seeds the table from the live set and writes both files *)
Definition zs00 : sys := mk_sys [zA] [zA] (mk_disk None None).
Example first_refresh_example :
  fresh ztag zA (s_live zs00) (s_disk zs00) /\
  (exists s5, In (WState s5) (r_writes (run_of ztag zs00 0%Z (FResp [zA] [zsigA]) no_faults))) /\
  d_state (s_disk (step ztag zs00 (ERun 0%Z (FResp [zA] [zsigA]) no_faults))) = d_state (s_disk zs0).
Proof.
  split; [|split].
  - split; [reflexivity|split; [|intros tb H; discriminate]].
    split; [left; reflexivity|split; [reflexivity|split; [reflexivity|split]]].
    + intros k [<-|[]] _ _. reflexivity.
    + intros k [<-|[]] _ Hr. discriminate.
  - eexists. vm_compute. right. left. reflexivity.
  - vm_compute. reflexivity.
Qed.

Example anchor_stays_trusted_example :
  good ztag zA zs0 /\ hist_ok ztag zA zs0 zh /\
  s_live (exec ztag zs0 (firstn 2 zh)) = [zA] /\
  (exists tb, d_state (s_disk (exec ztag zs0 (firstn 5 zh))) = Some tb /\ lookup (ztag zA) tb = Some (mk_ta zA SMissing 20%Z)) /\
  (exists tb, d_state (s_disk (exec ztag zs0 zh)) = Some tb /\ lookup (ztag zA) tb = Some (mk_ta zA SValid 20%Z)).
Proof.
  split; [|split; [|split; [|split]]].
  - split; [split|split].
    + exists [(ztag zA, mk_ta zA SValid 0%Z)]. split; [reflexivity|]. split.
      * exists (mk_ta zA SValid 0%Z). repeat split; reflexivity.
      * intros t' a' [H|[]] Hm. inversion H. subst. discriminate.
    + intros tb H. discriminate.
    + intros k [<-|[]] _ Hr. discriminate.
    + left. reflexivity.
  - unfold zh. cbn [hist_ok]. repeat split; ev_ok.
  - vm_compute. reflexivity.
  - eexists. split; vm_compute; reflexivity.
  - eexists. split; vm_compute; reflexivity.
Qed.
