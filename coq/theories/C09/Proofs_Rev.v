(* C09 — durable-revocation invariant (DESIGN §5.A).

   For a fixed material m:
     durable m d  :=  m is in the tombstone file  \/  the state file holds a
                      Revoked/Removed marker whose key has material m.
   Every AutoTA run that starts from a durable disk — whatever its read and
   write faults (repaired code: an unreadable state or tombstone file fails
   closed) — keeps the disk durable after EVERY prefix of its file
   replacements and publishes no key of material m.  The run that accepts
   the revocation makes the disk durable as soon as one replacement lands. *)
From Sdns Require Import Common.Base Gen.C09 C09.Model C09.Proofs_Maps.
Open Scope N_scope.

Lemma marker_not_trusted a : is_marker a = true -> is_trusted_st a = false.
Proof. unfold is_marker, is_trusted_st. destruct (ta_st a); intros; congruence. Qed.

Lemma same_except_revoke_mat c r : same_except_revoke c r = true -> k_mat c = k_mat r.
Proof. unfold same_except_revoke. intros H. apply andb_true_iff in H. destruct H as [H _]. apply N.eqb_eq. exact H. Qed.

Section Rev.
Variable tag : key -> N.
Variable m : N.

Definition inv_B (ksk : kmap) : Prop := forall t a, In (t, a) ksk -> ta_mat a = m -> is_marker a = true.
Definition has_marker (ksk : kmap) : Prop :=
  exists t a, lookup t ksk = Some a /\ ta_mat a = m /\ is_marker a = true.

Definition durable_tomb (d : disk) : Prop := exists tb, d_tomb d = Some tb /\ mem m tb = true.
Definition durable_mark (d : disk) : Prop := exists s, d_state d = Some s /\ has_marker s.
Definition durable (d : disk) : Prop := durable_tomb d \/ durable_mark d.

Lemma cfgrev_mono now cfg tombs : mem m tombs = true -> mem m (cfgrev now cfg tombs) = true.
Proof.
  intros H. unfold cfgrev. apply fold_left_inv; [exact H|].
  intros t k Ht. unfold cfgrev_step. destruct (is_ksk k && is_rev k && negb (mem (k_mat k) t)); [|exact Ht].
  apply mem_set_mono. exact Ht.
Qed.

(* ---- migrate *)
Lemma migrate_mono ksk tombs : mem m tombs = true -> mem m (migrate ksk tombs) = true.
Proof.
  intros H. unfold migrate. apply fold_left_inv; [exact H|].
  intros t e Ht. unfold migrate_step. destruct (is_marker (snd e) && negb (mem (ta_mat (snd e)) t)); [|exact Ht].
  apply mem_set_mono. exact Ht.
Qed.

Lemma migrate_marker ksk tombs t a :
  In (t, a) ksk -> is_marker a = true -> ta_mat a = m -> mem m (migrate ksk tombs) = true.
Proof.
  revert tombs. induction ksk as [|e ksk IH]; intros tombs Hin Hm Hmat; [destruct Hin|].
  cbn. destruct Hin as [->|Hin].
  - change (mem m (migrate ksk (migrate_step tombs (t, a))) = true). apply migrate_mono.
    unfold migrate_step. cbn. rewrite Hm, Hmat. destruct (mem m tombs) eqn:E; cbn; [exact E|].
    rewrite mem_set, N.eqb_refl. reflexivity.
  - apply IH; assumption.
Qed.

(* ---- precedence *)
Lemma prec_inv_B ksk tombs : mem m tombs = true -> inv_B (precedence ksk tombs).
Proof.
  intros H t a Hin Hmat. unfold precedence in Hin. apply filter_In in Hin. destruct Hin as [_ Hf].
  cbn in Hf. rewrite Hmat, H in Hf. cbn in Hf. rewrite orb_false_r in Hf. exact Hf.
Qed.

Lemma prec_marker ksk tombs : has_marker ksk -> has_marker (precedence ksk tombs).
Proof.
  intros (t & a & Hl & Hmat & Hm). exists t, a. split; [|split; assumption].
  unfold precedence. apply lookup_filter_keep; [exact Hl|]. cbn. rewrite Hm. reflexivity.
Qed.

(* ---- merge *)
Definition J (ksk : kmap) (tombs : tmap) : Prop := mem m tombs = true /\ inv_B ksk.

Lemma merge_step_J now acc k : J (fst acc) (snd acc) -> J (fst (merge_step tag now acc k)) (snd (merge_step tag now acc k)).
Proof.
  destruct acc as [ksk tombs]. cbn. intros [Ht Hb]. unfold merge_step.
  destruct (negb (is_ksk k)); [split; assumption|].
  destruct (lookup (tag k) ksk) eqn:El; [split; assumption|].
  destruct (mem (k_mat k) tombs) eqn:Em; [split; assumption|].
  destruct (is_rev k); cbn.
  - split; [apply mem_set_mono; exact Ht|exact Hb].
  - split; [exact Ht|]. intros t a Hin Hmat. apply in_set in Hin. destruct Hin as [[-> ->]|[Hin _]].
    + unfold ta_mat in Hmat. cbn in Hmat. rewrite Hmat in Em. congruence.
    + eapply Hb; eassumption.
Qed.

Lemma merge_J now cfg ksk tombs : J ksk tombs -> J (fst (merge tag now cfg ksk tombs)) (snd (merge tag now cfg ksk tombs)).
Proof.
  intros H. unfold merge.
  apply (fold_left_inv (fun acc => J (fst acc) (snd acc))); [exact H|].
  intros acc k Hacc. apply merge_step_J. exact Hacc.
Qed.

Lemma merge_step_marker now acc k : has_marker (fst acc) -> has_marker (fst (merge_step tag now acc k)).
Proof.
  destruct acc as [ksk tombs]. cbn. intros (t & a & Hl & Hmat & Hm). unfold merge_step.
  destruct (negb (is_ksk k)); [exists t, a; auto|].
  destruct (lookup (tag k) ksk) eqn:El; [exists t, a; auto|].
  destruct (mem (k_mat k) tombs); [exists t, a; auto|].
  destruct (is_rev k); cbn; [exists t, a; auto|].
  exists t, a. split; [|auto]. rewrite lookup_set_neq; [exact Hl|]. intros E. rewrite E in El. congruence.
Qed.

Lemma merge_marker now cfg ksk tombs : has_marker ksk -> has_marker (fst (merge tag now cfg ksk tombs)).
Proof.
  intros H. unfold merge. apply (fold_left_inv (fun acc => has_marker (fst acc))); [exact H|].
  intros acc k Hacc. apply merge_step_marker. exact Hacc.
Qed.

(* ---- prefetch *)
Lemma has_marker_in ksk : has_marker ksk -> exists t a, In (t, a) ksk /\ ta_mat a = m /\ is_marker a = true.
Proof. intros (t & a & Hl & H1 & H2). exists t, a. split; [apply lookup_in; exact Hl|auto]. Qed.

Lemma prefetch_inv live cfg d now fl ksk2 tombs2 :
  prefetch tag live cfg d now fl = Some (ksk2, tombs2) ->
  durable d ->
  J ksk2 tombs2 /\ (durable_mark d -> has_marker ksk2).
Proof.
  unfold prefetch. intros Hp Hd.
  destruct (f_sread fl); [discriminate|].
  destruct (f_tread fl); [|discriminate|discriminate].
  set (ksk0 := match d_state d with Some s => s | None => seed_from_live tag now live end) in *.
  set (tombs0 := match d_tomb d with Some t => t | None => [] end) in *.
  assert (Hm1 : mem m (cfgrev now cfg (migrate ksk0 tombs0)) = true).
  { apply cfgrev_mono. destruct Hd as [(tb & Htb & Hmem)|(s & Hs & Hmk)].
    - apply migrate_mono. unfold tombs0. rewrite Htb. exact Hmem.
    - apply has_marker_in in Hmk. destruct Hmk as (t & a & Hin & Hmat & Hma).
      eapply migrate_marker; [|exact Hma|exact Hmat]. unfold ksk0. rewrite Hs. exact Hin. }
  inversion Hp as [Hp']. clear Hp.
  set (tombs1 := cfgrev now cfg (migrate ksk0 tombs0)) in *.
  pose proof (merge_J now cfg (precedence ksk0 tombs1) tombs1) as HJ.
  rewrite Hp' in HJ. cbn in HJ. split.
  - apply HJ. split; [exact Hm1|apply prec_inv_B; exact Hm1].
  - intros (s & Hs & Hmk).
    pose proof (merge_marker now cfg (precedence ksk0 tombs1) tombs1) as HM.
    rewrite Hp' in HM. cbn in HM. apply HM. apply prec_marker. unfold ksk0. rewrite Hs. exact Hmk.
Qed.

(* ---- the per-tag loop *)
Lemma process_one_J now ro fm staged s t : J (p_ksk s) (p_tombs s) ->
  J (p_ksk (process_one tag now ro fm staged s t)) (p_tombs (process_one tag now ro fm staged s t)).
Proof.
  intros [Ht Hb]. unfold process_one.
  destruct (lookup t fm) as [k|]; [|split; assumption].
  destruct (mem (k_mat k) (p_tombs s)) eqn:Em; [split; assumption|].
  destruct (ident_existing (p_ksk s) t k); [split; assumption|].
  destruct (is_rev k).
  - destruct (lookup (tag (unrev k)) (p_ksk s)) as [old|]; [|split; assumption].
    destruct (is_trusted_st old && same_except_revoke (ta_key old) k && staged_ok staged t); [|split; assumption].
    cbn. split; [apply mem_set_mono; exact Ht|].
    intros x a Hin Hmat. apply in_set in Hin. destruct Hin as [[-> ->]|[Hin _]]; [reflexivity|eapply Hb; eassumption].
  - destruct ro; [split; assumption|].
    destruct (lookup t (p_ksk s)); [split; assumption|]. cbn. split; [exact Ht|].
    intros x a Hin Hmat. apply in_set in Hin. destruct Hin as [[-> ->]|[Hin _]].
    + unfold ta_mat in Hmat. cbn in Hmat. rewrite Hmat in Em. congruence.
    + eapply Hb; eassumption.
Qed.

Lemma process_J now ro fm staged tags s : J (p_ksk s) (p_tombs s) ->
  J (p_ksk (process tag now ro fm staged tags s)) (p_tombs (process tag now ro fm staged tags s)).
Proof.
  intros H. unfold process. apply (fold_left_inv (fun s => J (p_ksk s) (p_tombs s))); [exact H|].
  intros s' t' Hs. apply process_one_J. exact Hs.
Qed.

Lemma process_one_marker now ro fm staged s t : has_marker (p_ksk s) -> has_marker (p_ksk (process_one tag now ro fm staged s t)).
Proof.
  intros (t0 & a & Hl & Hmat & Hm). unfold process_one.
  destruct (lookup t fm) as [k|]; [|exists t0, a; auto].
  destruct (mem (k_mat k) (p_tombs s)); [exists t0, a; auto|].
  destruct (ident_existing (p_ksk s) t k); [exists t0, a; auto|].
  destruct (is_rev k).
  - destruct (lookup (tag (unrev k)) (p_ksk s)) as [old|] eqn:Eo; [|exists t0, a; auto].
    destruct (is_trusted_st old && same_except_revoke (ta_key old) k && staged_ok staged t) eqn:Ec; [|exists t0, a; auto].
    cbn. exists t0, a. split; [|auto]. rewrite lookup_set_neq; [exact Hl|].
    intros E. rewrite E in Eo. rewrite Hl in Eo. inversion Eo; subst old.
    apply andb_true_iff in Ec. destruct Ec as [Ec _]. apply andb_true_iff in Ec. destruct Ec as [Ec _].
    rewrite (marker_not_trusted _ Hm) in Ec. discriminate.
  - destruct ro; [exists t0, a; auto|].
    destruct (lookup t (p_ksk s)) eqn:El; [exists t0, a; auto|]. cbn.
    exists t0, a. split; [|auto]. rewrite lookup_set_neq; [exact Hl|]. intros E. rewrite E in El. congruence.
Qed.

Lemma process_marker now ro fm staged tags s : has_marker (p_ksk s) -> has_marker (p_ksk (process tag now ro fm staged tags s)).
Proof.
  intros H. unfold process. apply (fold_left_inv (fun s => has_marker (p_ksk s))); [exact H|].
  intros s' t' Hs. apply process_one_marker. exact Hs.
Qed.

(* a revocation accepted by the loop leaves both records in memory *)
Definition Q (s : pst) : Prop := In m (p_revs s) -> mem m (p_tombs s) = true /\ has_marker (p_ksk s).

Lemma process_one_tomb_mono now ro fm staged s t x :
  mem x (p_tombs s) = true -> mem x (p_tombs (process_one tag now ro fm staged s t)) = true.
Proof.
  intros Ha. unfold process_one.
  destruct (lookup t fm) as [k|]; [|exact Ha].
  destruct (mem (k_mat k) (p_tombs s)); [exact Ha|].
  destruct (ident_existing (p_ksk s) t k); [exact Ha|].
  destruct (is_rev k).
  - destruct (lookup (tag (unrev k)) (p_ksk s)) as [old|]; [|exact Ha].
    destruct (is_trusted_st old && same_except_revoke (ta_key old) k && staged_ok staged t); [|exact Ha].
    cbn. apply mem_set_mono. exact Ha.
  - destruct ro; [exact Ha|]. destruct (lookup t (p_ksk s)); exact Ha.
Qed.

Lemma process_one_revs now ro fm staged s t :
  In m (p_revs (process_one tag now ro fm staged s t)) ->
  In m (p_revs s) \/
  (mem m (p_tombs (process_one tag now ro fm staged s t)) = true /\ has_marker (p_ksk (process_one tag now ro fm staged s t))).
Proof.
  unfold process_one.
  destruct (lookup t fm) as [k|]; [|intros; left; auto].
  destruct (mem (k_mat k) (p_tombs s)); [intros; left; auto|].
  destruct (ident_existing (p_ksk s) t k); [intros; left; auto|].
  destruct (is_rev k).
  - destruct (lookup (tag (unrev k)) (p_ksk s)) as [old|] eqn:Eo; [|intros; left; auto].
    destruct (is_trusted_st old && same_except_revoke (ta_key old) k && staged_ok staged t) eqn:Ec; [|intros; left; auto].
    cbn. intros [E|Hin]; [|left; exact Hin].
    right. split; [rewrite mem_set, E, N.eqb_refl; reflexivity|].
    exists (tag (unrev k)), (mk_ta (ta_key old) SRevoked now).
    split; [apply lookup_set_eq|]. split; [|reflexivity].
    apply andb_true_iff in Ec. destruct Ec as [Ec _]. apply andb_true_iff in Ec. destruct Ec as [_ Ec].
    apply same_except_revoke_mat in Ec. unfold ta_mat. cbn. congruence.
  - destruct ro; [intros; left; auto|]. destruct (lookup t (p_ksk s)); intros; left; auto.
Qed.

Lemma process_one_Q now ro fm staged s t : Q s -> Q (process_one tag now ro fm staged s t).
Proof.
  intros HQ Hin. apply process_one_revs in Hin. destruct Hin as [Hin|H]; [|exact H].
  destruct (HQ Hin) as [Ha Hb]. split; [apply process_one_tomb_mono; exact Ha|apply process_one_marker; exact Hb].
Qed.

Lemma process_Q now ro fm staged tags s : Q s -> Q (process tag now ro fm staged tags s).
Proof.
  intros H. unfold process. apply (fold_left_inv Q); [exact H|].
  intros s' t' Hs. apply process_one_Q. exact Hs.
Qed.

(* ---- KeyRem / KeyPres / hold-down loop *)
Lemma keyrem_one_spec now fm t a x b :
  In (x, b) (keyrem_one now fm (t, a)) ->
  x = t /\ ta_key b = ta_key a /\ (is_marker a = true -> b = a).
Proof.
  unfold keyrem_one, is_marker. cbn [fst snd]. destruct a as [k s0 fs]. cbn [ta_st ta_key ta_fs].
  destruct (fm_has fm t _); destruct s0; cbn [ta_st ta_key ta_fs];
    repeat match goal with |- context [if ?c then _ else _] => destruct c end;
    cbn; intros H; repeat (destruct H as [H|H]; [inversion H; subst; repeat split; intros; try reflexivity; try discriminate|]); try destruct H.
Qed.

Lemma keyrem_one_marker now fm t a : is_marker a = true -> keyrem_one now fm (t, a) = [(t, a)].
Proof.
  unfold keyrem_one, is_marker. cbn [fst snd]. destruct a as [k s0 fs]. cbn [ta_st ta_key ta_fs].
  destruct s0; try discriminate; intros _; destruct (fm_has fm t _); reflexivity.
Qed.

Lemma keyrem_inv_B now fm ksk : inv_B ksk -> inv_B (keyrem now fm ksk).
Proof.
  intros Hb x b Hin Hmat. unfold keyrem in Hin. apply in_flat_map in Hin. destruct Hin as ([t a] & Hin & Hone).
  apply keyrem_one_spec in Hone. destruct Hone as (-> & Hk & Hmk).
  assert (Ha : is_marker a = true). { apply (Hb t a Hin). unfold ta_mat in *. rewrite <- Hk. exact Hmat. }
  rewrite (Hmk Ha). exact Ha.
Qed.

Lemma keyrem_marker now fm ksk : has_marker ksk -> has_marker (keyrem now fm ksk).
Proof.
  intros (t & a & Hl & Hmat & Hm). exists t, a. split; [|auto]. unfold keyrem.
  eapply lookup_flat_map_keep; [|exact Hl|apply keyrem_one_marker; exact Hm].
  intros [t' a'] x b Hin. apply keyrem_one_spec in Hin. destruct Hin as [-> _]. reflexivity.
Qed.

(* ---- published sets *)
Lemma trusted_keys_in ksk k : In k (trusted_keys ksk) -> exists t a, In (t, a) ksk /\ is_trusted_st a = true /\ ta_key a = k.
Proof.
  unfold trusted_keys. intros H. apply in_map_iff in H. destruct H as ([t a] & Hk & Hin).
  apply filter_In in Hin. destruct Hin as [Hin Hf]. exists t, a. auto.
Qed.

(* finalRootKeys since the fix: a sub-list of the Valid|Missing keys, none of tombstoned material *)
Lemma published_in ksk tombs k :
  In k (published ksk tombs) ->
  exists t a, In (t, a) ksk /\ is_trusted_st a = true /\ ta_key a = k /\ mem (ta_mat a) tombs = false.
Proof.
  unfold published. intros H. apply trusted_keys_in in H. destruct H as (t & a & Hin & Ht & Hk).
  apply filter_In in Hin. destruct Hin as [Hin Hf]. cbn in Hf. exists t, a. repeat split; try assumption.
  destruct (mem (ta_mat a) tombs); [discriminate|reflexivity].
Qed.

Lemma published_sub ksk tombs k : In k (published ksk tombs) -> In k (trusted_keys ksk).
Proof.
  intros H. apply published_in in H. destruct H as (t & a & Hin & Ht & <- & _).
  unfold trusted_keys. apply in_map_iff. exists (t, a). split; [reflexivity|]. apply filter_In. split; assumption.
Qed.

Lemma published_not_tomb ksk tombs k : In k (published ksk tombs) -> mem (k_mat k) tombs = false.
Proof. intros H. apply published_in in H. destruct H as (t & a & _ & _ & <- & Hm). exact Hm. Qed.

Lemma inv_B_trusted ksk k : inv_B ksk -> In k (trusted_keys ksk) -> k_mat k <> m.
Proof.
  intros Hb Hin E. apply trusted_keys_in in Hin. destruct Hin as (t & a & Hin & Ht & <-).
  pose proof (Hb t a Hin E) as Hm. rewrite (marker_not_trusted _ Hm) in Ht. discriminate.
Qed.

Lemma inv_B_filter f ksk : inv_B ksk -> inv_B (filter f ksk).
Proof. intros Hb t a Hin Hmat. apply filter_In in Hin. destruct Hin as [Hin _]. exact (Hb t a Hin Hmat). Qed.

(* ---- disk *)
Lemma durable_write_tomb d tb : mem m tb = true -> durable (apply_write d (WTomb tb)).
Proof. intros H. left. exists tb. split; [reflexivity|exact H]. Qed.

Lemma durable_tomb_write_state d s : durable_tomb d -> durable (apply_write d (WState s)).
Proof. intros (tb & H1 & H2). left. exists tb. split; [exact H1|exact H2]. Qed.

Lemma durable_write_state_mark d s : has_marker s -> durable (apply_write d (WState s)).
Proof. intros H. right. exists s. split; [reflexivity|exact H]. Qed.

(* every prefix of the tail's replacements keeps the disk durable *)
Lemma tail_durable_keep live1 d fl s n :
  durable d -> mem m (p_tombs s) = true ->
  (f_twrite fl = true -> durable_tomb d \/ has_marker (p_ksk s)) ->
  durable (apply_writes d (firstn n (r_writes (tail live1 d fl s)))).
Proof.
  intros Hd Hm H3. unfold tail. cbn [r_writes].
  destruct (f_twrite fl) eqn:Etw; destruct (f_swrite fl) eqn:Esw; cbn [negb app].
  - destruct n; exact Hd.
  - destruct n as [|n]; [exact Hd|]. cbn. rewrite firstn_nil. cbn.
    destruct (H3 eq_refl) as [Ht|Hh]; [apply durable_tomb_write_state; exact Ht|apply durable_write_state_mark; exact Hh].
  - destruct n as [|n]; [exact Hd|]. cbn. rewrite firstn_nil. cbn. apply durable_write_tomb. exact Hm.
  - destruct n as [|[|n]]; [exact Hd| |]; cbn.
    + apply durable_write_tomb. exact Hm.
    + rewrite firstn_nil. cbn. left. exists (p_tombs s). split; [reflexivity|exact Hm].
Qed.

(* the run that accepted the revocation: any non-empty prefix makes it durable *)
Lemma tail_durable_new live1 d fl s n :
  mem m (p_tombs s) = true -> has_marker (p_ksk s) ->
  firstn n (r_writes (tail live1 d fl s)) <> [] ->
  durable (apply_writes d (firstn n (r_writes (tail live1 d fl s)))).
Proof.
  intros Hm Hh. unfold tail. cbn [r_writes].
  destruct (f_twrite fl) eqn:Etw; destruct (f_swrite fl) eqn:Esw; cbn [negb app].
  - destruct n; cbn; congruence.
  - destruct n as [|n]; [cbn; congruence|]. cbn. rewrite firstn_nil. cbn. intros _.
    apply durable_write_state_mark. exact Hh.
  - destruct n as [|n]; [cbn; congruence|]. cbn. rewrite firstn_nil. cbn. intros _. apply durable_write_tomb. exact Hm.
  - destruct n as [|[|n]]; [cbn; congruence| |]; cbn; intros _.
    + apply durable_write_tomb. exact Hm.
    + rewrite firstn_nil. cbn. left. exists (p_tombs s). split; [reflexivity|exact Hm].
Qed.

Lemma tail_live live1 d fl s k :
  inv_B (p_ksk s) -> (forall k, In k live1 -> k_mat k <> m) ->
  In k (r_live (tail live1 d fl s)) -> k_mat k <> m.
Proof.
  intros Hb Hl. unfold tail. cbn [r_live].
  destruct (negb (negb (f_twrite fl)) && negb (negb (f_swrite fl))).
  - destruct (p_newrev s); [intros []|apply Hl].
  - intros H. apply published_sub in H. revert H.
    destruct (negb (f_twrite fl)); apply inv_B_trusted; [apply inv_B_filter|]; exact Hb.
Qed.

(* ---- one run *)
Lemma r_disk_writes live cfg d now fe fl :
  r_disk (autota tag live cfg d now fe fl) = apply_writes d (r_writes (autota tag live cfg d now fe fl)).
Proof.
  unfold autota. destruct (prefetch tag live cfg d now fl) as [[ksk2 tombs2]|]; [|reflexivity].
  destruct fe as [|keys sigs]; [reflexivity|].
  destruct (authenticate tag (trusted_keys ksk2) keys sigs); reflexivity.
Qed.

Lemma run_keeps live cfg d now fe fl :
  durable d ->
  (forall k, In k (r_live (autota tag live cfg d now fe fl)) -> k_mat k <> m) /\
  (forall n, durable (apply_writes d (firstn n (r_writes (autota tag live cfg d now fe fl))))).
Proof.
  intros Hd. unfold autota.
  destruct (prefetch tag live cfg d now fl) as [[ksk2 tombs2]|] eqn:Ep.
  2:{ split; [intros k []|]. intros n. cbn. rewrite firstn_nil. exact Hd. }
  destruct (prefetch_inv _ _ _ _ _ _ _ Ep Hd) as [[Ht Hb] Hmk].
  assert (Hl1 : forall k, In k (if is_nil live then live else trusted_keys ksk2) -> k_mat k <> m).
  { intros k. destruct live; cbn; [intros []|]. apply inv_B_trusted. exact Hb. }
  assert (Hearly : forall o, (forall k, In k (r_live (mk_result (if is_nil live then live else trusted_keys ksk2) d [] o [])) -> k_mat k <> m) /\
                              (forall n, durable (apply_writes d (firstn n (r_writes (mk_result (if is_nil live then live else trusted_keys ksk2) d [] o [])))))).
  { intros o. split; [exact Hl1|]. intros n. cbn. rewrite firstn_nil. exact Hd. }
  destruct fe as [|keys sigs]; [apply Hearly|].
  assert (Hmain : forall ro,
    let fm := fetched_map tag keys in
    let tags := sort_tags (map fst fm) in
    let staged := stage tag ksk2 tombs2 sigs fm tags in
    let s3 := process tag now ro fm staged tags (mk_pst ksk2 tombs2 false []) in
    let s4 := if ro then s3 else mk_pst (keyrem now fm (p_ksk s3)) (p_tombs s3) (p_newrev s3) (p_revs s3) in
    (forall k, In k (r_live (tail (if is_nil live then live else trusted_keys ksk2) d fl s4)) -> k_mat k <> m) /\
    (forall n, durable (apply_writes d (firstn n (r_writes (tail (if is_nil live then live else trusted_keys ksk2) d fl s4)))))).
  { intros ro fm tags staged s3 s4.
    assert (HJ3 : J (p_ksk s3) (p_tombs s3)) by (apply process_J; split; assumption).
    assert (HJ4 : J (p_ksk s4) (p_tombs s4)).
    { unfold s4. destruct ro; [exact HJ3|]. cbn. destruct HJ3 as [H1 H2]. split; [exact H1|apply keyrem_inv_B; exact H2]. }
    split.
    - intros k. apply tail_live; [apply HJ4|exact Hl1].
    - intros n. apply tail_durable_keep; [exact Hd|apply HJ4|].
      intros _. destruct Hd as [Hdt|Hdm]; [left; exact Hdt|].
      right. assert (H3 : has_marker (p_ksk s3)) by (apply process_marker; apply Hmk; exact Hdm).
      unfold s4. destruct ro; [exact H3|]. cbn. apply keyrem_marker. exact H3. }
  destruct (authenticate tag (trusted_keys ksk2) keys sigs); [apply Hearly|apply (Hmain false)|apply (Hmain true)].
Qed.

Lemma run_accepts live cfg d now fe fl n :
  In m (r_revoked (autota tag live cfg d now fe fl)) ->
  firstn n (r_writes (autota tag live cfg d now fe fl)) <> [] ->
  durable (apply_writes d (firstn n (r_writes (autota tag live cfg d now fe fl)))).
Proof.
  unfold autota.
  destruct (prefetch tag live cfg d now fl) as [[ksk2 tombs2]|]; [|intros []].
  destruct fe as [|keys sigs]; [intros []|].
  assert (Hmain : forall ro,
    let fm := fetched_map tag keys in
    let tags := sort_tags (map fst fm) in
    let staged := stage tag ksk2 tombs2 sigs fm tags in
    let s3 := process tag now ro fm staged tags (mk_pst ksk2 tombs2 false []) in
    let s4 := if ro then s3 else mk_pst (keyrem now fm (p_ksk s3)) (p_tombs s3) (p_newrev s3) (p_revs s3) in
    In m (r_revoked (tail (if is_nil live then live else trusted_keys ksk2) d fl s4)) ->
    firstn n (r_writes (tail (if is_nil live then live else trusted_keys ksk2) d fl s4)) <> [] ->
    durable (apply_writes d (firstn n (r_writes (tail (if is_nil live then live else trusted_keys ksk2) d fl s4))))).
  { intros ro fm tags staged s3 s4 Hin Hne.
    assert (HQ : Q s3) by (apply process_Q; intros []).
    assert (Hin3 : In m (p_revs s3)). { unfold s4 in Hin. destruct ro; exact Hin. }
    destruct (HQ Hin3) as [Hm3 Hh3].
    apply tail_durable_new; [| |exact Hne].
    - unfold s4. destruct ro; exact Hm3.
    - unfold s4. destruct ro; [exact Hh3|]. cbn. apply keyrem_marker. exact Hh3. }
  destruct (authenticate tag (trusted_keys ksk2) keys sigs); [intros []|apply (Hmain false)|apply (Hmain true)].
Qed.

(* ---- histories *)
Lemma step_durable s e : durable (s_disk s) -> durable (s_disk (step tag s e)).
Proof.
  intros Hd. destruct e as [now fe fl|now fe fl k cfg' tr sr|cfg' tr sr]; cbn in *.
  - unfold run_of. rewrite r_disk_writes.
    destruct (run_keeps (s_live s) (s_cfg s) (s_disk s) now fe fl Hd) as [_ H].
    specialize (H (length (r_writes (autota tag (s_live s) (s_cfg s) (s_disk s) now fe fl)))).
    rewrite firstn_all in H. exact H.
  - unfold run_of. apply run_keeps; assumption.
  - exact Hd.
Qed.

Lemma exec_durable h : forall s, durable (s_disk s) -> durable (s_disk (exec tag s h)).
Proof.
  induction h as [|e h IH]; intros s Hd; [exact Hd|]. cbn in *.
  apply IH. apply step_durable. exact Hd.
Qed.

Lemma exec_app h1 h2 s : exec tag s (h1 ++ h2) = exec tag (exec tag s h1) h2.
Proof. unfold exec. apply fold_left_app. Qed.

(* NewResolver: a key whose material is recorded as revoked on disk — tombstone or marker — is not
   in the start-up trust set *)
Lemma restart_live_excludes cfg d tr sr key : durable d -> In key (restart_live cfg d tr sr) -> k_mat key <> m.
Proof.
  intros Hd Hin E. unfold restart_live in Hin. destruct tr; [|destruct Hin|destruct Hin].
  destruct sr; [destruct Hin|].
  apply filter_In in Hin. destruct Hin as [_ Hf].
  assert (Hm : mem m (migrate (match d_state d with Some s => s | None => [] end)
                              (match d_tomb d with Some t => t | None => [] end)) = true).
  { destruct Hd as [(tb & Htb & Hmem)|(s & Hs & Hmk)].
    - apply migrate_mono. rewrite Htb. exact Hmem.
    - apply has_marker_in in Hmk. destruct Hmk as (t & a & Hi & Hmat & Hma).
      rewrite Hs. eapply migrate_marker; eassumption. }
  rewrite E, Hm in Hf. rewrite andb_false_r in Hf. discriminate.
Qed.

Lemma restart_live_sub cfg d tr sr key : In key (restart_live cfg d tr sr) -> In key cfg.
Proof.
  unfold restart_live. destruct tr; [|intros []|intros []]. destruct sr; [intros []|].
  intros H. apply filter_In in H. apply H.
Qed.

End Rev.

(* revocation_permanent: see Properties.v *)
Lemma revocation_permanent_lemma :
  forall (tag : key -> N) (m : N) (s : sys) now fe fl,
    (* some run, from ANY state, accepts the revocation of material m ... *)
    In m (r_revoked (run_of tag s now fe fl)) ->
    forall s1,
    (* ... and either completes with at least one file replaced, or the process dies after k >= 1 replacements *)
    ((s1 = step tag s (ERun now fe fl) /\ r_writes (run_of tag s now fe fl) <> []) \/
     (exists k cfg' tr sr, s1 = step tag s (ECrash now fe fl k cfg' tr sr) /\ firstn k (r_writes (run_of tag s now fe fl)) <> [])) ->
    durable m (s_disk s1) /\
    (* then after EVERY later event of EVERY continuation — runs with any responses, clocks, read and
       write faults, crashes at any prefix, restarts with any configuration and any start-up read fault *)
    forall h e,
      let s' := step tag (exec tag s1 h) e in
      durable m (s_disk s') /\ (forall key, In key (s_live s') -> k_mat key <> m).
Proof.
  intros tag m s now fe fl Hacc s1 Hs1.
  assert (Hd1 : durable m (s_disk s1)).
  { destruct Hs1 as [[-> Hne]|(k & cfg' & tr & sr & -> & Hne)]; cbn.
    - unfold run_of in *. rewrite r_disk_writes.
      pose proof (run_accepts tag m (s_live s) (s_cfg s) (s_disk s) now fe fl
                    (length (r_writes (autota tag (s_live s) (s_cfg s) (s_disk s) now fe fl))) Hacc) as H.
      rewrite firstn_all in H. apply H. exact Hne.
    - unfold run_of in *. apply run_accepts; assumption. }
  split; [exact Hd1|]. intros h e s'.
  assert (Hdb : durable m (s_disk (exec tag s1 h))) by (apply exec_durable; exact Hd1).
  assert (Hds : durable m (s_disk s')) by (apply step_durable; exact Hdb).
  split; [exact Hds|].
  intros key Hin. unfold s' in *. destruct e as [now' fe' fl'|now' fe' fl' k cfg' tr sr|cfg' tr sr]; cbn in Hin.
  - unfold run_of in Hin. eapply (proj1 (run_keeps tag m _ _ _ now' fe' fl' Hdb)); eassumption.
  - eapply restart_live_excludes; [exact Hds|exact Hin].
  - eapply restart_live_excludes; [exact Hds|exact Hin].
Qed.
