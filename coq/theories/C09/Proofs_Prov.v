(* C09 — where the entries of the trust-anchor map come from: provenance of
   every entry after the per-tag loop and the KeyRem/KeyPres loop, and the
   theorems that follow from it (revoked-only responses, missing keys,
   the add hold-down rule). *)
From Sdns Require Import Common.Base Gen.C09 C09.Model C09.Proofs_Maps C09.Proofs_Rev C09.Proofs_Step.
Open Scope N_scope.

Lemma hold_add_pos : (0 <= hold_add)%Z. Proof. vm_compute. discriminate. Qed.
Lemma hold_rem_pos : (0 <= hold_rem)%Z. Proof. vm_compute. discriminate. Qed.

Section Prov.
Variable tag : key -> N.

(* what stageRevocationSelfSignatures recorded as "self-signed" really is *)
Lemma staged_ok_spec ksk tombs sigs fm tags t :
  staged_ok (stage tag ksk tombs sigs fm tags) t = true ->
  exists k', lookup t fm = Some k' /\ verify_with tag [k'] sigs = true.
Proof.
  unfold staged_ok. destruct (lookup t (stage tag ksk tombs sigs fm tags)) as [b|] eqn:E; [|discriminate].
  intros ->. apply lookup_in in E. unfold stage in E. apply in_flat_map in E. destruct E as (t0 & _ & Hin).
  unfold stage_one in Hin. destruct (lookup t0 fm) as [k'|] eqn:Ef; [|destruct Hin].
  destruct (negb (is_rev k')); [destruct Hin|].
  destruct (mem (k_mat k') tombs); [destruct Hin|].
  destruct (ident_existing ksk t0 k'); [destruct Hin|].
  destruct (lookup (tag (unrev k')) ksk) as [old|]; [|destruct Hin].
  destruct (negb (is_trusted_st old)); [destruct Hin|].
  destruct (negb (same_except_revoke (ta_key old) k')); [destruct Hin|].
  destruct Hin as [H|[]]. inversion H as [[H1 H2]]. subst t0. exists k'. split; [exact Ef|reflexivity].
Qed.

Lemma fetched_map_in keys t k : lookup t (fetched_map tag keys) = Some k -> In k keys /\ is_ksk k = true /\ tag k = t.
Proof.
  unfold fetched_map.
  assert (H : forall m0, (forall t k, lookup t m0 = Some k -> In k keys /\ is_ksk k = true /\ tag k = t) ->
              forall l, (forall k, In k l -> In k keys) ->
              forall t k, lookup t (fold_left (fun m k => if is_ksk k then set (tag k) k m else m) l m0) = Some k ->
                          In k keys /\ is_ksk k = true /\ tag k = t).
  { intros m0 H0 l. revert m0 H0. induction l as [|x l IH]; intros m0 H0 Hl t0 k0; cbn; [apply H0|].
    apply IH; [|intros; apply Hl; right; assumption].
    intros t1 k1. destruct (is_ksk x) eqn:Ex; [|apply H0].
    rewrite lookup_set. destruct (tag x =? t1) eqn:Et; [|apply H0].
    intros H. inversion H; subst. apply N.eqb_eq in Et. repeat split; [apply Hl; left; reflexivity|exact Ex|exact Et]. }
  apply (H [] ltac:(cbn; discriminate) keys ltac:(auto)).
Qed.

(* ---- provenance through the per-tag loop *)
Section Loop.
Variables (now : Z) (ro : bool) (keys : list key) (sigs : list sig) (ksk2 : kmap) (tombs2 : tmap).
Let fm := fetched_map tag keys.
Let tags := sort_tags (map fst fm).
Let staged := stage tag ksk2 tombs2 sigs fm tags.

(* a fetched, REVOKE-flagged, self-signed form of a trusted anchor of the pre-fetch map *)
Definition revokes (a : ta) (k' : key) : Prop :=
  In k' keys /\ is_rev k' = true /\ same_except_revoke (ta_key a) k' = true /\ verify_with tag [k'] sigs = true.

Inductive origin (t : N) (a' : ta) : Prop :=
| OrigSame : In (t, a') ksk2 -> origin t a'
| OrigRevoked a k' : In (t, a) ksk2 -> is_trusted_st a = true -> revokes a k' ->
                     a' = mk_ta (ta_key a) SRevoked now -> origin t a'
| OrigNew k : ro = false -> lookup t fm = Some k -> is_rev k = false -> mem (k_mat k) tombs2 = false ->
              a' = mk_ta k SAddPend now -> origin t a'.

Definition tomb_origin (x : N) (tb : tomb) : Prop :=
  In (x, tb) tombs2 \/ exists a t k', In (t, a) ksk2 /\ is_trusted_st a = true /\ revokes a k' /\ x = k_mat k' /\ tb = mk_tomb k' now.

Definition PV (s : pst) : Prop :=
  (forall t a', In (t, a') (p_ksk s) -> origin t a') /\
  (forall x tb, In (x, tb) (p_tombs s) -> tomb_origin x tb) /\
  (forall x, mem x tombs2 = true -> mem x (p_tombs s) = true).

Lemma process_one_PV s t : PV s -> PV (process_one tag now ro fm staged s t).
Proof.
  intros (Hk & Ht & Hm). unfold process_one.
  destruct (lookup t fm) as [k|] eqn:Ef; [|repeat split; assumption].
  destruct (mem (k_mat k) (p_tombs s)) eqn:Em; [repeat split; assumption|].
  destruct (ident_existing (p_ksk s) t k); [repeat split; assumption|].
  destruct (is_rev k) eqn:Er.
  - destruct (lookup (tag (unrev k)) (p_ksk s)) as [old|] eqn:Eo; [|repeat split; assumption].
    destruct (is_trusted_st old && same_except_revoke (ta_key old) k && staged_ok staged t) eqn:Ec; [|repeat split; assumption].
    apply andb_true_iff in Ec. destruct Ec as [Ec Hst]. apply andb_true_iff in Ec. destruct Ec as [Htr Hse].
    apply staged_ok_spec in Hst. destruct Hst as (k' & Hk' & Hv). fold fm in Hk'. rewrite Ef in Hk'. inversion Hk'; subst k'.
    assert (Hold : In (tag (unrev k), old) ksk2).
    { apply lookup_in in Eo. destruct (Hk _ _ Eo) as [H|a k' _ _ _ ->|k0 _ _ _ _ ->]; [exact H|cbn in Htr; discriminate|cbn in Htr; discriminate]. }
    assert (Hrev : revokes old k).
    { split; [apply (fetched_map_in keys t k Ef)|]. split; [exact Er|]. split; assumption. }
    cbn. split; [|split].
    + intros x b Hin. apply in_set in Hin. destruct Hin as [[-> ->]|[Hin _]]; [|apply Hk; exact Hin].
      eapply OrigRevoked; [exact Hold|exact Htr|exact Hrev|reflexivity].
    + intros x tb Hin. apply in_set in Hin. destruct Hin as [[-> ->]|[Hin _]]; [|apply Ht; exact Hin].
      right. exists old, (tag (unrev k)), k. repeat split; try assumption; apply Hrev.
    + intros x Hx. apply mem_set_mono. apply Hm. exact Hx.
  - destruct ro eqn:Ero; [repeat split; assumption|].
    destruct (lookup t (p_ksk s)) eqn:El; [repeat split; assumption|]. cbn. split; [|split; assumption].
    intros x b Hin. apply in_set in Hin. destruct Hin as [[-> ->]|[Hin _]]; [|apply Hk; exact Hin].
    eapply OrigNew; [exact Ero|exact Ef|exact Er| |reflexivity].
    destruct (mem (k_mat k) tombs2) eqn:E2; [|reflexivity]. rewrite (Hm _ E2) in Em. discriminate.
Qed.

Lemma process_PV : PV (process tag now ro fm staged tags (mk_pst ksk2 tombs2 false [])).
Proof.
  unfold process. apply (fold_left_inv PV).
  - split; [|split]; cbn; [intros; apply OrigSame; assumption|intros; left; assumption|auto].
  - intros s t Hs. apply process_one_PV. exact Hs.
Qed.

(* an entry no fetched key revokes is left alone by the loop *)
Lemma process_one_untouched s t t0 a :
  lookup t0 (p_ksk s) = Some a ->
  (forall t' k, lookup t' fm = Some k -> is_rev k = true -> same_except_revoke (ta_key a) k = false) ->
  lookup t0 (p_ksk (process_one tag now ro fm staged s t)) = Some a.
Proof.
  intros Hl Hno. unfold process_one.
  destruct (lookup t fm) as [k|] eqn:Ef; [|exact Hl].
  destruct (mem (k_mat k) (p_tombs s)); [exact Hl|].
  destruct (ident_existing (p_ksk s) t k); [exact Hl|].
  destruct (is_rev k) eqn:Er.
  - destruct (lookup (tag (unrev k)) (p_ksk s)) as [old|] eqn:Eo; [|exact Hl].
    destruct (is_trusted_st old && same_except_revoke (ta_key old) k && staged_ok staged t) eqn:Ec; [|exact Hl].
    cbn [p_ksk]. rewrite lookup_set_neq; [exact Hl|]. intros E. rewrite E in Eo. rewrite Hl in Eo. inversion Eo; subst old.
    apply andb_true_iff in Ec. destruct Ec as [Ec _]. apply andb_true_iff in Ec. destruct Ec as [_ Hse].
    rewrite (Hno t k Ef Er) in Hse. discriminate.
  - destruct ro; [exact Hl|]. destruct (lookup t (p_ksk s)) eqn:El; [exact Hl|]. cbn [p_ksk].
    rewrite lookup_set_neq; [exact Hl|]. intros E. rewrite E in El. congruence.
Qed.

Lemma process_untouched s t0 a :
  lookup t0 (p_ksk s) = Some a ->
  (forall t' k, lookup t' fm = Some k -> is_rev k = true -> same_except_revoke (ta_key a) k = false) ->
  lookup t0 (p_ksk (process tag now ro fm staged tags s)) = Some a.
Proof.
  intros Hl Hno. unfold process.
  apply (fold_left_inv (fun s => lookup t0 (p_ksk s) = Some a)); [exact Hl|].
  intros s' t' Hs. apply process_one_untouched; assumption.
Qed.

End Loop.

(* ---- the KeyRem / KeyPres / hold-down loop, entry by entry *)
Inductive kr_case (now : Z) (fm : list (N * key)) (t : N) (a b : ta) : Prop :=
| KrSame : b = a -> (ta_st a = SAddPend -> fm_has fm t a = true /\ (now - ta_fs a <= hold_add)%Z) ->
           (ta_st a = SValid -> fm_has fm t a = true) ->
           (ta_st a = SMissing -> fm_has fm t a = false /\ (now - ta_fs a <= hold_rem)%Z) -> kr_case now fm t a b
| KrMissing : ta_st a = SValid -> fm_has fm t a = false -> b = mk_ta (ta_key a) SMissing now -> kr_case now fm t a b
| KrPromoted : ta_st a = SAddPend -> fm_has fm t a = true -> (now - ta_fs a > hold_add)%Z ->
               b = mk_ta (ta_key a) SValid (ta_fs a) -> kr_case now fm t a b
| KrReappeared : ta_st a = SMissing -> fm_has fm t a = true -> b = mk_ta (ta_key a) SValid (ta_fs a) -> kr_case now fm t a b.

Lemma keyrem_one_cases now fm t a x b : In (x, b) (keyrem_one now fm (t, a)) -> x = t /\ kr_case now fm t a b.
Proof.
  pose proof hold_rem_pos as Hr.
  unfold keyrem_one. cbn [fst snd]. destruct (fm_has fm t a) eqn:Ef; destruct a as [k s0 fs]; cbn [ta_st ta_key ta_fs];
    destruct s0; cbn [ta_st ta_key ta_fs].
  all: repeat match goal with |- context [(?c >? ?d)%Z] => destruct (Z.gtb_spec c d) end.
  all: cbn; intros Hin; repeat (destruct Hin as [Hin|Hin]; [inversion Hin; subst; split; [reflexivity|]|]); try destruct Hin.
  all: try (apply KrSame; [reflexivity|cbn; intros; try discriminate; try assumption; try (split; [assumption|lia])..]; fail).
  all: try (apply KrPromoted; cbn; [reflexivity|assumption|lia|reflexivity]; fail).
  all: try (apply KrReappeared; cbn; [reflexivity|assumption|reflexivity]; fail).
  all: try (apply KrMissing; cbn; [reflexivity|assumption|reflexivity]; fail).
  all: try lia.
Qed.

Lemma keyrem_in now fm ksk x b : In (x, b) (keyrem now fm ksk) -> exists a, In (x, a) ksk /\ kr_case now fm x a b.
Proof.
  unfold keyrem. intros H. apply in_flat_map in H. destruct H as ([t a] & Hin & Hone).
  apply keyrem_one_cases in Hone. destruct Hone as [-> Hc]. exists a. split; assumption.
Qed.

End Prov.
