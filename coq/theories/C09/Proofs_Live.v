(* C09 — phase 3: (A) the accepting run itself publishes no key of the revoked material,
   (B) liveness: a presented, valid, self-signed revocation of a trusted anchor IS accepted,
   (C) well-formed anchor tables (one entry per tag, entries under the tag of their key) are an
   invariant, and a key missing for more than 90 days leaves the table and the live set. *)
From Sdns Require Import Common.Base Gen.C09 C09.Model C09.Proofs_Maps C09.Proofs_Rev C09.Proofs_Step C09.Proofs_Prov C09.Proofs_Thm.
Open Scope N_scope.

Lemma insert_sorted_in x y l : In x (insert_sorted y l) <-> x = y \/ In x l.
Proof.
  induction l as [|z l IH]; cbn; [intuition (subst; auto)|]. destruct (y <=? z); cbn; [intuition (subst; auto)|].
  rewrite IH. intuition (subst; auto).
Qed.
Lemma sort_tags_in x l : In x (sort_tags l) <-> In x l.
Proof.
  induction l as [|y l IH]; cbn; [tauto|]. rewrite insert_sorted_in, IH. intuition (subst; auto).
Qed.

Section Live.
Variable tag : key -> N.

(* ------------------------------------------------------------------ (B) liveness *)
Section Accept.
Variables (now : Z) (ro : bool) (keys : list key) (sigs : list sig) (ksk2 : kmap) (tombs2 : tmap).
Variables (K K' : key) (a : ta).
Let fm := fetched_map tag keys.
Let tags := sort_tags (map fst fm).
Let staged := stage tag ksk2 tombs2 sigs fm tags.
Hypothesis Hanchor : lookup (tag K) ksk2 = Some a.
Hypothesis HaK : ta_key a = K.
Hypothesis Hatr : is_trusted_st a = true.
Hypothesis Hrev : is_rev K' = true.
Hypothesis Hun : unrev K' = K.
Hypothesis Hsame : same_except_revoke K K' = true.
Hypothesis Hfetched : lookup (tag K') fm = Some K'.           (* in the response, not shadowed by a same-tag key *)
Hypothesis Hfresh : mem (k_mat K) tombs2 = false.              (* not yet on record *)
Hypothesis Hnotid : ident_existing ksk2 (tag K') K' = false.   (* the revoked form is not itself an entry *)
Hypothesis Hself : verify_with tag [K'] sigs = true.           (* valid self-signature *)

Lemma K'_mat : k_mat K' = k_mat K.
Proof. symmetry. apply same_except_revoke_mat. exact Hsame. Qed.

Lemma stage_one_K' : stage_one tag ksk2 tombs2 sigs fm (tag K') = [(tag K', true)].
Proof.
  unfold stage_one. rewrite Hfetched, Hrev. cbn. rewrite K'_mat, Hfresh, Hnotid, Hun, Hanchor, Hatr. cbn.
  rewrite HaK, Hsame. cbn. rewrite Hself. reflexivity.
Qed.

Lemma stage_one_key t x b : In (x, b) (stage_one tag ksk2 tombs2 sigs fm t) -> x = t.
Proof.
  unfold stage_one. destruct (lookup t fm) as [k'|]; [|intros []].
  destruct (negb (is_rev k')); [intros []|]. destruct (mem (k_mat k') tombs2); [intros []|].
  destruct (ident_existing ksk2 t k'); [intros []|].
  destruct (lookup (tag (unrev k')) ksk2) as [old|]; [|intros []].
  destruct (negb (is_trusted_st old)); [intros []|].
  destruct (negb (same_except_revoke (ta_key old) k')); [intros []|].
  intros [H|[]]. inversion H. reflexivity.
Qed.

Lemma staged_K' : staged_ok staged (tag K') = true.
Proof.
  assert (Hin : In (tag K') tags).
  { unfold tags. apply sort_tags_in. apply in_map_iff. exists (tag K', K'). split; [reflexivity|apply lookup_in; exact Hfetched]. }
  unfold staged_ok, staged, stage. revert Hin. generalize tags. intros l. induction l as [|t l IH]; [intros []|].
  intros [->|Hin]; cbn.
  - rewrite stage_one_K'. cbn. rewrite N.eqb_refl. reflexivity.
  - destruct (N.eq_dec t (tag K')) as [->|Hne]; [rewrite stage_one_K'; cbn; rewrite N.eqb_refl; reflexivity|].
    assert (Hskip : forall (l1 l2 : list (N * bool)), (forall x b, In (x, b) l1 -> x = t) -> lookup (tag K') (l1 ++ l2) = lookup (tag K') l2).
    { induction l1 as [|[x b] l1 IH1]; intros l2 Hk; [reflexivity|]. cbn.
      assert (x = t) by (apply (Hk x b); left; reflexivity). subst x.
      destruct (t =? tag K') eqn:E; [apply N.eqb_eq in E; contradiction|]. apply IH1. intros x0 b0 H0. apply (Hk x0 b0). right. exact H0. }
    rewrite Hskip; [apply IH; exact Hin|]. intros x b. apply stage_one_key.
Qed.

(* state of the loop: already revoked, or still revocable *)
Definition ready (s : pst) : Prop :=
  In (k_mat K) (p_revs s) \/
  (mem (k_mat K) (p_tombs s) = false /\ lookup (tag K) (p_ksk s) = Some a /\ ident_existing (p_ksk s) (tag K') K' = false).

Lemma process_one_ready s t : ready s -> ready (process_one tag now ro fm staged s t).
Proof.
  intros [H|(Hm & Hl & Hid)]; unfold process_one.
  - destruct (lookup t fm) as [k|]; [|left; exact H].
    destruct (mem (k_mat k) (p_tombs s)); [left; exact H|].
    destruct (ident_existing (p_ksk s) t k); [left; exact H|].
    destruct (is_rev k).
    + destruct (lookup (tag (unrev k)) (p_ksk s)) as [old|]; [|left; exact H].
      destruct (is_trusted_st old && same_except_revoke (ta_key old) k && staged_ok staged t); [|left; exact H].
      left. cbn. right. exact H.
    + destruct ro; [left; exact H|]. destruct (lookup t (p_ksk s)); left; exact H.
  - destruct (lookup t fm) as [k|] eqn:Ef; [|right; auto].
    destruct (mem (k_mat k) (p_tombs s)) eqn:Emk; [right; auto|].
    destruct (ident_existing (p_ksk s) t k) eqn:Eid; [right; auto|].
    destruct (is_rev k) eqn:Er.
    + destruct (lookup (tag (unrev k)) (p_ksk s)) as [old|] eqn:Eo; [|right; auto].
      destruct (is_trusted_st old && same_except_revoke (ta_key old) k && staged_ok staged t) eqn:Ec; [|right; auto].
      apply andb_true_iff in Ec. destruct Ec as [Ec _]. apply andb_true_iff in Ec. destruct Ec as [Htr Hse].
      destruct (N.eq_dec (k_mat k) (k_mat K)) as [Em|Em].
      * left. cbn. left. exact Em.
      * right. cbn [p_ksk p_tombs]. split; [|split].
        -- rewrite mem_set. destruct (k_mat k =? k_mat K) eqn:E; [apply N.eqb_eq in E; contradiction|]. exact Hm.
        -- rewrite lookup_set_neq; [exact Hl|]. intros E. rewrite E in Eo. rewrite Hl in Eo. inversion Eo; subst old.
           apply same_except_revoke_mat in Hse. rewrite HaK in Hse. congruence.
        -- unfold ident_existing in *. rewrite lookup_set.
           destruct (tag (unrev k) =? tag K') eqn:E; [|exact Hid].
           apply N.eqb_eq in E. rewrite E in Eo. rewrite Eo in Hid. cbn. exact Hid.
    + destruct ro; [right; auto|]. destruct (lookup t (p_ksk s)) eqn:El; [right; auto|].
      right. cbn [p_ksk p_tombs]. split; [exact Hm|]. split.
      * rewrite lookup_set_neq; [exact Hl|]. intros E. rewrite E in El. congruence.
      * unfold ident_existing in *. rewrite lookup_set. destruct (t =? tag K') eqn:E; [|exact Hid].
        apply N.eqb_eq in E. subst t. rewrite Hfetched in Ef. inversion Ef; subst k. rewrite Hrev in Er. discriminate.
Qed.

Lemma process_one_accepts s : ready s -> In (k_mat K) (p_revs (process_one tag now ro fm staged s (tag K'))).
Proof.
  intros [H|(Hm & Hl & Hid)]; unfold process_one; rewrite Hfetched.
  - destruct (mem (k_mat K') (p_tombs s)); [exact H|].
    destruct (ident_existing (p_ksk s) (tag K') K'); [exact H|]. rewrite Hrev.
    destruct (lookup (tag (unrev K')) (p_ksk s)) as [old|]; [|exact H].
    destruct (is_trusted_st old && same_except_revoke (ta_key old) K' && staged_ok staged (tag K')); [|exact H].
    cbn. right. exact H.
  - rewrite K'_mat, Hm, Hid, Hrev, Hun, Hl, Hatr, HaK, Hsame, staged_K'. cbn. left. reflexivity.
Qed.

Lemma process_revs_mono s t x : In x (p_revs s) -> In x (p_revs (process_one tag now ro fm staged s t)).
Proof.
  intros H. unfold process_one. destruct (lookup t fm) as [k|]; [|exact H].
  destruct (mem (k_mat k) (p_tombs s)); [exact H|]. destruct (ident_existing (p_ksk s) t k); [exact H|].
  destruct (is_rev k).
  - destruct (lookup (tag (unrev k)) (p_ksk s)) as [old|]; [|exact H].
    destruct (is_trusted_st old && same_except_revoke (ta_key old) k && staged_ok staged t); [|exact H]. cbn. right. exact H.
  - destruct ro; [exact H|]. destruct (lookup t (p_ksk s)); exact H.
Qed.

Lemma process_accepts : In (k_mat K) (p_revs (process tag now ro fm staged tags (mk_pst ksk2 tombs2 false []))).
Proof.
  assert (Hin : In (tag K') tags).
  { unfold tags. apply sort_tags_in. apply in_map_iff. exists (tag K', K'). split; [reflexivity|apply lookup_in; exact Hfetched]. }
  assert (H0 : ready (mk_pst ksk2 tombs2 false [])) by (right; cbn; auto).
  unfold process. revert H0 Hin. generalize (mk_pst ksk2 tombs2 false []). generalize tags. intros l.
  induction l as [|t l IH]; intros s Hr; [intros []|]. intros [->|Hin]; cbn.
  - apply (fold_left_inv (fun s => In (k_mat K) (p_revs s))); [apply process_one_accepts; exact Hr|].
    intros s' t' Hs. apply process_revs_mono. exact Hs.
  - apply IH; [apply process_one_ready; exact Hr|exact Hin].
Qed.

End Accept.

(* A presented revocation of a trusted anchor is accepted: for every tag function, whatever else the
   response contains, whatever the write faults.  K is a trusted entry of the pre-fetch map, K' its
   REVOKE-flagged form, in the response (not shadowed by another key of the same tag), self-signed,
   material not yet on record. *)
Lemma revocation_accepted_lemma live cfg d now keys sigs fl ksk2 tombs2 K K' a :
  prefetch tag live cfg d now fl = Some (ksk2, tombs2) ->
  lookup (tag K) ksk2 = Some a -> ta_key a = K -> is_trusted_st a = true -> is_ksk K = true ->
  is_rev K' = true -> unrev K' = K -> same_except_revoke K K' = true ->
  lookup (tag K') (fetched_map tag keys) = Some K' ->
  mem (k_mat K) tombs2 = false ->
  ident_existing ksk2 (tag K') K' = false ->
  verify_with tag [K'] sigs = true ->
  let r := autota tag live cfg d now (FResp keys sigs) fl in
  In (k_mat K) (r_revoked r) /\ r_out r <> OValidation.
Proof.
  intros Hp Hl HaK Htr Hksk Hrev Hun Hsame Hf Hfresh Hnid Hself.
  assert (HinK : In K (filter is_ksk (trusted_keys ksk2))).
  { apply filter_In. split; [|exact Hksk]. rewrite <- HaK. eapply trusted_keys_intro; [apply lookup_in; exact Hl|exact Htr]. }
  assert (Hauth : authenticate tag (trusted_keys ksk2) keys sigs <> AuthFail).
  { unfold authenticate. destruct keys as [|k0 keys']; [cbn in Hf; discriminate|].
    destruct (filter is_ksk (trusted_keys ksk2)) as [|c0 cur] eqn:Ec; [destruct HinK|].
    destruct (verify_with tag (c0 :: cur) sigs); [discriminate|].
    assert (HinB : In K' (bootstrap tag (c0 :: cur) (k0 :: keys'))).
    { unfold bootstrap. apply filter_In. split; [apply (fetched_map_in tag _ _ _ Hf)|].
      rewrite Hrev. cbn [andb]. apply existsb_exists. exists K. split; [exact HinK|].
      rewrite Hun, N.eqb_refl, Hsame. reflexivity. }
    destruct (bootstrap tag (c0 :: cur) (k0 :: keys')) as [|b0 rb] eqn:Eb; [destruct HinB|].
    assert (Hv : verify_with tag (b0 :: rb) sigs = true).
    { unfold verify_with in *. apply existsb_exists in Hself. destruct Hself as (s & Hs & Hby).
      apply existsb_exists. exists s. split; [exact Hs|]. unfold sig_by in *.
      apply andb_true_iff in Hby. destruct Hby as [Hok Hex]. rewrite Hok. cbn [andb].
      apply existsb_exists in Hex. destruct Hex as (k & [<-|[]] & Hk). apply existsb_exists. exists K'. split; [exact HinB|exact Hk]. }
    rewrite Hv. discriminate. }
  unfold autota. rewrite Hp.
  assert (Hmain : forall ro,
    let fm := fetched_map tag keys in
    let tags := sort_tags (map fst fm) in
    let staged := stage tag ksk2 tombs2 sigs fm tags in
    let s3 := process tag now ro fm staged tags (mk_pst ksk2 tombs2 false []) in
    let s4 := if ro then s3 else mk_pst (keyrem now fm (p_ksk s3)) (p_tombs s3) (p_newrev s3) (p_revs s3) in
    let r := tail (if is_nil live then live else trusted_keys ksk2) d fl s4 in
    In (k_mat K) (r_revoked r) /\ r_out r <> OValidation).
  { intros ro fm tags staged s3 s4 r. split.
    - unfold r, tail. cbn [r_revoked]. unfold s4. destruct ro; cbn [p_revs];
        eapply process_accepts; eassumption.
    - unfold r, tail. cbn [r_out]. destruct (negb (f_twrite fl) && negb (f_swrite fl)); discriminate. }
  destruct (authenticate tag (trusted_keys ksk2) keys sigs); [contradiction|apply (Hmain false)|apply (Hmain true)].
Qed.

(* ------------------------------------------------ (A) the accepting run itself *)
(* The run that accepts the revocation of material m publishes no key of material m — no hypothesis
   (since 3c40407 finalRootKeys skips every entry of tombstoned material; before, a second entry of the
   same public key under another flags value stayed published for that one run). *)
Lemma accepted_revocation_immediate_lemma live cfg d now fe fl m :
  let r := autota tag live cfg d now fe fl in
  In m (r_revoked r) -> forall key, In key (r_live r) -> k_mat key <> m.
Proof.
  unfold autota. destruct (prefetch tag live cfg d now fl) as [[ksk2 tombs2]|]; [|intros []].
  destruct fe as [|keys sigs]; [intros []|].
  assert (Hmain : forall ro,
    let fm := fetched_map tag keys in
    let tags := sort_tags (map fst fm) in
    let staged := stage tag ksk2 tombs2 sigs fm tags in
    let s3 := process tag now ro fm staged tags (mk_pst ksk2 tombs2 false []) in
    let s4 := if ro then s3 else mk_pst (keyrem now fm (p_ksk s3)) (p_tombs s3) (p_newrev s3) (p_revs s3) in
    let r := tail (if is_nil live then live else trusted_keys ksk2) d fl s4 in
    In m (r_revoked r) -> forall key, In key (r_live r) -> k_mat key <> m).
  { intros ro fm tags staged s3 s4 r Hin key Hk E.
    assert (Hin3 : In m (p_revs s3)) by (unfold r, tail, s4 in Hin; cbn in Hin; destruct ro; exact Hin).
    assert (HQ : Q m s3) by (apply process_Q; intros []).
    destruct (HQ Hin3) as [Hm3 _].
    assert (Hnr : p_newrev s3 = true).
    { assert (HN : NR s3) by (apply process_NR; intros H; cbn in H; congruence). apply HN. intros H. rewrite H in Hin3. destruct Hin3. }
    assert (Hnr4 : p_newrev s4 = true) by (unfold s4; destruct ro; exact Hnr).
    assert (Hm4 : mem m (p_tombs s4) = true) by (unfold s4; destruct ro; exact Hm3).
    unfold r, tail in Hk. cbn [r_live] in Hk. rewrite Hnr4 in Hk.
    destruct (negb (negb (f_twrite fl)) && negb (negb (f_swrite fl))); [destruct Hk|].
    apply published_not_tomb in Hk. rewrite E, Hm4 in Hk. discriminate. }
  destruct (authenticate tag (trusted_keys ksk2) keys sigs); [intros []|apply (Hmain false)|apply (Hmain true)].
Qed.

(* Immediate AND permanent.  Once a run (from any state) accepted the revocation of material m and at
   least one of its file replacements landed, no key of material m is in the live set at ANY later
   point: not after that run itself, not after the restart that follows a crash of that run, not after
   any later run, crash or restart. *)
Lemma revocation_never_again_lemma (m : N) (s : sys) now fe fl :
  In m (r_revoked (run_of tag s now fe fl)) ->
  forall s1,
  ((s1 = step tag s (ERun now fe fl) /\ r_writes (run_of tag s now fe fl) <> []) \/
   (exists k cfg' tr sr, s1 = step tag s (ECrash now fe fl k cfg' tr sr) /\ firstn k (r_writes (run_of tag s now fe fl)) <> [])) ->
  forall h key, In key (s_live (exec tag s1 h)) -> k_mat key <> m.
Proof.
  intros Hacc s1 Hs1 h.
  destruct (revocation_permanent_lemma tag m s now fe fl Hacc s1 Hs1) as [Hd1 Hlater].
  pattern h. apply rev_ind.
  - cbn. destruct Hs1 as [[-> _]|(k & cfg' & tr & sr & -> & _)]; cbn.
    + intros key. apply accepted_revocation_immediate_lemma. exact Hacc.
    + intros key Hin. eapply restart_live_excludes; [exact Hd1|exact Hin].
  - intros e h' _ key. rewrite exec_app. cbn. apply (Hlater h' e).
Qed.

(* ------------------------------------------------ (D) a revocation needs THAT key's own signature *)
Section KeepOthers.
Variables (now : Z) (keys : list key) (sigs : list sig) (ksk2 : kmap) (tombs2 : tmap) (t0 : N) (a : ta).
Let fm := fetched_map tag keys.
Let tags := sort_tags (map fst fm).
Let staged := stage tag ksk2 tombs2 sigs fm tags.
(* no REVOKE-flagged key of a's material in the response carries a valid signature made with itself *)
Hypothesis Hnosig : forall t' k, lookup t' fm = Some k -> is_rev k = true -> k_mat k = ta_mat a -> verify_with tag [k] sigs = false.

Definition KO (s : pst) : Prop :=
  lookup t0 (p_ksk s) = Some a /\ mem (ta_mat a) (p_tombs s) = false /\ ~ In (ta_mat a) (p_revs s).

Lemma process_one_KO ro s t : KO s -> KO (process_one tag now ro fm staged s t).
Proof.
  intros (Hl & Hm & Hr). unfold process_one.
  destruct (lookup t fm) as [k|] eqn:Ef; [|repeat split; assumption].
  destruct (mem (k_mat k) (p_tombs s)); [repeat split; assumption|].
  destruct (ident_existing (p_ksk s) t k); [repeat split; assumption|].
  destruct (is_rev k) eqn:Er.
  - destruct (lookup (tag (unrev k)) (p_ksk s)) as [old|] eqn:Eo; [|repeat split; assumption].
    destruct (is_trusted_st old && same_except_revoke (ta_key old) k && staged_ok staged t) eqn:Ec; [|repeat split; assumption].
    apply andb_true_iff in Ec. destruct Ec as [Ec Hst]. apply andb_true_iff in Ec. destruct Ec as [_ Hse].
    apply same_except_revoke_mat in Hse.
    apply staged_ok_spec in Hst. destruct Hst as (k' & Ef' & Hv). fold fm in Ef'. rewrite Ef in Ef'. inversion Ef'; subst k'.
    assert (Hne : k_mat k <> ta_mat a) by (intros E; rewrite (Hnosig t k Ef Er E) in Hv; discriminate).
    unfold KO. cbn [p_ksk p_tombs p_revs]. split; [|split].
    + rewrite lookup_set_neq; [exact Hl|]. intros E. rewrite E in Eo. rewrite Hl in Eo. inversion Eo; subst old.
      apply Hne. symmetry. exact Hse.
    + rewrite mem_set. destruct (k_mat k =? ta_mat a) eqn:E; [apply N.eqb_eq in E; contradiction|exact Hm].
    + intros [E|Hin]; [apply Hne; exact E|exact (Hr Hin)].
  - destruct ro; [repeat split; assumption|]. destruct (lookup t (p_ksk s)) eqn:El; [repeat split; assumption|].
    unfold KO. cbn [p_ksk p_tombs p_revs]. split; [|split; assumption].
    rewrite lookup_set_neq; [exact Hl|]. intros E. rewrite E in El. congruence.
Qed.

Lemma process_KO ro s : KO s -> KO (process tag now ro fm staged tags s).
Proof. intros H. unfold process. apply (fold_left_inv KO); [exact H|]. intros. apply process_one_KO. assumption. Qed.

End KeepOthers.

(* A response accepted in revocation-only mode leaves every trusted anchor alone whose own REVOKE-flagged,
   self-signed form is not in it: the anchor stays live, its state entry is written back unchanged, its
   material is neither tombstoned nor counted as revoked — whatever other REVOKE-flagged keys the response
   carries and whoever signed it (seeded change C09-10: a compromised, revoked K1 must not be able to
   remove a healthy K2 by listing K2+REVOKE in a set only K1 signs). *)
Lemma revoked_only_keeps_other_anchors_lemma live cfg d now keys sigs fl ksk2 tombs2 t a :
  prefetch tag live cfg d now fl = Some (ksk2, tombs2) ->
  authenticate tag (trusted_keys ksk2) keys sigs = AuthRevOnly ->
  lookup t ksk2 = Some a -> is_trusted_st a = true ->
  (forall t' k, lookup t' (fetched_map tag keys) = Some k -> is_rev k = true -> k_mat k = ta_mat a -> verify_with tag [k] sigs = false) ->
  (f_twrite fl = false \/ f_swrite fl = false) ->
  let r := autota tag live cfg d now (FResp keys sigs) fl in
  In (ta_key a) (r_live r) /\
  (forall s5, In (WState s5) (r_writes r) -> lookup t s5 = Some a) /\
  (forall tb, In (WTomb tb) (r_writes r) -> mem (ta_mat a) tb = false) /\
  ~ In (ta_mat a) (r_revoked r).
Proof.
  intros Hp Ha Hl Htr Hns Hw. unfold autota. rewrite Hp, Ha.
  set (fm := fetched_map tag keys) in *.
  set (s3 := process tag now true fm _ _ _).
  assert (Hnm : is_marker a = false).
  { destruct (is_marker a) eqn:E; [|reflexivity]. rewrite (marker_not_trusted _ E) in Htr. discriminate. }
  assert (H3 : KO t a s3).
  { unfold s3. apply (process_KO now keys sigs ksk2 tombs2 t a Hns). unfold KO. cbn. split; [exact Hl|]. split; [|intros []].
    apply (prefetch_clean tag _ _ _ _ _ _ _ Hp t a (lookup_in _ _ _ Hl) Hnm). }
  destruct H3 as (Hl3 & Hm3 & Hr3).
  unfold tail. cbn [r_live r_writes r_revoked p_ksk p_tombs p_revs].
  assert (H5 : lookup t (if negb (f_twrite fl) then filter (fun e => negb (is_marker (snd e))) (p_ksk s3) else p_ksk s3) = Some a).
  { destruct (negb (f_twrite fl)); [|exact Hl3]. apply lookup_filter_keep; [exact Hl3|]. cbn. rewrite Hnm. reflexivity. }
  split; [|split; [|split]].
  - assert (Hb : negb (negb (f_twrite fl)) && negb (negb (f_swrite fl)) = false) by (destruct Hw as [-> | ->]; cbn; [reflexivity|apply andb_false_r]).
    rewrite Hb. unfold published. eapply trusted_keys_intro; [apply lookup_in; apply lookup_filter_keep; [exact H5|]|exact Htr].
    cbn. rewrite Hm3. reflexivity.
  - intros s5 Hin. apply in_app_or in Hin. destruct Hin as [Hin|Hin].
    + destruct (negb (f_twrite fl)); [destruct Hin as [Hin|[]]; discriminate|destruct Hin].
    + destruct (negb (f_swrite fl)); [|destruct Hin]. destruct Hin as [Hin|[]]. inversion Hin. exact H5.
  - intros tb Hin. apply in_app_or in Hin. destruct Hin as [Hin|Hin].
    + destruct (negb (f_twrite fl)); [|destruct Hin]. destruct Hin as [Hin|[]]. inversion Hin. exact Hm3.
    + destruct (negb (f_swrite fl)); [destruct Hin as [Hin|[]]; discriminate|destruct Hin].
  - exact Hr3.
Qed.

End Live.
