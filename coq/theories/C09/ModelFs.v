(* C09 — the persistence steps of a refresh at file-system granularity (executable definitions only).

   Written from atomicGobWrite (auto_trust_anchor.go): os.CreateTemp(dir, base+".tmp.*") -> gob Encode -> f.Sync
   -> f.Close -> os.Rename(tmp, filename) -> syncDir(dir); every error path closes (where still open) and removes
   the temp file and returns the error.  AutoTA's persistence tail is writeTombstones then writeToTAFile, i.e. two
   such sequences in program order (Model.v [tail]).

   A directory is the two files every reader opens BY NAME (readFromTAFile, readTombstones, withoutTombstoned open
   exactly stateFile / tombstoneFile: [fd_disk]) plus the temp files lying around ([fd_tmps]: their names end in
   ".tmp.<random>", nothing ever opens them).  "A crash after any prefix of the persistence steps" is a prefix of
   the operation list; Model.v's ECrash (a prefix of the successful renames) is its abstraction, proved in
   Proofs_Fs.v.

   Not modelled: a failure of the LAST step (syncDir) — the rename has landed but atomicGobWrite reports an error, a
   third outcome the fault model (f_twrite / f_swrite = "this file was not replaced") does not have; the content of
   a partially written temp file (never read); reordering below fsync at power loss. *)
From Sdns Require Import Common.Base Gen.C09 C09.Model.
Open Scope N_scope.

Inductive target := TgTomb | TgState.
Definition target_of (w : wfile) : target := match w with WTomb _ => TgTomb | WState _ => TgState end.

Inductive fsop :=
| OpCreate (t : target)      (* os.CreateTemp: an empty temp file appears *)
| OpEncode (t : target)      (* gob Encode: the temp file receives the content *)
| OpSync (t : target)        (* f.Sync *)
| OpClose (t : target)       (* f.Close *)
| OpRename (w : wfile)       (* os.Rename(tmp, filename): the named file IS the new content from here on *)
| OpRemove (t : target)      (* os.Remove(tmp) on an error path *)
| OpSyncDir.                 (* syncDir(dir) *)

(* where one atomicGobWrite fails (NoFail: it does not) *)
Inductive failpoint := NoFail | FailCreate | FailEncode | FailSync | FailClose | FailRename.
Definition fails (fp : failpoint) : bool := match fp with NoFail => false | _ => true end.

Definition write_ops (w : wfile) (fp : failpoint) : list fsop :=
  let t := target_of w in
  match fp with
  | NoFail     => [OpCreate t; OpEncode t; OpSync t; OpClose t; OpRename w; OpSyncDir]
  | FailCreate => []
  | FailEncode => [OpCreate t; OpClose t; OpRemove t]
  | FailSync   => [OpCreate t; OpEncode t; OpClose t; OpRemove t]
  | FailClose  => [OpCreate t; OpEncode t; OpSync t; OpRemove t]
  | FailRename => [OpCreate t; OpEncode t; OpSync t; OpClose t; OpRemove t]
  end.

Record tmpfile := mk_tmp { tmp_target : target; tmp_written : bool }.
Record fsdir := mk_fsdir { fd_disk : disk; fd_tmps : list tmpfile }.

(* the temp file of the write in progress is the head of fd_tmps (one process, sequential writes) *)
Definition fs_apply (dir : fsdir) (op : fsop) : fsdir :=
  match op with
  | OpCreate t => mk_fsdir (fd_disk dir) (mk_tmp t false :: fd_tmps dir)
  | OpEncode t => mk_fsdir (fd_disk dir) (match fd_tmps dir with [] => [] | _ :: r => mk_tmp t true :: r end)
  | OpSync _ | OpClose _ | OpSyncDir => dir
  | OpRename w => mk_fsdir (apply_write (fd_disk dir) w) (tl (fd_tmps dir))
  | OpRemove _ => mk_fsdir (fd_disk dir) (tl (fd_tmps dir))
  end.
Definition fs_run (dir : fsdir) (ops : list fsop) : fsdir := fold_left fs_apply ops dir.

(* the file replacements among a list of operations, in order *)
Definition renames (ops : list fsop) : list wfile :=
  flat_map (fun op => match op with OpRename w => [w] | _ => [] end) ops.

(* AutoTA's persistence tail as operations: tombstones first, then the state file (whose content depends on
   whether the tombstone write worked: markers are dropped only then) *)
Definition tail_ops (fl : faults) (fpt fps : failpoint) (s : pst) : list fsop :=
  let ksk5 := if negb (f_twrite fl) then filter (fun e => negb (is_marker (snd e))) (p_ksk s) else p_ksk s in
  write_ops (WTomb (p_tombs s)) fpt ++ write_ops (WState ksk5) fps.

Section WithTag.
Variable tag : key -> N.

(* the operations of one AutoTA run: none unless the run reaches its persistence tail *)
Definition autota_ops (live cfg : list key) (d : disk) (now : Z) (fe : fetch) (fl : faults) (fpt fps : failpoint) : list fsop :=
  match prefetch tag live cfg d now fl with
  | None => []
  | Some (ksk2, tombs2) =>
    let cand := trusted_keys ksk2 in
    match fe with
    | FErr => []
    | FResp keys sigs =>
      match authenticate tag cand keys sigs with
      | AuthFail => []
      | a =>
        let rev_only := match a with AuthRevOnly => true | _ => false end in
        let fm := fetched_map tag keys in
        let tags := sort_tags (map fst fm) in
        let staged := stage tag ksk2 tombs2 sigs fm tags in
        let s3 := process tag now rev_only fm staged tags (mk_pst ksk2 tombs2 false []) in
        let s4 := if rev_only then s3
                  else mk_pst (keyrem now fm (p_ksk s3)) (p_tombs s3) (p_newrev s3) (p_revs s3) in
        tail_ops fl fpt fps s4
      end
    end
  end.

(* the process dies after the first [n] file-system operations of the run; restart with configuration cfg' on
   whatever the directory then holds (junk = temp files already lying around) *)
Definition crash_at (s : sys) (junk : list tmpfile) (now : Z) (fe : fetch) (fl : faults) (fpt fps : failpoint)
           (n : nat) (cfg' : list key) (tr : tread) (sr : bool) : sys * list tmpfile :=
  let ops := autota_ops (s_live s) (s_cfg s) (s_disk s) now fe fl fpt fps in
  let dir := fs_run (mk_fsdir (s_disk s) junk) (firstn n ops) in
  (mk_sys (restart_live cfg' (fd_disk dir) tr sr) cfg' (fd_disk dir), fd_tmps dir).

End WithTag.

(* what a watcher of the directory sees (inotify): per temp file of target c (0 tombstones, 1 state)
   10c+1 created, 10c+2 written, 10c+3 closed after writing, 10c+4 moved away, 10c+5 the named file replaced,
   10c+6 deleted; Sync and SyncDir are invisible *)
Definition target_code (t : target) : N := match t with TgTomb => 0 | TgState => 10 end.
Definition op_events (op : fsop) : list N :=
  match op with
  | OpCreate t => [target_code t + 1]
  | OpEncode t => [target_code t + 2]
  | OpSync _ => []
  | OpClose t => [target_code t + 3]
  | OpRename w => [target_code (target_of w) + 4; target_code (target_of w) + 5]
  | OpRemove t => [target_code t + 6]
  | OpSyncDir => []
  end.
Definition obs_events (ops : list fsop) : list N := flat_map op_events ops.
