(* C09 — a one-state invariant of the repaired code (1f61a03 + 4ce6577 + 3c40407):

     after EVERY event (AutoTA run with any response, clock and faults; crash after any prefix of
     its file replacements; restart with any configuration and start-up read fault), from ANY
     state, no key in the live trust set has its key material recorded as revoked on the disk the
     event leaves behind (tombstone file entry, or StateRevoked/StateRemoved marker in the state
     file).

   It needs no premise about how the record got there: an accepted self-signed revocation, a
   configured REVOKE-flagged key, a legacy marker.  The run that creates the record is included
   (this is where 3c40407 matters: the published set is filtered by the in-memory tombstones). *)
From Sdns Require Import Common.Base Gen.C09 C09.Model C09.Proofs_Maps C09.Proofs_Rev C09.Proofs_Step C09.Proofs_Prov C09.Proofs_Thm.
Open Scope N_scope.

Section Inv.
Variable tag : key -> N.

(* every marker's material is in the in-memory tombstone map *)
Definition MK (ksk : kmap) (tombs : tmap) : Prop :=
  forall t a, In (t, a) ksk -> is_marker a = true -> mem (ta_mat a) tombs = true.

Lemma merge_step_MK now acc k : MK (fst acc) (snd acc) -> MK (fst (merge_step tag now acc k)) (snd (merge_step tag now acc k)).
Proof.
  destruct acc as [ksk tombs]. cbn [fst snd]. intros H. unfold merge_step.
  destruct (negb (is_ksk k)); [exact H|].
  destruct (lookup (tag k) ksk); [exact H|].
  destruct (mem (k_mat k) tombs); [exact H|].
  destruct (is_rev k); cbn [fst snd].
  - intros t a Hin Hm. apply mem_set_mono. eapply H; eassumption.
  - intros t a Hin Hm. apply in_set in Hin. destruct Hin as [[_ ->]|[Hin _]]; [discriminate|eapply H; eassumption].
Qed.

Lemma prefetch_MK live cfg d now fl ksk2 tombs2 :
  prefetch tag live cfg d now fl = Some (ksk2, tombs2) -> MK ksk2 tombs2.
Proof.
  unfold prefetch. intros Hp. destruct (f_sread fl); [discriminate|]. destruct (f_tread fl); [|discriminate|discriminate].
  set (ksk0 := match d_state d with Some s => s | None => seed_from_live tag now live end) in *.
  set (tombs0 := match d_tomb d with Some t => t | None => [] end) in *.
  set (tombs1 := cfgrev now cfg (migrate ksk0 tombs0)) in *.
  inversion Hp as [Hp']. clear Hp.
  assert (H1 : MK (precedence ksk0 tombs1) tombs1).
  { intros t a Hin Hm. unfold precedence in Hin. apply filter_In in Hin. destruct Hin as [Hin _].
    unfold tombs1. apply cfgrev_mono. eapply migrate_marker; [exact Hin|exact Hm|reflexivity]. }
  pose proof (fold_left_inv (fun acc => MK (fst acc) (snd acc)) (merge_step tag now) cfg (precedence ksk0 tombs1, tombs1) H1
                (fun acc k Ha => merge_step_MK now acc k Ha)) as H2.
  unfold merge in Hp'. rewrite Hp' in H2. exact H2.
Qed.

Lemma process_one_MK now ro fm staged s t :
  MK (p_ksk s) (p_tombs s) -> MK (p_ksk (process_one tag now ro fm staged s t)) (p_tombs (process_one tag now ro fm staged s t)).
Proof.
  intros H. unfold process_one.
  destruct (lookup t fm) as [k|]; [|exact H].
  destruct (mem (k_mat k) (p_tombs s)); [exact H|].
  destruct (ident_existing (p_ksk s) t k); [exact H|].
  destruct (is_rev k).
  - destruct (lookup (tag (unrev k)) (p_ksk s)) as [old|]; [|exact H].
    destruct (is_trusted_st old && same_except_revoke (ta_key old) k && staged_ok staged t) eqn:Ec; [|exact H].
    apply andb_true_iff in Ec. destruct Ec as [Ec _]. apply andb_true_iff in Ec. destruct Ec as [_ Hse].
    apply same_except_revoke_mat in Hse.
    cbn [p_ksk p_tombs]. intros x a Hin Hm. apply in_set in Hin. destruct Hin as [[_ ->]|[Hin _]].
    + unfold ta_mat. cbn. rewrite Hse, mem_set, N.eqb_refl. reflexivity.
    + apply mem_set_mono. eapply H; eassumption.
  - destruct ro; [exact H|]. destruct (lookup t (p_ksk s)); [exact H|].
    cbn [p_ksk p_tombs]. intros x a Hin Hm. apply in_set in Hin. destruct Hin as [[_ ->]|[Hin _]]; [discriminate|eapply H; eassumption].
Qed.

Lemma process_MK now ro fm staged tags s :
  MK (p_ksk s) (p_tombs s) -> MK (p_ksk (process tag now ro fm staged tags s)) (p_tombs (process tag now ro fm staged tags s)).
Proof.
  intros H. unfold process. apply (fold_left_inv (fun s => MK (p_ksk s) (p_tombs s))); [exact H|].
  intros s' t' Hs. apply process_one_MK. exact Hs.
Qed.

Lemma process_tomb_mono now ro fm staged tags s x :
  mem x (p_tombs s) = true -> mem x (p_tombs (process tag now ro fm staged tags s)) = true.
Proof.
  intros H. unfold process. apply (fold_left_inv (fun s => mem x (p_tombs s) = true)); [exact H|].
  intros s' t' Hs. apply process_one_tomb_mono. exact Hs.
Qed.

(* the KeyRem / KeyPres loop creates no marker *)
Lemma keyrem_one_marker_back now fm t a x b : In (x, b) (keyrem_one now fm (t, a)) -> is_marker b = true -> b = a.
Proof.
  unfold keyrem_one, is_marker. cbn [fst snd]. destruct a as [k s0 fs]. cbn [ta_st ta_key ta_fs].
  destruct (fm_has fm t _); destruct s0; cbn [ta_st ta_key ta_fs];
    repeat match goal with |- context [if ?c then _ else _] => destruct c end;
    cbn; intros H; repeat (destruct H as [H|H]; [inversion H; subst; cbn; intros; try reflexivity; try discriminate|]); try destruct H.
Qed.

Lemma keyrem_MK now fm ksk tombs : MK ksk tombs -> MK (keyrem now fm ksk) tombs.
Proof.
  intros H x b Hin Hm. unfold keyrem in Hin. apply in_flat_map in Hin. destruct Hin as ([t a] & Hin & Hone).
  pose proof (keyrem_one_marker_back _ _ _ _ _ _ Hone Hm) as ->.
  apply keyrem_one_spec in Hone. destruct Hone as [_ _]. eapply H; eassumption.
Qed.

Variable m : N.

(* the persistence tail: when at least one write works, a record of m on the disk it leaves behind
   means m is in the in-memory tombstone map the published set is filtered by *)
Lemma tail_live_post live1 d fl s key :
  MK (p_ksk s) (p_tombs s) ->
  (durable m d -> mem m (p_tombs s) = true) ->
  (durable m d -> forall k, In k live1 -> k_mat k <> m) ->
  durable m (r_disk (tail live1 d fl s)) ->
  In key (r_live (tail live1 d fl s)) -> k_mat key <> m.
Proof.
  intros HMK Hd0 Hl1. unfold tail. cbn [r_disk r_live].
  destruct (f_twrite fl) eqn:Etw; destruct (f_swrite fl) eqn:Esw; cbn [negb andb app apply_writes fold_left apply_write].
  - (* both writes failed: the disk is the old one *)
    intros Hd. destruct (p_newrev s); [intros []|apply Hl1; exact Hd].
  - (* tombstones failed, state landed (markers kept) *)
    intros Hd Hk E. apply published_not_tomb in Hk. rewrite E in Hk.
    assert (Hm : mem m (p_tombs s) = true).
    { destruct Hd as [(tb & Htb & Hmem)|(s5 & Hs5 & (t & a & Hl & Hmat & Hmk))].
      - apply Hd0. left. exists tb. split; [exact Htb|exact Hmem].
      - cbn in Hs5. inversion Hs5; subst s5. rewrite <- Hmat. eapply HMK; [apply lookup_in; exact Hl|exact Hmk]. }
    rewrite Hm in Hk. discriminate.
  - (* tombstones landed, state failed *)
    intros Hd Hk E. apply published_not_tomb in Hk. rewrite E in Hk.
    assert (Hm : mem m (p_tombs s) = true).
    { destruct Hd as [(tb & Htb & Hmem)|(s5 & Hs5 & Hmk)].
      - cbn in Htb. inversion Htb; subst tb. exact Hmem.
      - apply Hd0. right. exists s5. split; [exact Hs5|exact Hmk]. }
    rewrite Hm in Hk. discriminate.
  - (* both landed: the written state has no marker *)
    intros Hd Hk E. apply published_not_tomb in Hk. rewrite E in Hk.
    assert (Hm : mem m (p_tombs s) = true).
    { destruct Hd as [(tb & Htb & Hmem)|(s5 & Hs5 & (t & a & Hl & Hmat & Hmk))].
      - cbn in Htb. inversion Htb; subst tb. exact Hmem.
      - cbn in Hs5. inversion Hs5; subst s5. apply lookup_in in Hl. apply filter_In in Hl. destruct Hl as [_ Hf].
        cbn in Hf. rewrite Hmk in Hf. discriminate. }
    rewrite Hm in Hk. discriminate.
Qed.

Lemma run_live_post live cfg d now fe fl key :
  durable m (r_disk (autota tag live cfg d now fe fl)) ->
  In key (r_live (autota tag live cfg d now fe fl)) -> k_mat key <> m.
Proof.
  intros Hd Hk.
  assert (Hsame : r_disk (autota tag live cfg d now fe fl) = d -> k_mat key <> m).
  { intros E. rewrite E in Hd. eapply (proj1 (run_keeps tag m live cfg d now fe fl Hd)). exact Hk. }
  revert Hd Hk Hsame. unfold autota.
  destruct (prefetch tag live cfg d now fl) as [[ksk2 tombs2]|] eqn:Ep; [|intros _ []].
  destruct fe as [|keys sigs]; [intros _ _ H; apply H; reflexivity|].
  assert (Hmain : forall ro,
    let fm := fetched_map tag keys in
    let tags := sort_tags (map fst fm) in
    let staged := stage tag ksk2 tombs2 sigs fm tags in
    let s3 := process tag now ro fm staged tags (mk_pst ksk2 tombs2 false []) in
    let s4 := if ro then s3 else mk_pst (keyrem now fm (p_ksk s3)) (p_tombs s3) (p_newrev s3) (p_revs s3) in
    let r := tail (if is_nil live then live else trusted_keys ksk2) d fl s4 in
    durable m (r_disk r) -> In key (r_live r) -> k_mat key <> m).
  { intros ro fm tags staged s3 s4 r. apply tail_live_post.
    - assert (H3 : MK (p_ksk s3) (p_tombs s3)) by (apply process_MK; cbn; eapply prefetch_MK; exact Ep).
      unfold s4. destruct ro; [exact H3|]. cbn. apply keyrem_MK. exact H3.
    - intros Hd0. destruct (prefetch_inv _ _ _ _ _ _ _ _ _ Ep Hd0) as [[Ht _] _].
      assert (H3 : mem m (p_tombs s3) = true) by (apply process_tomb_mono; exact Ht).
      unfold s4. destruct ro; exact H3.
    - intros Hd0 k. destruct (prefetch_inv _ _ _ _ _ _ _ _ _ Ep Hd0) as [[_ Hb] _].
      destruct live; cbn; [intros []|]. apply inv_B_trusted. exact Hb. }
  destruct (authenticate tag (trusted_keys ksk2) keys sigs);
    [intros _ _ H; apply H; reflexivity|intros Hd Hk _; apply (Hmain false); assumption|intros Hd Hk _; apply (Hmain true); assumption].
Qed.

End Inv.

(* live_never_recorded_revoked: see Properties.v *)
Lemma live_never_recorded_revoked_lemma :
  forall (tag : key -> N) (s : sys) (e : event) (m : N),
    let s' := step tag s e in
    durable m (s_disk s') -> forall key, In key (s_live s') -> k_mat key <> m.
Proof.
  intros tag s e m s' Hd key Hk. unfold s' in *. destruct e as [now fe fl|now fe fl k cfg' tr sr|cfg' tr sr]; cbn in *.
  - unfold run_of in *. eapply run_live_post; eassumption.
  - eapply restart_live_excludes; [exact Hd|exact Hk].
  - eapply restart_live_excludes; [exact Hd|exact Hk].
Qed.
