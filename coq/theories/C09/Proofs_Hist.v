(* C09 — the add hold-down over whole histories (new_key_needs_30d, partial:
   for an injective key-tag function).

   For a fixed key K a monitor runs along the history:
     streak : since when K has been in EVERY recorded, fully authenticated refresh
              (recorded = the run's state file landed; a refresh that could not be
              recorded does not count either way);
     prom   : K was in a fully authenticated refresh while its streak was older than 30 days;
     rec    : K was in the configuration at some (re)start.
   Theorem: from a fresh directory, for every history (responses, faults, crashes at any
   prefix, restarts with any configuration, non-decreasing clocks), K in the live set
   implies rec or prom. *)
From Sdns Require Import Common.Base Gen.C09 C09.Model C09.Proofs_Maps C09.Proofs_Rev C09.Proofs_Step C09.Proofs_Prov C09.Proofs_Thm.
Open Scope N_scope.

Lemma key_eqb_eq a b : key_eqb a b = true <-> a = b.
Proof.
  unfold key_eqb. destruct a as [m1 f1], b as [m2 f2]. cbn. rewrite andb_true_iff, !N.eqb_eq. split.
  - intros [-> ->]. reflexivity.
  - intros H. inversion H. auto.
Qed.

Definition key_mem (k : key) (l : list key) : bool := existsb (key_eqb k) l.
Lemma key_mem_in k l : key_mem k l = true <-> In k l.
Proof.
  unfold key_mem. rewrite existsb_exists. split.
  - intros (x & Hx & He). apply key_eqb_eq in He. subst. exact Hx.
  - intros H. exists k. split; [exact H|apply key_eqb_eq; reflexivity].
Qed.

Definition has_wstate (ws : list wfile) : bool := existsb (fun w => match w with WState _ => true | _ => false end) ws.

Lemma in_firstn {A} (x : A) n l : In x (firstn n l) -> In x l.
Proof. revert l. induction n; intros [|y l]; cbn; try tauto. intros [H|H]; auto. Qed.

Lemma apply_writes_state d ws :
  (has_wstate ws = false /\ d_state (apply_writes d ws) = d_state d) \/
  (has_wstate ws = true /\ exists s5, In (WState s5) ws /\ d_state (apply_writes d ws) = Some s5).
Proof.
  revert d. induction ws as [|w ws IH]; intros d; [left; split; reflexivity|].
  change (apply_writes d (w :: ws)) with (apply_writes (apply_write d w) ws).
  destruct (IH (apply_write d w)) as [[H1 H2]|[H1 (s5 & H2 & H3)]].
  - destruct w as [t|s].
    + left. split; [cbn; exact H1|]. rewrite H2. reflexivity.
    + right. split; [reflexivity|]. exists s. split; [left; reflexivity|]. rewrite H2. reflexivity.
  - right. split; [change (has_wstate (w :: ws)) with ((match w with WState _ => true | _ => false end) || has_wstate ws); rewrite H1; apply orb_true_r|]. exists s5. split; [right; exact H2|exact H3].
Qed.

Section Hist.
Variable tag : key -> N.
Variable K : key.
(* K's key material is in a response (whatever the flags) *)
Definition mat_mem (keys : list key) : bool := existsb (fun k => k_mat k =? k_mat K) keys.

(* ---- what the run sees and does, per event *)
Definition ev_keys (e : event) : list key :=
  match e with
  | ERun _ (FResp keys _) _ => keys
  | ECrash _ (FResp keys _) _ _ _ _ _ => keys
  | _ => []
  end.
Definition ev_now (e : event) : option Z :=
  match e with ERun now _ _ => Some now | ECrash now _ _ _ _ _ _ => Some now | ERestart _ _ _ => None end.
Definition full_at (s : sys) (now : Z) (fe : fetch) (fl : faults) : bool :=
  match fe with
  | FResp keys sigs =>
      match authenticate tag (candidate tag (s_live s) (s_cfg s) (s_disk s) now fl) keys sigs with AuthFull => true | _ => false end
  | FErr => false
  end.
Definition ev_full (s : sys) (e : event) : bool :=
  match e with
  | ERun now fe fl => full_at s now fe fl
  | ECrash now fe fl _ _ _ _ => full_at s now fe fl
  | ERestart _ _ _ => false
  end.
Definition ev_recorded (s : sys) (e : event) : bool :=
  match e with
  | ERun now fe fl => has_wstate (r_writes (run_of tag s now fe fl))
  | ECrash now fe fl k _ _ _ => has_wstate (firstn k (r_writes (run_of tag s now fe fl)))
  | ERestart _ _ _ => false
  end.

Record mon := mk_mon { m_streak : option Z; m_prom : bool; m_rec : bool }.

Definition mon_step (s : sys) (e : event) (M : mon) : mon :=
  let present := mat_mem (ev_keys e) in
  let now := match ev_now e with Some n => n | None => 0%Z end in
  mk_mon
    (if ev_full s e && ev_recorded s e
     then (if present then Some (match m_streak M with Some t0 => t0 | None => now end) else None)
     else m_streak M)
    (m_prom M || (ev_full s e && present &&
                  match m_streak M with Some t0 => (now - t0 >? hold_add)%Z | None => false end))
    (m_rec M || match e with ECrash _ _ _ _ c _ _ => key_mem K c | ERestart c _ _ => key_mem K c | ERun _ _ _ => false end).

Fixpoint monitor (s : sys) (h : list event) (M : mon) : sys * mon :=
  match h with
  | [] => (s, M)
  | e :: r => monitor (step tag s e) r (mon_step s e M)
  end.

(* clocks never go back *)
Fixpoint mono (T : Z) (h : list event) : Prop :=
  match h with
  | [] => True
  | e :: r => match ev_now e with Some n => (T <= n)%Z /\ mono n r | None => mono T r end
  end.

(* ---- invariant *)
Definition st_entries (d : disk) : kmap := match d_state d with Some s => s | None => [] end.

Definition Inv (T : Z) (s : sys) (M : mon) : Prop :=
  (forall t a, In (t, a) (st_entries (s_disk s)) -> ta_key a = K -> ta_st a = SAddPend ->
               exists t0, m_streak M = Some t0 /\ (t0 <= ta_fs a)%Z) /\
  (forall t a, In (t, a) (st_entries (s_disk s)) -> ta_key a = K -> is_trusted_st a = true -> m_rec M = true \/ m_prom M = true) /\
  (In K (s_live s) -> m_rec M = true \/ m_prom M = true) /\
  (forall t a, In (t, a) (st_entries (s_disk s)) -> t = tag (ta_key a)) /\
  (In K (s_cfg s) -> m_rec M = true) /\
  (forall t0, m_streak M = Some t0 -> (t0 <= T)%Z).

(* ---- where the entries of the pre-fetch map come from *)
Lemma seed_origin now live t a :
  In (t, a) (seed_from_live tag now live) -> exists k, In k live /\ t = tag k /\ ta_key a = k /\ ta_st a <> SAddPend.
Proof.
  unfold seed_from_live.
  assert (H : forall l m0, (forall t a, In (t, a) m0 -> exists k, In k live /\ t = tag k /\ ta_key a = k /\ ta_st a <> SAddPend) ->
              (forall k, In k l -> In k live) ->
              forall t a, In (t, a) (fold_left (seed_step tag now) l m0) -> exists k, In k live /\ t = tag k /\ ta_key a = k /\ ta_st a <> SAddPend).
  { induction l as [|x l IH]; intros m0 H0 Hl t0 a0; cbn; [apply H0|].
    apply IH; [|intros; apply Hl; right; assumption].
    intros t1 a1. unfold seed_step. destruct (is_ksk x); [|apply H0].
    intros Hin. apply in_set in Hin. destruct Hin as [[-> ->]|[Hin _]]; [|apply H0; exact Hin].
    exists x. split; [apply Hl; left; reflexivity|]. repeat split; cbn. destruct (is_rev x); discriminate. }
  apply (H live []); [intros ? ? []|auto].
Qed.

Inductive pre_origin (live cfg : list key) (d : disk) (fl : faults) (now : Z) (t : N) (a : ta) : Prop :=
| PoDisk : f_sread fl = false -> In (t, a) (st_entries d) -> pre_origin live cfg d fl now t a
| PoLive k : In k live -> t = tag k -> ta_key a = k -> ta_st a <> SAddPend -> pre_origin live cfg d fl now t a
| PoCfg k : In k cfg -> t = tag k -> a = mk_ta k SValid now -> pre_origin live cfg d fl now t a.

Lemma merge_origin now cfg ksk tombs (P : N -> ta -> Prop) :
  (forall t a, In (t, a) ksk -> P t a) ->
  (forall k, In k cfg -> P (tag k) (mk_ta k SValid now)) ->
  forall t a, In (t, a) (fst (merge tag now cfg ksk tombs)) -> P t a.
Proof.
  intros H0 Hc. unfold merge.
  assert (H : forall l acc, (forall t a, In (t, a) (fst acc) -> P t a) -> (forall k, In k l -> In k cfg) ->
              forall t a, In (t, a) (fst (fold_left (merge_step tag now) l acc)) -> P t a).
  { induction l as [|x l IH]; intros acc Ha Hl t0 a0; cbn; [apply Ha|].
    apply IH; [|intros; apply Hl; right; assumption].
    intros t1 a1. destruct acc as [k0 tb0]. unfold merge_step.
    destruct (negb (is_ksk x)); [apply Ha|].
    destruct (lookup (tag x) k0); [apply Ha|].
    destruct (mem (k_mat x) tb0); [apply Ha|].
    destruct (is_rev x); [apply Ha|]. cbn.
    intros Hin. apply in_set in Hin. destruct Hin as [[-> ->]|[Hin _]]; [apply Hc; apply Hl; left; reflexivity|apply Ha; exact Hin]. }
  apply H; auto.
Qed.

Lemma prefetch_origin live cfg d now fl ksk2 tombs2 :
  prefetch tag live cfg d now fl = Some (ksk2, tombs2) ->
  forall t a, In (t, a) ksk2 -> pre_origin live cfg d fl now t a.
Proof.
  unfold prefetch. intros Hp.
  destruct (f_sread fl) eqn:Es; [discriminate|].
  destruct (f_tread fl); [|discriminate|discriminate].
  set (ksk0 := match d_state d with Some s => s | None => seed_from_live tag now live end) in *.
  assert (H0 : forall t a, In (t, a) ksk0 -> pre_origin live cfg d fl now t a).
  { intros t a Hin. unfold ksk0 in Hin. destruct (d_state d) as [s|] eqn:Ed.
    - apply PoDisk; [exact Es|]. unfold st_entries. rewrite Ed. exact Hin.
    - apply seed_origin in Hin. destruct Hin as (k & H1 & H2 & H3 & H4). eapply PoLive; eassumption. }
  inversion Hp as [Hp']; clear Hp; apply (f_equal fst) in Hp'; cbn [fst] in Hp'; subst ksk2.
  apply merge_origin; [|intros k Hk; eapply PoCfg; [exact Hk|reflexivity|reflexivity]].
  intros t' a' Hin'; apply H0; unfold precedence in Hin'; apply filter_In in Hin'; apply Hin'.
Qed.

(* ---- the four ways a run can end *)
Inductive run_shape (live cfg : list key) (d : disk) (now : Z) (fe : fetch) (fl : faults) : Prop :=
| ShClosed : prefetch tag live cfg d now fl = None ->
             r_live (autota tag live cfg d now fe fl) = [] -> r_writes (autota tag live cfg d now fe fl) = [] ->
             candidate tag live cfg d now fl = [] -> run_shape live cfg d now fe fl
| ShEarly ksk2 tombs2 : prefetch tag live cfg d now fl = Some (ksk2, tombs2) ->
             (fe = FErr \/ exists keys sigs, fe = FResp keys sigs /\ authenticate tag (trusted_keys ksk2) keys sigs = AuthFail) ->
             r_live (autota tag live cfg d now fe fl) = (if is_nil live then live else trusted_keys ksk2) ->
             r_writes (autota tag live cfg d now fe fl) = [] -> run_shape live cfg d now fe fl
| ShRevOnly ksk2 tombs2 keys sigs : prefetch tag live cfg d now fl = Some (ksk2, tombs2) -> fe = FResp keys sigs ->
             authenticate tag (trusted_keys ksk2) keys sigs = AuthRevOnly -> run_shape live cfg d now fe fl
| ShFull ksk2 tombs2 keys sigs : prefetch tag live cfg d now fl = Some (ksk2, tombs2) -> fe = FResp keys sigs ->
             authenticate tag (trusted_keys ksk2) keys sigs = AuthFull -> run_shape live cfg d now fe fl.

Lemma autota_shape live cfg d now fe fl : run_shape live cfg d now fe fl.
Proof.
  destruct (prefetch tag live cfg d now fl) as [[ksk2 tombs2]|] eqn:Ep.
  - destruct fe as [|keys sigs].
    + eapply ShEarly; [exact Ep|left; reflexivity| |]; unfold autota; rewrite Ep; reflexivity.
    + destruct (authenticate tag (trusted_keys ksk2) keys sigs) eqn:Ea.
      * eapply ShEarly; [exact Ep|right; exists keys, sigs; auto| |]; unfold autota; rewrite Ep, Ea; reflexivity.
      * eapply ShFull; eauto.
      * eapply ShRevOnly; eauto.
  - apply ShClosed; [exact Ep| | |]; unfold autota, candidate; rewrite Ep; reflexivity.
Qed.

(* all entries of a written state map carry the tag of their key *)
Lemma written_tags live cfg d now fe fl :
  (forall t a, In (t, a) (st_entries d) -> t = tag (ta_key a)) ->
  forall s5 t a, In (WState s5) (r_writes (autota tag live cfg d now fe fl)) -> In (t, a) s5 -> t = tag (ta_key a).
Proof.
  intros Hd s5 t a Hw Hin. unfold autota in Hw.
  destruct (prefetch tag live cfg d now fl) as [[ksk2 tombs2]|] eqn:Ep; [|destruct Hw].
  assert (H2 : forall t a, In (t, a) ksk2 -> t = tag (ta_key a)).
  { intros t0 a0 H. destruct (prefetch_origin _ _ _ _ _ _ _ Ep t0 a0 H) as [_ Hi|k _ -> ->|k _ -> ->]; [apply Hd; exact Hi|reflexivity|reflexivity]. }
  destruct fe as [|keys sigs]; [destruct Hw|].
  assert (Hmain : forall ro,
    let fm := fetched_map tag keys in
    let tags := sort_tags (map fst fm) in
    let staged := stage tag ksk2 tombs2 sigs fm tags in
    let s3 := process tag now ro fm staged tags (mk_pst ksk2 tombs2 false []) in
    let s4 := if ro then s3 else mk_pst (keyrem now fm (p_ksk s3)) (p_tombs s3) (p_newrev s3) (p_revs s3) in
    In (WState s5) (r_writes (tail (if is_nil live then live else trusted_keys ksk2) d fl s4)) -> t = tag (ta_key a)).
  { intros ro fm tags staged s3 s4 Hw'.
    pose proof (process_PV tag now ro keys sigs ksk2 tombs2) as (Hk & _ & _). fold fm tags staged s3 in Hk.
    assert (H3 : forall t a, In (t, a) (p_ksk s3) -> t = tag (ta_key a)).
    { intros t0 a0 H. destruct (Hk t0 a0 H) as [Ho|a1 k' Ho _ _ ->|k _ Hf _ _ ->]; cbn.
      - apply H2; exact Ho.
      - apply H2 in Ho. exact Ho.
      - apply fetched_map_in in Hf. symmetry. apply Hf. }
    assert (H4 : forall t a, In (t, a) (p_ksk s4) -> t = tag (ta_key a)).
    { unfold s4. destruct ro; [exact H3|]. cbn. intros t0 b H. apply (keyrem_in tag) in H. destruct H as (a0 & Hi & Hc).
      apply H3 in Hi. destruct Hc as [-> _ _ _|_ _ ->|_ _ _ ->|_ _ ->]; cbn; exact Hi. }
    apply H4. eapply tail_writes_state; eassumption. }
  destruct (authenticate tag (trusted_keys ksk2) keys sigs); [destruct Hw|apply (Hmain false); exact Hw|apply (Hmain true); exact Hw].
Qed.

(* ---- the monitor after a run whose state file did (rc) or did not land *)
Definition fe_keys (fe : fetch) : list key := match fe with FResp keys _ => keys | FErr => [] end.
Definition mon_run (s : sys) (now : Z) (fe : fetch) (fl : faults) (rc recflag : bool) (M : mon) : mon :=
  let present := mat_mem (fe_keys fe) in
  mk_mon (if full_at s now fe fl && rc
          then (if present then Some (match m_streak M with Some t0 => t0 | None => now end) else None)
          else m_streak M)
         (m_prom M || (full_at s now fe fl && present &&
                       match m_streak M with Some t0 => (now - t0 >? hold_add)%Z | None => false end))
         (m_rec M || recflag).

Lemma mon_mono s now fe fl rc rf M :
  (m_rec M = true \/ m_prom M = true) -> m_rec (mon_run s now fe fl rc rf M) = true \/ m_prom (mon_run s now fe fl rc rf M) = true.
Proof. intros [H|H]; cbn; rewrite H; auto. Qed.

Section Run.
Variables (T : Z) (s : sys) (M : mon) (now : Z) (fe : fetch) (fl : faults).
Hypothesis HInv : Inv T s M.
Hypothesis HT : (T <= now)%Z.

Lemma I1 : forall t a, In (t, a) (st_entries (s_disk s)) -> ta_key a = K -> ta_st a = SAddPend ->
               exists t0, m_streak M = Some t0 /\ (t0 <= ta_fs a)%Z.
Proof. exact (proj1 HInv). Qed.
Lemma I2 : forall t a, In (t, a) (st_entries (s_disk s)) -> ta_key a = K -> is_trusted_st a = true -> m_rec M = true \/ m_prom M = true.
Proof. exact (proj1 (proj2 HInv)). Qed.
Lemma I3 : In K (s_live s) -> m_rec M = true \/ m_prom M = true.
Proof. exact (proj1 (proj2 (proj2 HInv))). Qed.
Lemma I4 : forall t a, In (t, a) (st_entries (s_disk s)) -> t = tag (ta_key a).
Proof. exact (proj1 (proj2 (proj2 (proj2 HInv)))). Qed.
Lemma I5 : In K (s_cfg s) -> m_rec M = true.
Proof. exact (proj1 (proj2 (proj2 (proj2 (proj2 HInv))))). Qed.
Lemma I6 : forall t0, m_streak M = Some t0 -> (t0 <= T)%Z.
Proof. exact (proj2 (proj2 (proj2 (proj2 (proj2 HInv))))). Qed.

Section WithPre.
Variables (ksk2 : kmap) (tombs2 : tmap).
Hypothesis Hp : prefetch tag (s_live s) (s_cfg s) (s_disk s) now fl = Some (ksk2, tombs2).

Lemma pre_tags t a : In (t, a) ksk2 -> t = tag (ta_key a).
Proof.
  intros H. destruct (prefetch_origin _ _ _ _ _ _ _ Hp t a H) as [_ Hi|k _ -> ->|k _ -> ->]; [apply I4; exact Hi|reflexivity|reflexivity].
Qed.

Lemma cand_ok t a : In (t, a) ksk2 -> ta_key a = K -> is_trusted_st a = true -> m_rec M = true \/ m_prom M = true.
Proof.
  intros H Hk Ht. destruct (prefetch_origin _ _ _ _ _ _ _ Hp t a H) as [_ Hi|k Hl _ Hka _|k Hc _ ->].
  - eapply I2; eassumption.
  - apply I3. rewrite <- Hk, Hka. exact Hl.
  - left. apply I5. cbn in Hk. rewrite <- Hk. exact Hc.
Qed.

Lemma pend_ok t a : In (t, a) ksk2 -> ta_key a = K -> ta_st a = SAddPend -> exists t0, m_streak M = Some t0 /\ (t0 <= ta_fs a)%Z.
Proof.
  intros H Hk Hs. destruct (prefetch_origin _ _ _ _ _ _ _ Hp t a H) as [_ Hi|k _ _ _ Hn|k _ _ ->].
  - eapply I1; eassumption.
  - contradiction.
  - discriminate.
Qed.

Lemma present_by_mat keys t a : ta_key a = K -> fm_has (fetched_map tag keys) t a = true -> mat_mem keys = true.
Proof.
  intros Hk Hl. unfold fm_has in Hl. destruct (lookup t (fetched_map tag keys)) as [k'|] eqn:E; [|discriminate].
  apply fetched_map_in in E. destruct E as (Hin & _ & _). unfold mat_mem. apply existsb_exists.
  exists k'. split; [exact Hin|]. unfold ta_mat in Hl. rewrite Hk in Hl. exact Hl.
Qed.

Lemma cand_is : candidate tag (s_live s) (s_cfg s) (s_disk s) now fl = trusted_keys ksk2.
Proof. unfold candidate. rewrite Hp. reflexivity. Qed.

End WithPre.

Lemma run_preserves n recflag :
  let r := run_of tag s now fe fl in
  let ws := firstn n (r_writes r) in
  let d' := apply_writes (s_disk s) ws in
  let M' := mon_run s now fe fl (has_wstate ws) recflag M in
  (forall t a, In (t, a) (st_entries d') -> ta_key a = K -> ta_st a = SAddPend -> exists t0, m_streak M' = Some t0 /\ (t0 <= ta_fs a)%Z) /\
  (forall t a, In (t, a) (st_entries d') -> ta_key a = K -> is_trusted_st a = true -> m_rec M' = true \/ m_prom M' = true) /\
  (In K (r_live r) -> m_rec M' = true \/ m_prom M' = true) /\
  (forall t a, In (t, a) (st_entries d') -> t = tag (ta_key a)) /\
  (forall t0, m_streak M' = Some t0 -> (t0 <= now)%Z).
Proof.
  intros r ws d' M'.
  assert (H6 : forall t0, m_streak M' = Some t0 -> (t0 <= now)%Z).
  { intros t0. unfold M', mon_run. cbn [m_streak].
    destruct (full_at s now fe fl && has_wstate ws).
    - destruct (mat_mem (fe_keys fe)); [|discriminate]. destruct (m_streak M) as [t1|] eqn:E; intros H; inversion H; subst; [specialize (I6 _ E); lia|lia].
    - intros H. specialize (I6 _ H). lia. }
  assert (Hmono : m_rec M = true \/ m_prom M = true -> m_rec M' = true \/ m_prom M' = true) by apply mon_mono.
  (* the unchanged-state-file case *)
  assert (Hsame : has_wstate ws = false -> d_state d' = d_state (s_disk s) ->
           (forall t a, In (t, a) (st_entries d') -> ta_key a = K -> ta_st a = SAddPend -> exists t0, m_streak M' = Some t0 /\ (t0 <= ta_fs a)%Z) /\
           (forall t a, In (t, a) (st_entries d') -> ta_key a = K -> is_trusted_st a = true -> m_rec M' = true \/ m_prom M' = true) /\
           (forall t a, In (t, a) (st_entries d') -> t = tag (ta_key a))).
  { intros Hw Hd. unfold st_entries. rewrite Hd. fold (st_entries (s_disk s)). split; [|split].
    - intros t a Hin Hk Hs. unfold M', mon_run. cbn [m_streak]. rewrite Hw, andb_false_r. eapply I1; eassumption.
    - intros t a Hin Hk Ht. apply Hmono. eapply I2; eassumption.
    - exact I4. }
  unfold r, run_of in *.
  destruct (autota_shape (s_live s) (s_cfg s) (s_disk s) now fe fl) as [Hp Hl Hw Hc|ksk2 tombs2 Hp Hfe Hl Hw|ksk2 tombs2 keys sigs Hp -> Ha|ksk2 tombs2 keys sigs Hp -> Ha].
  - (* fail closed *)
    assert (Hws : ws = []) by (unfold ws; rewrite Hw; apply firstn_nil).
    destruct (Hsame ltac:(rewrite Hws; reflexivity) ltac:(unfold d'; rewrite Hws; reflexivity)) as (A & B & C).
    repeat split; try assumption. rewrite Hl. intros [].
  - (* fetch failed or not authenticated *)
    assert (Hws : ws = []) by (unfold ws; rewrite Hw; apply firstn_nil).
    destruct (Hsame ltac:(rewrite Hws; reflexivity) ltac:(unfold d'; rewrite Hws; reflexivity)) as (A & B & C).
    repeat split; try assumption. rewrite Hl. intros Hin. apply Hmono.
    destruct (s_live s) eqn:El; [destruct Hin|]. cbn in Hin. rewrite <- El in *.
    apply trusted_keys_in in Hin. destruct Hin as (t & a & Hi & Ht & Hk). eapply cand_ok; eassumption.
  - (* authenticated only by revoked keys *)
    pose proof (revoked_only_completes_revocation_lemma tag _ _ _ _ _ _ fl _ _ Hp Ha) as (L1 & L2 & _).
    assert (Hfull : full_at s now (FResp keys sigs) fl = false) by (unfold full_at; rewrite (cand_is _ _ Hp), Ha; reflexivity).
    assert (Hlive : In K (autota tag (s_live s) (s_cfg s) (s_disk s) now (FResp keys sigs) fl).(r_live) -> m_rec M' = true \/ m_prom M' = true).
    { intros Hin. apply Hmono. apply L1 in Hin. apply trusted_keys_in in Hin. destruct Hin as (t & a & Hi & Ht & Hk). eapply cand_ok; eassumption. }
    destruct (apply_writes_state (s_disk s) ws) as [[Hw Hd]|[Hw (s5 & Hin5 & Hd)]].
    + destruct (Hsame Hw Hd) as (A & B & C). repeat split; assumption.
    + apply in_firstn in Hin5.
      assert (Hent : forall t a', In (t, a') (st_entries d') -> In (t, a') ksk2 \/ exists a, In (t, a) ksk2 /\ is_trusted_st a = true /\ a' = mk_ta (ta_key a) SRevoked now).
      { intros t a' Hi. unfold st_entries, d' in Hi. rewrite Hd in Hi. destruct (L2 s5 t a' Hin5 Hi) as [H|(a & k' & H1 & H2 & _ & H4)]; [left; exact H|right; exists a; auto]. }
      repeat split; try assumption.
      * intros t a Hi Hk Hs. unfold M', mon_run. cbn [m_streak]. rewrite Hfull. cbn.
        destruct (Hent t a Hi) as [H|(a0 & _ & _ & ->)]; [eapply pend_ok; eassumption|discriminate].
      * intros t a Hi Hk Ht. apply Hmono. destruct (Hent t a Hi) as [H|(a0 & _ & _ & ->)]; [eapply cand_ok; eassumption|discriminate].
      * intros t a Hi. destruct (Hent t a Hi) as [H|(a0 & H & _ & ->)]; [eapply pre_tags; eassumption|cbn; eapply pre_tags; eassumption].
  - (* fully authenticated *)
    pose proof (full_run_origin tag _ _ _ _ _ _ fl _ _ Hp Ha) as (L1 & L2).
    assert (Hfull : full_at s now (FResp keys sigs) fl = true) by (unfold full_at; rewrite (cand_is _ _ Hp), Ha; reflexivity).
    (* a pending entry of K that completes the hold-down sets prom *)
    assert (Hprom : forall t a, In (t, a) ksk2 -> ta_st a = SAddPend -> ta_key a = K -> fm_has (fetched_map tag keys) t a = true ->
                     (now - ta_fs a > hold_add)%Z -> m_prom M' = true).
    { intros t a Hi Hs Hk Hl Hage. destruct (pend_ok _ _ Hp t a Hi Hk Hs) as (t0 & Hst & Hle).
      unfold M', mon_run. cbn [m_prom fe_keys]. rewrite Hfull, (present_by_mat keys t a Hk Hl), Hst. cbn.
      destruct (Z.gtb_spec (now - t0) hold_add); [apply orb_true_r|lia]. }
    assert (Hlive : In K (autota tag (s_live s) (s_cfg s) (s_disk s) now (FResp keys sigs) fl).(r_live) -> m_rec M' = true \/ m_prom M' = true).
    { intros Hin. destruct (L1 K Hin) as [Hc|(t & a & Hi & Hs & Hk & Hl & Hage)].
      - apply Hmono. apply trusted_keys_in in Hc. destruct Hc as (t & a & Hi & Ht & Hk). eapply cand_ok; eassumption.
      - right. eapply Hprom; eassumption. }
    destruct (apply_writes_state (s_disk s) ws) as [[Hw Hd]|[Hw (s5 & Hin5 & Hd)]].
    + destruct (Hsame Hw Hd) as (A & B & C). repeat split; assumption.
    + apply in_firstn in Hin5.
      assert (Hst5 : st_entries d' = s5) by (unfold st_entries, d'; rewrite Hd; reflexivity).
      repeat split; try assumption.
      * intros t a Hi Hk Hs. rewrite Hst5 in Hi. destruct (proj2 (L2 s5 t a Hin5 Hi) Hs) as [[Ho Hl]|[Hl Hfs]].
        -- destruct (pend_ok _ _ Hp t a Ho Hk Hs) as (t0 & Hst & Hle). exists t0. split; [|exact Hle].
           unfold M', mon_run. cbn [m_streak fe_keys]. rewrite Hfull, Hw, (present_by_mat keys t a Hk Hl), Hst. reflexivity.
        -- assert (Hpres : mat_mem keys = true).
           { unfold mat_mem. apply existsb_exists. exists K. split; [|apply N.eqb_refl].
             apply fetched_map_in in Hl. rewrite <- Hk. apply Hl. }
           unfold M', mon_run. cbn [m_streak fe_keys]. rewrite Hfull, Hw, Hpres. cbn.
           destruct (m_streak M) as [t1|] eqn:E; eexists; (split; [reflexivity|]); [specialize (I6 _ E); lia|lia].
      * intros t a Hi Hk Ht. rewrite Hst5 in Hi. destruct (proj1 (L2 s5 t a Hin5 Hi) Ht) as [(a0 & Ho & Ht0 & Hk0)|(a0 & Ho & Hs0 & Hk0 & Hl & Hage)].
        -- apply Hmono. eapply cand_ok; [exact Hp|exact Ho|congruence|exact Ht0].
        -- right. eapply Hprom; [exact Ho|exact Hs0|congruence|exact Hl|exact Hage].
      * intros t a Hi. rewrite Hst5 in Hi. eapply written_tags; [exact I4|exact Hin5|exact Hi].
Qed.

End Run.

(* ---- one event *)
Lemma mon_step_run s now fe fl M :
  mon_step s (ERun now fe fl) M = mon_run s now fe fl (has_wstate (r_writes (run_of tag s now fe fl))) false M.
Proof. unfold mon_step, mon_run. destruct fe; reflexivity. Qed.

Lemma mon_step_crash s now fe fl k c tr sr M :
  mon_step s (ECrash now fe fl k c tr sr) M = mon_run s now fe fl (has_wstate (firstn k (r_writes (run_of tag s now fe fl)))) (key_mem K c) M.
Proof. unfold mon_step, mon_run. destruct fe; reflexivity. Qed.

Lemma step_inv T s M e :
  Inv T s M -> match ev_now e with Some n => (T <= n)%Z | None => True end ->
  Inv (match ev_now e with Some n => n | None => T end) (step tag s e) (mon_step s e M).
Proof.
  intros HI HT. destruct e as [now fe fl|now fe fl k c tr sr|c tr sr]; cbn [ev_now] in *.
  - rewrite mon_step_run.
    pose proof (run_preserves T s M now fe fl HI HT (length (r_writes (run_of tag s now fe fl))) false) as H.
    cbn zeta in H. rewrite firstn_all in H. destruct H as (A & B & C & D & E).
    cbn [step]. unfold Inv. cbn [s_live s_cfg s_disk]. unfold run_of in *. rewrite r_disk_writes.
    repeat split; try assumption.
    intros Hc. cbn. rewrite (I5 T s M HI Hc). reflexivity.
  - rewrite mon_step_crash.
    pose proof (run_preserves T s M now fe fl HI HT k (key_mem K c)) as H.
    cbn zeta in H. destruct H as (A & B & _ & D & E).
    cbn [step]. unfold Inv. cbn [s_live s_cfg s_disk].
    repeat split; try assumption.
    + intros Hc. apply restart_live_sub in Hc. left. cbn. apply key_mem_in in Hc. rewrite Hc. apply orb_true_r.
    + intros Hc. cbn. apply key_mem_in in Hc. rewrite Hc. apply orb_true_r.
  - destruct HI as (A & B & C & D & E & F). cbn [step]. unfold Inv, mon_step. cbn.
    repeat split.
    + exact A.
    + intros t a Hi Hk Ht. destruct (B t a Hi Hk Ht) as [H|H]; rewrite H; [left; reflexivity|right; reflexivity].
    + intros Hc. apply restart_live_sub in Hc. left. apply key_mem_in in Hc. rewrite Hc. apply orb_true_r.
    + exact D.
    + intros Hc. apply key_mem_in in Hc. rewrite Hc. apply orb_true_r.
    + exact F.
Qed.

Lemma monitor_inv h : forall T s M, Inv T s M -> mono T h -> exists T', Inv T' (fst (monitor s h M)) (snd (monitor s h M)).
Proof.
  induction h as [|e h IH]; intros T s M HI Hm; [exists T; exact HI|].
  cbn [monitor]. cbn [mono] in Hm.
  destruct (ev_now e) as [n|] eqn:En.
  - destruct Hm as [Hle Hm]. eapply IH; [|exact Hm].
    pose proof (step_inv T s M e HI) as H. rewrite En in H. apply H. exact Hle.
  - eapply IH; [|exact Hm]. pose proof (step_inv T s M e HI) as H. rewrite En in H. apply H. exact I.
Qed.

Lemma monitor_exec h : forall s M, fst (monitor s h M) = exec tag s h.
Proof. induction h as [|e h IH]; intros s M; [reflexivity|]. cbn. apply IH. Qed.

End Hist.

(* new_key_needs_30d *)
Lemma new_key_needs_30d_lemma :
  forall (tag : key -> N) (K : key) (cfg : list key) (tombs : option tmap) (tr0 : tread) (sr0 : bool) (T0 : Z) (h : list event),
    mono T0 h ->
    let d0 := mk_disk None tombs in                                (* fresh start: no state file *)
    let s0 := mk_sys (restart_live cfg d0 tr0 sr0) cfg d0 in
    let M0 := mk_mon None false (key_mem K cfg) in
    let M := snd (monitor tag K s0 h M0) in
    In K (s_live (exec tag s0 h)) -> m_rec M = true \/ m_prom M = true.
Proof.
  intros tag K cfg tombs tr0 sr0 T0 h Hm d0 s0 M0 M Hin.
  assert (H0 : Inv tag K T0 s0 M0).
  { unfold Inv, s0, M0, st_entries. cbn. repeat split; try (intros ? ? []).
    - intros Hc. apply restart_live_sub in Hc. left. apply key_mem_in. exact Hc.
    - intros Hc. apply key_mem_in. exact Hc.
    - discriminate. }
  destruct (monitor_inv tag K h T0 s0 M0 H0 Hm) as (T' & HI).
  rewrite monitor_exec in HI. destruct HI as (_ & _ & C & _). apply C. exact Hin.
Qed.
