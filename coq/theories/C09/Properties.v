(* C09 — property theorems (statements only; proofs are in Proofs_*.v). *)
From Sdns Require Import Common.Base Gen.C09 C09.Model C09.Proofs_Maps C09.Proofs_Rev C09.Proofs_Step C09.Proofs_Refute C09.Proofs_Prov C09.Proofs_Thm C09.Proofs_Hist.
Open Scope N_scope.

(* A DNSKEY response carrying no valid signature made with the key material of a
   currently trusted anchor (plain or revoked form) changes nothing: disk untouched,
   nothing revoked, and the live set is what a failed fetch would have left (the
   tombstone-filtered republication, or the unchanged empty set in fail-closed mode).
   For every tag function, state, configuration, clock, fault combination. *)
Theorem unauthenticated_changes_nothing :
  forall (tag : key -> N) live cfg d now keys sigs fl,
    no_trusted_signature (candidate tag live cfg d now fl) sigs ->
    let r := autota tag live cfg d now (FResp keys sigs) fl in
    let r0 := autota tag live cfg d now FErr fl in
    r_disk r = d /\ r_writes r = [] /\ r_revoked r = [] /\ r_live r = r_live r0 /\
    (f_tread fl <> TRCorrupt -> r_live r = if is_nil live then live else candidate tag live cfg d now fl).
Proof. exact unauthenticated_changes_nothing_lemma. Qed.
Print Assumptions unauthenticated_changes_nothing.

(* FULL STATEMENT (revocation_permanent): once a run accepted the revocation of material m
   and at least one of its two file replacements landed, no key of material m is in the live
   set in ANY later state — after restarts, crashes after any prefix of the replacements,
   any configuration, any tag function, any read/write fault sequence.
   The faithful model REFUTES it in three ways (below); what is proved is the statement with
   (a) observation points after a completed AutoTA run (not in the window between NewResolver
   and the first run) and (b) tolerable read faults: the tombstone file is never "unreadable"
   (open error other than ENOENT), and the state file is readable whenever it holds the only
   record of m's revocation.  Write faults, crash points, configurations, responses, clocks and
   the tag function are unrestricted.  The disk invariant [durable] holds at every later point,
   including inside the restart window and after every crash prefix. *)
Theorem revocation_permanent_partial :
  forall (tag : key -> N) (m : N) (s : sys) now fe fl,
    In m (r_revoked (run_of tag s now fe fl)) ->
    forall s1,
    ((s1 = step tag s (ERun now fe fl) /\ r_writes (run_of tag s now fe fl) <> []) \/
     (exists k cfg', s1 = step tag s (ECrash now fe fl k cfg') /\ firstn k (r_writes (run_of tag s now fe fl)) <> [])) ->
    forall h, hist_ok tag m s1 h ->
      durable m (s_disk (exec tag s1 h)) /\
      (forall h' now' fe' fl' key, h = h' ++ [ERun now' fe' fl'] ->
         In key (s_live (exec tag s1 h)) -> k_mat key <> m).
Proof. exact revocation_permanent_partial_lemma. Qed.
Print Assumptions revocation_permanent_partial.

(* F2: restart window *)
Theorem revocation_permanent_refuted :
  exists tag s now fe fl h key,
    In 1 (r_revoked (run_of tag s now fe fl)) /\ length (r_writes (run_of tag s now fe fl)) = 2%nat /\
    In key (s_live (exec tag (step tag s (ERun now fe fl)) h)) /\ k_mat key = 1.
Proof. exact revocation_permanent_refuted_restart_window. Qed.
Print Assumptions revocation_permanent_refuted.

(* unreadable tombstones do not fail closed *)
Theorem unreadable_tombstones_fails_closed_refuted :
  exists tag s now fe fl now' fe' fl' key,
    In 1 (r_revoked (run_of tag s now fe fl)) /\ length (r_writes (run_of tag s now fe fl)) = 2%nat /\
    f_tread fl' = TRUnreadable /\
    In key (s_live (exec tag (step tag s (ERun now fe fl)) [ERun now' fe' fl'])) /\ k_mat key = 1.
Proof. exact revocation_permanent_refuted_unreadable_tombstones. Qed.
Print Assumptions unreadable_tombstones_fails_closed_refuted.

(* a state-file read fault while the marker is the only record loses the revocation *)
Theorem revocation_marker_lost_on_state_read_fault_refuted :
  exists tag s now fe fl now' fe' fl' key,
    In 1 (r_revoked (run_of tag s now fe fl)) /\ length (r_writes (run_of tag s now fe fl)) = 1%nat /\
    f_sread fl' = true /\ f_tread fl' = TROk /\
    let s2 := exec tag (step tag s (ERun now fe fl)) [ERun now' fe' fl'; ERun (now' + 1)%Z fe' no_faults] in
    In key (s_live s2) /\ k_mat key = 1.
Proof. exact revocation_permanent_refuted_state_read_fault. Qed.
Print Assumptions revocation_marker_lost_on_state_read_fault_refuted.

(* both writes fail in a run that accepted a revocation: the trust set is cleared *)
Theorem dual_write_failure_fails_closed :
  forall (tag : key -> N) live cfg d now fe fl,
    f_twrite fl = true -> f_swrite fl = true ->
    let r := autota tag live cfg d now fe fl in
    r_revoked r <> [] -> r_live r = [] /\ r_disk r = d /\ r_writes r = [].
Proof. exact dual_write_failure_fails_closed_lemma. Qed.
Print Assumptions dual_write_failure_fails_closed.

(* a tombstone file that opens but does not decode: trust set cleared, nothing written *)
Theorem corrupt_tombstones_fails_closed :
  forall (tag : key -> N) live cfg d now fe fl,
    f_tread fl = TRCorrupt ->
    let r := autota tag live cfg d now fe fl in
    r_live r = [] /\ r_disk r = d /\ r_writes r = [] /\ r_out r = OPersistence.
Proof. exact corrupt_tombstones_fails_closed_lemma. Qed.
Print Assumptions corrupt_tombstones_fails_closed.

(* F4: with colliding key tags a key becomes trusted although its material was present in
   only one accepted refresh *)
Theorem new_key_needs_30d_refuted :
  exists tag cfg h key,
    let s := exec tag (mk_sys cfg cfg empty_disk) h in
    forallb (fun e => match e with ERun _ (FResp _ sigs) fl => existsb (fun g => s_ok g && (s_mat g =? 1)) sigs | _ => false end) h = true /\
    ~ In key cfg /\ In key (s_live s) /\
    length (filter (contains_mat (k_mat key)) h) = 1%nat /\ length h = 4%nat.
Proof. exact Proofs_Refute.new_key_needs_30d_refuted. Qed.
Print Assumptions new_key_needs_30d_refuted.

(* A response authenticated only by revoked keys (pass 1 fails, the revoked-bootstrap pass
   succeeds) can do nothing but complete those revocations: no key enters the live set; every
   entry of a written state map is an entry of the pre-fetch map or the Revoked form (stamped
   now) of a trusted entry whose REVOKE-flagged, self-signed form is in the response; every
   written tombstone is an old one or that of such a key.  No AddPend seeding, no promotion,
   no Missing marking.  For every tag function and fault combination. *)
Theorem revoked_only_completes_revocation :
  forall (tag : key -> N) live cfg d now keys sigs fl ksk2 tombs2,
    prefetch tag live cfg d now fl = Some (ksk2, tombs2) ->
    authenticate tag (trusted_keys ksk2) keys sigs = AuthRevOnly ->
    let r := autota tag live cfg d now (FResp keys sigs) fl in
    (forall k, In k (r_live r) -> In k (trusted_keys ksk2)) /\
    (forall s5 t a', In (WState s5) (r_writes r) -> In (t, a') s5 ->
       In (t, a') ksk2 \/
       exists a k', In (t, a) ksk2 /\ is_trusted_st a = true /\ revokes tag keys sigs a k' /\ a' = mk_ta (ta_key a) SRevoked now) /\
    (forall tb x e, In (WTomb tb) (r_writes r) -> In (x, e) tb -> tomb_origin tag now keys sigs ksk2 tombs2 x e).
Proof. exact revoked_only_completes_revocation_lemma. Qed.
Print Assumptions revoked_only_completes_revocation.

(* ... and that verdict means what it says: no valid signature under a trusted non-revoked key,
   a valid one under the revoked form of a trusted key *)
Theorem revoked_only_means :
  forall (tag : key -> N) cand keys sigs,
    authenticate tag cand keys sigs = AuthRevOnly ->
    verify_with tag (filter is_ksk cand) sigs = false /\
    verify_with tag (bootstrap tag (filter is_ksk cand) keys) sigs = true.
Proof. exact auth_revonly_spec. Qed.
Print Assumptions revoked_only_means.

(* FULL STATEMENT (new_key_needs_30d): a key K that is live and was never configured was present,
   for more than 30 days and in every recorded accepted refresh, in DNSKEY sets fully
   authenticated by a trusted non-revoked anchor.  Formalised with the monitor of Proofs_Hist
   (streak / prom / rec).  REFUTED for colliding tags (new_key_needs_30d_refuted above, F4);
   proved for every history in which no published key collides with K's tag — all responses,
   faults, crash prefixes, restarts, configurations, non-decreasing clocks, fresh directory. *)
Theorem new_key_needs_30d_partial :
  forall (tag : key -> N) (K : key) (cfg : list key) (tombs : option tmap) (T0 : Z) (h : list event),
    Forall (fun e => nocoll tag K (ev_keys e)) h ->
    mono T0 h ->
    let s0 := mk_sys cfg cfg (mk_disk None tombs) in
    let M0 := mk_mon None false (key_mem K cfg) in
    let M := snd (monitor tag K s0 h M0) in
    In K (s_live (exec tag s0 h)) -> m_rec M = true \/ m_prom M = true.
Proof. exact new_key_needs_30d_partial_lemma. Qed.
Print Assumptions new_key_needs_30d_partial.

(* the one-run rule behind it, for every tag function: a key leaves a fully authenticated run
   trusted only if it was trusted before the fetch or its AddPend entry is older than 30 days
   and its TAG is in the response; pending entries are kept only if their TAG is in the
   response, new ones are keys of the response stamped now *)
Theorem new_key_needs_30d_step :
  forall (tag : key -> N) live cfg d now keys sigs fl ksk2 tombs2,
    prefetch tag live cfg d now fl = Some (ksk2, tombs2) ->
    authenticate tag (trusted_keys ksk2) keys sigs = AuthFull ->
    let r := autota tag live cfg d now (FResp keys sigs) fl in
    let fm := fetched_map tag keys in
    (forall k, In k (r_live r) ->
       In k (trusted_keys ksk2) \/
       exists t a, In (t, a) ksk2 /\ ta_st a = SAddPend /\ ta_key a = k /\ lookup t fm <> None /\ (now - ta_fs a > hold_add)%Z) /\
    (forall s5 t a', In (WState s5) (r_writes r) -> In (t, a') s5 ->
       (is_trusted_st a' = true ->
          (exists a, In (t, a) ksk2 /\ is_trusted_st a = true /\ ta_key a = ta_key a') \/
          exists a, In (t, a) ksk2 /\ ta_st a = SAddPend /\ ta_key a = ta_key a' /\ lookup t fm <> None /\ (now - ta_fs a > hold_add)%Z) /\
       (ta_st a' = SAddPend ->
          (In (t, a') ksk2 /\ lookup t fm <> None) \/
          (lookup t fm = Some (ta_key a') /\ ta_fs a' = now))).
Proof. exact full_run_origin. Qed.
Print Assumptions new_key_needs_30d_step.

(* missing_90d: in a fully authenticated run whose response does not revoke it, a trusted anchor
   stays in the live set when it is still published (by tag) — a Missing one returns to Valid —
   and when it disappeared: Valid becomes Missing with the clock started now, Missing stays for
   at most 90 days (hold_rem = 2160 h).  Needs one of the two writes to work (otherwise the
   publication rule keeps the pre-fetch set or fails closed).  The upper bound (removal after
   90 days) is covered by correspondence only. *)
Theorem missing_90d :
  forall (tag : key -> N) live cfg d now keys sigs fl ksk2 tombs2 t a,
    prefetch tag live cfg d now fl = Some (ksk2, tombs2) ->
    authenticate tag (trusted_keys ksk2) keys sigs = AuthFull ->
    let fm := fetched_map tag keys in
    lookup t ksk2 = Some a -> is_trusted_st a = true ->
    (forall t' k, lookup t' fm = Some k -> is_rev k = true -> same_except_revoke (ta_key a) k = false) ->
    (f_twrite fl = false \/ f_swrite fl = false) ->
    (lookup t fm = None -> ta_st a = SMissing -> (now - ta_fs a <= hold_rem)%Z) ->
    let r := autota tag live cfg d now (FResp keys sigs) fl in
    In (ta_key a) (r_live r) /\
    forall s5, In (WState s5) (r_writes r) -> lookup t s5 = Some (after_refresh now fm t a).
Proof. exact missing_90d_lemma. Qed.
Print Assumptions missing_90d.
