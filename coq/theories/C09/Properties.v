(* C09 — property theorems for the code as it is after fixes 1f61a03, 4ce6577 and 3c40407 (statements only; proofs in Proofs_*.v). *)
From Sdns Require Import Common.Base Common.GoList Gen.C09 C09.Model C09.Proofs_Maps C09.Proofs_Rev C09.Proofs_Step C09.Proofs_Refute C09.Proofs_Prov C09.Proofs_Thm C09.Proofs_Hist C09.Proofs_Live C09.Proofs_Wf C09.Proofs_Inv C09.Proofs_KeyTag C09.Proofs_Gen C09.Proofs_Root C09.ModelFs C09.Proofs_Fs C09.Proofs_Stay C09.Proofs_Maps2.
Open Scope N_scope.

(* A DNSKEY response carrying no valid signature made with the key material of a
   currently trusted anchor (plain or revoked form) changes nothing: disk untouched,
   nothing revoked, and the live set is what a failed fetch would have left (the
   tombstone-filtered republication, or the unchanged empty set in fail-closed mode).
   For every tag function, state, configuration, clock, fault combination. *)
Theorem unauthenticated_changes_nothing :
  forall (tag : key -> N) live cfg d now keys sigs fl,
    no_trusted_signature (candidate tag live cfg d now fl) sigs ->
    let r := autota tag live cfg d now (FResp keys sigs) fl in
    let r0 := autota tag live cfg d now FErr fl in
    r_disk r = d /\ r_writes r = [] /\ r_revoked r = [] /\ r_live r = r_live r0 /\
    (f_tread fl = TROk -> f_sread fl = false -> r_live r = if is_nil live then live else candidate tag live cfg d now fl).
Proof. exact unauthenticated_changes_nothing_lemma. Qed.
Print Assumptions unauthenticated_changes_nothing.

(* A response authenticated only by revoked keys can do nothing but complete those revocations. *)
Theorem revoked_only_completes_revocation :
  forall (tag : key -> N) live cfg d now keys sigs fl ksk2 tombs2,
    prefetch tag live cfg d now fl = Some (ksk2, tombs2) ->
    authenticate tag (trusted_keys ksk2) keys sigs = AuthRevOnly ->
    let r := autota tag live cfg d now (FResp keys sigs) fl in
    (forall k, In k (r_live r) -> In k (trusted_keys ksk2)) /\
    (forall s5 t a', In (WState s5) (r_writes r) -> In (t, a') s5 ->
       In (t, a') ksk2 \/
       exists a k', In (t, a) ksk2 /\ is_trusted_st a = true /\ revokes tag keys sigs a k' /\ a' = mk_ta (ta_key a) SRevoked now) /\
    (forall tb x e, In (WTomb tb) (r_writes r) -> In (x, e) tb -> tomb_origin tag now keys sigs ksk2 tombs2 x e).
Proof. exact revoked_only_completes_revocation_lemma. Qed.
Print Assumptions revoked_only_completes_revocation.

(* ... and per key: a response accepted in revocation-only mode leaves alone every trusted anchor whose OWN
   REVOKE-flagged self-signed form is not in it — it stays live, its state entry is written back unchanged, its
   material is neither tombstoned nor counted as revoked — whatever other REVOKE-flagged keys the response lists
   (a revoked, compromised K1 cannot remove a healthy K2 by serving {K1+REVOKE, K2+REVOKE} signed by K1 alone). *)
Theorem revoked_only_keeps_other_anchors :
  forall (tag : key -> N) live cfg d now keys sigs fl ksk2 tombs2 t a,
    prefetch tag live cfg d now fl = Some (ksk2, tombs2) ->
    authenticate tag (trusted_keys ksk2) keys sigs = AuthRevOnly ->
    lookup t ksk2 = Some a -> is_trusted_st a = true ->
    (forall t' k, lookup t' (fetched_map tag keys) = Some k -> is_rev k = true -> k_mat k = ta_mat a -> verify_with tag [k] sigs = false) ->
    (f_twrite fl = false \/ f_swrite fl = false) ->
    let r := autota tag live cfg d now (FResp keys sigs) fl in
    In (ta_key a) (r_live r) /\
    (forall s5, In (WState s5) (r_writes r) -> lookup t s5 = Some a) /\
    (forall tb, In (WTomb tb) (r_writes r) -> mem (ta_mat a) tb = false) /\
    ~ In (ta_mat a) (r_revoked r).
Proof. exact revoked_only_keeps_other_anchors_lemma. Qed.
Print Assumptions revoked_only_keeps_other_anchors.

Theorem revoked_only_means :
  forall (tag : key -> N) cand keys sigs,
    authenticate tag cand keys sigs = AuthRevOnly ->
    verify_with tag (filter is_ksk cand) sigs = false /\
    verify_with tag (bootstrap tag (filter is_ksk cand) keys) sigs = true.
Proof. exact auth_revonly_spec. Qed.
Print Assumptions revoked_only_means.

(* new_key_needs_30d — FULL STATEMENT, no hypothesis on the tag function (presence is by key
   material since 1f61a03).  For every key K, configuration, tombstone file content, start-up read
   fault, and every history from a fresh directory (responses, read/write faults, crashes after any
   prefix, restarts with any configuration and start-up fault) with non-decreasing clocks:
   K in the live set  ==>  K was in the configuration at some (re)start, or K's material was in a
   fully authenticated response while its presence streak — over all recorded fully authenticated
   refreshes — was older than 30 days.  (Reading: a refresh whose state file did not land counts
   neither for nor against the streak.)  The only hypothesis is the clock. *)
Theorem new_key_needs_30d :
  forall (tag : key -> N) (K : key) (cfg : list key) (tombs : option tmap) (tr0 : tread) (sr0 : bool) (T0 : Z) (h : list event),
    mono T0 h ->
    let d0 := mk_disk None tombs in
    let s0 := mk_sys (restart_live cfg d0 tr0 sr0) cfg d0 in
    let M0 := mk_mon None false (key_mem K cfg) in
    let M := snd (monitor tag K s0 h M0) in
    In K (s_live (exec tag s0 h)) -> m_rec M = true \/ m_prom M = true.
Proof. exact new_key_needs_30d_lemma. Qed.
Print Assumptions new_key_needs_30d.

(* the one-run rule behind it *)
Theorem new_key_needs_30d_step :
  forall (tag : key -> N) live cfg d now keys sigs fl ksk2 tombs2,
    prefetch tag live cfg d now fl = Some (ksk2, tombs2) ->
    authenticate tag (trusted_keys ksk2) keys sigs = AuthFull ->
    let r := autota tag live cfg d now (FResp keys sigs) fl in
    let fm := fetched_map tag keys in
    (forall k, In k (r_live r) ->
       In k (trusted_keys ksk2) \/
       exists t a, In (t, a) ksk2 /\ ta_st a = SAddPend /\ ta_key a = k /\ fm_has fm t a = true /\ (now - ta_fs a > hold_add)%Z) /\
    (forall s5 t a', In (WState s5) (r_writes r) -> In (t, a') s5 ->
       (is_trusted_st a' = true ->
          (exists a, In (t, a) ksk2 /\ is_trusted_st a = true /\ ta_key a = ta_key a') \/
          exists a, In (t, a) ksk2 /\ ta_st a = SAddPend /\ ta_key a = ta_key a' /\ fm_has fm t a = true /\ (now - ta_fs a > hold_add)%Z) /\
       (ta_st a' = SAddPend ->
          (In (t, a') ksk2 /\ fm_has fm t a' = true) \/
          (lookup t fm = Some (ta_key a') /\ ta_fs a' = now))).
Proof. exact full_run_origin. Qed.
Print Assumptions new_key_needs_30d_step.

(* revocation_permanent — FULL STATEMENT for the repaired code (1f61a03 + 4ce6577), no hypothesis on
   faults (read or write), tag function, configurations, crash points, responses or clocks.  Once a run
   (from any state) accepted the revocation of material m and at least one of its file replacements
   landed (complete run, or crash after k >= 1 replacements), then the disk records it (tombstone, or
   StateRevoked/Removed marker) and after EVERY later event of EVERY continuation — AutoTA runs,
   crashes after any prefix, restarts with any configuration and any start-up read fault — the disk
   still records it and NO key of material m is in the live set. *)
Theorem revocation_permanent :
  forall (tag : key -> N) (m : N) (s : sys) now fe fl,
    In m (r_revoked (run_of tag s now fe fl)) ->
    forall s1,
    ((s1 = step tag s (ERun now fe fl) /\ r_writes (run_of tag s now fe fl) <> []) \/
     (exists k cfg' tr sr, s1 = step tag s (ECrash now fe fl k cfg' tr sr) /\ firstn k (r_writes (run_of tag s now fe fl)) <> [])) ->
    durable m (s_disk s1) /\
    forall h e,
      let s' := step tag (exec tag s1 h) e in
      durable m (s_disk s') /\ (forall key, In key (s_live s') -> k_mat key <> m).
Proof. exact revocation_permanent_lemma. Qed.
Print Assumptions revocation_permanent.

(* both writes fail in a run that accepted a revocation: the trust set is cleared *)
Theorem dual_write_failure_fails_closed :
  forall (tag : key -> N) live cfg d now fe fl,
    f_twrite fl = true -> f_swrite fl = true ->
    let r := autota tag live cfg d now fe fl in
    r_revoked r <> [] -> r_live r = [] /\ r_disk r = d /\ r_writes r = [].
Proof. exact dual_write_failure_fails_closed_lemma. Qed.
Print Assumptions dual_write_failure_fails_closed.

(* a revocation store that exists but cannot be read (tombstone file corrupt or unreadable, state
   file corrupt or unreadable): trust set cleared, nothing written; and at start-up the same for the
   tombstone file *)
Theorem corrupt_tombstones_fails_closed :
  forall (tag : key -> N) live cfg d now fe fl,
    f_tread fl <> TROk \/ f_sread fl = true ->
    let r := autota tag live cfg d now fe fl in
    r_live r = [] /\ r_disk r = d /\ r_writes r = [] /\ r_out r = OPersistence.
Proof. exact unreadable_store_fails_closed_lemma. Qed.
Print Assumptions corrupt_tombstones_fails_closed.

(* missing_90d: a trusted anchor that is still published, or merely disappears (for at most 90 days), stays
   trusted and is recorded as Valid / Missing — provided no REVOKE-flagged form of its key material is in
   the response (since 3c40407 the revocation of ANY form of a public key withholds every entry of it) *)
Theorem missing_90d :
  forall (tag : key -> N) live cfg d now keys sigs fl ksk2 tombs2 t a,
    prefetch tag live cfg d now fl = Some (ksk2, tombs2) ->
    authenticate tag (trusted_keys ksk2) keys sigs = AuthFull ->
    let fm := fetched_map tag keys in
    lookup t ksk2 = Some a -> is_trusted_st a = true ->
    (forall t' k, lookup t' fm = Some k -> is_rev k = true -> k_mat k <> ta_mat a) ->
    (f_twrite fl = false \/ f_swrite fl = false) ->
    (fm_has fm t a = false -> ta_st a = SMissing -> (now - ta_fs a <= hold_rem)%Z) ->
    let r := autota tag live cfg d now (FResp keys sigs) fl in
    In (ta_key a) (r_live r) /\
    forall s5, In (WState s5) (r_writes r) -> lookup t s5 = Some (after_refresh now fm t a).
Proof. exact missing_90d_lemma. Qed.
Print Assumptions missing_90d.

(* ---------------------------------------------------------------- phase 3 *)

(* The accepting run itself publishes no key of the revoked material — no hypothesis (3c40407:
   finalRootKeys skips every entry of tombstoned material; the former one-tag hypothesis and its
   counterexample, one public key under two flags values, are now Example dualflags_sibling_withheld). *)
Theorem accepted_revocation_immediate :
  forall (tag : key -> N) live cfg d now fe fl m,
    let r := autota tag live cfg d now fe fl in
    In m (r_revoked r) -> forall key, In key (r_live r) -> k_mat key <> m.
Proof. exact accepted_revocation_immediate_lemma. Qed.
Print Assumptions accepted_revocation_immediate.

(* "A key whose self-signed revocation was accepted is never published as a trust anchor again": immediate
   and permanent in one statement.  Premises as revocation_permanent (the run accepted the revocation of m
   and at least one file replacement landed — complete run, or crash after k >= 1 replacements); then NO
   key of material m is live after that run / after the restart following that crash, nor after any later
   history of runs, crashes and restarts — no hypothesis on faults, tag function, configurations, clocks. *)
Theorem revocation_never_again :
  forall (tag : key -> N) (m : N) (s : sys) now fe fl,
    In m (r_revoked (run_of tag s now fe fl)) ->
    forall s1,
    ((s1 = step tag s (ERun now fe fl) /\ r_writes (run_of tag s now fe fl) <> []) \/
     (exists k cfg' tr sr, s1 = step tag s (ECrash now fe fl k cfg' tr sr) /\ firstn k (r_writes (run_of tag s now fe fl)) <> [])) ->
    forall h key, In key (s_live (exec tag s1 h)) -> k_mat key <> m.
Proof. exact revocation_never_again_lemma. Qed.
Print Assumptions revocation_never_again.

(* One-state invariant: after EVERY event — an AutoTA run with any response, clock and faults, a crash
   after any prefix of its file replacements, a restart with any configuration and start-up read
   fault — from ANY state, no key in the live trust set has its key material recorded as revoked on
   the disk that event leaves behind (tombstone entry, or StateRevoked/StateRemoved marker).  No
   premise on where the record came from (accepted revocation, configured REVOKE-flagged key, legacy
   marker) and the run that creates the record is included. *)
Theorem live_never_recorded_revoked :
  forall (tag : key -> N) (s : sys) (e : event) (m : N),
    let s' := step tag s e in
    durable m (s_disk s') -> forall key, In key (s_live s') -> k_mat key <> m.
Proof. exact live_never_recorded_revoked_lemma. Qed.
Print Assumptions live_never_recorded_revoked.

(* Liveness of revocation: a REVOKE-flagged, self-signed form K' of a trusted anchor K, present in the
   response (not shadowed by another key of the same tag), material not yet on record, IS accepted —
   for every tag function (no relation between tag K' and tag K is needed since 1f61a03), whatever
   else the response contains and whatever the write faults. *)
Theorem revocation_accepted :
  forall (tag : key -> N) live cfg d now keys sigs fl ksk2 tombs2 K K' a,
    prefetch tag live cfg d now fl = Some (ksk2, tombs2) ->
    lookup (tag K) ksk2 = Some a -> ta_key a = K -> is_trusted_st a = true -> is_ksk K = true ->
    is_rev K' = true -> unrev K' = K -> same_except_revoke K K' = true ->
    lookup (tag K') (fetched_map tag keys) = Some K' ->
    mem (k_mat K) tombs2 = false ->
    ident_existing ksk2 (tag K') K' = false ->
    verify_with tag [K'] sigs = true ->
    let r := autota tag live cfg d now (FResp keys sigs) fl in
    In (k_mat K) (r_revoked r) /\ r_out r <> OValidation.
Proof. exact revocation_accepted_lemma. Qed.
Print Assumptions revocation_accepted.

(* Well-formed anchor tables (one entry per key tag, every entry filed under the tag of its key) are an
   invariant of the disk: from a well-formed (e.g. empty) disk, after every history. *)
Theorem anchor_table_wellformed :
  forall (tag : key -> N) (h : list event) (s : sys), wfd tag (s_disk s) -> wfd tag (s_disk (exec tag s h)).
Proof. exact wfd_exec. Qed.
Print Assumptions anchor_table_wellformed.

(* missing_90d, upper bound: a Missing anchor that is still absent after more than 2160 h is dropped by
   a fully authenticated run — no written state map has an entry under its tag and, unless both writes
   fail (then the publication rule keeps the pre-fetch set), its key is no longer live. *)
Theorem missing_expires :
  forall (tag : key -> N) live cfg d now keys sigs fl ksk2 tombs2 t a,
    wfd tag d ->
    prefetch tag live cfg d now fl = Some (ksk2, tombs2) ->
    authenticate tag (trusted_keys ksk2) keys sigs = AuthFull ->
    let fm := fetched_map tag keys in
    lookup t ksk2 = Some a -> ta_st a = SMissing ->
    fm_has fm t a = false -> (now - ta_fs a > hold_rem)%Z ->
    (forall t' k, lookup t' fm = Some k -> is_rev k = true -> same_except_revoke (ta_key a) k = false) ->
    let r := autota tag live cfg d now (FResp keys sigs) fl in
    (forall s5, In (WState s5) (r_writes r) -> lookup t s5 = None) /\
    (f_twrite fl = false \/ f_swrite fl = false -> ~ In (ta_key a) (r_live r)).
Proof. exact missing_expires_lemma. Qed.
Print Assumptions missing_expires.

(* The real key tag.  keytag_of = dnssec.KeyTag over the decoded key, read in 192-octet chunks as the code does
   (head and fold written from keytag.go, the per-chunk octet-sum loop TRANSLATED from the function body,
   gen_keytag_octet_sum, chunk size from keyTagChunk; chunked_sum_spec: the chunked read is the RFC 4034 sum over
   the whole key; tied to the code by the CTag cases, Ed25519 and multi-chunk RSA-2048/4096 keys).  Setting the REVOKE bit moves the tag by 128 or by 129 (mod 2^16) — both occur (Example
   keytag_revoke_adds_128_or_129 on real keys) — so the anchor of a revoked DNSKEY cannot be found by a
   constant tag delta; the code uses unrevokedKeyTag (1f61a03), and every theorem above holds for an arbitrary
   tag function. *)
Theorem keytag_revoke_moves_tag_by_128_or_129 :
  forall flags proto alg material,
    flags < 65536 -> N.land flags 128 = 0 -> proto < 256 -> alg < 256 ->
    Forall (fun x => x < 256) material -> (length material <= 4092)%nat ->
    let t := keytag_of flags proto alg material in
    let t' := keytag_of (flags + 128) proto alg material in
    t' = (t + 128) mod 65536 \/ t' = (t + 129) mod 65536.
Proof. exact keytag_revoke_delta. Qed.
Print Assumptions keytag_revoke_moves_tag_by_128_or_129.

(* Translator tie (srcgen stage 3, third-party structs): the Go function sameKeyExceptRevoke, translated from the
   source over dns.DNSKEY records, IS the model's same_except_revoke on the abstraction (material, flags) of its
   arguments — for every injective numbering of (algorithm, protocol, public key) triples.  On non-nil arguments
   (item flag nonnil_pointers).  Editing the comparison in /repo changes Gen/C09.v and re-checks this. *)
Theorem sameKeyExceptRevoke_is_model :
  forall (enc : N * N * list N -> N), (forall a b, enc a = enc b -> a = b) ->
  forall c r, go_sameKeyExceptRevoke c r = same_except_revoke (abs_key enc c) (abs_key enc r).
Proof. exact gen_sameKeyExceptRevoke. Qed.
Print Assumptions sameKeyExceptRevoke_is_model.

(* ------------------------------------------------ wave 6: the consumers of the live trust set *)

(* What the trust set means to validation.  verify_root = Resolver.verifyRootKeys (is this root DNSKEY RRset
   authentic?), resolve_root = the CD=0 query for (., DNSKEY) through Resolver.Resolve / answer() / verifyDNSSEC;
   both are tied to the code by the CRootV cases (the driver calls verifyRootKeys and Resolve on the real Resolver
   after AutoTA runs and restarts).  A root DNSKEY RRset is accepted, or answered as authenticated data, only when it
   carries a VALID signature made with the key material of a key that is in the live trust set with flags exactly
   257 — for every key-tag function. *)
Theorem authenticated_only_by_live_anchor :
  forall (tag : key -> N) live keys sigs,
    keys <> [] ->
    verify_root tag live keys sigs = RVAccept \/ resolve_root tag live keys sigs = RSecure ->
    exists s k, In s sigs /\ In k live /\ s_ok s = true /\ k_mat k = s_mat s /\ tag k = s_tag s /\ k_flags k = 257.
Proof. exact authenticated_only_by_live_anchor_lemma. Qed.
Print Assumptions authenticated_only_by_live_anchor.

(* "... validation fails closed instead of trusting it": after a run that met an unreadable or corrupt revocation
   store / state file, or that accepted a NEW revocation while both writes failed, verifyRootKeys accepts no
   response whatsoever and the query is refused with "trust anchors unavailable" — whatever the response is and
   whoever signed it (in particular the key the stale disk still calls Valid). *)
Theorem fail_closed_validates_nothing :
  forall (tag : key -> N) live cfg d now fe fl,
    (f_tread fl <> TROk \/ f_sread fl = true) \/
    (f_twrite fl = true /\ f_swrite fl = true /\ r_revoked (autota tag live cfg d now fe fl) <> []) ->
    forall keys sigs,
      verify_root tag (r_live (autota tag live cfg d now fe fl)) keys sigs = RVUnavailable /\
      resolve_root tag (r_live (autota tag live cfg d now fe fl)) keys sigs = RUnavailable.
Proof. exact fail_closed_validates_nothing_lemma. Qed.
Print Assumptions fail_closed_validates_nothing.

(* ... and every other validating (CD=0) query — NXDOMAIN and NODATA answers through authority(), referrals through
   validateDelegation() — is refused at its hasTrustAnchors gate before anything the authority said is looked at
   (gate: Model.v; tied by the CGate cases: Resolver.Resolve against the scripted root under an empty trust set). *)
Theorem fail_closed_refuses_every_validating_query :
  forall (tag : key -> N) live cfg d now fe fl,
    (f_tread fl <> TROk \/ f_sread fl = true) \/
    (f_twrite fl = true /\ f_swrite fl = true /\ r_revoked (autota tag live cfg d now fe fl) <> []) ->
    gate (r_live (autota tag live cfg d now fe fl)) = Some RUnavailable /\
    has_trust_anchors (r_live (autota tag live cfg d now fe fl)) = false.
Proof. exact fail_closed_refuses_every_query_lemma. Qed.
Print Assumptions fail_closed_refuses_every_validating_query.

(* Translator tie: Resolver.hasTrustAnchors — the test behind all three gates and behind AutoTA's priorTrustValid —
   translated from the source (dns.RR as a sum type, the RWMutex calls as no-ops) IS the model's has_trust_anchors
   on the live set, however a record is read as a key.  Editing the function in /repo changes Gen/C09.v and
   re-checks this. *)
Theorem hasTrustAnchors_is_model :
  forall (abs : I_RR -> key) (r : T_Resolver),
    go_Resolver_hasTrustAnchors r = has_trust_anchors (map abs (T_Resolver_rootKeys r)).
Proof. exact gen_hasTrustAnchors. Qed.
Print Assumptions hasTrustAnchors_is_model.

(* "A key whose self-signed revocation was accepted is never published as a trust anchor again", seen from the
   validating query: premises as revocation_never_again; after EVERY later history of runs, crashes and restarts,
   a root DNSKEY RRset is accepted / answered as authenticated data only if some valid signature on it was made
   with a key OTHER than the revoked one.  The revoked key's signatures authenticate nothing, ever again. *)
Theorem revoked_key_never_validates_again :
  forall (tag : key -> N) (m : N) (s : sys) now fe fl,
    In m (r_revoked (run_of tag s now fe fl)) ->
    forall s1,
    ((s1 = step tag s (ERun now fe fl) /\ r_writes (run_of tag s now fe fl) <> []) \/
     (exists k cfg' tr sr, s1 = step tag s (ECrash now fe fl k cfg' tr sr) /\ firstn k (r_writes (run_of tag s now fe fl)) <> [])) ->
    forall h keys sigs, keys <> [] ->
      (verify_root tag (s_live (exec tag s1 h)) keys sigs = RVAccept \/
       resolve_root tag (s_live (exec tag s1 h)) keys sigs = RSecure) ->
      exists sg, In sg sigs /\ s_ok sg = true /\ s_mat sg <> m.
Proof. exact revoked_key_never_validates_again_lemma. Qed.
Print Assumptions revoked_key_never_validates_again.

(* ------------------------------------------------ wave 7: the persistence steps at file-system granularity *)

(* atomicGobWrite (ModelFs.v write_ops: CreateTemp, Encode, Sync, Close, Rename, SyncDir, with the close-and-remove
   error paths), for every content, every point of failure and every crash point n: the named file reads as the old
   or as the complete new content — new only when the call does not fail and the rename (the 5th operation) ran —
   and a completed call, successful or not, leaves no temp file behind. *)
Theorem atomic_write_old_or_new :
  forall (w : wfile) (fp : failpoint) (dir : fsdir) (n : nat),
    let dir' := fs_run dir (firstn n (write_ops w fp)) in
    ((fd_disk dir' = fd_disk dir /\ (fp = NoFail -> (n <= 4)%nat)) \/
     (fd_disk dir' = apply_write (fd_disk dir) w /\ fp = NoFail /\ (5 <= n)%nat)) /\
    fd_tmps (fs_run dir (write_ops w fp)) = fd_tmps dir.
Proof. exact atomic_write_full. Qed.
Print Assumptions atomic_write_old_or_new.

(* "crashes after any prefix of the persistence steps of a refresh": the process dies after the first n file-system
   operations of an AutoTA run (any n, any state, response, clock, read faults, and any point of failure of either
   write consistent with the run's write faults; junk = temp files already lying in the directory) and restarts with
   any configuration.  What the restart finds is EXACTLY the state the rename-prefix crash event of the model
   describes (ECrash k, k = the renames among those n operations): every theorem above that quantifies over
   histories with ECrash events covers a crash between any two file-system operations.  And a run that is not cut
   short ends on the disk its result names, with no temp file added. *)
Theorem crash_anywhere_is_crash_between_renames :
  forall (tag : key -> N) (s : sys) junk now fe fl fpt fps n cfg' tr sr,
    consistent fl fpt fps ->
    let ops := autota_ops tag (s_live s) (s_cfg s) (s_disk s) now fe fl fpt fps in
    fst (crash_at tag s junk now fe fl fpt fps n cfg' tr sr) =
      step tag s (ECrash now fe fl (length (renames (firstn n ops))) cfg' tr sr) /\
    (renames (firstn n ops) = [] ->
       fst (crash_at tag s junk now fe fl fpt fps n cfg' tr sr) = step tag s (ERestart cfg' tr sr)) /\
    fs_run (mk_fsdir (s_disk s) junk) ops = mk_fsdir (r_disk (run_of tag s now fe fl)) junk.
Proof. exact crash_anywhere_full. Qed.
Print Assumptions crash_anywhere_is_crash_between_renames.

(* "... never published as a trust anchor again — not after restarts, a crash at any point between the state-file
   writes ...": the run accepted the revocation of m and the process died after ANY number of its file-system
   operations, at least one rename among them; then no key of material m is live after the restart, nor after any
   later history of runs, crashes and restarts. *)
Theorem revocation_never_again_at_any_crash_point :
  forall (tag : key -> N) (m : N) (s : sys) junk now fe fl fpt fps n cfg' tr sr,
    consistent fl fpt fps ->
    In m (r_revoked (run_of tag s now fe fl)) ->
    renames (firstn n (autota_ops tag (s_live s) (s_cfg s) (s_disk s) now fe fl fpt fps)) <> [] ->
    forall h key, In key (s_live (exec tag (fst (crash_at tag s junk now fe fl fpt fps n cfg' tr sr)) h)) -> k_mat key <> m.
Proof. exact revocation_never_again_at_any_crash_point_lemma. Qed.
Print Assumptions revocation_never_again_at_any_crash_point.

(* ------------------------------------------------ wave 7: "stays trusted for 90 days", over histories *)

(* "a key that merely disappears stays trusted for 90 days and returns to valid if it reappears" — for every key-tag
   function and every history of refreshes, crashes after any prefix of the file replacements, and restarts.
   good s: the state file lists K (not REVOKE-flagged) as a Valid or Missing anchor under its tag, nothing on disk
   records K's material as revoked, the configuration does not list it with the REVOKE bit, and K is live.
   hist_ok: along the history, every refresh reads its two files, at least one of its two writes works, its
   response — whoever signed it, whatever else it lists, authenticated fully, by revoked keys only, or not at all,
   or no response — carries no REVOKE-flagged form of K's material, and whenever the state file has K as Missing
   and the response omits it the Missing stamp is at most 2160 h old; every restart reads its files and lists K in
   a configuration without a REVOKE-flagged form of it.  Then K is in the live trust set after EVERY event and is
   still recorded as a Valid / Missing anchor (good is an invariant).  The one-run rules say which of the two:
   missing_90d (back to Valid when it reappears), missing_expires (dropped after 2160 h of absence). *)
Theorem anchor_stays_trusted :
  forall (tag : key -> N) (K : key), is_rev K = false ->
  forall (h : list event) (s : sys), good tag K s -> hist_ok tag K s h -> good tag K (exec tag s h).
Proof. exact anchor_stays_trusted_lemma. Qed.
Print Assumptions anchor_stays_trusted.

(* ... and from the very first start on a fresh directory (no state file: the first refresh seeds its table from the
   live set).  K is a live KSK without the REVOKE bit, the only live KSK with its key tag, no live or configured KSK
   of its material carries the REVOKE bit, the tombstone file (if any) does not hold its material; the refresh reads
   its files, one of its writes works, its response (if any) carries no REVOKE-flagged form of K's material.  Then
   K is live after it, and if that refresh wrote the state file the state is `good` — from where
   anchor_stays_trusted carries on.  (Until a refresh writes the state file nothing further is claimed.) *)
Theorem first_refresh_anchors :
  forall (tag : key -> N) (K : key) (s : sys) now fe fl,
    fresh tag K (s_live s) (s_disk s) -> cfg_ok K (s_cfg s) ->
    f_sread fl = false -> f_tread fl = TROk -> (f_twrite fl = false \/ f_swrite fl = false) ->
    match fe with FErr => True | FResp keys sigs => no_revoked_form K keys end ->
    let s' := step tag s (ERun now fe fl) in
    In K (s_live s') /\
    ((exists s5, In (WState s5) (r_writes (run_of tag s now fe fl))) -> good tag K s').
Proof. exact first_refresh_anchors_lemma. Qed.
Print Assumptions first_refresh_anchors.

(* ------------------------------------------------ wave 9: translator ties over Go maps *)

(* WHICH anchors are trusted.  The loop of Resolver.AutoTA that builds the candidate trust set — authenticated against,
   published before the fetch, and (with the tombstone skip) the shape of finalRootKeys — TRANSLATED from the function
   body (srcgen loopfunc over map[uint16]*TrustAnchor as an association list, range in list order, dns.RR as a sum
   type): it hands back the table unchanged and, read through any abstraction of DNSKEY records, exactly the model's
   trusted_keys — the keys of the entries whose State is Valid or Missing, nothing else (not AddPend, not Revoked, not
   Removed).  In the list order of the association list; the model and the code use the result as a set. *)
Theorem candidate_loop_is_trusted_keys :
  forall (enc : N * N * list N -> N) (fs_of : Z -> Z) (ksk : list (N * T_TrustAnchor)),
    exists cand, go_Resolver_AutoTA_loop6_run ksk [] = (GoNext, (ksk, cand)) /\
                 map (abs_rr enc) cand = trusted_keys (abs_kmap enc fs_of ksk).
Proof. exact gen_candidate_is_trusted_keys. Qed.
Print Assumptions candidate_loop_is_trusted_keys.

(* The dual durable record: the loop that drops StateRevoked / StateRemoved markers from the anchor table (run only
   after writeTombstones succeeded), translated the same way.  On a table with unique tags (a Go map) whose States are
   among the six the code has, it leaves exactly the model's filter (negb is_marker) of the abstracted table (Model.v
   tail: ksk5) — every marker goes, nothing else does, in whatever order the map is walked (each step deletes at most
   the entry it visits). *)
Theorem marker_cleanup_loop_is_model :
  forall (enc : N * N * list N -> N) (fs_of : Z -> Z) (ksk : list (N * T_TrustAnchor)),
    NoDup (map fst ksk) -> Forall (fun p => state_in_range (snd p)) ksk ->
    exists ksk', go_Resolver_AutoTA_loop13_run ksk = (GoNext, ksk') /\
                 abs_kmap enc fs_of ksk' = filter (fun e => negb (is_marker (snd e))) (abs_kmap enc fs_of ksk).
Proof. exact gen_marker_cleanup_is_model. Qed.
Print Assumptions marker_cleanup_loop_is_model.
