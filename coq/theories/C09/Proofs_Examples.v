(* C09 — the hypotheses of the single-run theorems are satisfiable by non-trivial states. *)
From Sdns Require Import Common.Base Gen.C09 C09.Model C09.Proofs_Maps C09.Proofs_Rev C09.Proofs_Step C09.Proofs_Refute C09.Proofs_Prov C09.Proofs_Thm C09.Proofs_Hist C09.Proofs_Inv.
Open Scope N_scope.

Definition sA := s0 tag_inj.   (* A and B configured and Valid on disk *)

(* unauthenticated_changes_nothing: an injected key C signs itself; A and B did not sign *)
Example ex_unauthenticated :
  no_trusted_signature (candidate tag_inj (s_live sA) (s_cfg sA) (s_disk sA) 5%Z no_faults) [sg tag_inj kC] /\
  candidate tag_inj (s_live sA) (s_cfg sA) (s_disk sA) 5%Z no_faults <> [] /\
  r_out (autota tag_inj (s_live sA) (s_cfg sA) (s_disk sA) 5%Z (FResp [kA; kB; kC] [sg tag_inj kC]) no_faults) = OValidation.
Proof.
  split; [|split].
  - intros s k [<-|[]] _ Hk. vm_compute in Hk. destruct Hk as [<-|[<-|[]]]; vm_compute; discriminate.
  - vm_compute. discriminate.
  - vm_compute. reflexivity.
Qed.

(* revoked_only_completes_revocation: only A' signs; B does not co-sign *)
Example ex_revoked_only :
  exists ksk2 tombs2,
    prefetch tag_inj (s_live sA) (s_cfg sA) (s_disk sA) 5%Z no_faults = Some (ksk2, tombs2) /\
    authenticate tag_inj (trusted_keys ksk2) [kA'; kB; kC] [sg tag_inj kA'; sg tag_inj kC] = AuthRevOnly /\
    let r := autota tag_inj (s_live sA) (s_cfg sA) (s_disk sA) 5%Z (FResp [kA'; kB; kC] [sg tag_inj kA'; sg tag_inj kC]) no_faults in
    r_revoked r = [1] /\ r_live r = [kB].
Proof. eexists. eexists. split; [vm_compute; reflexivity|]. vm_compute. auto. Qed.

(* dual_write_failure_fails_closed *)
Example ex_dual_write_failure :
  let r := autota tag_inj (s_live sA) (s_cfg sA) (s_disk sA) 5%Z (rev_fetch tag_inj) (mk_faults false TROk true true) in
  r_revoked r = [1] /\ r_live r = [] /\ r_out r = OPersistence.
Proof. vm_compute. auto. Qed.

(* missing_90d: B disappears from a response A signs; 89 days later it is still trusted, then it returns *)
Example ex_missing :
  let h := [ ERun (1 * day) (FResp [kA] [sg tag_inj kA]) no_faults;
             ERun (90 * day) (FResp [kA] [sg tag_inj kA]) no_faults ] in
  let s1 := exec tag_inj sA h in
  In kB (s_live s1) /\
  In kB (s_live (step tag_inj s1 (ERun (91 * day) (FResp [kA; kB] [sg tag_inj kA]) no_faults))) /\
  ~ In kB (s_live (step tag_inj s1 (ERun (92 * day) (FResp [kA] [sg tag_inj kA]) no_faults))).
Proof. vm_compute. repeat split; auto. intros [H|[]]; discriminate. Qed.

(* unreadable_store_fails_closed *)
Example ex_corrupt :
  r_live (autota tag_inj (s_live sA) (s_cfg sA) (s_disk sA) 5%Z (rev_fetch tag_inj) (mk_faults false TRCorrupt false false)) = [] /\
  r_live (autota tag_inj (s_live sA) (s_cfg sA) (s_disk sA) 5%Z (rev_fetch tag_inj) (mk_faults true TROk false false)) = [].
Proof. split; reflexivity. Qed.

(* new_key_needs_30d: the hypotheses are satisfiable by a non-trivial history and the monitor's verdict
   is not vacuous: B is published next to A for 31 days (one refresh unrecorded, one cut by a crash),
   becomes trusted, and the monitor says "promoted"; under the colliding tag function B, seen once,
   is neither trusted nor promoted *)
Definition good_history : list event :=
  [ ERun 0 (FResp [kA] [sg tag_inj kA]) no_faults;
    ERun 0 (fetch_with tag_inj kB) no_faults;
    ERun (10 * day) (fetch_with tag_inj kB) (mk_faults false TROk false true);
    ECrash (20 * day) (fetch_with tag_inj kB) no_faults 1 [kA] TROk false;
    ERun (31 * day) (fetch_with tag_inj kB) no_faults ].
Example new_key_30d_example :
  mono 0 good_history /\
  let s0 := mk_sys [kA] [kA] empty_disk in
  In kB (s_live (exec tag_inj s0 good_history)) /\
  snd (monitor tag_inj kB s0 good_history (mk_mon None false false)) = mk_mon (Some 0%Z) true false.
Proof.
  split; [|split].
  - vm_compute. repeat split; discriminate.
  - vm_compute. auto.
  - vm_compute. reflexivity.
Qed.
Example new_key_30d_collision_example :
  let s0 := mk_sys [kA] [kA] empty_disk in
  ~ In kB (s_live (exec tag_coll s0 coll_history)) /\
  snd (monitor tag_coll kB s0 coll_history (mk_mon None false false)) = mk_mon None false false.
Proof. vm_compute. split; [intros [H|[]]; discriminate|reflexivity]. Qed.

(* live_never_recorded_revoked / revocation_never_again: the premises are satisfiable — the run that
   accepts A's revocation leaves a tombstone (or, with a failing tombstone write, a marker) and B live *)
Example ex_recorded_revoked :
  let s1 := step tag_inj sA (ERun 10%Z (rev_fetch tag_inj) no_faults) in
  let s2 := step tag_inj sA (ERun 10%Z (rev_fetch tag_inj) (mk_faults false TROk true false)) in
  durable 1 (s_disk s1) /\ s_live s1 = [kB] /\ durable 1 (s_disk s2) /\ s_live s2 = [kB].
Proof.
  split; [|split; [vm_compute; reflexivity|split; [|vm_compute; reflexivity]]].
  - left. eexists. split; [vm_compute; reflexivity|]. vm_compute. reflexivity.
  - right. eexists. split; [vm_compute; reflexivity|]. exists (tag_inj kA), (mk_ta kA SRevoked 10%Z). vm_compute. auto.
Qed.

(* revoked_only_keeps_other_anchors: {A+REVOKE self-signed, B+REVOKE unsigned}, nobody else signs — accepted in
   revocation-only mode, A is revoked, B stays a Valid, live anchor *)
Definition kB' := mk_key 2 385.
Example ex_revoked_only_per_key :
  let fe := FResp [kA'; kB'] [sg tag_inj kA'] in
  let r := run_of tag_inj sA 5%Z fe no_faults in
  (exists ksk2 tombs2, prefetch tag_inj (s_live sA) (s_cfg sA) (s_disk sA) 5%Z no_faults = Some (ksk2, tombs2) /\
     authenticate tag_inj (trusted_keys ksk2) [kA'; kB'] [sg tag_inj kA'] = AuthRevOnly) /\
  verify_with tag_inj [kB'] [sg tag_inj kA'] = false /\
  r_revoked r = [1] /\ r_live r = [kB].
Proof. split; [eexists; eexists; split; vm_compute; reflexivity|]. vm_compute. auto. Qed.
