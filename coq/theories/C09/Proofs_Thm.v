(* C09 — theorems derived from the provenance lemmas: revoked-only responses,
   missing / reappearing keys, the add hold-down rule for one run. *)
From Sdns Require Import Common.Base Gen.C09 C09.Model C09.Proofs_Maps C09.Proofs_Rev C09.Proofs_Step C09.Proofs_Prov.
Open Scope N_scope.

Section Thm.
Variable tag : key -> N.

Lemma auth_revonly_spec cand keys sigs :
  authenticate tag cand keys sigs = AuthRevOnly ->
  verify_with tag (filter is_ksk cand) sigs = false /\
  verify_with tag (bootstrap tag (filter is_ksk cand) keys) sigs = true.
Proof.
  unfold authenticate. destruct keys as [|k0 keys]; [discriminate|].
  destruct (filter is_ksk cand) as [|c0 cur]; [discriminate|].
  destruct (verify_with tag (c0 :: cur) sigs); [discriminate|].
  destruct (bootstrap tag (c0 :: cur) (k0 :: keys)) as [|b0 rb]; [discriminate|].
  destruct (verify_with tag (b0 :: rb) sigs); [auto|discriminate].
Qed.

Lemma trusted_keys_intro ksk t a : In (t, a) ksk -> is_trusted_st a = true -> In (ta_key a) (trusted_keys ksk).
Proof.
  intros Hin Ht. unfold trusted_keys. apply in_map_iff. exists (t, a). split; [reflexivity|].
  apply filter_In. split; assumption.
Qed.

Lemma tail_writes_state live1 d fl s s5 :
  In (WState s5) (r_writes (tail live1 d fl s)) -> forall e, In e s5 -> In e (p_ksk s).
Proof.
  unfold tail. cbn [r_writes]. intros H e He.
  apply in_app_or in H. destruct H as [H|H].
  - destruct (negb (f_twrite fl)); [destruct H as [H|[]]; discriminate|destruct H].
  - destruct (negb (f_swrite fl)); [|destruct H]. destruct H as [H|[]]. inversion H; subst s5.
    destruct (negb (f_twrite fl)); [apply filter_In in He; apply He|exact He].
Qed.

Lemma tail_writes_tomb live1 d fl s tb : In (WTomb tb) (r_writes (tail live1 d fl s)) -> tb = p_tombs s.
Proof.
  unfold tail. cbn [r_writes]. intros H. apply in_app_or in H. destruct H as [H|H].
  - destruct (negb (f_twrite fl)); [destruct H as [H|[]]; inversion H; reflexivity|destruct H].
  - destruct (negb (f_swrite fl)); [destruct H as [H|[]]; discriminate|destruct H].
Qed.

Lemma tail_live_cases live1 d fl s k :
  In k (r_live (tail live1 d fl s)) -> In k live1 \/ exists t a, In (t, a) (p_ksk s) /\ is_trusted_st a = true /\ ta_key a = k.
Proof.
  unfold tail. cbn [r_live].
  destruct (negb (negb (f_twrite fl)) && negb (negb (f_swrite fl))).
  - destruct (p_newrev s); [intros []|auto].
  - intros H. right. apply published_sub in H. apply trusted_keys_in in H. destruct H as (t & a & Hin & Ht & Hk).
    exists t, a. split; [|auto]. destruct (negb (f_twrite fl)); [apply filter_In in Hin; apply Hin|exact Hin].
Qed.

(* A response authenticated only by revoked keys can do nothing but complete those
   revocations: no key enters the live set, every entry of the state map that is
   written is either an entry of the pre-fetch map or the Revoked form (stamped now)
   of a trusted entry whose REVOKE-flagged, self-signed form is in the response, and
   every tombstone written is an old one or the tombstone of such a key. *)
Lemma revoked_only_completes_revocation_lemma live cfg d now keys sigs fl ksk2 tombs2 :
  prefetch tag live cfg d now fl = Some (ksk2, tombs2) ->
  authenticate tag (trusted_keys ksk2) keys sigs = AuthRevOnly ->
  let r := autota tag live cfg d now (FResp keys sigs) fl in
  (forall k, In k (r_live r) -> In k (trusted_keys ksk2)) /\
  (forall s5 t a', In (WState s5) (r_writes r) -> In (t, a') s5 ->
     In (t, a') ksk2 \/
     exists a k', In (t, a) ksk2 /\ is_trusted_st a = true /\ revokes tag keys sigs a k' /\ a' = mk_ta (ta_key a) SRevoked now) /\
  (forall tb x e, In (WTomb tb) (r_writes r) -> In (x, e) tb -> tomb_origin tag now keys sigs ksk2 tombs2 x e).
Proof.
  intros Hp Ha. unfold autota. rewrite Hp, Ha.
  pose proof (process_PV tag now true keys sigs ksk2 tombs2) as (Hk & Ht & _).
  set (s3 := process tag now true (fetched_map tag keys) _ _ _) in *.
  assert (Horig : forall t a', In (t, a') (p_ksk s3) ->
            In (t, a') ksk2 \/ exists a k', In (t, a) ksk2 /\ is_trusted_st a = true /\ revokes tag keys sigs a k' /\ a' = mk_ta (ta_key a) SRevoked now).
  { intros t a' Hin. destruct (Hk t a' Hin) as [H|a k' H1 H2 H3 H4|k H]; [left; exact H|right; exists a, k'; auto|discriminate]. }
  split; [|split].
  - intros k Hin. apply tail_live_cases in Hin. destruct Hin as [Hin|(t & a & Hin & Htr & <-)].
    + destruct live; [destruct Hin|exact Hin].
    + destruct (Horig t a Hin) as [H|(a0 & k' & _ & _ & _ & ->)]; [eapply trusted_keys_intro; eassumption|discriminate].
  - intros s5 t a' Hw Hin. apply Horig. eapply tail_writes_state; eassumption.
  - intros tb x e Hw Hin. apply tail_writes_tomb in Hw. subst tb. apply Ht. exact Hin.
Qed.

(* ---- one fully authenticated run: where trusted keys and pending entries come from *)
Lemma full_run_origin live cfg d now keys sigs fl ksk2 tombs2 :
  prefetch tag live cfg d now fl = Some (ksk2, tombs2) ->
  authenticate tag (trusted_keys ksk2) keys sigs = AuthFull ->
  let r := autota tag live cfg d now (FResp keys sigs) fl in
  let fm := fetched_map tag keys in
  (* every key in the live set was trusted before the fetch, or completed the add hold-down in this run *)
  (forall k, In k (r_live r) ->
     In k (trusted_keys ksk2) \/
     exists t a, In (t, a) ksk2 /\ ta_st a = SAddPend /\ ta_key a = k /\ fm_has fm t a = true /\ (now - ta_fs a > hold_add)%Z) /\
  (* every entry written to the state file *)
  (forall s5 t a', In (WState s5) (r_writes r) -> In (t, a') s5 ->
     (* trusted: as above *)
     (is_trusted_st a' = true ->
        (exists a, In (t, a) ksk2 /\ is_trusted_st a = true /\ ta_key a = ta_key a') \/
        exists a, In (t, a) ksk2 /\ ta_st a = SAddPend /\ ta_key a = ta_key a' /\ fm_has fm t a = true /\ (now - ta_fs a > hold_add)%Z) /\
     (* pending: an old pending entry whose TAG is in the response, or a key of the response first seen now *)
     (ta_st a' = SAddPend ->
        (In (t, a') ksk2 /\ fm_has fm t a' = true) \/
        (lookup t fm = Some (ta_key a') /\ ta_fs a' = now))).
Proof.
  intros Hp Ha. unfold autota. rewrite Hp, Ha.
  pose proof (process_PV tag now false keys sigs ksk2 tombs2) as (Hk & _ & _).
  set (fm := fetched_map tag keys) in *.
  set (s3 := process tag now false fm _ _ _) in *.
  set (s4 := mk_pst (keyrem now fm (p_ksk s3)) (p_tombs s3) (p_newrev s3) (p_revs s3)).
  assert (Hent : forall t b, In (t, b) (p_ksk s4) ->
     (is_trusted_st b = true ->
        (exists a, In (t, a) ksk2 /\ is_trusted_st a = true /\ ta_key a = ta_key b) \/
        exists a, In (t, a) ksk2 /\ ta_st a = SAddPend /\ ta_key a = ta_key b /\ fm_has fm t a = true /\ (now - ta_fs a > hold_add)%Z) /\
     (ta_st b = SAddPend -> (In (t, b) ksk2 /\ fm_has fm t b = true) \/ (lookup t fm = Some (ta_key b) /\ ta_fs b = now))).
  { intros t b Hin. cbn in Hin. apply (keyrem_in tag) in Hin. destruct Hin as (a & Hin & Hc).
    pose proof hold_add_pos as Hpos.
    destruct (Hk t a Hin) as [Ho|a0 k' Ho Htr Hrv ->|k _ Hf Hr Hm ->].
    - (* entry of the pre-fetch map *)
      destruct Hc as [-> H1 H2 H3|Hv Hf ->|Hpd Hf Hage ->|Hms Hf ->]; split; cbn.
      + intros Htr. left. exists a. auto.
      + intros Hst. left. split; [exact Ho|apply H1; exact Hst].
      + intros _. left. exists a. split; [exact Ho|]. split; [unfold is_trusted_st; rewrite Hv; reflexivity|reflexivity].
      + discriminate.
      + intros _. right. exists a. repeat split; assumption.
      + discriminate.
      + intros _. left. exists a. split; [exact Ho|]. split; [unfold is_trusted_st; rewrite Hms; reflexivity|reflexivity].
      + discriminate.
    - (* revoked in this run: neither trusted nor pending afterwards *)
      destruct Hc as [-> _ _ _|Hv _ _|Hpd _ _ _|Hms _ _]; cbn in *; try discriminate. split; discriminate.
    - (* first seen now *)
      destruct Hc as [-> H1 _ _|Hv _ _|Hpd _ Hage _|Hms _ _]; cbn in *; try discriminate.
      + split; [discriminate|]. intros _. right. split; [exact Hf|reflexivity].
      + exfalso. lia. }
  split.
  - intros k Hin. apply tail_live_cases in Hin. destruct Hin as [Hin|(t & a & Hin & Htr & <-)].
    + left. destruct live; [destruct Hin|exact Hin].
    + destruct (proj1 (Hent t a Hin) Htr) as [(a0 & H1 & H2 & H3)|(a0 & H)].
      * left. rewrite <- H3. eapply trusted_keys_intro; eassumption.
      * right. exists t, a0. exact H.
  - intros s5 t a' Hw Hin. apply Hent. eapply tail_writes_state; eassumption.
Qed.

(* ---- a trusted key that is still published, or merely disappears *)
Lemma keyrem_lookup now fm ksk t a a' :
  lookup t ksk = Some a -> keyrem_one now fm (t, a) = [(t, a')] -> lookup t (keyrem now fm ksk) = Some a'.
Proof.
  intros Hl Hone. unfold keyrem. eapply lookup_flat_map_keep; [|exact Hl|exact Hone].
  intros [t0 a0] x b Hin. apply keyrem_one_spec in Hin. destruct Hin as [-> _]. reflexivity.
Qed.

Definition after_refresh (now : Z) (fm : list (N * key)) (t : N) (a : ta) : ta :=
  if fm_has fm t a
  then mk_ta (ta_key a) SValid (ta_fs a)     (* published (this tag, this material): Valid — back to Valid if it was Missing *)
  else match ta_st a with
       | SValid => mk_ta (ta_key a) SMissing now   (* disappeared: Missing, remove hold-down starts now *)
       | _ => a
       end.

(* ---- after prefetch no non-marker entry is of tombstoned material (tombstone precedence; the
   configured REVOKE-flagged keys were all tombstoned before it, so the merge adds no tombstone) *)
Definition clean (ksk : kmap) (tombs : tmap) : Prop :=
  forall t a, In (t, a) ksk -> is_marker a = false -> mem (ta_mat a) tombs = false.

Lemma cfgrev_all now cfg tombs k :
  In k cfg -> is_ksk k = true -> is_rev k = true -> mem (k_mat k) (cfgrev now cfg tombs) = true.
Proof.
  revert tombs. induction cfg as [|x cfg IH]; intros tombs Hin Hk Hr; [destruct Hin|].
  destruct Hin as [->|Hin].
  - change (mem (k_mat k) (cfgrev now cfg (cfgrev_step now tombs k)) = true). apply cfgrev_mono.
    unfold cfgrev_step. rewrite Hk, Hr. cbn. destruct (mem (k_mat k) tombs) eqn:E; cbn; [exact E|].
    rewrite mem_set, N.eqb_refl. reflexivity.
  - change (mem (k_mat k) (cfgrev now cfg (cfgrev_step now tombs x)) = true). apply IH; assumption.
Qed.

Lemma merge_step_clean now ksk tombs x :
  (is_ksk x = true -> is_rev x = true -> mem (k_mat x) tombs = true) -> clean ksk tombs ->
  snd (merge_step tag now (ksk, tombs) x) = tombs /\ clean (fst (merge_step tag now (ksk, tombs) x)) tombs.
Proof.
  intros HR HC. unfold merge_step.
  destruct (is_ksk x) eqn:Ek; cbn [negb]; [|split; [reflexivity|exact HC]].
  destruct (lookup (tag x) ksk); [split; [reflexivity|exact HC]|].
  destruct (mem (k_mat x) tombs) eqn:Em; [split; [reflexivity|exact HC]|].
  destruct (is_rev x) eqn:Er.
  - pose proof (HR eq_refl eq_refl) as Hx. discriminate.
  - cbn. split; [reflexivity|]. intros t a Hin Hm. apply in_set in Hin. destruct Hin as [[_ ->]|[Hin _]].
    + exact Em.
    + eapply HC; eassumption.
Qed.

Lemma merge_clean now cfg : forall ksk tombs,
  (forall k, In k cfg -> is_ksk k = true -> is_rev k = true -> mem (k_mat k) tombs = true) -> clean ksk tombs ->
  snd (merge tag now cfg ksk tombs) = tombs /\ clean (fst (merge tag now cfg ksk tombs)) tombs.
Proof.
  induction cfg as [|x cfg IH]; intros ksk tombs HR HC; [split; [reflexivity|exact HC]|].
  destruct (merge_step_clean now ksk tombs x) as [E1 C1]; [intros; apply HR; [left; reflexivity|assumption..]|exact HC|].
  change (merge tag now (x :: cfg) ksk tombs) with (fold_left (merge_step tag now) cfg (merge_step tag now (ksk, tombs) x)).
  destruct (merge_step tag now (ksk, tombs) x) as [ksk' tombs'] eqn:E. cbn [fst snd] in E1, C1. subst tombs'.
  apply IH; [intros k Hin; apply HR; right; exact Hin|exact C1].
Qed.

Lemma prefetch_clean live cfg d now fl ksk2 tombs2 :
  prefetch tag live cfg d now fl = Some (ksk2, tombs2) -> clean ksk2 tombs2.
Proof.
  unfold prefetch. intros Hp. destruct (f_sread fl); [discriminate|]. destruct (f_tread fl); [|discriminate|discriminate].
  set (ksk0 := match d_state d with Some s => s | None => seed_from_live tag now live end) in *.
  set (tombs1 := cfgrev now cfg (migrate ksk0 _)) in *.
  inversion Hp as [Hp']. clear Hp.
  destruct (merge_clean now cfg (precedence ksk0 tombs1) tombs1) as [E C].
  - intros k Hin Hk Hr. apply cfgrev_all; assumption.
  - intros t a Hin Hm. unfold precedence in Hin. apply filter_In in Hin. destruct Hin as [_ Hf].
    cbn in Hf. rewrite Hm in Hf. cbn in Hf. destruct (mem (ta_mat a) tombs1); [discriminate|reflexivity].
  - rewrite Hp' in E, C. cbn [fst snd] in E, C. subst tombs2. exact C.
Qed.

(* ---- the per-tag loop tombstones only materials whose REVOKE-flagged form is in the response *)
Lemma process_one_tomb_new now ro fm staged s t x :
  mem x (p_tombs (process_one tag now ro fm staged s t)) = true ->
  mem x (p_tombs s) = true \/ exists t' k, lookup t' fm = Some k /\ is_rev k = true /\ k_mat k = x.
Proof.
  unfold process_one.
  destruct (lookup t fm) as [k|] eqn:Ef; [|auto].
  destruct (mem (k_mat k) (p_tombs s)); [auto|].
  destruct (ident_existing (p_ksk s) t k); [auto|].
  destruct (is_rev k) eqn:Er.
  - destruct (lookup (tag (unrev k)) (p_ksk s)) as [old|]; [|auto].
    destruct (is_trusted_st old && same_except_revoke (ta_key old) k && staged_ok staged t); [|auto].
    cbn. rewrite mem_set. destruct (k_mat k =? x) eqn:E; [|cbn; auto].
    intros _. right. exists t, k. apply N.eqb_eq in E. auto.
  - destruct ro; [auto|]. destruct (lookup t (p_ksk s)); auto.
Qed.

Lemma process_tomb_new now ro fm staged tags s x :
  mem x (p_tombs (process tag now ro fm staged tags s)) = true ->
  mem x (p_tombs s) = true \/ exists t' k, lookup t' fm = Some k /\ is_rev k = true /\ k_mat k = x.
Proof.
  unfold process.
  apply (fold_left_inv (fun s' => mem x (p_tombs s') = true ->
           mem x (p_tombs s) = true \/ exists t' k, lookup t' fm = Some k /\ is_rev k = true /\ k_mat k = x)); [auto|].
  intros s' t' IH H. apply process_one_tomb_new in H. destruct H as [H|H]; [apply IH; exact H|right; exact H].
Qed.

Lemma missing_90d_lemma live cfg d now keys sigs fl ksk2 tombs2 t a :
  prefetch tag live cfg d now fl = Some (ksk2, tombs2) ->
  authenticate tag (trusted_keys ksk2) keys sigs = AuthFull ->
  let fm := fetched_map tag keys in
  lookup t ksk2 = Some a -> is_trusted_st a = true ->
  (* no REVOKE-flagged form of its key material is in the response *)
  (forall t' k, lookup t' fm = Some k -> is_rev k = true -> k_mat k <> ta_mat a) ->
  (* at least one of the two writes works *)
  (f_twrite fl = false \/ f_swrite fl = false) ->
  (* if it is missing, then for at most 90 days *)
  (fm_has fm t a = false -> ta_st a = SMissing -> (now - ta_fs a <= hold_rem)%Z) ->
  let r := autota tag live cfg d now (FResp keys sigs) fl in
  In (ta_key a) (r_live r) /\
  forall s5, In (WState s5) (r_writes r) -> lookup t s5 = Some (after_refresh now fm t a).
Proof.
  intros Hp Ha fm Hl Htr Hno' Hw Hage. unfold autota. rewrite Hp, Ha. fold fm.
  assert (Hno : forall t' k, lookup t' fm = Some k -> is_rev k = true -> same_except_revoke (ta_key a) k = false).
  { intros t' k Hf Hr. destruct (same_except_revoke (ta_key a) k) eqn:E; [|reflexivity].
    apply same_except_revoke_mat in E. exfalso. apply (Hno' t' k Hf Hr). unfold ta_mat. congruence. }
  set (staged := stage tag ksk2 tombs2 sigs fm (sort_tags (map fst fm))).
  set (s3 := process tag now false fm staged (sort_tags (map fst fm)) (mk_pst ksk2 tombs2 false [])).
  assert (H3 : lookup t (p_ksk s3) = Some a).
  { unfold s3, staged, fm. apply process_untouched; [exact Hl|exact Hno]. }
  assert (Hnt : mem (ta_mat a) (p_tombs s3) = false).
  { destruct (mem (ta_mat a) (p_tombs s3)) eqn:E; [|reflexivity]. exfalso.
    apply process_tomb_new in E. destruct E as [E|(t' & k & Hf & Hr & Hk)]; [|exact (Hno' t' k Hf Hr Hk)].
    cbn in E. rewrite (prefetch_clean _ _ _ _ _ _ _ Hp t a (lookup_in _ _ _ Hl)) in E; [discriminate|].
    destruct (is_marker a) eqn:Em; [|reflexivity]. rewrite (marker_not_trusted _ Em) in Htr. discriminate. }
  assert (Hone : keyrem_one now fm (t, a) = [(t, after_refresh now fm t a)]).
  { unfold keyrem_one, after_refresh. cbn [fst snd]. destruct a as [k st0 fs]. cbn [ta_st ta_key ta_fs] in *.
    destruct (fm_has fm t _) eqn:Ef; destruct st0; cbn in Htr; try discriminate; cbn [ta_st ta_key ta_fs].
    - reflexivity.
    - reflexivity.
    - rewrite Z.sub_diag. reflexivity.
    - specialize (Hage eq_refl eq_refl). destruct (Z.gtb_spec (now - fs) hold_rem); [lia|reflexivity]. }
  assert (H4 : lookup t (keyrem now fm (p_ksk s3)) = Some (after_refresh now fm t a)) by (eapply keyrem_lookup; eassumption).
  assert (Htr' : is_trusted_st (after_refresh now fm t a) = true).
  { unfold after_refresh. destruct (fm_has fm t a); [reflexivity|]. destruct a as [k st0 fs]; cbn in *. destruct st0; try discriminate; reflexivity. }
  assert (Hkey : ta_key (after_refresh now fm t a) = ta_key a).
  { unfold after_refresh. destruct (fm_has fm t a); [reflexivity|]. destruct (ta_st a); reflexivity. }
  assert (Hnm : is_marker (after_refresh now fm t a) = false).
  { destruct (is_marker (after_refresh now fm t a)) eqn:E; [|reflexivity]. rewrite (marker_not_trusted _ E) in Htr'. discriminate. }
  unfold tail. cbn [r_live r_writes p_ksk p_tombs].
  assert (H5 : lookup t (if negb (f_twrite fl) then filter (fun e => negb (is_marker (snd e))) (keyrem now fm (p_ksk s3)) else keyrem now fm (p_ksk s3))
               = Some (after_refresh now fm t a)).
  { destruct (negb (f_twrite fl)); [|exact H4]. apply lookup_filter_keep; [exact H4|]. cbn. rewrite Hnm. reflexivity. }
  split.
  - assert (Hb : negb (negb (f_twrite fl)) && negb (negb (f_swrite fl)) = false) by (destruct Hw as [-> | ->]; cbn; [reflexivity|apply andb_false_r]).
    rewrite Hb. rewrite <- Hkey. unfold published. eapply trusted_keys_intro; [apply lookup_in; apply lookup_filter_keep; [exact H5|]|exact Htr'].
    cbn. unfold ta_mat in *. rewrite Hkey, Hnt. reflexivity.
  - intros s5 Hin. apply in_app_or in Hin. destruct Hin as [Hin|Hin].
    + destruct (negb (f_twrite fl)); [destruct Hin as [Hin|[]]; discriminate|destruct Hin].
    + destruct (negb (f_swrite fl)); [|destruct Hin]. destruct Hin as [Hin|[]]. inversion Hin. exact H5.
Qed.

End Thm.
