(* C09 — translator tie for sameKeyExceptRevoke (srcgen stage 3: third-party structs as Records).

   The model's [same_except_revoke] works on abstract keys (material, flags) where "material" stands for
   the triple (algorithm, protocol, public key).  For EVERY injective numbering [enc] of such triples the
   function translated from the Go source, applied to two DNSKEY records, is the model's function applied
   to their abstractions.  (The translation reads the two `== nil` tests as false — item flag
   nonnil_pointers: it describes the function on non-nil arguments; AutoTA, stageRevocationSelfSignatures
   and verifyFetchedKeysWithWork only pass records taken out of the anchor table / the fetched RRset.) *)
From Sdns Require Import Common.Base Common.GoList Gen.C09 C09.Model.
Open Scope N_scope.

Section Gen.
Variable enc : N * N * list N -> N.
Hypothesis enc_inj : forall a b, enc a = enc b -> a = b.

Definition dnskey_mat (k : T_DNSKEY) : N * N * list N := (T_DNSKEY_Algorithm k, T_DNSKEY_Protocol k, T_DNSKEY_PublicKey k).
Definition abs_key (k : T_DNSKEY) : key := mk_key (enc (dnskey_mat k)) (T_DNSKEY_Flags k).

Lemma gen_sameKeyExceptRevoke c r :
  go_sameKeyExceptRevoke c r = same_except_revoke (abs_key c) (abs_key r).
Proof.
  unfold go_sameKeyExceptRevoke, same_except_revoke, abs_key, dnskey_mat. cbn [k_mat k_flags orb].
  assert (Hf : go_flag_revoke = 128) by reflexivity. rewrite Hf.
  destruct (N.eqb_spec (T_DNSKEY_Algorithm c) (T_DNSKEY_Algorithm r)) as [Ea|Ea]; cbn [negb].
  2:{ symmetry. apply andb_false_iff. left. apply N.eqb_neq. intros E. apply enc_inj in E. congruence. }
  destruct (N.eqb_spec (T_DNSKEY_Protocol c) (T_DNSKEY_Protocol r)) as [Ep|Ep]; cbn [negb].
  2:{ symmetry. apply andb_false_iff. left. apply N.eqb_neq. intros E. apply enc_inj in E. congruence. }
  destruct (go_list_eqb N.eqb (T_DNSKEY_PublicKey c) (T_DNSKEY_PublicKey r)) eqn:Ek; cbn [negb].
  2:{ symmetry. apply andb_false_iff. left. apply N.eqb_neq. intros E. apply enc_inj in E.
      assert (Hk : T_DNSKEY_PublicKey c = T_DNSKEY_PublicKey r) by congruence.
      apply go_bytes_eqb_eq in Hk. congruence. }
  apply go_bytes_eqb_eq in Ek. rewrite Ea, Ep, Ek, N.eqb_refl. cbn [andb].
  destruct (N.eqb (T_DNSKEY_Flags c) (N.lxor (T_DNSKEY_Flags r) 128)); reflexivity.
Qed.

End Gen.

(* the numbering exists: e.g. Cantor-style pairing is not needed — any injective map will do; the driver's
   is "index of the public key in its pool" with algorithm 15 and protocol 3 fixed *)
