(* C09 — the real key tag (dnssec.KeyTag, RFC 4034 Appendix B): the octet-sum loop translated from the
   function body computes the RFC's sum, and setting the REVOKE bit moves the tag by 128 or by 129 (the
   checksum folds its carry) — which is why the anchor of a revoked DNSKEY has to be found through
   unrevokedKeyTag and not by subtracting 0x80 (finding revoked-form-tag-carry-revocation-ignored,
   repaired by 1f61a03).  None of the property theorems depends on this file: there the tag is an
   arbitrary function. *)
From Sdns Require Import Common.Base Common.GoList Gen.C09 C09.Model.
Open Scope N_scope.

(* the RFC's running sum from octet i on: even offsets are the high octet of a 16-bit word *)
Fixpoint ksum_from (out : list N) (i cnt : nat) (acc : N) : N :=
  match cnt with
  | O => acc
  | S c => ksum_from out (S i) c
             (wrap32 (acc + (if Nat.even i then wrap32 (N.shiftl (nth i out 0) 8) else nth i out 0)))
  end.

Lemma land1_even (i : nat) : (Z.land (Z.of_nat i) 1 =? 0)%Z = Nat.even i.
Proof.
  change 1%Z with (Z.ones 1). rewrite Z.land_ones by lia. change (2 ^ 1)%Z with 2%Z.
  destruct (Nat.even i) eqn:E.
  - apply Nat.even_spec in E. destruct E as [k ->]. apply Z.eqb_eq. rewrite Nat2Z.inj_mul. change (Z.of_nat 2) with 2%Z.
    rewrite Z.mul_comm. apply Z_mod_mult.
  - assert (O : Nat.odd i = true) by (rewrite <- Nat.negb_even, E; reflexivity).
    apply Nat.odd_spec in O. destruct O as [k ->]. apply Z.eqb_neq.
    rewrite Nat2Z.inj_add, Nat2Z.inj_mul. change (Z.of_nat 2) with 2%Z. change (Z.of_nat 1) with 1%Z.
    rewrite Z.add_comm, Z.mul_comm, Z_mod_plus_full. discriminate.
Qed.

Lemma keytag_loop_spec out dec : forall cnt i fuel sum,
  (cnt < fuel)%nat ->
  go_KeyTag_loop2 (Z.of_nat (i + cnt)) fuel (Z.of_nat i) sum out dec = (GoNext, (ksum_from out i cnt sum, out, dec)).
Proof.
  induction cnt as [|c IH]; intros i fuel sum Hf; (destruct fuel as [|f]; [lia|]); cbn [go_KeyTag_loop2 ksum_from].
  - rewrite Nat.add_0_r, Z.ltb_irrefl. reflexivity.
  - assert (Hlt : (Z.of_nat i <? Z.of_nat (i + S c))%Z = true) by (apply Z.ltb_lt; lia). rewrite Hlt.
    rewrite land1_even, go_idx_nth by lia. rewrite Nat2Z.id.
    replace (Z.of_nat i + 1)%Z with (Z.of_nat (S i)) by lia.
    replace (i + S c)%nat with (S i + c)%nat by lia.
    destruct (Nat.even i); apply IH; lia.
Qed.

(* gen lemma: the translated loop, run over n octets, is the RFC sum *)
Lemma gen_keytag_octet_sum sum out n :
  go_KeyTag_loop2_run sum out (Z.of_nat n) = (GoNext, (ksum_from out 0 n sum, out, Z.of_nat n)).
Proof. unfold go_KeyTag_loop2_run. rewrite Nat2Z.id. apply (keytag_loop_spec out (Z.of_nat n) n 0%nat). lia. Qed.

(* ---- the chunked read: summing 192-octet chunks one after the other is the RFC sum over the whole key *)
Lemma chunk_sum_spec sum c : chunk_sum sum c = ksum_from c 0 (length c) sum.
Proof. unfold chunk_sum. rewrite gen_keytag_octet_sum. reflexivity. Qed.

Lemma ksum_from_split out c1 : forall c2 i acc,
  ksum_from out i (c1 + c2) acc = ksum_from out (i + c1) c2 (ksum_from out i c1 acc).
Proof.
  induction c1 as [|c IH]; intros c2 i acc; cbn [ksum_from Nat.add].
  - rewrite Nat.add_0_r. reflexivity.
  - rewrite IH. replace (S i + c)%nat with (i + S c)%nat by lia. reflexivity.
Qed.

Lemma nth_skipn' (l : list N) k i : nth i (skipn k l) 0 = nth (k + i) l 0.
Proof.
  revert l. induction k as [|k IH]; intros l; [reflexivity|].
  destruct l as [|x l]; cbn [skipn Nat.add nth]; [destruct i; reflexivity|apply IH].
Qed.

Lemma nth_firstn' (l : list N) n i : (i < n)%nat -> nth i (firstn n l) 0 = nth i l 0.
Proof.
  revert l i. induction n as [|n IH]; intros l i Hi; [lia|].
  destruct l as [|x l]; [reflexivity|]. destruct i as [|i]; cbn; [reflexivity|apply IH; lia].
Qed.

Lemma ksum_from_skipn out k : Nat.even k = true -> forall cnt i acc,
  ksum_from (skipn k out) i cnt acc = ksum_from out (k + i) cnt acc.
Proof.
  intros Hk. induction cnt as [|c IH]; intros i acc; cbn [ksum_from]; [reflexivity|].
  rewrite nth_skipn', IH. replace (k + S i)%nat with (S (k + i)) by lia.
  rewrite Nat.even_add, Hk. destruct (Nat.even i); reflexivity.
Qed.

Lemma ksum_from_firstn out n : forall cnt i acc, (i + cnt <= n)%nat ->
  ksum_from (firstn n out) i cnt acc = ksum_from out i cnt acc.
Proof.
  induction cnt as [|c IH]; intros i acc H; cbn [ksum_from]; [reflexivity|].
  rewrite nth_firstn' by lia. apply IH. lia.
Qed.

Lemma chunked_sum_spec n : Nat.even n = true -> (0 < n)%nat -> forall fuel l acc,
  (length l < fuel)%nat -> fold_left chunk_sum (chunks n fuel l) acc = ksum_from l 0 (length l) acc.
Proof.
  intros Hn Hpos. induction fuel as [|f IH]; intros l acc Hf; [lia|].
  destruct l as [|x l']; [reflexivity|]. set (l := x :: l') in *.
  change (chunks n (S f) l) with (firstn n l :: chunks n f (skipn n l)). cbn [fold_left].
  rewrite chunk_sum_spec. rewrite IH.
  2:{ rewrite skipn_length. unfold l in *. cbn [length] in *. lia. }
  rewrite firstn_length, skipn_length.
  rewrite ksum_from_firstn by lia.
  rewrite (ksum_from_skipn l n Hn). rewrite Nat.add_0_r.
  destruct (Nat.le_gt_cases (length l) n) as [Hle|Hgt].
  - replace (length l - n)%nat with 0%nat by lia. rewrite Nat.min_r by lia. reflexivity.
  - rewrite Nat.min_l by lia.
    assert (E : ksum_from l 0 (length l) acc = ksum_from l 0 (n + (length l - n)) acc) by (f_equal; lia).
    rewrite E, ksum_from_split. reflexivity.
Qed.

Lemma keytag_of_unfold flags proto alg material :
  keytag_of flags proto alg material =
  let sum0 := wrap32 (wrap32 (wrap32 (N.shiftl (N.shiftr flags 8) 8 + N.land flags 255) + N.shiftl proto 8) + alg) in
  let sum1 := ksum_from material 0 (length material) sum0 in
  N.land (wrap32 (sum1 + N.land (N.shiftr sum1 16) 65535)) 65535.
Proof.
  unfold keytag_of. rewrite (chunked_sum_spec keytag_chunk_octets); [reflexivity|reflexivity|vm_compute; lia|lia].
Qed.

(* two real Ed25519 keys of the driver's pool (tags observed on dnssec.KeyTag, CTag cases):
   an ordinary one — REVOKE adds 128 — and one whose checksum carries — REVOKE adds 129 (mod 2^16) *)
Definition key_plain : list N :=
  [227;131;186;124;240;80;6;81;38;162;191;141;67;229;252;77;41;49;37;220;225;19;173;153;212;111;49;138;135;173;217;75].
Definition key_carry : list N :=
  [116;171;237;102;236;214;139;1;127;85;73;230;222;54;68;102;242;128;54;0;55;254;4;81;187;73;2;99;240;75;35;82].
Example keytag_revoke_adds_128_or_129 :
  keytag_of 257 3 15 key_plain = 964 /\ keytag_of 385 3 15 key_plain = 964 + 128 /\
  keytag_of 257 3 15 key_carry = 65518 /\ keytag_of 385 3 15 key_carry = 111 /\
  (65518 + 129) mod 65536 = 111 /\ (111 + 65536 - go_flag_revoke) mod 65536 <> 65518.
Proof. vm_compute. repeat split; try reflexivity. discriminate. Qed.

(* ---- the general fact: REVOKE (0x0080, bit 7 of the low flags octet) moves the tag by 128 or by 129 *)
Fixpoint kw (out : list N) (i cnt : nat) : N :=
  match cnt with
  | O => 0
  | S c => (if Nat.even i then nth i out 0 * 256 else nth i out 0) + kw out (S i) c
  end.

Lemma nth_octet out i : Forall (fun x => x < 256) out -> nth i out 0 < 256.
Proof.
  intros H. destruct (Nat.lt_ge_cases i (length out)) as [Hl|Hl].
  - rewrite Forall_forall in H. apply H. apply nth_In. exact Hl.
  - rewrite nth_overflow by exact Hl. reflexivity.
Qed.

Lemma kw_bound out : Forall (fun x => x < 256) out -> forall cnt i, kw out i cnt <= N.of_nat cnt * 65280.
Proof.
  intros H. induction cnt as [|c IH]; intros i; cbn [kw]; [cbn; lia|].
  pose proof (nth_octet out i H) as Hb. specialize (IH (S i)).
  destruct (Nat.even i); lia.
Qed.

Lemma ksum_from_linear out : Forall (fun x => x < 256) out -> forall cnt i acc,
  acc + kw out i cnt < two32 -> ksum_from out i cnt acc = acc + kw out i cnt.
Proof.
  intros H. induction cnt as [|c IH]; intros i acc Hb; cbn [ksum_from kw] in *; [lia|].
  pose proof (nth_octet out i H) as Ho.
  assert (Hs : N.shiftl (nth i out 0) 8 = nth i out 0 * 256) by (rewrite N.shiftl_mul_pow2; reflexivity).
  assert (E : wrap32 (acc + (if Nat.even i then wrap32 (N.shiftl (nth i out 0) 8) else nth i out 0))
              = acc + (if Nat.even i then nth i out 0 * 256 else nth i out 0)).
  { unfold two32 in *. destruct (Nat.even i).
    - rewrite Hs. rewrite (wrap32_small (nth i out 0 * 256)) by (unfold two32; lia). apply wrap32_small. unfold two32. lia.
    - apply wrap32_small. unfold two32. lia. }
  rewrite E. rewrite IH; [lia|]. lia.
Qed.

Definition fold16 (s : N) : N := N.land (wrap32 (s + N.land (N.shiftr s 16) 65535)) 65535.

Lemma fold16_plus_128 s : s + 128 < 2147483648 ->
  fold16 (s + 128) = (fold16 s + 128) mod 65536 \/ fold16 (s + 128) = (fold16 s + 129) mod 65536.
Proof.
  intros Hb. unfold fold16.
  assert (L : forall x, N.land x 65535 = x mod 65536) by (intros x; change 65535 with (N.ones 16); rewrite N.land_ones; reflexivity).
  assert (R : forall x, N.shiftr x 16 = x / 65536) by (intros x; rewrite N.shiftr_div_pow2; reflexivity).
  rewrite !L, !R.
  assert (W : forall x, x < 4294967296 -> wrap32 x = x) by (intros x Hx; apply wrap32_small; exact Hx).
  assert (Hq : s / 65536 < 32768) by (apply N.div_lt_upper_bound; lia).
  assert (Hq' : (s + 128) / 65536 < 32768) by (apply N.div_lt_upper_bound; lia).
  pose proof (N.mod_lt (s / 65536) 65536 ltac:(discriminate)) as M1.
  pose proof (N.mod_lt ((s + 128) / 65536) 65536 ltac:(discriminate)) as M2.
  rewrite (W (s + (s / 65536) mod 65536)) by lia.
  rewrite (W (s + 128 + ((s + 128) / 65536) mod 65536)) by lia.
  rewrite (N.mod_small (s / 65536) 65536) by lia.
  rewrite (N.mod_small ((s + 128) / 65536) 65536) by lia.
  (* s = 65536 h + l *)
  pose proof (N.div_mod s 65536 ltac:(discriminate)) as D.
  pose proof (N.mod_lt s 65536 ltac:(discriminate)) as Ml.
  set (h := s / 65536) in *. set (l := s mod 65536) in *.
  destruct (N.lt_ge_cases (l + 128) 65536) as [Hc|Hc].
  - left. assert (Eh : (s + 128) / 65536 = h).
    { symmetry. apply (N.div_unique (s + 128) 65536 h (l + 128)); lia. }
    rewrite Eh. rewrite N.add_mod_idemp_l by discriminate. f_equal. lia.
  - right. assert (Eh : (s + 128) / 65536 = h + 1).
    { symmetry. apply (N.div_unique (s + 128) 65536 (h + 1) (l + 128 - 65536)); lia. }
    rewrite Eh. rewrite N.add_mod_idemp_l by discriminate. f_equal. lia.
Qed.

(* for every key of at most 4092 octets (the chunked read, any number of chunks), every protocol / algorithm octet and every
   16-bit flags value without the REVOKE bit: tag(revoked form) = tag + 128 or tag + 129 (mod 2^16).  Both occur
   (Example above), so no constant delta can find the anchor of a revoked DNSKEY. *)
Lemma keytag_revoke_delta flags proto alg material :
  flags < 65536 -> N.land flags 128 = 0 -> proto < 256 -> alg < 256 ->
  Forall (fun x => x < 256) material -> (length material <= 4092)%nat ->
  let t := keytag_of flags proto alg material in
  let t' := keytag_of (flags + 128) proto alg material in
  t' = (t + 128) mod 65536 \/ t' = (t + 129) mod 65536.
Proof.
  intros Hf Hbit Hp Ha Hm Hlen t t'. unfold t, t'. rewrite !keytag_of_unfold. cbv zeta.
  assert (Hhi : N.shiftr (flags + 128) 8 = N.shiftr flags 8 /\ N.land (flags + 128) 255 = N.land flags 255 + 128).
  { rewrite !N.shiftr_div_pow2. change 255 with (N.ones 8). rewrite !N.land_ones. change (2 ^ 8) with 256.
    assert (Hlow : flags mod 256 < 128).
    { change 128 with (2 ^ 7) in Hbit. 
      assert (Hb7 : N.testbit flags 7 = false).
      { pose proof (N.land_spec flags (2 ^ 7) 7) as Hs. rewrite Hbit in Hs. rewrite N.bits_0 in Hs.
        rewrite N.pow2_bits_true in Hs. rewrite andb_true_r in Hs. symmetry. exact Hs. }
      pose proof (N.testbit_spec' flags 7) as T. rewrite Hb7 in T. cbn [N.b2n] in T. change (2 ^ 7) with 128 in T.
      pose proof (N.div_mod flags 256 ltac:(discriminate)) as D1.
      pose proof (N.mod_lt flags 256 ltac:(discriminate)) as M1.
      pose proof (N.div_mod flags 128 ltac:(discriminate)) as D2.
      pose proof (N.mod_lt flags 128 ltac:(discriminate)) as M2.
      pose proof (N.div_mod (flags / 128) 2 ltac:(discriminate)) as D3.
      rewrite <- T in D3.
      assert (E : flags / 128 / 2 = flags / 256) by (rewrite N.div_div by discriminate; reflexivity).
      rewrite E in D3. lia. }
    pose proof (N.div_mod flags 256 ltac:(discriminate)) as D.
    split.
    - symmetry. apply (N.div_unique (flags + 128) 256 (flags / 256) (flags mod 256 + 128)); lia.
    - symmetry. apply (N.mod_unique (flags + 128) 256 (flags / 256) (flags mod 256 + 128)); lia. }
  destruct Hhi as [H1 H2]. rewrite H1, H2.
  assert (S8 : N.shiftl (N.shiftr flags 8) 8 <= 65280).
  { rewrite N.shiftl_mul_pow2, N.shiftr_div_pow2. change (2 ^ 8) with 256.
    assert (flags / 256 < 256) by (apply N.div_lt_upper_bound; lia). lia. }
  assert (L8 : N.land flags 255 + 128 < 256).
  { change 255 with (N.ones 8). rewrite N.land_ones. change (2 ^ 8) with 256.
    change 255 with (N.ones 8) in H2. rewrite !N.land_ones in H2. change (2 ^ 8) with 256 in H2.
    pose proof (N.mod_lt (flags + 128) 256 ltac:(discriminate)). lia. }
  assert (P8 : N.shiftl proto 8 = proto * 256) by (rewrite N.shiftl_mul_pow2; reflexivity).
  rewrite P8.
  set (a := N.shiftl (N.shiftr flags 8) 8) in *. set (b := N.land flags 255) in *.
  assert (W : forall x, x < 4294967296 -> wrap32 x = x) by (intros x Hx; apply wrap32_small; exact Hx).
  rewrite (W (a + b)) by lia. rewrite (W (a + b + proto * 256)) by lia. rewrite (W (a + b + proto * 256 + alg)) by lia.
  rewrite (W (a + (b + 128))) by lia. rewrite (W (a + (b + 128) + proto * 256)) by lia. rewrite (W (a + (b + 128) + proto * 256 + alg)) by lia.
  pose proof (kw_bound material Hm (length material) 0%nat) as Hk.
  assert (Hk2 : kw material 0 (length material) <= 4092 * 65280).
  { eapply N.le_trans; [exact Hk|]. apply N.mul_le_mono_r. lia. }
  rewrite (ksum_from_linear material Hm) by (unfold two32; lia).
  rewrite (ksum_from_linear material Hm) by (unfold two32; lia).
  set (s := a + b + proto * 256 + alg + kw material 0 (length material)).
  replace (a + (b + 128) + proto * 256 + alg + kw material 0 (length material)) with (s + 128) by (unfold s; lia).
  apply fold16_plus_128. unfold s. lia.
Qed.
