(* C09 — phase 3 (C): well-formed anchor tables (one entry per key tag, every entry filed under the
   tag of its key) are an invariant of the disk across all events, and with it the 90-day upper
   bound: a key missing for more than 2160 h leaves the table and the live set. *)
From Sdns Require Import Common.Base Gen.C09 C09.Model C09.Proofs_Maps C09.Proofs_Rev C09.Proofs_Step C09.Proofs_Prov C09.Proofs_Thm.
Open Scope N_scope.

Lemma notin_remove {A} t (l : list (N * A)) : ~ In t (map fst (remove t l)).
Proof.
  intros H. apply in_map_iff in H. destruct H as ([x v] & Hx & Hin). cbn in Hx. subst x.
  apply in_remove in Hin. destruct Hin as [_ Hne]. contradiction.
Qed.

Lemma nodup_filter {A} (f : N * A -> bool) l : NoDup (map fst l) -> NoDup (map fst (filter f l)).
Proof.
  induction l as [|[x v] l IH]; cbn; [auto|]. intros H. inversion H as [|? ? Hn Hd]; subst.
  destruct (f (x, v)); cbn; [|apply IH; exact Hd]. constructor; [|apply IH; exact Hd].
  intros Hin. apply Hn. apply in_map_iff in Hin. destruct Hin as (e & He & Hf). apply filter_In in Hf.
  apply in_map_iff. exists e. split; [exact He|apply Hf].
Qed.

Lemma nodup_set {A} t (v : A) l : NoDup (map fst l) -> NoDup (map fst (set t v l)).
Proof. intros H. unfold set. cbn. constructor; [apply notin_remove|apply nodup_filter; exact H]. Qed.

Lemma nodup_lookup {A} t (a b : A) l : NoDup (map fst l) -> In (t, a) l -> lookup t l = Some b -> a = b.
Proof.
  induction l as [|[x v] l IH]; cbn; [intros _ []|]. intros Hd Hin Hl. inversion Hd as [|? ? Hn Hd']; subst.
  destruct (x =? t) eqn:E.
  - apply N.eqb_eq in E. subst x. inversion Hl; subst. destruct Hin as [H|H]; [inversion H; reflexivity|].
    exfalso. apply Hn. apply in_map_iff. exists (t, a). split; [reflexivity|exact H].
  - destruct Hin as [H|H]; [inversion H; subst; rewrite N.eqb_refl in E; discriminate|]. apply IH; assumption.
Qed.

Section Wf.
Variable tag : key -> N.

Definition wfk (ksk : kmap) : Prop := NoDup (map fst ksk) /\ forall t a, In (t, a) ksk -> t = tag (ta_key a).
Definition wfd (d : disk) : Prop := match d_state d with Some s => wfk s | None => True end.

Lemma wfk_set t a ksk : wfk ksk -> t = tag (ta_key a) -> wfk (set t a ksk).
Proof.
  intros [H1 H2] Ht. split; [apply nodup_set; exact H1|].
  intros x b Hin. apply in_set in Hin. destruct Hin as [[-> ->]|[Hin _]]; [exact Ht|apply H2; exact Hin].
Qed.

Lemma wfk_filter f ksk : wfk ksk -> wfk (filter f ksk).
Proof. intros [H1 H2]. split; [apply nodup_filter; exact H1|]. intros t a Hin. apply filter_In in Hin. apply H2. apply Hin. Qed.

Lemma wfk_seed now live : wfk (seed_from_live tag now live).
Proof.
  unfold seed_from_live. apply (fold_left_inv wfk); [split; [constructor|intros ? ? []]|].
  intros m k Hm. unfold seed_step. destruct (is_ksk k); [|exact Hm]. apply wfk_set; [exact Hm|reflexivity].
Qed.

Lemma wfk_merge now cfg ksk tombs : wfk ksk -> wfk (fst (merge tag now cfg ksk tombs)).
Proof.
  intros H. unfold merge. apply (fold_left_inv (fun acc => wfk (fst acc))); [exact H|].
  intros [k0 tb0] k Hacc. cbn in *. unfold merge_step.
  destruct (negb (is_ksk k)); [exact Hacc|]. destruct (lookup (tag k) k0); [exact Hacc|].
  destruct (mem (k_mat k) tb0); [exact Hacc|]. destruct (is_rev k); [exact Hacc|]. cbn.
  apply wfk_set; [exact Hacc|reflexivity].
Qed.

Lemma wfk_prefetch live cfg d now fl ksk2 tombs2 :
  wfd d -> prefetch tag live cfg d now fl = Some (ksk2, tombs2) -> wfk ksk2.
Proof.
  unfold prefetch, wfd. intros Hd Hp. destruct (f_sread fl); [discriminate|]. destruct (f_tread fl); [|discriminate|discriminate].
  inversion Hp as [Hp']. apply (f_equal fst) in Hp'. cbn [fst] in Hp'. subst ksk2.
  apply wfk_merge. unfold precedence. apply wfk_filter.
  destruct (d_state d); [exact Hd|apply wfk_seed].
Qed.

Lemma wfk_process_one now ro fm staged s t :
  (forall t k, lookup t fm = Some k -> tag k = t) -> wfk (p_ksk s) -> wfk (p_ksk (process_one tag now ro fm staged s t)).
Proof.
  intros Hfm H. unfold process_one. destruct (lookup t fm) as [k|] eqn:Ef; [|exact H].
  destruct (mem (k_mat k) (p_tombs s)); [exact H|]. destruct (ident_existing (p_ksk s) t k); [exact H|].
  destruct (is_rev k).
  - destruct (lookup (tag (unrev k)) (p_ksk s)) as [old|] eqn:Eo; [|exact H].
    destruct (is_trusted_st old && same_except_revoke (ta_key old) k && staged_ok staged t); [|exact H].
    cbn. apply wfk_set; [exact H|]. cbn. apply (proj2 H). apply lookup_in. exact Eo.
  - destruct ro; [exact H|]. destruct (lookup t (p_ksk s)); [exact H|]. cbn.
    apply wfk_set; [exact H|]. cbn. symmetry. apply Hfm. exact Ef.
Qed.

Lemma wfk_process now ro keys staged tags s :
  wfk (p_ksk s) -> wfk (p_ksk (process tag now ro (fetched_map tag keys) staged tags s)).
Proof.
  intros H. unfold process. apply (fold_left_inv (fun s => wfk (p_ksk s))); [exact H|].
  intros s' t' Hs. apply wfk_process_one; [|exact Hs]. intros t k Hl. apply (fetched_map_in tag keys t k Hl).
Qed.

Lemma wfk_keyrem now fm ksk : wfk ksk -> wfk (keyrem now fm ksk).
Proof.
  intros [H1 H2]. split.
  - unfold keyrem. clear H2. induction ksk as [|[t a] l IH]; cbn; [constructor|].
    inversion H1 as [|? ? Hn Hd]; subst. specialize (IH Hd).
    assert (Hone : keyrem_one now fm (t, a) = [] \/ exists b, keyrem_one now fm (t, a) = [(t, b)]).
    { unfold keyrem_one. cbn [fst snd]. destruct a as [k0 s0 fs0]. destruct (fm_has fm t _); destruct s0; cbn [ta_st ta_key ta_fs];
        repeat match goal with |- context [(?c >? ?d)%Z] => destruct (c >? d)%Z end; eauto. }
    destruct Hone as [->|(b & ->)]; cbn; [exact IH|]. constructor; [|exact IH].
    intros Hin. apply Hn. apply in_map_iff in Hin. destruct Hin as ([x c] & Hx & Hc). cbn in Hx. rewrite Hx in Hc.
    apply in_flat_map in Hc. destruct Hc as ([x2 a0] & Hi & Ho). apply keyrem_one_spec in Ho. destruct Ho as [E _].
    apply in_map_iff. exists (x2, a0). split; [cbn; symmetry; exact E|exact Hi].
  - intros t b Hin. apply (keyrem_in tag) in Hin. destruct Hin as (a & Hi & Hc). specialize (H2 _ _ Hi).
    destruct Hc as [-> _ _ _|_ _ ->|_ _ _ ->|_ _ ->]; cbn; exact H2.
Qed.

(* every state map a run writes is well formed; so the disk stays well formed across all events *)
Lemma wfk_written live cfg d now fe fl s5 :
  wfd d -> In (WState s5) (r_writes (autota tag live cfg d now fe fl)) -> wfk s5.
Proof.
  intros Hd Hw. unfold autota in Hw.
  destruct (prefetch tag live cfg d now fl) as [[ksk2 tombs2]|] eqn:Ep; [|destruct Hw].
  pose proof (wfk_prefetch _ _ _ _ _ _ _ Hd Ep) as H2.
  destruct fe as [|keys sigs]; [destruct Hw|].
  assert (Hmain : forall ro,
    let fm := fetched_map tag keys in
    let tags := sort_tags (map fst fm) in
    let staged := stage tag ksk2 tombs2 sigs fm tags in
    let s3 := process tag now ro fm staged tags (mk_pst ksk2 tombs2 false []) in
    let s4 := if ro then s3 else mk_pst (keyrem now fm (p_ksk s3)) (p_tombs s3) (p_newrev s3) (p_revs s3) in
    In (WState s5) (r_writes (tail (if is_nil live then live else trusted_keys ksk2) d fl s4)) -> wfk s5).
  { intros ro fm tags staged s3 s4 Hw'.
    assert (H3 : wfk (p_ksk s3)) by (apply wfk_process; exact H2).
    assert (H4 : wfk (p_ksk s4)) by (unfold s4; destruct ro; [exact H3|cbn; apply wfk_keyrem; exact H3]).
    unfold tail in Hw'. cbn [r_writes] in Hw'. apply in_app_or in Hw'. destruct Hw' as [Hw'|Hw'].
    - destruct (negb (f_twrite fl)); [destruct Hw' as [Hw'|[]]; discriminate|destruct Hw'].
    - destruct (negb (f_swrite fl)); [|destruct Hw']. destruct Hw' as [Hw'|[]]. inversion Hw'; subst s5.
      destruct (negb (f_twrite fl)); [apply wfk_filter; exact H4|exact H4]. }
  destruct (authenticate tag (trusted_keys ksk2) keys sigs); [destruct Hw|apply (Hmain false); exact Hw|apply (Hmain true); exact Hw].
Qed.

Lemma wfd_apply_writes d ws : wfd d -> (forall s5, In (WState s5) ws -> wfk s5) -> wfd (apply_writes d ws).
Proof.
  revert d. induction ws as [|w ws IH]; intros d Hd Hw; [exact Hd|]. cbn. apply IH.
  - destruct w as [t|s]; unfold wfd; cbn; [exact Hd|apply Hw; left; reflexivity].
  - intros s5 H. apply Hw. right. exact H.
Qed.

Lemma in_firstn' {A} (x : A) n l : In x (firstn n l) -> In x l.
Proof. revert l. induction n; intros [|y l]; cbn; try tauto. intros [H|H]; auto. Qed.

Lemma wfd_step s e : wfd (s_disk s) -> wfd (s_disk (step tag s e)).
Proof.
  intros Hd. destruct e as [now fe fl|now fe fl k cfg' tr sr|cfg' tr sr]; cbn.
  - unfold run_of. rewrite r_disk_writes. apply wfd_apply_writes; [exact Hd|]. intros s5 H. eapply wfk_written; eassumption.
  - apply wfd_apply_writes; [exact Hd|]. intros s5 H. apply in_firstn' in H. unfold run_of in H. eapply wfk_written; eassumption.
  - exact Hd.
Qed.

Lemma wfd_exec h : forall s, wfd (s_disk s) -> wfd (s_disk (exec tag s h)).
Proof. induction h as [|e h IH]; intros s H; [exact H|]. cbn. apply IH. apply wfd_step. exact H. Qed.

(* The 90-day upper bound.  In a fully authenticated run, a Missing anchor that is still absent and
   whose remove hold-down (2160 h) has expired is dropped: no written state map has an entry under its
   tag, and (unless both writes fail, where the publication rule keeps the pre-fetch set) its key is
   not in the live set any more. *)
Lemma missing_expires_lemma live cfg d now keys sigs fl ksk2 tombs2 t a :
  wfd d ->
  prefetch tag live cfg d now fl = Some (ksk2, tombs2) ->
  authenticate tag (trusted_keys ksk2) keys sigs = AuthFull ->
  let fm := fetched_map tag keys in
  lookup t ksk2 = Some a -> ta_st a = SMissing ->
  fm_has fm t a = false -> (now - ta_fs a > hold_rem)%Z ->
  (forall t' k, lookup t' fm = Some k -> is_rev k = true -> same_except_revoke (ta_key a) k = false) ->
  let r := autota tag live cfg d now (FResp keys sigs) fl in
  (forall s5, In (WState s5) (r_writes r) -> lookup t s5 = None) /\
  (f_twrite fl = false \/ f_swrite fl = false -> ~ In (ta_key a) (r_live r)).
Proof.
  intros Hd Hp Ha fm Hl Hst Hfm Hage Hno. unfold autota. rewrite Hp, Ha. fold fm.
  pose proof (wfk_prefetch _ _ _ _ _ _ _ Hd Hp) as H2.
  set (staged := stage tag ksk2 tombs2 sigs fm (sort_tags (map fst fm))).
  set (s3 := process tag now false fm staged (sort_tags (map fst fm)) (mk_pst ksk2 tombs2 false [])).
  assert (H3 : lookup t (p_ksk s3) = Some a) by (unfold s3, staged, fm; apply process_untouched; [exact Hl|exact Hno]).
  assert (W3 : wfk (p_ksk s3)) by (unfold s3, fm; apply wfk_process; exact H2).
  assert (W4 : wfk (keyrem now fm (p_ksk s3))) by (apply wfk_keyrem; exact W3).
  assert (Hgone : forall b, ~ In (t, b) (keyrem now fm (p_ksk s3))).
  { intros b Hin. apply (keyrem_in tag) in Hin. destruct Hin as (a0 & Hi & Hc).
    assert (a0 = a) by (eapply nodup_lookup; [apply W3|exact Hi|exact H3]). subst a0.
    destruct Hc as [_ _ _ H|Hv _ _|Hv _ _ _|_ Hf _]; [destruct (H Hst) as [_ Hle]; lia|congruence|congruence|congruence]. }
  assert (Ht : t = tag (ta_key a)) by (apply (proj2 H2); apply lookup_in; exact Hl).
  unfold tail. cbn [r_writes r_live p_ksk].
  set (k5 := if negb (f_twrite fl) then filter (fun e => negb (is_marker (snd e))) (keyrem now fm (p_ksk s3)) else keyrem now fm (p_ksk s3)).
  assert (Hsub : forall e, In e k5 -> In e (keyrem now fm (p_ksk s3))).
  { intros e He. unfold k5 in He. destruct (negb (f_twrite fl)); [apply filter_In in He; apply He|exact He]. }
  split.
  - intros s5 Hin. apply in_app_or in Hin. destruct Hin as [Hin|Hin].
    + destruct (negb (f_twrite fl)); [destruct Hin as [Hin|[]]; discriminate|destruct Hin].
    + destruct (negb (f_swrite fl)); [|destruct Hin]. destruct Hin as [Hin|[]]. inversion Hin. fold k5.
      destruct (lookup t k5) as [b|] eqn:E; [|reflexivity]. exfalso. apply (Hgone b). apply Hsub. apply lookup_in. exact E.
  - intros Hw Hin.
    assert (Hb : negb (negb (f_twrite fl)) && negb (negb (f_swrite fl)) = false) by (destruct Hw as [-> | ->]; cbn; [reflexivity|apply andb_false_r]).
    rewrite Hb in Hin. fold k5 in Hin. apply published_sub in Hin. apply trusted_keys_in in Hin. destruct Hin as (x & b & Hi & _ & Hk).
    apply Hsub in Hi. pose proof (proj2 W4 _ _ Hi) as Hx. rewrite Hk, <- Ht in Hx. subst x. exact (Hgone b Hi).
Qed.

End Wf.
