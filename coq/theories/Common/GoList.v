(* Go slices, arrays and strings as the translator (harness/srcgen, third stage)
   sees them: immutable lists.  A string and a []byte are [list N] (octets);
   an index or a length is an [int], hence [Z].

   Not modelled (stated in the trusted base): aliasing between slices that
   share a backing array, capacity, the nil / empty distinction, and the
   run-time panics of out-of-range indexing and slicing — [go_idx] returns
   the element type's zero value and [go_slice] truncates where Go panics. *)
From Sdns Require Import Common.Base.
Open Scope Z_scope.

(* how a translated loop hands control back to the code that follows it *)
Inductive go_ctl (R : Type) : Type :=
| GoNext            (* the loop ended (condition false or break) *)
| GoRet (r : R)     (* a return statement ran inside the loop *)
| GoOof.            (* the iteration budget ran out: no result *)
Arguments GoNext {R}.
Arguments GoRet {R} r.
Arguments GoOof {R}.

Definition go_len {A} (s : list A) : Z := Z.of_nat (length s).
Definition go_idx {A} (d : A) (s : list A) (i : Z) : A :=
  if i <? 0 then d else nth (Z.to_nat i) s d.
Definition go_slice {A} (s : list A) (a b : Z) : list A :=
  firstn (Z.to_nat b - Z.to_nat a) (skipn (Z.to_nat a) s).
Definition go_slice_from {A} (s : list A) (a : Z) : list A := skipn (Z.to_nat a) s.
Definition go_slice_to {A} (s : list A) (b : Z) : list A := firstn (Z.to_nat b) s.

Fixpoint go_upd_nat {A} (s : list A) (i : nat) (x : A) : list A :=
  match s, i with
  | [], _ => []
  | _ :: t, O => x :: t
  | h :: t, S i => h :: go_upd_nat t i x
  end.
Definition go_upd {A} (s : list A) (i : Z) (x : A) : list A :=
  if i <? 0 then s else go_upd_nat s (Z.to_nat i) x.

Definition go_make {A} (d : A) (n : Z) : list A := repeat d (Z.to_nat n).

Fixpoint go_list_eqb {A} (eqb : A -> A -> bool) (a b : list A) : bool :=
  match a, b with
  | [], [] => true
  | x :: a, y :: b => eqb x y && go_list_eqb eqb a b
  | _, _ => false
  end.

(* copy(dst[a:], src): overwrites min(len(dst)-a, len(src)) elements of dst from offset a *)
Definition go_copy_at {A} (dst : list A) (a : Z) (src : list A) : list A :=
  let a := Z.to_nat a in
  let n := Nat.min (length dst - a) (length src) in
  firstn a dst ++ firstn n src ++ skipn (a + n) dst.
(* the count copy returns *)
Definition go_copy_n {A} (dst : list A) (a : Z) (src : list A) : Z :=
  Z.of_nat (Nat.min (length dst - Z.to_nat a) (length src)).

Definition go_has_prefix {A} (eqb : A -> A -> bool) (s p : list A) : bool :=
  go_list_eqb eqb (firstn (length p) s) p.
Definition go_has_suffix {A} (eqb : A -> A -> bool) (s p : list A) : bool :=
  (length p <=? length s)%nat && go_list_eqb eqb (skipn (length s - length p) s) p.

(* encoding/binary.BigEndian over octet lists *)
Definition go_b (s : list N) (i : nat) : N := nth i s 0%N.
Definition go_be16 (s : list N) : N := (go_b s 0 * 256 + go_b s 1)%N.
Definition go_be32 (s : list N) : N :=
  (((go_b s 0 * 256 + go_b s 1) * 256 + go_b s 2) * 256 + go_b s 3)%N.
Definition go_be64 (s : list N) : N :=
  (go_be32 s * 4294967296 + go_be32 (skipn 4 s))%N.
Definition go_put_be16 (v : N) : list N := [ (v / 256) mod 256; v mod 256 ]%N.
Definition go_put_be32 (v : N) : list N :=
  [ (v / 16777216) mod 256; (v / 65536) mod 256; (v / 256) mod 256; v mod 256 ]%N.
Definition go_put_be64 (v : N) : list N :=
  go_put_be32 ((v / 4294967296) mod 4294967296)%N ++ go_put_be32 (v mod 4294967296)%N.
Definition go_le16 (s : list N) : N := (go_b s 1 * 256 + go_b s 0)%N.
Definition go_le32 (s : list N) : N :=
  (((go_b s 3 * 256 + go_b s 2) * 256 + go_b s 1) * 256 + go_b s 0)%N.

(* ---- facts the proofs about translated functions start from ---- *)

Lemma go_len_nonneg {A} (s : list A) : 0 <= go_len s.
Proof. unfold go_len. lia. Qed.
Lemma go_len_app {A} (a b : list A) : go_len (a ++ b) = go_len a + go_len b.
Proof. unfold go_len. rewrite app_length. lia. Qed.
Lemma go_len_cons {A} (x : A) s : go_len (x :: s) = 1 + go_len s.
Proof. unfold go_len. cbn [length]. lia. Qed.
Lemma go_len_nil {A} : go_len (@nil A) = 0.
Proof. reflexivity. Qed.
Lemma go_idx_nth {A} (d : A) s i : 0 <= i -> go_idx d s i = nth (Z.to_nat i) s d.
Proof. intros H. unfold go_idx. destruct (i <? 0) eqn:E; [lia|reflexivity]. Qed.
Lemma go_idx_0 {A} (d x : A) s : go_idx d (x :: s) 0 = x.
Proof. reflexivity. Qed.
Lemma go_idx_succ {A} (d x : A) s i : 0 <= i -> go_idx d (x :: s) (i + 1) = go_idx d s i.
Proof.
  intros H. rewrite !go_idx_nth by lia.
  replace (Z.to_nat (i + 1)) with (S (Z.to_nat i)) by lia. reflexivity.
Qed.
Lemma go_slice_from_0 {A} (s : list A) : go_slice_from s 0 = s.
Proof. reflexivity. Qed.
Lemma go_slice_all {A} (s : list A) : go_slice s 0 (go_len s) = s.
Proof.
  unfold go_slice, go_len. cbn [Z.to_nat skipn]. rewrite Nat2Z.id, Nat.sub_0_r. apply firstn_all.
Qed.
Lemma go_upd_length {A} (s : list A) i x : length (go_upd s i x) = length s.
Proof.
  unfold go_upd. destruct (i <? 0); [reflexivity|]. generalize (Z.to_nat i) as n.
  induction s as [|h t IH]; intros [|n]; cbn [go_upd_nat length]; auto.
Qed.
Lemma go_make_length {A} (d : A) n : length (go_make d n) = Z.to_nat n.
Proof. apply repeat_length. Qed.
Lemma go_list_eqb_eq {A} (eqb : A -> A -> bool) :
  (forall x y, eqb x y = true <-> x = y) -> forall a b, go_list_eqb eqb a b = true <-> a = b.
Proof.
  intros He. induction a as [|x a IH]; intros [|y b]; cbn [go_list_eqb]; split; intros H;
    try reflexivity; try discriminate.
  - apply andb_true_iff in H as [H1 H2]. apply He in H1. apply IH in H2. congruence.
  - injection H as -> ->. apply andb_true_iff. split; [apply He|apply IH]; reflexivity.
Qed.
Lemma go_bytes_eqb_eq a b : go_list_eqb N.eqb a b = true <-> a = b.
Proof. apply go_list_eqb_eq. intros x y. apply N.eqb_eq. Qed.

(* ---- a few functions of package strings / bytes over octet lists ---- *)

(* strings.ToLower / strings.EqualFold restricted to ASCII input (every octet < 128): only then do
   they coincide with Go's Unicode-aware functions; the translator emits them only for spec items
   that declare "ascii_strings": true, and the user states the restriction *)
Definition go_ascii_lower_byte (c : N) : N := if ((65 <=? c) && (c <=? 90))%N then (c + 32)%N else c.
Definition go_ascii_lower (s : list N) : list N := map go_ascii_lower_byte s.
Definition go_equal_fold_ascii (a b : list N) : bool :=
  go_list_eqb N.eqb (go_ascii_lower a) (go_ascii_lower b).

Fixpoint go_index_byte_from (s : list N) (c : N) (i : Z) : Z :=
  match s with
  | [] => -1
  | x :: r => if (x =? c)%N then i else go_index_byte_from r c (i + 1)
  end.
Definition go_index_byte (s : list N) (c : N) : Z := go_index_byte_from s c 0.
Fixpoint go_last_index_byte_from (s : list N) (c : N) (i : Z) (best : Z) : Z :=
  match s with
  | [] => best
  | x :: r => go_last_index_byte_from r c (i + 1) (if (x =? c)%N then i else best)
  end.
Definition go_last_index_byte (s : list N) (c : N) : Z := go_last_index_byte_from s c 0 (-1).

Fixpoint go_contains (s sub : list N) : bool :=
  go_has_prefix N.eqb s sub ||
  match s with
  | [] => false
  | _ :: r => go_contains r sub
  end.
Definition go_trim_prefix (s p : list N) : list N :=
  if go_has_prefix N.eqb s p then skipn (length p) s else s.
Definition go_trim_suffix (s p : list N) : list N :=
  if go_has_suffix N.eqb s p then firstn (length s - length p) s else s.

Lemma go_ascii_lower_length s : length (go_ascii_lower s) = length s.
Proof. apply map_length. Qed.
Lemma go_ascii_lower_idem s : go_ascii_lower (go_ascii_lower s) = go_ascii_lower s.
Proof.
  unfold go_ascii_lower. rewrite map_map. apply map_ext. intros c. unfold go_ascii_lower_byte.
  destruct ((65 <=? c) && (c <=? 90))%N eqn:E; [|rewrite E; reflexivity].
  destruct ((65 <=? c + 32) && (c + 32 <=? 90))%N eqn:F; [|reflexivity]. lia.
Qed.
Lemma go_index_byte_nil c : go_index_byte [] c = -1.
Proof. reflexivity. Qed.

(* miekg/dns.IsFqdn on ASCII input: the name ends in a dot that is not escaped, i.e. preceded by an
   even number of backslashes (emitted only under "ascii_strings": true; on non-ASCII input the
   library counts runes, not octets) *)
Fixpoint go_trailing_backslashes (rev : list N) : nat :=
  match rev with
  | 92%N :: r => S (go_trailing_backslashes r)
  | _ => O
  end.
Definition go_is_fqdn_ascii (s : list N) : bool :=
  match rev s with
  | 46%N :: r => Nat.even (go_trailing_backslashes r)
  | _ => false
  end.
Definition go_fqdn_ascii (s : list N) : list N := if go_is_fqdn_ascii s then s else s ++ [46%N].
Definition go_canonical_name_ascii (s : list N) : list N := go_ascii_lower (go_fqdn_ascii s).

(* strings.IndexFunc(s, unicode.IsSpace) on ASCII input: the first of \t \n \v \f \r and space *)
Definition go_is_space_ascii (c : N) : bool := ((9 <=? c) && (c <=? 13) || (c =? 32))%N.
Fixpoint go_index_space_from (s : list N) (i : Z) : Z :=
  match s with
  | [] => -1
  | x :: r => if go_is_space_ascii x then i else go_index_space_from r (i + 1)
  end.
Definition go_index_space_ascii (s : list N) : Z := go_index_space_from s 0.
