(* Shared set-up: arithmetic automation and Go's fixed-width integers.

   Go's unsigned integer types are modelled as [N] with an explicit wrap
   (mod 2^w) after every operation that can leave the range; signed
   integers and time.Duration as [Z].  The translator (harness/srcgen)
   emits terms over the operations defined here. *)
From Coq Require Export List Bool Arith ZArith NArith Lia.
From Coq Require Export ZifyBool ZifyNat ZifyN.
Export ListNotations.

Ltac Zify.zify_post_hook ::= Z.div_mod_to_equations.

Global Arguments N.add : simpl never.
Global Arguments N.mul : simpl never.
Global Arguments N.sub : simpl never.
Global Arguments N.div : simpl never.
Global Arguments N.modulo : simpl never.
Global Arguments N.pow : simpl never.
Global Arguments N.shiftl : simpl never.
Global Arguments N.shiftr : simpl never.
Global Arguments N.lor : simpl never.
Global Arguments N.land : simpl never.
Global Arguments N.lxor : simpl never.
Global Arguments Z.add : simpl never.
Global Arguments Z.mul : simpl never.
Global Arguments Z.sub : simpl never.
Global Arguments Z.div : simpl never.
Global Arguments Z.modulo : simpl never.
Global Arguments Z.pow : simpl never.

Definition two8  : N := 256%N.
Definition two16 : N := 65536%N.
Definition two32 : N := 4294967296%N.
Definition two64 : N := 18446744073709551616%N.

(* wrap to an unsigned width *)
Definition wrapN (w : N) (x : N) : N := N.modulo x (N.pow 2 w).
Definition wrap8  (x : N) : N := N.modulo x two8.
Definition wrap16 (x : N) : N := N.modulo x two16.
Definition wrap32 (x : N) : N := N.modulo x two32.
Definition wrap64 (x : N) : N := N.modulo x two64.

(* unsigned subtraction with wrap: (a - b) mod 2^w computed without
   leaving N *)
Definition subw (m : N) (a b : N) : N := N.modulo (a + (m - N.modulo b m)) m.
(* bitwise complement at a width: x xor (m-1) *)
Definition notw (m : N) (x : N) : N := N.lxor (N.modulo x m) (m - 1).

(* Z -> unsigned width (Go conversion uintW(int)) *)
Definition Z_to_uw (m : N) (z : Z) : N := Z.to_N (Z.modulo z (Z.of_N m)).
(* unsigned -> signed 64 (Go conversion int64(uint64)) *)
Definition N_to_s64 (x : N) : Z :=
  let z := Z.of_N (wrap64 x) in
  if (z <? 9223372036854775808)%Z then z else (z - 18446744073709551616)%Z.
(* signed wrap to 64 bits, available to models that need it *)
Definition swrap64 (z : Z) : Z :=
  ((z + 9223372036854775808) mod 18446744073709551616 - 9223372036854775808)%Z.

Lemma wrap64_small x : (x < two64)%N -> wrap64 x = x.
Proof. intros H. unfold wrap64. apply N.mod_small. exact H. Qed.
Lemma wrap64_lt x : (wrap64 x < two64)%N.
Proof. unfold wrap64. apply N.mod_lt. discriminate. Qed.
Lemma wrap32_small x : (x < two32)%N -> wrap32 x = x.
Proof. intros H. unfold wrap32. apply N.mod_small. exact H. Qed.
Lemma wrap32_lt x : (wrap32 x < two32)%N.
Proof. unfold wrap32. apply N.mod_lt. discriminate. Qed.

(* Generic helpers used by several Run.v files *)
Fixpoint index_where {A} (f : A -> bool) (l : list A) (i : N) : list N :=
  match l with
  | [] => []
  | x :: xs => if f x then i :: index_where f xs (i + 1)%N else index_where f xs (i + 1)%N
  end.
(* indices of the cases on which a boolean check FAILS *)
Definition failing {A} (chk : A -> bool) (l : list A) : list N :=
  index_where (fun x => negb (chk x)) l 0%N.

Lemma failing_nil_forall {A} (chk : A -> bool) l :
  failing chk l = [] -> forall x, In x l -> chk x = true.
Proof.
  unfold failing. generalize 0%N. induction l as [|a l IH]; intros n H x Hin.
  - destruct Hin.
  - cbn in H. destruct (chk a) eqn:E; cbn in H; [|discriminate].
    destruct Hin as [->|Hin]; [exact E|]. eapply IH; eauto.
Qed.
