(* C15 — the pooled packer (internal/wire/pack.go) next to the library's Msg.Pack
   (github.com/miekg/dns v1.1.72, msg.go / defaults.go / edns.go).  Definitions only.

   Part 1 (closed, executable): header word, extended-rcode TTL, compressibility,
   record provenance / admission, OPT selection, the pre-flight ladder of TryPack.
   Part 2 (Section Packers): both packers as folds over ABSTRACT library primitives
   [pack_name] / [pack_rr] (the two Go implementations call the same library
   functions, PackDomainName / PackRR resp. packDomainName / packRR), the pool state
   with [release], the 3-index slice handed to the consumer, PackClone and the
   immutable library fallback, and schedules of concurrent packs sharing the pool.

   Constants and bit positions come from Gen/C15.v (re-read from /repo on every run). *)
From Sdns Require Import Common.Base Gen.C15.
Open Scope N_scope.

(* ------------------------------------------------------------------ *)
(** * 1. Header word *)

(* dns.MsgHdr: Opcode and Rcode are Go [int]s *)
Record mhdr := mk_mhdr {
  h_id : N; h_response : bool; h_opcode : Z; h_aa : bool; h_tc : bool; h_rd : bool;
  h_ra : bool; h_z : bool; h_ad : bool; h_cd : bool; h_rcode : Z }.

Definition uint16_of_int (z : Z) : N := Z_to_uw two16 z.
Definition uint32_of_int (z : Z) : N := Z_to_uw two32 z.

(* the table literal of msgBits, in source order; bit values from Gen *)
Definition flag_table (h : mhdr) : list (bool * N) :=
  [ (h_response h, bit_response); (h_aa h, bit_authoritative); (h_tc h, bit_truncated);
    (h_rd h, bit_recursion_desired); (h_ra h, bit_recursion_available); (h_z h, bit_zero);
    (h_ad h, bit_authenticated_data); (h_cd h, bit_checking_disabled) ].

(* wire.msgBits *)
Definition msg_bits (h : mhdr) : N :=
  fold_left (fun (bits : N) (f : bool * N) => if fst f then N.lor bits (snd f) else bits) (flag_table h)
    (N.lor (wrap16 (N.shiftl (uint16_of_int (h_opcode h)) bits_opcode_shift))
           (uint16_of_int (Z.land (h_rcode h) bits_rcode_mask))).

(* the library: msg.go, packBufferWithCompressionMap, with its own constants
   _QR = 1<<15, _AA = 1<<10, _TC = 1<<9, _RD = 1<<8, _RA = 1<<7, _Z = 1<<6, _AD = 1<<5, _CD = 1<<4 *)
Definition lib_QR : N := N.shiftl 1 15.
Definition lib_AA : N := N.shiftl 1 10.
Definition lib_TC : N := N.shiftl 1 9.
Definition lib_RD : N := N.shiftl 1 8.
Definition lib_RA : N := N.shiftl 1 7.
Definition lib_Z  : N := N.shiftl 1 6.
Definition lib_AD : N := N.shiftl 1 5.
Definition lib_CD : N := N.shiftl 1 4.
Definition lib_bits (h : mhdr) : N :=
  let b := N.lor (wrap16 (N.shiftl (uint16_of_int (h_opcode h)) 11)) (uint16_of_int (Z.land (h_rcode h) 15)) in
  let b := if h_response h then N.lor b lib_QR else b in
  let b := if h_aa h then N.lor b lib_AA else b in
  let b := if h_tc h then N.lor b lib_TC else b in
  let b := if h_rd h then N.lor b lib_RD else b in
  let b := if h_ra h then N.lor b lib_RA else b in
  let b := if h_z h then N.lor b lib_Z else b in
  let b := if h_ad h then N.lor b lib_AD else b in
  if h_cd h then N.lor b lib_CD else b.

(* RFC 1035 4.1.1 / RFC 2535 layout, bit by bit (bit 0 = least significant).  An opcode
   that does not fit four bits spills into QR exactly as Go's uint16 shift does. *)
Definition bits_layout_bit (h : mhdr) (i : N) : bool :=
  if i <? 4 then Z.testbit (h_rcode h) (Z.of_N i)
  else if i =? 4 then h_cd h else if i =? 5 then h_ad h else if i =? 6 then h_z h
  else if i =? 7 then h_ra h else if i =? 8 then h_rd h else if i =? 9 then h_tc h
  else if i =? 10 then h_aa h
  else if i <? 15 then Z.testbit (h_opcode h) (Z.of_N (i - 11))
  else if i =? 15 then h_response h || Z.testbit (h_opcode h) 4
  else false.

Definition b2n (b : bool) : N := if b then 1 else 0.
(* the same layout as a sum, for in-range opcode (used as the run-time oracle) *)
Definition bits_layout_sum (h : mhdr) : N :=
  32768 * b2n (h_response h) + 2048 * Z.to_N (h_opcode h mod 16) + 1024 * b2n (h_aa h) +
  512 * b2n (h_tc h) + 256 * b2n (h_rd h) + 128 * b2n (h_ra h) + 64 * b2n (h_z h) +
  32 * b2n (h_ad h) + 16 * b2n (h_cd h) + Z.to_N (h_rcode h mod 16).

(* ------------------------------------------------------------------ *)
(** * 2. Extended rcode into the OPT TTL *)

(* packInto: o.Hdr.Ttl&0x00FFFFFF | uint32(msg.Rcode>>4)<<24 *)
Definition ext_ttl (ttl : N) (rcode : Z) : N :=
  N.lor (N.land ttl ext_ttl_keep_mask)
        (wrap32 (N.shiftl (uint32_of_int (Z.shiftr rcode (Z.of_N ext_rcode_shift))) ext_ttl_shift)).

(* edns.go: func (rr *OPT) SetExtendedRcode(v uint16) { rr.Hdr.Ttl = rr.Hdr.Ttl&0x00FFFFFF | uint32(v>>4)<<24 }
   called as opt.SetExtendedRcode(uint16(dns.Rcode)) *)
Definition lib_ext_ttl (ttl : N) (rcode : Z) : N :=
  N.lor (N.land ttl 16777215) (wrap32 (N.shiftl (N.shiftr (uint16_of_int rcode) 4) 24)).

(* ------------------------------------------------------------------ *)
(** * 3. Compressibility *)

(* wire.msgIsCompressible over the four section lengths.  Session 5: the function itself is translated
   from the AST (Gen.C15.go_msgIsCompressible over T_Msg, sections as lists of the dns.RR sum type);
   Proofs_bits.gen_msgIsCompressible ties this definition to it for every message *)
Definition is_compressible (nq na nn ne : N) : bool :=
  (1 <? nq) || (0 <? na) || (0 <? nn) || (0 <? ne).
(* msg.go isCompressible *)
Definition lib_is_compressible (nq na nn ne : N) : bool :=
  (1 <? nq) || (0 <? na) || (0 <? nn) || (0 <? ne).

(* ------------------------------------------------------------------ *)
(** * 4. Record provenance, admission, OPT selection, pre-flight *)

Fixpoint bytes_eqb (a b : list N) : bool :=
  match a, b with
  | [], [] => true
  | x :: xs, y :: ys => (x =? y) && bytes_eqb xs ys
  | _, _ => false
  end.

(* what reflect sees behind an interface value: nil interface; else pointer kind?,
   nil pointer?, and the package path of the (pointed-to) type *)
Record dynv := mk_dyn { d_nil : bool; d_ptr : bool; d_ptr_nil : bool; d_pkg : list N }.

(* wire.libraryOwned *)
Definition library_owned (d : dynv) : bool :=
  if d_nil d then false
  else if d_ptr d && d_ptr_nil d then false
  else bytes_eqb (d_pkg d) library_pkg.

(* the Go dynamic type as the type switches of admissibleRR / selectOPT / packInto see it *)
Inductive rkind := KOpt | KSvcb | KHttps | KPrivate | KOther.
Definition kind_is_opt (k : rkind) : bool := match k with KOpt => true | _ => false end.

(* the part of a record the control flow looks at: provenance, Go type, nested
   interface values (OPT.Option / SVCB.Value), object identity, header type and TTL *)
Record sshape := mk_shape {
  sh_dyn : dynv; sh_kind : rkind; sh_nested : list dynv; sh_ptr : N; sh_type : N; sh_ttl : N }.

Definition sh_is_nil (s : sshape) : bool := d_nil (sh_dyn s).
Definition sh_typed_nil (s : sshape) : bool := negb (d_nil (sh_dyn s)) && d_ptr (sh_dyn s) && d_ptr_nil (sh_dyn s).

(* wire.admissibleRR (+ admissibleSVCBValues) *)
Definition nested_ok (l : list dynv) : bool := forallb (fun d => negb (d_nil d) && library_owned d) l.
Definition admissible_rr (s : sshape) : bool :=
  if sh_is_nil s then false
  else match sh_kind s with
       | KPrivate => false
       | k => if negb (library_owned (sh_dyn s)) then false
              else match k with
                   | KOpt | KSvcb | KHttps => nested_ok (sh_nested s)
                   | _ => true
                   end
       end.

Definition type_opt : N := 41. (* dns.TypeOPT *)

Inductive sel := SelNone | SelSome (i : nat) | SelUnsafe.

(* what one loop iteration of selectOPT / IsEdns0 does with the record at index i:
   None = keep scanning *)
Definition examine (s : sshape) (i : nat) : option sel :=
  if sh_is_nil s then Some SelUnsafe
  else if negb (sh_type s =? type_opt) then None
  else if kind_is_opt (sh_kind s) then Some (SelSome i) else Some SelUnsafe.

(* wire.selectOPT: for i := len(extra)-1; i >= 0; i-- *)
Fixpoint select_from (extra : list sshape) (i : nat) : sel :=
  match i with
  | O => SelNone
  | S j => match nth_error extra j with
           | None => SelNone
           | Some s => match examine s j with Some r => r | None => select_from extra j end
           end
  end.
Definition select_opt (extra : list sshape) : sel := select_from extra (length extra).

(* defaults.go IsEdns0, written by structural recursion: the result for the tail wins,
   the head is looked at only if the tail had no OPT-typed record.  SelUnsafe = panic
   (nil record: Header() on a nil interface; OPT-typed non-OPT: failed type assertion). *)
Fixpoint lib_is_edns0_from (extra : list sshape) (base : nat) : sel :=
  match extra with
  | [] => SelNone
  | s :: rest => match lib_is_edns0_from rest (S base) with
                 | SelNone => match examine s base with Some r => r | None => SelNone end
                 | r => r
                 end
  end.
Definition lib_is_edns0 (extra : list sshape) : sel := lib_is_edns0_from extra 0.

(* packInto / Pack: which records carry the rewritten TTL — every interface value of
   dynamic type *dns.OPT that is pointer-equal to the selected one, in any section *)
Definition is_selected (opt : option N) (s : sshape) : bool :=
  match opt with
  | Some p => negb (sh_is_nil s) && kind_is_opt (sh_kind s) && (sh_ptr s =? p)
  | None => false
  end.

(* TryPack up to packStatePool.Get: every decision that declines before anything is
   probed, borrowed or written *)
Inductive verdict :=
| DeclRcode | DeclAdmission | DeclUnsafeOpt | DeclExtNoOpt | DeclSize
| Proceed (opt : option N) (* object identity of the selected OPT *).

Definition preflight (rcode : Z) (an ns ex : list sshape) (ulen : N) : verdict :=
  if (rcode <? rcode_min)%Z || (rcode_max <? rcode)%Z then DeclRcode
  else if negb (forallb admissible_rr (an ++ ns ++ ex)) then DeclAdmission
  else match select_opt ex with
       | SelUnsafe => DeclUnsafeOpt
       | SelNone => if (rcode_plain_max <? rcode)%Z then DeclExtNoOpt
                    else if pack_buffer_size <? ulen then DeclSize else Proceed None
       | SelSome i => if pack_buffer_size <? ulen then DeclSize
                      else Proceed (Some (sh_ptr (nth i ex (mk_shape (mk_dyn true false false []) KOther [] 0 0 0))))
       end.

(* the TTL each record is packed with *)
Definition wire_ttls (opt : option N) (rcode : Z) (l : list sshape) : list N :=
  map (fun s => if is_selected opt s then ext_ttl (sh_ttl s) rcode else sh_ttl s) l.

(* responseWriter.WriteMsg: does the reply leave as raw bytes from the pooled packer?
   (w.directPack && !w.internal, then TryPack's handled) — otherwise Transport.WriteMsg *)
Definition write_msg_direct (direct_pack internal handled : bool) : bool :=
  direct_pack && negb internal && handled.

(* ------------------------------------------------------------------ *)
(** * 5. Buffers *)

Definition buf := list N.

Fixpoint overwrite (b bytes : buf) : buf :=
  match bytes, b with
  | [], _ => b
  | y :: ys, _ :: r => y :: overwrite r ys
  | _ :: _, [] => []
  end.
(* copy(b[off:], bytes) for a range the callers have bounds-checked *)
Fixpoint write (b : buf) (off : nat) (bytes : buf) {struct off} : buf :=
  match off with
  | O => overwrite b bytes
  | S o => match b with x :: r => x :: write r o bytes | [] => [] end
  end.
(* clear(b[:n]) *)
Definition zero_prefix (n : nat) (b : buf) : buf := repeat 0 (Nat.min n (length b)) ++ skipn n b.
Definition u16_bytes (v : N) : buf := [ (v / 256) mod 256; v mod 256 ].
Definition put16 (b : buf) (off : nat) (v : N) : buf := write b off (u16_bytes v).
Definition count16 {A} (l : list A) : N := wrap16 (N.of_nat (length l)).

(* a Go slice value over a backing array, from index 0: len and cap *)
Record gslice := mk_gslice { sl_backing : buf; sl_len : nat; sl_cap : nat }.
Definition sl_bytes (s : gslice) : buf := firstn (sl_len s) (sl_backing s).
(* everything a holder can read by reslicing to capacity: s[:cap(s)] *)
Definition sl_reachable (s : gslice) : buf := firstn (sl_cap s) (sl_backing s).
(* buf[:off:off] and buf[:off] *)
Definition slice3 (b : buf) (hi mx : nat) : gslice := mk_gslice b hi mx.
Definition slice2 (b : buf) (hi : nat) : gslice := mk_gslice b hi (length b).

(* ------------------------------------------------------------------ *)
(** * 6. The two packers over abstract library primitives *)

Section Packers.
  Variables Name Body CMap : Type.
  Variable name_zero : Name.          (* "" *)
  Variable cm_empty : CMap.           (* a dictionary with no entries *)
  Variable cm_len : CMap -> N.        (* len(map) *)

  (* packDomainName(s, msg, off, compression, compress): None = error; otherwise the new
     offset, the buffer after the in-place writes, the dictionary after the inserts.
     A nil / invalid compressionMap is [None]. *)
  Variable pack_name : Name -> buf -> nat -> option CMap -> bool -> option (nat * buf * option CMap).
  (* packRR(rr, msg, off, compression, compress) on a record with this header and this
     rdata: header, rdata, RDLENGTH patched into the buffer; returns (headerEnd, off1, ...) *)
  Record rrhdr := mk_rrhdr { rh_name : Name; rh_type : N; rh_class : N; rh_ttl : N; rh_rdlen : N }.
  Variable pack_rr : rrhdr -> Body -> buf -> nat -> option CMap -> bool -> option (nat * nat * buf * option CMap).
  (* Question.len and RR.len(off, nil): uncompressed sizes as Msg.Len computes them *)
  Variable q_len : Name -> nat.
  Variable rr_len : Name -> Body -> nat.

  Definition hdr_zero : rrhdr := mk_rrhdr name_zero 0 0 0 0.
  Definition set_ttl (h : rrhdr) (t : N) : rrhdr := mk_rrhdr (rh_name h) (rh_type h) (rh_class h) t (rh_rdlen h).
  Definition set_rdlen (h : rrhdr) (l : N) : rrhdr := mk_rrhdr (rh_name h) (rh_type h) (rh_class h) (rh_ttl h) l.

  Record slot := mk_slot { s_sh : sshape; s_name : Name; s_class : N; s_rdlen : N; s_body : Body }.
  Definition s_hdr (s : slot) : rrhdr :=
    mk_rrhdr (s_name s) (sh_type (s_sh s)) (s_class s) (sh_ttl (s_sh s)) (s_rdlen s).
  Definition slot_set_ttl (t : N) (s : slot) : slot :=
    let sh := s_sh s in
    mk_slot (mk_shape (sh_dyn sh) (sh_kind sh) (sh_nested sh) (sh_ptr sh) (sh_type sh) t)
            (s_name s) (s_class s) (s_rdlen s) (s_body s).
  Definition slot_set_rdlen (l : N) (s : slot) : slot :=
    mk_slot (s_sh s) (s_name s) (s_class s) l (s_body s).

  Record question := mk_q { q_name : Name; q_type : N; q_class : N }.
  Record msg := mk_msg { m_hdr : mhdr; m_compress : bool; m_question : list question;
                         m_answer : list slot; m_ns : list slot; m_extra : list slot }.
  Definition m_records (m : msg) : list slot := m_answer m ++ m_ns m ++ m_extra m.
  Definition shapes (l : list slot) : list sshape := map s_sh l.

  (* a write through a pointer reaches every interface value holding that pointer *)
  Definition upd_where (p : slot -> bool) (f : slot -> slot) (l : list slot) : list slot :=
    map (fun s => if p s then f s else s) l.
  Definition msg_upd (p : slot -> bool) (f : slot -> slot) (m : msg) : msg :=
    mk_msg (m_hdr m) (m_compress m) (m_question m)
           (upd_where p f (m_answer m)) (upd_where p f (m_ns m)) (upd_where p f (m_extra m)).
  Definition is_object (ptr : N) (s : slot) : bool := negb (sh_is_nil (s_sh s)) && (sh_ptr (s_sh s) =? ptr).

  (* msgLenWithCompressionMap(dns, nil): nil records are skipped *)
  Definition slot_len (s : slot) : nat := if sh_is_nil (s_sh s) then 0%nat else rr_len (s_name s) (s_body s).
  Definition sum_len {A} (f : A -> nat) (l : list A) : nat := fold_right (fun x a => (f x + a)%nat) 0%nat l.
  Definition msg_len (m : msg) : nat :=
    (12 + sum_len (fun q => q_len (q_name q)) (m_question m) + sum_len slot_len (m_records m))%nat.

  Definition msg_compressible (m : msg) : bool :=
    is_compressible (N.of_nat (length (m_question m))) (N.of_nat (length (m_answer m)))
                    (N.of_nat (length (m_ns m))) (N.of_nat (length (m_extra m))).
  Definition lib_msg_compressible (m : msg) : bool :=
    lib_is_compressible (N.of_nat (length (m_question m))) (N.of_nat (length (m_answer m)))
                        (N.of_nat (length (m_ns m))) (N.of_nat (length (m_extra m))).

  (* ---------------- pooled state ---------------- *)

  (* wire.packState: buf, compression (nil = None), rr shim (embedded RR: nil = None, else
     the object it points at; hdr), opt copy (None = the zero value dns.OPT{}) *)
  Record pstate := mk_pstate {
    ps_buf : buf; ps_cmap : option CMap; ps_shim_rr : option N; ps_shim_hdr : rrhdr;
    ps_opt : option (rrhdr * Body) }.

  (* packState.release *)
  Definition release (st : pstate) : pstate :=
    mk_pstate (ps_buf st)
              (match ps_cmap st with
               | None => None
               | Some c => if max_pooled_compression_entries <? cm_len c then None else Some cm_empty
               end)
              None hdr_zero None.

  (* what every state sitting in the pool looks like *)
  Definition pool_inv (st : pstate) : Prop :=
    length (ps_buf st) = N.to_nat pack_buffer_size /\
    (ps_cmap st = None \/ ps_cmap st = Some cm_empty) /\
    ps_shim_rr st = None /\ ps_shim_hdr st = hdr_zero /\ ps_opt st = None.

  Definition fresh_state : pstate :=
    mk_pstate (repeat 0 (N.to_nat pack_buffer_size)) None None hdr_zero None.

  (* wire.packQuestion *)
  Definition pooled_question (q : question) (out : buf) (off : nat) (cm : option CMap) (c : bool)
    : option (nat * buf * option CMap) :=
    match pack_name (q_name q) out off cm c with
    | None => None
    | Some (off1, out1, cm1) =>
        if (length out <? off1 + N.to_nat question_fixed_len)%nat then None
        else Some ((off1 + 4)%nat, put16 (put16 out1 off1 (q_type q)) (off1 + 2) (q_class q), cm1)
    end.

  Fixpoint pooled_questions (qs : list question) (out : buf) (off : nat) (cm : option CMap) (c : bool)
    : option (nat * buf * option CMap) :=
    match qs with
    | [] => Some (off, out, cm)
    | q :: r => match pooled_question q out off cm c with
                | None => None
                | Some (off1, out1, cm1) => pooled_questions r out1 off1 cm1 c
                end
    end.

  (* where a write through Header() lands *)
  Inductive wtarget := WShim | WObject (ptr : N).
  (* func (v *rrView) Header() *dns.RR_Header { return &v.hdr } *)
  Definition rrview_header (s : slot) : wtarget := WShim.
  (* a library record's own Header(): &rr.Hdr *)
  Definition record_header (s : slot) : wtarget := WObject (sh_ptr (s_sh s)).

  Record pwork := mk_pwork { pw_out : buf; pw_off : nat; pw_cm : option CMap;
                             pw_shim_rr : option N; pw_shim_hdr : rrhdr; pw_opt : option (rrhdr * Body) }.

  (* the record loop of packInto; [view] says where the exported PackRR's final
     rr.Header().Rdlength = ... write lands for the value passed to it.  Returns
     (ok, work state, message as it is afterwards). *)
  Fixpoint pooled_records (view : slot -> wtarget) (opt : option N) (rcode : Z) (c : bool)
           (ss : list slot) (w : pwork) (m : msg) : bool * pwork * msg :=
    match ss with
    | [] => (true, w, m)
    | s :: rest =>
        if (length (pw_out w) <=? pw_off w)%nat then (false, w, m)
        else
          let selected := is_selected opt (s_sh s) in
          (* state.opt = *o; state.opt.Hdr.Ttl = ...; target = &state.opt *)
          let h := if selected then set_ttl (s_hdr s) (ext_ttl (rh_ttl (s_hdr s)) rcode) else s_hdr s in
          let optc := if selected then Some (h, s_body s) else pw_opt w in
          (* state.rr.RR = target; state.rr.hdr = *target.Header(); dns.PackRR(&state.rr, ...) *)
          match pack_rr h (s_body s) (pw_out w) (pw_off w) (pw_cm w) c with
          | None => (false, mk_pwork (pw_out w) (pw_off w) (pw_cm w) None h optc, m)
          | Some (hend, off1, out1, cm1) =>
              let rdl := wrap16 (N.of_nat (off1 - hend)) in
              (* PackRR: rr.Header().Rdlength = uint16(off1 - headerEnd) *)
              let '(shim_hdr, m1) :=
                match view s with
                | WShim => (set_rdlen h rdl, m)
                | WObject p => (h, msg_upd (is_object p) (slot_set_rdlen rdl) m)
                end in
              (* state.rr.RR = nil *)
              let w1 := mk_pwork out1 off1 cm1 None shim_hdr optc in
              if (off1 <=? pw_off w)%nat || (length (pw_out w) <? off1)%nat then (false, w1, m1)
              else pooled_records view opt rcode c rest w1 m1
          end
    end.

  (* packState.packInto *)
  Definition pack_into_gen (view : slot -> wtarget) (st : pstate) (m : msg) (opt : option N)
             (cm : option CMap) (c : bool) : bool * pwork * msg :=
    let h := m_hdr m in
    let out := ps_buf st in
    let out := put16 out 0 (h_id h) in
    let out := put16 out 2 (msg_bits h) in
    let out := put16 out 4 (count16 (m_question m)) in
    let out := put16 out 6 (count16 (m_answer m)) in
    let out := put16 out 8 (count16 (m_ns m)) in
    let out := put16 out 10 (count16 (m_extra m)) in
    let w0 := mk_pwork out (N.to_nat header_len) cm (ps_shim_rr st) (ps_shim_hdr st) (ps_opt st) in
    match pooled_questions (m_question m) out (N.to_nat header_len) cm c with
    | None => (false, w0, m)
    | Some (off1, out1, cm1) =>
        pooled_records view opt (h_rcode h) c (m_records m)
                       (mk_pwork out1 off1 cm1 (ps_shim_rr st) (ps_shim_hdr st) (ps_opt st)) m
    end.
  Definition pack_into := pack_into_gen rrview_header.

  (* the outcome of TryPack: handled?, every call of consume (the slice it was given),
     the pool state afterwards (what was Put back, or the untouched state when none was
     taken), the message afterwards *)
  Record tp_result := mk_tp { tp_handled : bool; tp_consumed : list gslice; tp_state : pstate; tp_msg : msg }.

  Definition state_after (st : pstate) (w : pwork) (c : bool) : pstate :=
    (* state.compression is the same map object the pack filled; untouched when compress is off *)
    mk_pstate (pw_out w) (if c then pw_cm w else ps_cmap st) (pw_shim_rr w) (pw_shim_hdr w) (pw_opt w).

  (* wire.TryPack for a non-nil msg; [view] as in pooled_records.  [scrub] = true is the
     code as it is (fix a876f32): after Get, clear(state.buf[:min(uncompressed+1, packBufferSize)]);
     [scrub] = false is the tree before that fix, kept only for the regression examples. *)
  Definition scrub_len (m : msg) : nat := Nat.min (msg_len m + 1) (N.to_nat pack_buffer_size).
  Definition try_pack_gen (scrub : bool) (view : slot -> wtarget) (st : pstate) (m : msg) : tp_result :=
    match preflight (h_rcode (m_hdr m)) (shapes (m_answer m)) (shapes (m_ns m)) (shapes (m_extra m))
                    (N.of_nat (msg_len m)) with
    | Proceed opt =>
        let st0 := mk_pstate (if scrub then zero_prefix (scrub_len m) (ps_buf st) else ps_buf st)
                             (ps_cmap st) (ps_shim_rr st) (ps_shim_hdr st) (ps_opt st) in
        let c := m_compress m && msg_compressible m in
        let cm := if c then Some (match ps_cmap st with None => cm_empty | Some x => x end) else None in
        let '(ok, w, m1) := pack_into_gen view st0 m opt cm c in
        let st1 := release (state_after st0 w c) in
        if ok then mk_tp true [slice3 (pw_out w) (pw_off w) (pw_off w)] st1 m1
        else mk_tp false [] st1 m1
    | _ => mk_tp false [] st m
    end.
  Definition try_pack := try_pack_gen true rrview_header.
  (* the packer before the fix *)
  Definition try_pack_unscrubbed := try_pack_gen false rrview_header.

  Definition tp_bytes (r : tp_result) : option buf :=
    match tp_handled r, tp_consumed r with
    | true, [s] => Some (sl_bytes s)
    | _, _ => None
    end.

  (* ---------------- the library ---------------- *)

  Inductive lib_result := LOk (bytes : buf) | LErr | LPanic.

  (* packUint16 *)
  Definition lib_pack_u16 (v : N) (out : buf) (off : nat) : option (buf * nat) :=
    if (length out <? off + 2)%nat then None else Some (put16 out off v, (off + 2)%nat).

  (* Header.pack *)
  Definition lib_header (id bits qd an ns ar : N) (out : buf) : option (buf * nat) :=
    match lib_pack_u16 id out 0 with None => None | Some (o, f) =>
    match lib_pack_u16 bits o f with None => None | Some (o, f) =>
    match lib_pack_u16 qd o f with None => None | Some (o, f) =>
    match lib_pack_u16 an o f with None => None | Some (o, f) =>
    match lib_pack_u16 ns o f with None => None | Some (o, f) =>
    lib_pack_u16 ar o f end end end end end.

  (* Question.pack *)
  Definition lib_question (q : question) (out : buf) (off : nat) (cm : option CMap) (c : bool)
    : option (nat * buf * option CMap) :=
    match pack_name (q_name q) out off cm c with
    | None => None
    | Some (off1, out1, cm1) =>
        match lib_pack_u16 (q_type q) out1 off1 with
        | None => None
        | Some (out2, off2) =>
            match lib_pack_u16 (q_class q) out2 off2 with
            | None => None
            | Some (out3, off3) => Some (off3, out3, cm1)
            end
        end
    end.
  Fixpoint lib_questions (qs : list question) (out : buf) (off : nat) (cm : option CMap) (c : bool)
    : option (nat * buf * option CMap) :=
    match qs with
    | [] => Some (off, out, cm)
    | q :: r => match lib_question q out off cm c with
                | None => None
                | Some (off1, out1, cm1) => lib_questions r out1 off1 cm1 c
                end
    end.

  Inductive lib_fold := FOk (out : buf) (off : nat) (cm : option CMap) | FErr | FPanic.

  (* for _, r := range section { _, off, err = packRR(r, msg, off, compression, compress) } *)
  Fixpoint lib_records (c : bool) (ss : list slot) (out : buf) (off : nat) (cm : option CMap) : lib_fold :=
    match ss with
    | [] => FOk out off cm
    | s :: rest =>
        if sh_is_nil (s_sh s) then FErr                 (* "nil rr" *)
        else if sh_typed_nil (s_sh s) then FPanic       (* Header() through a nil pointer *)
        else match pack_rr (s_hdr s) (s_body s) out off cm c with
             | None => FErr
             | Some (_, off1, out1, cm1) => lib_records c rest out1 off1 cm1
             end
    end.

  Definition has_typed_nil (m : msg) : bool := existsb (fun s => sh_typed_nil (s_sh s)) (m_records m).

  (* packBufferWithCompressionMap after the OPT has been found and rewritten: [m1] is the
     message as it stands then *)
  Definition lib_pack_from (m1 : msg) (c : bool) (cm : option CMap) : lib_result * msg :=
    let h := m_hdr m1 in
    if has_typed_nil m1 then (LPanic, m1) else
    let ulen := msg_len m1 in
    let out := repeat 0 (ulen + 1)%nat in
    match lib_header (h_id h) (lib_bits h) (count16 (m_question m1)) (count16 (m_answer m1))
                     (count16 (m_ns m1)) (count16 (m_extra m1)) out with
    | None => (LErr, m1)
    | Some (out, off) =>
        match lib_questions (m_question m1) out off cm c with
        | None => (LErr, m1)
        | Some (off, out, cm) =>
            match lib_records c (m_answer m1) out off cm with
            | FErr => (LErr, m1) | FPanic => (LPanic, m1)
            | FOk out off cm =>
                match lib_records c (m_ns m1) out off cm with
                | FErr => (LErr, m1) | FPanic => (LPanic, m1)
                | FOk out off cm =>
                    match lib_records c (m_extra m1) out off cm with
                    | FErr => (LErr, m1) | FPanic => (LPanic, m1)
                    | FOk out off cm => (LOk (firstn off out), m1)
                    end
                end
            end
        end
    end.

  (* the selected OPT's TTL rewritten in place: every interface value holding that *OPT *)
  Definition lib_set_ext (opt : option N) (rcode : Z) (m : msg) : msg :=
    msg_upd (fun s => is_selected opt (s_sh s))
            (fun s => slot_set_ttl (lib_ext_ttl (sh_ttl (s_sh s)) rcode) s) m.

  (* Msg.Pack (PackBuffer(nil) -> packBufferWithCompressionMap); returns the result and
     the message as the library leaves it *)
  Definition lib_pack (m : msg) : lib_result * msg :=
    let h := m_hdr m in
    let rcode := h_rcode h in
    if (rcode <? 0)%Z || (4095 <? rcode)%Z then (LErr, m)
    else
      let c := m_compress m && lib_msg_compressible m in
      let cm := if c then Some cm_empty else None in
      match lib_is_edns0 (shapes (m_extra m)) with
      | SelUnsafe => (LPanic, m)
      | SelNone => if (15 <? rcode)%Z then (LErr, m) else lib_pack_from m c cm
      | SelSome i =>
          match nth_error (m_extra m) i with
          | None => (LPanic, m)
          | Some o => lib_pack_from (lib_set_ext (Some (sh_ptr (s_sh o))) rcode m) c cm
          end
      end.

  (* ---------------- PackClone and the immutable fallback ---------------- *)

  (* replaceOPT in every section: the selected object is swapped for one private copy
     with a new identity [p'] *)
  Definition slot_set_ptr (p' : N) (s : slot) : slot :=
    let sh := s_sh s in
    mk_slot (mk_shape (sh_dyn sh) (sh_kind sh) (sh_nested sh) p' (sh_type sh) (sh_ttl sh))
            (s_name s) (s_class s) (s_rdlen s) (s_body s).

  Definition max_ptr (m : msg) : N := fold_right (fun s a => N.max (sh_ptr (s_sh s)) a) 0 (m_records m).

  (* wire.libraryPackImmutable: result and the caller's message afterwards *)
  Definition library_pack_immutable (m : msg) : lib_result * msg :=
    let rcode := h_rcode (m_hdr m) in
    if (rcode <? 0)%Z || (4095 <? rcode)%Z then lib_pack m
    else if negb (forallb admissible_rr (shapes (m_records m))) then lib_pack m
    else match select_opt (shapes (m_extra m)) with
         | SelUnsafe | SelNone => lib_pack m
         | SelSome i =>
             match nth_error (m_extra m) i with
             | None => lib_pack m
             | Some o =>
                 let p := Some (sh_ptr (s_sh o)) in
                 let clone := msg_upd (fun s => is_selected p (s_sh s)) (slot_set_ptr (max_ptr m + 1)) m in
                 (fst (lib_pack clone), m)
             end
         end.

  (* wire.PackClone *)
  Definition pack_clone (st : pstate) (m : msg) : lib_result * pstate * msg :=
    let r := try_pack st m in
    match tp_bytes r with
    | Some b => (LOk b, tp_state r, tp_msg r)
    | None => let '(res, m1) := library_pack_immutable (tp_msg r) in (res, tp_state r, m1)
    end.

  (* ---------------- schedules of packs sharing the pool ---------------- *)

  (* sync.Pool hands a state to exactly one goroutine between Get and Put.  A schedule
     is a sequence of events: a request starts (takes the pooled state at some index,
     or a new one when the index is out of range / the pool is empty), or the k-th
     in-flight request finishes (its pack runs on the state it owns, the released
     state goes back).  Outputs are collected in finishing order with the request id and
     the message that was packed. *)
  Inductive event := EvStart (id : nat) (m : msg) (pick : nat) | EvFinish (k : nat).

  Fixpoint remove_nth {A} (n : nat) (l : list A) : list A :=
    match n, l with
    | _, [] => []
    | O, _ :: r => r
    | S k, x :: r => x :: remove_nth k r
    end.

  Record sched_state := mk_sched {
    sc_pool : list pstate; sc_inflight : list (nat * msg * pstate); sc_out : list (nat * msg * option buf) }.

  Definition sched_step (s : sched_state) (e : event) : sched_state :=
    match e with
    | EvStart id m pick =>
        match nth_error (sc_pool s) pick with
        | Some st => mk_sched (remove_nth pick (sc_pool s)) (sc_inflight s ++ [(id, m, st)]) (sc_out s)
        | None => mk_sched (sc_pool s) (sc_inflight s ++ [(id, m, fresh_state)]) (sc_out s)
        end
    | EvFinish k =>
        match nth_error (sc_inflight s) k with
        | Some (id, m, st) =>
            let r := try_pack st m in
            mk_sched (tp_state r :: sc_pool s) (remove_nth k (sc_inflight s)) (sc_out s ++ [(id, m, tp_bytes r)])
        | None => s
        end
    end.
  Definition sched_run (es : list event) (s : sched_state) : sched_state := fold_left sched_step es s.

End Packers.
