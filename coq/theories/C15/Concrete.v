(* C15 — concrete instances of the abstract library primitives.  Definitions only.

   [pack_name_c] is the library's packDomainName (msg.go) with its compression dictionary,
   for every presentation name, backslash escapes included (session 5: \DDD and \c are decoded
   by the label loop, the dictionary stays keyed on the source text, Len() is the decoded
   length).  [pack_rr_c] is packRR for records
   whose rdata is a sequence of steps: literal octets, a domain name (compressible or
   not), or an advance over octets that are NOT written (packDataA on a 16-byte non-IPv4
   address), plus the two one-octet look-aheads SPoke0 / SRoom1 below.  A, AAAA, NS, CNAME, PTR, MX,
   DNAME, NULL, TXT, SOA, SRV, HINFO, CAA, DS, DNSKEY, RRSIG, NSEC, TLSA and OPT with opaque
   options are such records (decomposed by the wire driver independently of the library's
   packers: its own hex / base64 / type-bitmap encoders).

   Both are written as a PLAN — the writes, the final offset, the dictionary and the
   extent the bounds checks demand, computed without looking at the buffer — realised on
   a buffer when the buffer is long enough.  The library interleaves its checks with its
   writes; success and result are the same (tied by the name / concrete drivers, which
   also run buffers that are exactly and one octet short of what is needed). *)
From Sdns Require Import Common.Base Gen.C15 C15.Model.
Open Scope nat_scope.

Definition name := list N.              (* presentation form, octets *)
Definition dict := list (name * nat).   (* compression dictionary: suffix -> offset *)

Fixpoint dict_find (d : dict) (k : name) : option nat :=
  match d with
  | [] => None
  | (k', v) :: r => if bytes_eqb k' k then Some v else dict_find r k
  end.

Record plan := mk_plan { p_writes : list (nat * buf); p_off : nat; p_cm : option dict; p_need : nat }.

Definition dot : N := 46%N.
Definition backslash : N := 92%N.
Definition max_compression_offset : nat := 16384. (* msg.go: maxCompressionOffset = 2 << 13 *)

(* presentation-format escapes (msg.go isDDD / dddToByte): a backslash followed by three decimal
   digits is the octet DDD (byte arithmetic: modulo 256), a backslash followed by anything else is
   that octet taken literally (a dot that does not end a label, a backslash) *)
Definition is_digit (c : N) : bool := ((48 <=? c) && (c <=? 57))%N.
Definition ddd_byte (c1 c2 c3 : N) : N := (((c1 - 48) * 100 + (c2 - 48) * 10 + (c3 - 48)) mod 256)%N.

(* the label loop of packDomainName; [lab] is the label read so far AS DECODED OCTETS, [key] the
   SOURCE text from the first octet of the current label to the end of the name (s[compBegin:]:
   the dictionary is keyed on the text as written, escapes and all), [rest] what follows.  An
   escape asks for one octet of room at the current offset (`off+1 > len(msg)`) before anything of
   the label is written.
   Result: writes, offset, dictionary, need, and the compression pointer if the loop broke *)
Fixpoint pn_loop (rest lab key : name) (off : nat) (cm : option dict) (compress : bool)
         (ws : list (nat * buf)) (need : nat)
  : option (list (nat * buf) * nat * option dict * nat * option nat) :=
  match rest with
  | [] => Some (ws, off, cm, need, None)
  | c :: r =>
      if (c =? backslash)%N then
        match r with
        | [] => None                                     (* a name ending in a lone backslash is not fully qualified *)
        | c1 :: r1 =>
            let need1 := Nat.max need (off + 1) in
            match r1 with
            | c2 :: c3 :: r3 =>
                if is_digit c1 && is_digit c2 && is_digit c3
                then pn_loop r3 (lab ++ [ddd_byte c1 c2 c3]) key off cm compress ws need1
                else pn_loop r1 (lab ++ [c1]) key off cm compress ws need1
            | _ => pn_loop r1 (lab ++ [c1]) key off cm compress ws need1
            end
        end
      else if (c =? dot)%N then
        match lab with
        | [] => None                                   (* leading dot / two dots: ErrRdata *)
        | _ =>
            if 64 <=? length lab then None             (* top two bits of the length must be clear *)
            else
              let need' := Nat.max need (off + 1 + length lab) in
              let go (cm' : option dict) :=
                pn_loop r [] r (off + 1 + length lab) cm' compress
                        (ws ++ [(off, N.of_nat (length lab) :: lab)]) need' in
              match cm with
              | None => go None
              | Some d =>
                  match dict_find d key with
                  | Some p => if compress then Some (ws, off, cm, need', Some p) else go cm
                  | None => if off <? max_compression_offset then go (Some ((key, off) :: d)) else go cm
                  end
              end
        end
      else pn_loop r (lab ++ [c]) key off cm compress ws need
  end.

(* defaults.go IsFqdn: the last octet is a dot and the run of backslashes in front of it has even
   length (an odd run escapes the dot) *)
Fixpoint leading_backslashes (s : name) : nat :=
  match s with c :: r => if (c =? backslash)%N then S (leading_backslashes r) else 0 | [] => 0 end.
Definition is_fqdn (s : name) : bool :=
  match rev s with c :: t => (c =? dot)%N && Nat.even (leading_backslashes t) | [] => false end.

Definition plan_name (s : name) (off : nat) (cm : option dict) (compress : bool) : option plan :=
  match s with
  | [] => Some (mk_plan [] off cm 0)                                   (* len(s) == 0: return off, nil *)
  | _ =>
      if negb (is_fqdn s) then None                                    (* ErrFqdn *)
      else if bytes_eqb s [dot] then Some (mk_plan [(off, [0%N])] (off + 1) cm (off + 1))
      else match pn_loop s [] s off cm compress [] 0 with
           | None => None
           | Some (ws, o, cm', need, Some p) =>
               Some (mk_plan (ws ++ [(o, u16_bytes (N.of_nat p + 49152))]) (o + 2) cm' need)
           | Some (ws, o, cm', need, None) =>
               Some (mk_plan (ws ++ [(o, [0%N])]) (o + 1) cm' (Nat.max need (o + 1)))
           end
  end.

Definition apply_writes (b : buf) (ws : list (nat * buf)) : buf :=
  fold_left (fun acc w => write acc (fst w) (snd w)) ws b.

Definition pack_name_c (s : name) (b : buf) (off : nat) (cm : option dict) (compress : bool)
  : option (nat * buf * option dict) :=
  match plan_name s off cm compress with
  | None => None
  | Some pl => if length b <? p_need pl then None else Some (p_off pl, apply_writes b (p_writes pl), p_cm pl)
  end.

(* msg.go escapedNameLen: the length of the text with every escape counted as the one octet it
   stands for (a lone backslash at the very end counts nothing) *)
Fixpoint dec_len (s : name) : nat :=
  match s with
  | [] => 0
  | c :: r =>
      if (c =? backslash)%N then
        match r with
        | [] => 0
        | c1 :: r1 =>
            match r1 with
            | c2 :: c3 :: r3 => if is_digit c1 && is_digit c2 && is_digit c3 then S (dec_len r3) else S (dec_len r1)
            | _ => S (dec_len r1)
            end
        end
      else S (dec_len r)
  end.

(* domainNameLen(s, off, nil, false): "" and "." are one octet, any other name its decoded length + 1 *)
Definition name_len (s : name) : nat :=
  match s with [] => 1 | _ => if bytes_eqb s [dot] then 1 else dec_len s + 1 end.
Definition q_len_c (s : name) : nat := name_len s + 4.

(* ---- records ---- *)

(* SPoke0: one zero octet written at the current offset WITHOUT advancing (packTxt on an empty
   string list: `msg[offset] = 0; return offset`); SRoom1: one octet of room demanded, nothing
   written, nothing advanced (the entry check `offset >= len(msg)` of packOctetString on an empty
   string).  Both ask for one octet more than Len() counts: the reason the library sizes its
   array Len()+1 and the sizing premise len_suffices_* is stated with a strict bound. *)
(* SOver n: n octets that Len() counts and the packer never reaches (NSEC3.len counts the base32
   TEXT of the next hashed owner, base64 fields count DecodedLen of a padded text, the gateway of
   IPSECKEY / AMTRELAY counts 4 / 16 octets for an empty address, ...): length only, no effect on
   packing.  SFail: the field packer refuses the value whatever the buffer (an address that is
   neither empty, 4 nor 16 octets long). *)
Inductive step := SBytes (bs : buf) | SName (s : name) (compressible : bool) | SSkip (n : nat) | SPoke0 | SRoom1
                | SOver (n : nat) | SFail.
Definition body := list step.

Definition step_len (st : step) : nat :=
  match st with SBytes bs => length bs | SName s _ => name_len s | SSkip n => n | SPoke0 => 0 | SRoom1 => 0
              | SOver n => n | SFail => 0 end.

Fixpoint plan_steps (ss : body) (off : nat) (cm : option dict) (compress : bool)
         (ws : list (nat * buf)) (need : nat) : option plan :=
  match ss with
  | [] => Some (mk_plan ws off cm need)
  | SBytes bs :: r => plan_steps r (off + length bs) cm compress (ws ++ [(off, bs)]) (Nat.max need (off + length bs))
  | SSkip n :: r => plan_steps r (off + n) cm compress ws (Nat.max need (off + n))
  | SPoke0 :: r => plan_steps r off cm compress (ws ++ [(off, [0%N])]) (Nat.max need (off + 1))
  | SRoom1 :: r => plan_steps r off cm compress ws (Nat.max need (off + 1))
  | SOver _ :: r => plan_steps r off cm compress ws need
  | SFail :: _ => None
  | SName s cf :: r =>
      match plan_name s off cm (compress && cf) with
      | None => None
      | Some pl => plan_steps r (p_off pl) (p_cm pl) compress (ws ++ p_writes pl) (Nat.max need (p_need pl))
      end
  end.

Definition u32_bytes (v : N) : buf := u16_bytes (v / 65536) ++ u16_bytes (v mod 65536).

(* packRR: RR_Header.packHeader, rr.pack, RDLENGTH patched at headerEnd-2 *)
Definition plan_rr (h : rrhdr name) (bd : body) (off : nat) (cm : option dict) (compress : bool)
  : option (nat * plan) :=
  match plan_name (rh_name name h) off cm compress with
  | None => None
  | Some p1 =>
      let o1 := p_off p1 in
      let hend := o1 + 10 in
      let fixed := u16_bytes (rh_type name h) ++ u16_bytes (rh_class name h) ++ u32_bytes (rh_ttl name h) ++
                   u16_bytes (rh_rdlen name h) in
      match plan_steps bd hend (p_cm p1) compress (p_writes p1 ++ [(o1, fixed)]) (Nat.max (p_need p1) hend) with
      | None => None
      | Some p2 =>
          let rdl := p_off p2 - hend in
          if 65536 <=? rdl then None                                   (* ErrRdata *)
          else Some (hend, mk_plan (p_writes p2 ++ [(hend - 2, u16_bytes (N.of_nat rdl))]) (p_off p2) (p_cm p2) (p_need p2))
      end
  end.

Definition pack_rr_c (h : rrhdr name) (bd : body) (b : buf) (off : nat) (cm : option dict) (compress : bool)
  : option (nat * nat * buf * option dict) :=
  match plan_rr h bd off cm compress with
  | None => None
  | Some (hend, pl) =>
      if length b <? p_need pl then None else Some (hend, p_off pl, apply_writes b (p_writes pl), p_cm pl)
  end.

Definition body_len (bd : body) : nat := fold_right (fun s a => step_len s + a) 0 bd.
Definition rr_len_c (n : name) (bd : body) : nat := name_len n + 10 + body_len bd.

(* ---- the instantiated packers ---- *)
Definition cm_len_c (d : dict) : N := N.of_nat (length d).
Definition try_pack_c := try_pack name body dict [] [] cm_len_c pack_name_c pack_rr_c q_len_c rr_len_c.
Definition lib_pack_c := lib_pack name body dict [] pack_name_c pack_rr_c q_len_c rr_len_c.
Definition pack_clone_c := pack_clone name body dict [] [] cm_len_c pack_name_c pack_rr_c q_len_c rr_len_c.
