(* C15 — the packer that advances over octets it does not write (the library's packDataA
   for a 16-byte address that is not IPv4: copy(msg[off:], a.To4()) with To4() == nil,
   then off += 4; A, L32, and the IPv4 gateway of IPSECKEY / AMTRELAY).

   * It satisfies every premise of the theorems in Proofs_pack (in place, frame, in bounds,
     same success, Len() contract): the premises are what the real library provides.
   * Against the packer as it was BEFORE fix a876f32 ([try_pack_unscrubbed]: no clear of
     the pooled buffer) it breaks byte parity and pool-state independence — the recorded
     finding stale-a-rdata, kept here as regression examples about the old variant.
   * Against the packer as it is now ([try_pack]) the same inputs give the library's bytes. *)
From Sdns Require Import Common.Base Gen.C15 C15.Model C15.Proofs_buf C15.Proofs_pack.
Open Scope nat_scope.

(* the root name: one zero octet *)
Definition skip_name (_ : unit) (b : buf) (off : nat) (cm : option unit) (_ : bool)
  : option (nat * buf * option unit) :=
  if length b <? off + 1 then None else Some (off + 1, write b off [0%N], cm).

(* owner ".", type, class, ttl, rdlength 4 — then four rdata octets advanced over, not written *)
Definition skip_rr (h : rrhdr unit) (_ : unit) (b : buf) (off : nat) (cm : option unit) (_ : bool)
  : option (nat * nat * buf * option unit) :=
  if length b <? off + 15 then None
  else Some (off + 11, off + 15,
             write b off ([0%N] ++ u16_bytes (rh_type unit h) ++ u16_bytes (rh_class unit h) ++
                          u16_bytes (rh_ttl unit h / 65536) ++ u16_bytes (rh_ttl unit h mod 65536) ++ u16_bytes 4),
             cm).

Definition skip_q_len (_ : unit) : nat := 5.
Definition skip_rr_len (_ : unit) (_ : unit) : nat := 15.

Lemma skip_name_in_place : in_place_name unit unit skip_name.
Proof.
  intros n b off cm c o b' cm' H. unfold skip_name in H.
  destruct (Nat.ltb_spec (length b) (off + 1)); [discriminate|]. inversion H; subst.
  apply write_length. cbn. lia.
Qed.

Lemma skip_rr_in_place : in_place_rr unit unit unit skip_rr.
Proof.
  intros h bd b off cm c he o b' cm' H. unfold skip_rr in H.
  destruct (Nat.ltb_spec (length b) (off + 15)); [discriminate|]. inversion H; subst.
  apply write_length. cbn. lia.
Qed.

Lemma skip_name_frame : frame_name unit unit skip_name.
Proof.
  intros K n b1 b2 off cm c o1 b1' cm1 o2 b2' cm2 Ha H1 H2. unfold skip_name in H1, H2.
  destruct (length b1 <? off + 1); [discriminate|]. destruct (length b2 <? off + 1); [discriminate|].
  injection H1 as <- <- <-. injection H2 as <- <- <-.
  split; [reflexivity|]. split; [reflexivity|]. apply agree_write_any. assumption.
Qed.

(* the skipped octets stay what they were: wherever the buffers agreed they still do *)
Lemma skip_rr_frame : frame_rr unit unit unit skip_rr.
Proof.
  intros K h bd b1 b2 off cm c he1 o1 b1' cm1 he2 o2 b2' cm2 Ha H1 H2. unfold skip_rr in H1, H2.
  destruct (length b1 <? off + 15); [discriminate|]. destruct (length b2 <? off + 15); [discriminate|].
  injection H1 as <- <- <- <-. injection H2 as <- <- <- <-.
  split; [reflexivity|]. split; [reflexivity|]. apply agree_write_any. assumption.
Qed.

Lemma skip_rr_in_bounds : in_bounds_rr unit unit unit skip_rr.
Proof.
  intros h bd b off cm c he o b' cm' H. unfold skip_rr in H.
  destruct (Nat.ltb_spec (length b) (off + 15)); [discriminate|]. inversion H; subst.
  rewrite write_length; cbn; lia.
Qed.

Lemma skip_name_same_success : same_success_name unit unit skip_name.
Proof.
  intros n b1 b2 off cm c Hl. unfold skip_name. rewrite Hl.
  destruct (length b2 <? off + 1); split; intros; auto; discriminate.
Qed.

Lemma skip_rr_same_success : same_success_rr unit unit unit skip_rr.
Proof.
  intros h bd b1 b2 off cm c Hl. unfold skip_rr. rewrite Hl.
  destruct (length b2 <? off + 15); split; intros; auto; discriminate.
Qed.

Lemma skip_name_len_bounds : len_bounds_name unit unit skip_name skip_q_len.
Proof.
  intros n b off cm c o b' cm' H. unfold skip_name in H.
  destruct (length b <? off + 1); [discriminate|]. inversion H; subst. unfold skip_q_len. lia.
Qed.
Lemma skip_rr_len_bounds : len_bounds_rr unit unit unit skip_rr skip_rr_len.
Proof.
  intros h bd b off cm c he o b' cm' H. unfold skip_rr in H.
  destruct (length b <? off + 15); [discriminate|]. inversion H; subst. unfold skip_rr_len. lia.
Qed.
Lemma skip_name_len_suffices : len_suffices_name unit unit skip_name skip_q_len.
Proof.
  intros n b off cm c o b' cm' _ b2 Hroom. unfold skip_name, skip_q_len in *.
  destruct (Nat.ltb_spec (length b2) (off + 1)); [lia|discriminate].
Qed.
Lemma skip_rr_len_suffices : len_suffices_rr unit unit unit skip_rr skip_rr_len.
Proof.
  intros h bd b off cm c he o b' cm' _ b2 Hroom. unfold skip_rr, skip_rr_len in *.
  destruct (Nat.ltb_spec (length b2) (off + 15)); [lia|discriminate].
Qed.

(* one library A record (plain, admissible), no question, no OPT *)
Definition w_slot : slot unit unit :=
  mk_slot unit unit (mk_shape (mk_dyn false true false library_pkg) KOther [] 1 1 3600) tt 1 0 tt.
Definition w_msg : msg unit unit :=
  mk_msg unit unit (mk_mhdr 7 true 0 true false false true false false false 0) false [] [w_slot] [] [].

(* a pooled state as release leaves it, whose buffer still holds an earlier message *)
Definition w_dirty : pstate unit unit unit :=
  mk_pstate unit unit unit (repeat 255%N (N.to_nat pack_buffer_size)) None None (hdr_zero unit tt) None.

Notation TPw := (try_pack unit unit unit tt tt (fun _ => 0%N) skip_name skip_rr skip_q_len skip_rr_len).
Notation TPold := (try_pack_unscrubbed unit unit unit tt tt (fun _ => 0%N) skip_name skip_rr skip_q_len skip_rr_len).
Notation LPw := (lib_pack unit unit unit tt skip_name skip_rr skip_q_len skip_rr_len).

Lemma w_dirty_inv : pool_inv unit unit unit tt tt w_dirty.
Proof. unfold pool_inv, w_dirty. cbn. rewrite repeat_length. repeat split; auto. Qed.

Definition w_stale_bytes : buf :=
  [0;7;132;128;0;0;0;1;0;0;0;0; 0;0;1;0;1;0;0;14;16;0;4; 255;255;255;255]%N.
Definition w_library_bytes : buf :=
  [0;7;132;128;0;0;0;1;0;0;0;0; 0;0;1;0;1;0;0;14;16;0;4; 0;0;0;0]%N.

Lemma w_library : LPw w_msg = (LOk w_library_bytes, w_msg).
Proof. vm_compute. reflexivity. Qed.

(* ---- the code as it is: the dirty pooled buffer is invisible ---- *)
Lemma w_pooled_now : tp_bytes unit unit unit (TPw w_dirty w_msg) = Some w_library_bytes.
Proof. vm_compute. reflexivity. Qed.

Lemma skipping_packer_premises :
  in_place_name unit unit skip_name /\ in_place_rr unit unit unit skip_rr /\
  frame_name unit unit skip_name /\ frame_rr unit unit unit skip_rr /\ in_bounds_rr unit unit unit skip_rr /\
  same_success_name unit unit skip_name /\ same_success_rr unit unit unit skip_rr /\
  len_bounds_name unit unit skip_name skip_q_len /\ len_bounds_rr unit unit unit skip_rr skip_rr_len /\
  len_suffices_name unit unit skip_name skip_q_len /\ len_suffices_rr unit unit unit skip_rr skip_rr_len /\
  pool_inv unit unit unit tt tt w_dirty /\
  tp_bytes unit unit unit (TPw w_dirty w_msg) = Some w_library_bytes /\
  LPw w_msg = (LOk w_library_bytes, w_msg).
Proof.
  split; [exact skip_name_in_place|]. split; [exact skip_rr_in_place|].
  split; [exact skip_name_frame|]. split; [exact skip_rr_frame|]. split; [exact skip_rr_in_bounds|].
  split; [exact skip_name_same_success|]. split; [exact skip_rr_same_success|].
  split; [exact skip_name_len_bounds|]. split; [exact skip_rr_len_bounds|].
  split; [exact skip_name_len_suffices|]. split; [exact skip_rr_len_suffices|].
  split; [exact w_dirty_inv|]. split; [exact w_pooled_now|exact w_library].
Qed.

(* ---- regression: the code before fix a876f32 ---- *)
Lemma w_pooled_before_fix : tp_bytes unit unit unit (TPold w_dirty w_msg) = Some w_stale_bytes.
Proof. vm_compute. reflexivity. Qed.

Lemma before_fix_parity_failed :
  exists st m bytes bytes', pool_inv unit unit unit tt tt st /\
    tp_bytes unit unit unit (TPold st m) = Some bytes /\ LPw m = (LOk bytes', m) /\ bytes <> bytes'.
Proof.
  exists w_dirty, w_msg, w_stale_bytes, w_library_bytes.
  split; [exact w_dirty_inv|]. split; [exact w_pooled_before_fix|]. split; [exact w_library|].
  unfold w_stale_bytes, w_library_bytes. intros H. inversion H.
Qed.

Lemma before_fix_pool_state_visible :
  tp_bytes unit unit unit (TPold w_dirty w_msg) <> tp_bytes unit unit unit (TPold (fresh_state unit unit unit tt) w_msg).
Proof. vm_compute. intros H. inversion H. Qed.

(* ---- why the shim and the OPT copy are needed: the same pack with the writes going
   where the library sends them changes the caller's message ---- *)

Definition full_rr (h : rrhdr unit) (_ : unit) (b : buf) (off : nat) (cm : option unit) (_ : bool)
  : option (nat * nat * buf * option unit) :=
  if length b <? off + 15 then None
  else Some (off + 11, off + 15,
             write b off ([0%N] ++ u16_bytes (rh_type unit h) ++ u16_bytes (rh_class unit h) ++
                          u16_bytes (rh_ttl unit h / 65536) ++ u16_bytes (rh_ttl unit h mod 65536) ++ u16_bytes 4 ++
                          [192; 0; 2; 1]%N),
             cm).

(* PackRR called on the record itself (no rrView): the computed Rdlength lands in the
   caller's record header *)
Lemma without_shim_message_changes :
  tp_msg unit unit unit
    (try_pack_gen unit unit unit tt tt (fun _ => 0%N) skip_name full_rr skip_q_len skip_rr_len
                  true (record_header unit unit) (fresh_state unit unit unit tt) w_msg) <> w_msg.
Proof. vm_compute. intros H. inversion H. Qed.

(* a message with an OPT whose TTL carries stale extended-rcode bits: the library's Pack
   rewrites the caller's OPT, the pooled path leaves it alone *)
Definition w_opt : slot unit unit :=
  mk_slot unit unit (mk_shape (mk_dyn false true false library_pkg) KOpt [] 2 41 4278222848) tt 1232 0 tt.
Definition w_msg_opt : msg unit unit :=
  mk_msg unit unit (mk_mhdr 9 true 0 false false true true false false false 3) true [] [w_slot] [] [w_opt].

Lemma library_rewrites_callers_opt : snd (lib_pack unit unit unit tt skip_name full_rr skip_q_len skip_rr_len w_msg_opt) <> w_msg_opt.
Proof. vm_compute. intros H. inversion H. Qed.

Lemma pooled_leaves_callers_opt :
  tp_handled unit unit unit (try_pack unit unit unit tt tt (fun _ => 0%N) skip_name full_rr skip_q_len skip_rr_len (fresh_state unit unit unit tt) w_msg_opt) = true /\
  tp_msg unit unit unit (try_pack unit unit unit tt tt (fun _ => 0%N) skip_name full_rr skip_q_len skip_rr_len (fresh_state unit unit unit tt) w_msg_opt) = w_msg_opt.
Proof. vm_compute. split; reflexivity. Qed.

(* a two-index slice would hand the consumer the stale tail *)
Lemma two_index_slice_exposes_tail :
  sl_reachable (slice2 (ps_buf unit unit unit w_dirty) 27) <> sl_bytes (slice2 (ps_buf unit unit unit w_dirty) 27).
Proof. vm_compute. intros H. inversion H. Qed.
