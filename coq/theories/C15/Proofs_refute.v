(* C15 — where byte parity and pool-state independence FAIL: a record packer that
   advances over octets it does not write.  This is what the library's packDataA does
   for a 16-byte address that is not IPv4 (copy(msg[off:], a.To4()) with To4() == nil,
   then off += 4): A, L32, and the IPv4 gateway of IPSECKEY / AMTRELAY.  The instance
   below is in-place and fails or succeeds independently of stale content, i.e. it
   satisfies every hypothesis of Proofs_pack except prefix-determinism. *)
From Sdns Require Import Common.Base Gen.C15 C15.Model C15.Proofs_buf C15.Proofs_pack.
Open Scope nat_scope.

(* the root name: one zero octet *)
Definition skip_name (_ : unit) (b : buf) (off : nat) (cm : option unit) (_ : bool)
  : option (nat * buf * option unit) :=
  if length b <? off + 1 then None else Some (off + 1, write b off [0%N], cm).

(* owner ".", type, class, ttl, rdlength 4 — then four rdata octets advanced over, not written *)
Definition skip_rr (h : rrhdr unit) (_ : unit) (b : buf) (off : nat) (cm : option unit) (_ : bool)
  : option (nat * nat * buf * option unit) :=
  if length b <? off + 15 then None
  else Some (off + 11, off + 15,
             write b off ([0%N] ++ u16_bytes (rh_type unit h) ++ u16_bytes (rh_class unit h) ++
                          u16_bytes (rh_ttl unit h / 65536) ++ u16_bytes (rh_ttl unit h mod 65536) ++ u16_bytes 4),
             cm).

Definition skip_q_len (_ : unit) : nat := 5.
Definition skip_rr_len (_ : unit) (_ : unit) : nat := 15.

Lemma skip_name_in_place : in_place_name unit unit skip_name.
Proof.
  intros n b off cm c o b' cm' H. unfold skip_name in H.
  destruct (Nat.ltb_spec (length b) (off + 1)); [discriminate|]. inversion H; subst.
  apply write_length. cbn. lia.
Qed.

Lemma skip_rr_in_place : in_place_rr unit unit unit skip_rr.
Proof.
  intros h bd b off cm c he o b' cm' H. unfold skip_rr in H.
  destruct (Nat.ltb_spec (length b) (off + 15)); [discriminate|]. inversion H; subst.
  apply write_length. cbn. lia.
Qed.

Lemma skip_name_same_success : same_success_name unit unit skip_name.
Proof.
  intros n b1 b2 off cm c _ Hl. unfold skip_name. rewrite Hl.
  destruct (length b2 <? off + 1); split; intros; auto; discriminate.
Qed.

Lemma skip_rr_same_success : same_success_rr unit unit unit skip_rr.
Proof.
  intros h bd b1 b2 off cm c _ Hl. unfold skip_rr. rewrite Hl.
  destruct (length b2 <? off + 15); split; intros; auto; discriminate.
Qed.

(* one library A record (plain, admissible), no question, no OPT *)
Definition w_slot : slot unit unit :=
  mk_slot unit unit (mk_shape (mk_dyn false true false library_pkg) KOther [] 1 1 3600) tt 1 0 tt.
Definition w_msg : msg unit unit :=
  mk_msg unit unit (mk_mhdr 7 true 0 true false false true false false false 0) false [] [w_slot] [] [].

(* a pooled state as release leaves it, whose buffer still holds an earlier message *)
Definition w_dirty : pstate unit unit unit :=
  mk_pstate unit unit unit (repeat 255%N (N.to_nat pack_buffer_size)) None None (hdr_zero unit tt) None.

Notation TPw := (try_pack unit unit unit tt tt (fun _ => 0%N) skip_name skip_rr skip_q_len skip_rr_len).
Notation LPw := (lib_pack unit unit unit tt skip_name skip_rr skip_q_len skip_rr_len).

Lemma w_dirty_inv : pool_inv unit unit unit tt tt w_dirty.
Proof. unfold pool_inv, w_dirty. cbn. rewrite repeat_length. repeat split; auto. Qed.

Definition w_pooled_bytes : buf :=
  [0;7;132;128;0;0;0;1;0;0;0;0; 0;0;1;0;1;0;0;14;16;0;4; 255;255;255;255]%N.
Definition w_library_bytes : buf :=
  [0;7;132;128;0;0;0;1;0;0;0;0; 0;0;1;0;1;0;0;14;16;0;4; 0;0;0;0]%N.

Lemma w_pooled : tp_bytes unit unit unit (TPw w_dirty w_msg) = Some w_pooled_bytes.
Proof. vm_compute. reflexivity. Qed.

Lemma w_library : LPw w_msg = (LOk w_library_bytes, w_msg).
Proof. vm_compute. reflexivity. Qed.

Lemma w_fresh : tp_bytes unit unit unit (TPw (fresh_state unit unit unit tt) w_msg) = Some w_library_bytes.
Proof. vm_compute. reflexivity. Qed.

(* byte parity fails: the pooled packer handles the message and emits other bytes than
   the library, namely four octets of whatever was packed before *)
Lemma trypack_eq_libpack_refuted_l :
  exists (pack_name : unit -> buf -> nat -> option unit -> bool -> option (nat * buf * option unit))
         (pack_rr : rrhdr unit -> unit -> buf -> nat -> option unit -> bool -> option (nat * nat * buf * option unit))
         q_len rr_len st m bytes bytes',
    in_place_name unit unit pack_name /\ in_place_rr unit unit unit pack_rr /\
    same_success_name unit unit pack_name /\ same_success_rr unit unit unit pack_rr /\
    pool_inv unit unit unit tt tt st /\
    tp_bytes unit unit unit (try_pack unit unit unit tt tt (fun _ => 0%N) pack_name pack_rr q_len rr_len st m) = Some bytes /\
    lib_pack unit unit unit tt pack_name pack_rr q_len rr_len m = (LOk bytes', m) /\
    bytes <> bytes'.
Proof.
  exists skip_name, skip_rr, skip_q_len, skip_rr_len, w_dirty, w_msg, w_pooled_bytes, w_library_bytes.
  split; [exact skip_name_in_place|]. split; [exact skip_rr_in_place|].
  split; [exact skip_name_same_success|]. split; [exact skip_rr_same_success|].
  split; [exact w_dirty_inv|]. split; [exact w_pooled|]. split; [exact w_library|].
  unfold w_pooled_bytes, w_library_bytes. intros H. inversion H.
Qed.

(* pool-state independence fails with it: two states that both satisfy the release
   invariant give different output *)
Lemma pool_state_noninterference_refuted_l :
  exists (pack_name : unit -> buf -> nat -> option unit -> bool -> option (nat * buf * option unit))
         (pack_rr : rrhdr unit -> unit -> buf -> nat -> option unit -> bool -> option (nat * nat * buf * option unit))
         q_len rr_len st1 st2 m,
    in_place_name unit unit pack_name /\ in_place_rr unit unit unit pack_rr /\
    same_success_name unit unit pack_name /\ same_success_rr unit unit unit pack_rr /\
    pool_inv unit unit unit tt tt st1 /\ pool_inv unit unit unit tt tt st2 /\
    tp_bytes unit unit unit (try_pack unit unit unit tt tt (fun _ => 0%N) pack_name pack_rr q_len rr_len st1 m) <>
    tp_bytes unit unit unit (try_pack unit unit unit tt tt (fun _ => 0%N) pack_name pack_rr q_len rr_len st2 m).
Proof.
  exists skip_name, skip_rr, skip_q_len, skip_rr_len, w_dirty, (fresh_state unit unit unit tt), w_msg.
  split; [exact skip_name_in_place|]. split; [exact skip_rr_in_place|].
  split; [exact skip_name_same_success|]. split; [exact skip_rr_same_success|].
  split; [exact w_dirty_inv|]. split; [apply fresh_inv|].
  rewrite w_pooled, w_fresh. unfold w_pooled_bytes, w_library_bytes. intros H. inversion H.
Qed.

(* the hypotheses of the positive theorems are satisfiable: a packer that writes what it
   advances over *)
Definition full_rr (h : rrhdr unit) (_ : unit) (b : buf) (off : nat) (cm : option unit) (_ : bool)
  : option (nat * nat * buf * option unit) :=
  if length b <? off + 15 then None
  else Some (off + 11, off + 15,
             write b off ([0%N] ++ u16_bytes (rh_type unit h) ++ u16_bytes (rh_class unit h) ++
                          u16_bytes (rh_ttl unit h / 65536) ++ u16_bytes (rh_ttl unit h mod 65536) ++ u16_bytes 4 ++
                          [192; 0; 2; 1]%N),
             cm).

Lemma full_rr_in_place : in_place_rr unit unit unit full_rr.
Proof.
  intros h bd b off cm c he o b' cm' H. unfold full_rr in H.
  destruct (Nat.ltb_spec (length b) (off + 15)); [discriminate|]. inversion H; subst.
  apply write_length. cbn. lia.
Qed.

Lemma full_rr_prefix_determined : prefix_determined_rr unit unit unit full_rr.
Proof.
  intros h bd b1 b2 off cm c he1 o1 b1' cm1 he2 o2 b2' cm2 Ha H1 H2. unfold full_rr in H1, H2.
  destruct (Nat.ltb_spec (length b1) (off + 15)); [discriminate|].
  destruct (Nat.ltb_spec (length b2) (off + 15)); [discriminate|].
  injection H1 as <- <- <- <-. injection H2 as <- <- <- <-.
  split; [reflexivity|]. split; [reflexivity|].
  match goal with |- agree _ (write b1 off ?bytes) _ => change (off + 15) with (off + length bytes);
    apply (agree_write off b1 b2 bytes); cbn [length app u16_bytes]; try lia end. assumption.
Qed.

Lemma skip_name_prefix_determined : prefix_determined_name unit unit skip_name.
Proof.
  intros n b1 b2 off cm c o1 b1' cm1 o2 b2' cm2 Ha H1 H2. unfold skip_name in H1, H2.
  destruct (Nat.ltb_spec (length b1) (off + 1)); [discriminate|].
  destruct (Nat.ltb_spec (length b2) (off + 1)); [discriminate|].
  injection H1 as <- <- <-. injection H2 as <- <- <-.
  split; [reflexivity|]. split; [reflexivity|].
  change (off + 1) with (off + length [0%N]). apply (agree_write off b1 b2 [0%N]); cbn [length]; try lia. assumption.
Qed.

(* and with it the dirty state is invisible *)
Lemma full_dirty_same :
  tp_bytes unit unit unit (try_pack unit unit unit tt tt (fun _ => 0%N) skip_name full_rr skip_q_len skip_rr_len w_dirty w_msg) =
  tp_bytes unit unit unit (try_pack unit unit unit tt tt (fun _ => 0%N) skip_name full_rr skip_q_len skip_rr_len (fresh_state unit unit unit tt) w_msg).
Proof. vm_compute. reflexivity. Qed.

(* ---- why the shim and the OPT copy are needed: the same pack with the writes going
   where the library sends them changes the caller's message ---- *)

(* PackRR called on the record itself (no rrView): the computed Rdlength lands in the
   caller's record header *)
Lemma without_shim_message_changes :
  tp_msg unit unit unit
    (try_pack_gen unit unit unit tt tt (fun _ => 0%N) skip_name full_rr skip_q_len skip_rr_len
                  (record_header unit unit) (fresh_state unit unit unit tt) w_msg) <> w_msg.
Proof. vm_compute. intros H. inversion H. Qed.

(* a message with an OPT whose TTL carries stale extended-rcode bits: the library's Pack
   rewrites the caller's OPT, the pooled path leaves it alone *)
Definition w_opt : slot unit unit :=
  mk_slot unit unit (mk_shape (mk_dyn false true false library_pkg) KOpt [] 2 41 4278222848) tt 1232 0 tt.
Definition w_msg_opt : msg unit unit :=
  mk_msg unit unit (mk_mhdr 9 true 0 false false true true false false false 3) true [] [w_slot] [] [w_opt].

Lemma library_rewrites_callers_opt : snd (lib_pack unit unit unit tt skip_name full_rr skip_q_len skip_rr_len w_msg_opt) <> w_msg_opt.
Proof. vm_compute. intros H. inversion H. Qed.

Lemma pooled_leaves_callers_opt :
  tp_handled unit unit unit (try_pack unit unit unit tt tt (fun _ => 0%N) skip_name full_rr skip_q_len skip_rr_len (fresh_state unit unit unit tt) w_msg_opt) = true /\
  tp_msg unit unit unit (try_pack unit unit unit tt tt (fun _ => 0%N) skip_name full_rr skip_q_len skip_rr_len (fresh_state unit unit unit tt) w_msg_opt) = w_msg_opt.
Proof. vm_compute. split; reflexivity. Qed.

(* a two-index slice would hand the consumer the stale tail *)
Lemma two_index_slice_exposes_tail :
  sl_reachable (slice2 (ps_buf unit unit unit w_dirty) 27) <> sl_bytes (slice2 (ps_buf unit unit unit w_dirty) 27).
Proof. vm_compute. intros H. inversion H. Qed.
