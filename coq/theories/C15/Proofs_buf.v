(* C15 — buffer lemmas: in-place writes and agreement of buffers on a prefix. *)
From Sdns Require Import Common.Base Gen.C15 C15.Model.
Open Scope nat_scope.

Lemma overwrite_length : forall bytes b, length bytes <= length b -> length (overwrite b bytes) = length b.
Proof.
  induction bytes as [|y ys IH]; intros b H; [destruct b; reflexivity|].
  destruct b as [|x r]; cbn in *; [lia|]. f_equal. apply IH. lia.
Qed.

Lemma write_length : forall off b bytes, off + length bytes <= length b -> length (write b off bytes) = length b.
Proof.
  induction off as [|o IH]; intros b bytes H.
  - change (write b 0 bytes) with (overwrite b bytes). apply overwrite_length. cbn in H. lia.
  - destruct b as [|x r]; cbn in *; [lia|]. f_equal. apply IH. lia.
Qed.

Lemma firstn_overwrite : forall bytes b, length bytes <= length b -> firstn (length bytes) (overwrite b bytes) = bytes.
Proof.
  induction bytes as [|y ys IH]; intros b H; [reflexivity|].
  destruct b as [|x r]; cbn in *; [lia|]. f_equal. apply IH. lia.
Qed.

Lemma firstn_write : forall off b bytes, off + length bytes <= length b ->
  firstn (off + length bytes) (write b off bytes) = firstn off b ++ bytes.
Proof.
  induction off as [|o IH]; intros b bytes H.
  - change (write b 0 bytes) with (overwrite b bytes). cbn [Nat.add firstn app]. apply firstn_overwrite. cbn in H. lia.
  - destruct b as [|x r]; cbn in *; [lia|]. f_equal. apply IH. lia.
Qed.

(* two buffers agree on their first n octets *)
Definition agree (n : nat) (b1 b2 : buf) : Prop := firstn n b1 = firstn n b2.

Lemma agree_refl n b : agree n b b.
Proof. reflexivity. Qed.

Lemma agree_le n m b1 b2 : agree n b1 b2 -> m <= n -> agree m b1 b2.
Proof.
  unfold agree. intros H Hm.
  replace m with (Nat.min m n) by lia. rewrite <- !firstn_firstn. rewrite H. reflexivity.
Qed.

Lemma agree_0 b1 b2 : agree 0 b1 b2.
Proof. reflexivity. Qed.

Lemma agree_write off b1 b2 bytes :
  agree off b1 b2 -> off + length bytes <= length b1 -> off + length bytes <= length b2 ->
  agree (off + length bytes) (write b1 off bytes) (write b2 off bytes).
Proof.
  unfold agree. intros H H1 H2. rewrite !firstn_write by assumption. rewrite H. reflexivity.
Qed.

Lemma u16_bytes_length v : length (u16_bytes v) = 2.
Proof. reflexivity. Qed.

Lemma put16_length b off v : off + 2 <= length b -> length (put16 b off v) = length b.
Proof. intros H. unfold put16. apply write_length. rewrite u16_bytes_length. assumption. Qed.

Lemma agree_put16 off b1 b2 v :
  agree off b1 b2 -> off + 2 <= length b1 -> off + 2 <= length b2 ->
  agree (off + 2) (put16 b1 off v) (put16 b2 off v).
Proof. intros. unfold put16. apply (agree_write off b1 b2 (u16_bytes v)); assumption. Qed.

Lemma put16_pair_length b off v1 v2 : off + 4 <= length b ->
  length (put16 (put16 b off v1) (off + 2) v2) = length b.
Proof.
  intros H. rewrite put16_length; rewrite put16_length; lia.
Qed.

Lemma agree_put16_pair off b1 b2 v1 v2 :
  agree off b1 b2 -> off + 4 <= length b1 -> off + 4 <= length b2 ->
  agree (off + 4) (put16 (put16 b1 off v1) (off + 2) v2) (put16 (put16 b2 off v1) (off + 2) v2).
Proof.
  intros Ha H1 H2. replace (off + 4) with (off + 2 + 2) by lia.
  apply agree_put16; rewrite ?put16_length; try lia. apply agree_put16; try lia. assumption.
Qed.

(* the six header words *)
Definition hdr6 (b : buf) (a0 a1 a2 a3 a4 a5 : N) : buf :=
  put16 (put16 (put16 (put16 (put16 (put16 b 0 a0) 2 a1) 4 a2) 6 a3) 8 a4) 10 a5.

Lemma hdr6_length b a0 a1 a2 a3 a4 a5 : 12 <= length b -> length (hdr6 b a0 a1 a2 a3 a4 a5) = length b.
Proof.
  intros H. unfold hdr6.
  set (b1 := put16 b 0 a0). assert (L1 : length b1 = length b) by (apply put16_length; lia).
  set (b2 := put16 b1 2 a1). assert (L2 : length b2 = length b) by (subst b2; rewrite put16_length; lia).
  set (b3 := put16 b2 4 a2). assert (L3 : length b3 = length b) by (subst b3; rewrite put16_length; lia).
  set (b4 := put16 b3 6 a3). assert (L4 : length b4 = length b) by (subst b4; rewrite put16_length; lia).
  set (b5 := put16 b4 8 a4). assert (L5 : length b5 = length b) by (subst b5; rewrite put16_length; lia).
  rewrite put16_length; lia.
Qed.

Lemma hdr6_agree b c a0 a1 a2 a3 a4 a5 : 12 <= length b -> 12 <= length c ->
  agree 12 (hdr6 b a0 a1 a2 a3 a4 a5) (hdr6 c a0 a1 a2 a3 a4 a5).
Proof.
  intros Hb Hc. unfold hdr6.
  set (b1 := put16 b 0 a0). assert (L1 : length b1 = length b) by (apply put16_length; lia).
  set (c1 := put16 c 0 a0). assert (M1 : length c1 = length c) by (apply put16_length; lia).
  assert (A1 : agree 2 b1 c1) by (apply (agree_put16 0); try lia; apply agree_0).
  set (b2 := put16 b1 2 a1). assert (L2 : length b2 = length b) by (subst b2; rewrite put16_length; lia).
  set (c2 := put16 c1 2 a1). assert (M2 : length c2 = length c) by (subst c2; rewrite put16_length; lia).
  assert (A2 : agree 4 b2 c2) by (apply (agree_put16 2); try lia; assumption).
  set (b3 := put16 b2 4 a2). assert (L3 : length b3 = length b) by (subst b3; rewrite put16_length; lia).
  set (c3 := put16 c2 4 a2). assert (M3 : length c3 = length c) by (subst c3; rewrite put16_length; lia).
  assert (A3 : agree 6 b3 c3) by (apply (agree_put16 4); try lia; assumption).
  set (b4 := put16 b3 6 a3). assert (L4 : length b4 = length b) by (subst b4; rewrite put16_length; lia).
  set (c4 := put16 c3 6 a3). assert (M4 : length c4 = length c) by (subst c4; rewrite put16_length; lia).
  assert (A4 : agree 8 b4 c4) by (apply (agree_put16 6); try lia; assumption).
  set (b5 := put16 b4 8 a4). assert (L5 : length b5 = length b) by (subst b5; rewrite put16_length; lia).
  set (c5 := put16 c4 8 a4). assert (M5 : length c5 = length c) by (subst c5; rewrite put16_length; lia).
  assert (A5 : agree 10 b5 c5) by (apply (agree_put16 8); try lia; assumption).
  apply (agree_put16 10); try lia; assumption.
Qed.

(* Header.pack on a buffer with room: the same six writes *)
Lemma lib_header_ok b a0 a1 a2 a3 a4 a5 : 12 <= length b ->
  lib_header a0 a1 a2 a3 a4 a5 b = Some (hdr6 b a0 a1 a2 a3 a4 a5, 12).
Proof.
  intros H. unfold lib_header, lib_pack_u16, hdr6.
  set (b1 := put16 b 0 a0). assert (L1 : length b1 = length b) by (apply put16_length; lia).
  set (b2 := put16 b1 2 a1). assert (L2 : length b2 = length b) by (subst b2; rewrite put16_length; lia).
  set (b3 := put16 b2 4 a2). assert (L3 : length b3 = length b) by (subst b3; rewrite put16_length; lia).
  set (b4 := put16 b3 6 a3). assert (L4 : length b4 = length b) by (subst b4; rewrite put16_length; lia).
  set (b5 := put16 b4 8 a4). assert (L5 : length b5 = length b) by (subst b5; rewrite put16_length; lia).
  assert (F : forall (x : buf) k, k <= length x -> (length x <? k) = false) by (intros; apply Nat.ltb_ge; lia).
  rewrite (F b) by (cbn [Nat.add]; lia). fold b1. cbn [Nat.add].
  rewrite (F b1) by (cbn [Nat.add]; lia). fold b2. cbn [Nat.add].
  rewrite (F b2) by (cbn [Nat.add]; lia). fold b3. cbn [Nat.add].
  rewrite (F b3) by (cbn [Nat.add]; lia). fold b4. cbn [Nat.add].
  rewrite (F b4) by (cbn [Nat.add]; lia). fold b5. cbn [Nat.add].
  rewrite (F b5) by (cbn [Nat.add]; lia). reflexivity.
Qed.

(* the slice handed out *)
Lemma slice3_reachable b off : sl_reachable (slice3 b off off) = sl_bytes (slice3 b off off).
Proof. reflexivity. Qed.

Lemma firstn_agree_eq n b1 b2 : agree n b1 b2 -> firstn n b1 = firstn n b2.
Proof. exact (fun H => H). Qed.

(* ---- agreement on a fixed window, whatever the offset of the write ---- *)

Lemma agree_overwrite_any : forall bytes K b1 b2, agree K b1 b2 -> agree K (overwrite b1 bytes) (overwrite b2 bytes).
Proof.
  unfold agree. induction bytes as [|y ys IH]; intros K b1 b2 H; [destruct b1, b2; exact H|].
  destruct K as [|k]; [reflexivity|].
  destruct b1 as [|x1 r1], b2 as [|x2 r2]; cbn in *; try reflexivity; try discriminate.
  inversion H. f_equal. apply IH. assumption.
Qed.

Lemma agree_write_any : forall off K b1 b2 bytes, agree K b1 b2 -> agree K (write b1 off bytes) (write b2 off bytes).
Proof.
  induction off as [|o IH]; intros K b1 b2 bytes H.
  - change (write b1 0 bytes) with (overwrite b1 bytes). change (write b2 0 bytes) with (overwrite b2 bytes).
    apply agree_overwrite_any. assumption.
  - unfold agree in *. destruct K as [|k]; [reflexivity|].
    destruct b1 as [|x1 r1], b2 as [|x2 r2]; cbn in *; try reflexivity; try discriminate.
    inversion H. f_equal. apply IH. assumption.
Qed.

Lemma agree_put16_any off K b1 b2 v : agree K b1 b2 -> agree K (put16 b1 off v) (put16 b2 off v).
Proof. intros. unfold put16. apply agree_write_any. assumption. Qed.

Lemma hdr6_agree_any K b c a0 a1 a2 a3 a4 a5 : agree K b c -> agree K (hdr6 b a0 a1 a2 a3 a4 a5) (hdr6 c a0 a1 a2 a3 a4 a5).
Proof. intros H. unfold hdr6. repeat apply agree_put16_any. assumption. Qed.

Lemma firstn_repeat {A} (x : A) : forall k n, firstn k (repeat x n) = repeat x (Nat.min k n).
Proof.
  induction k as [|k IH]; intros n; [reflexivity|]. destruct n as [|n]; [reflexivity|].
  cbn. f_equal. apply IH.
Qed.

Lemma zero_prefix_length n b : length (zero_prefix n b) = length b.
Proof.
  unfold zero_prefix. rewrite app_length, repeat_length, skipn_length. lia.
Qed.

(* a scrubbed pooled buffer and the library's fresh array agree on everything the
   library's array has, up to the pooled buffer's size *)
Lemma zero_prefix_agree_fresh n b m : n <= m -> n <= length b -> agree n (zero_prefix n b) (repeat 0%N m).
Proof.
  intros Hm Hb. unfold agree, zero_prefix. rewrite firstn_repeat.
  rewrite firstn_app, repeat_length. rewrite firstn_repeat.
  replace (Nat.min n (length b)) with n by lia.
  replace (n - n) with 0 by lia. cbn [firstn]. rewrite app_nil_r.
  replace (Nat.min n n) with n by lia. replace (Nat.min n m) with n by lia. reflexivity.
Qed.

Lemma zero_prefix_agree_two n b1 b2 : n <= length b1 -> n <= length b2 -> agree n (zero_prefix n b1) (zero_prefix n b2).
Proof.
  intros H1 H2. unfold agree.
  rewrite (zero_prefix_agree_fresh n b1 n (le_n _) H1), (zero_prefix_agree_fresh n b2 n (le_n _) H2). reflexivity.
Qed.
