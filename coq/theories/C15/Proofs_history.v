(* C15 — pool HISTORIES.  A pooled state is what an arbitrary sequence of earlier TryPack calls
   left behind: handled packs, packs declined before a state was borrowed, and packs ABANDONED
   part-way (packInto wrote the header, the questions and k records into the pooled buffer and
   then met a record the library refuses) — the model hands the state back with its buffer as
   written (Model.try_pack_gen: [release (state_after st0 w c)], [pw_out w] = the buffer after the
   last record that packed).  Whatever the history, the next pack is the pack of a fresh state. *)
From Sdns Require Import Common.Base Gen.C15 C15.Model C15.Proofs_buf C15.Proofs_pack C15.Proofs_clone
                         C15.Concrete C15.Proofs_concrete.

Definition run_history (Name Body CMap : Type) (name_zero : Name) (cm_empty : CMap) (cm_len : CMap -> N)
           (pack_name : Name -> buf -> nat -> option CMap -> bool -> option (nat * buf * option CMap))
           (pack_rr : rrhdr Name -> Body -> buf -> nat -> option CMap -> bool -> option (nat * nat * buf * option CMap))
           (q_len : Name -> nat) (rr_len : Name -> Body -> nat)
           (st : pstate Name Body CMap) (hist : list (msg Name Body)) : pstate Name Body CMap :=
  fold_left (fun s m => tp_state Name Body CMap (try_pack Name Body CMap name_zero cm_empty cm_len pack_name pack_rr q_len rr_len s m))
            hist st.

Section History.
  Variables (Name Body CMap : Type) (name_zero : Name) (cm_empty : CMap) (cm_len : CMap -> N).
  Variable pack_name : Name -> buf -> nat -> option CMap -> bool -> option (nat * buf * option CMap).
  Variable pack_rr : rrhdr Name -> Body -> buf -> nat -> option CMap -> bool -> option (nat * nat * buf * option CMap).
  Variables (q_len : Name -> nat) (rr_len : Name -> Body -> nat).
  Hypothesis Hipn : in_place_name Name CMap pack_name.
  Hypothesis Hipr : in_place_rr Name Body CMap pack_rr.

  Notation Inv := (pool_inv Name Body CMap name_zero cm_empty).
  Notation run := (run_history Name Body CMap name_zero cm_empty cm_len pack_name pack_rr q_len rr_len).
  Notation tp := (try_pack Name Body CMap name_zero cm_empty cm_len pack_name pack_rr q_len rr_len).

  Lemma history_keeps_inv : forall hist st, Inv st -> Inv (run st hist).
  Proof.
    induction hist as [|m r IH]; intros st H; [exact H|].
    unfold run_history. cbn [fold_left]. apply IH.
    exact (try_pack_keeps_inv Name Body CMap name_zero cm_empty cm_len pack_name pack_rr q_len rr_len Hipn Hipr
             true (rrview_header Name Body) st m H).
  Qed.

  Hypothesis Hfn : frame_name Name CMap pack_name.
  Hypothesis Hfr : frame_rr Name Body CMap pack_rr.
  Hypothesis Hsn : same_success_name Name CMap pack_name.
  Hypothesis Hsr : same_success_rr Name Body CMap pack_rr.
  Hypothesis Hln : len_bounds_name Name CMap pack_name q_len.
  Hypothesis Hlr : len_bounds_rr Name Body CMap pack_rr rr_len.

  Lemma history_noninterference_l : forall hist1 hist2 st1 st2 m, Inv st1 -> Inv st2 ->
    tp_bytes Name Body CMap (tp (run st1 hist1) m) = tp_bytes Name Body CMap (tp (run st2 hist2) m) /\
    tp_handled Name Body CMap (tp (run st1 hist1) m) = tp_handled Name Body CMap (tp (run st2 hist2) m).
  Proof.
    intros hist1 hist2 st1 st2 m H1 H2.
    apply (pool_state_noninterference_l Name Body CMap name_zero cm_empty cm_len pack_name pack_rr q_len rr_len
             Hipn Hipr Hfn Hfr Hsn Hsr Hln Hlr); apply history_keeps_inv; assumption.
  Qed.
End History.

(* the concrete packers: no premise *)
Definition run_history_c := run_history name body dict [] [] cm_len_c pack_name_c pack_rr_c q_len_c rr_len_c.

Lemma concrete_history_noninterference_l : forall hist1 hist2 st1 st2 m,
  pool_inv name body dict [] [] st1 -> pool_inv name body dict [] [] st2 ->
  tp_bytes name body dict (try_pack_c (run_history_c st1 hist1) m) = tp_bytes name body dict (try_pack_c (run_history_c st2 hist2) m) /\
  tp_handled name body dict (try_pack_c (run_history_c st1 hist1) m) = tp_handled name body dict (try_pack_c (run_history_c st2 hist2) m).
Proof.
  unfold try_pack_c, run_history_c.
  apply (history_noninterference_l name body dict [] [] cm_len_c pack_name_c pack_rr_c q_len_c rr_len_c
           pack_name_c_in_place pack_rr_c_in_place pack_name_c_frame pack_rr_c_frame
           pack_name_c_same_success pack_rr_c_same_success pack_name_c_len_bounds pack_rr_c_len_bounds).
Qed.

(* ... and what comes out after any history is the library's Pack of the message *)
Lemma concrete_history_then_libpack_l : forall hist st m bytes, pool_inv name body dict [] [] st ->
  tp_bytes name body dict (try_pack_c (run_history_c st hist) m) = Some bytes -> exists m', lib_pack_c m = (LOk bytes, m').
Proof.
  intros hist st m bytes H. apply concrete_trypack_is_libpack_l.
  unfold run_history_c. apply (history_keeps_inv name body dict [] [] cm_len_c pack_name_c pack_rr_c q_len_c rr_len_c
                                 pack_name_c_in_place pack_rr_c_in_place). exact H.
Qed.

(* ---- a witness: an ABANDONED pack leaves its octets in the pooled buffer, and only the scrub at
   acquire keeps the next pack from showing them (seeded changes C15-8 / C15-9 move the zeroing to
   release and skip it for an abandoned pack: the unscrubbed packer below is what they amount to
   for such a history) ---- *)
From Sdns Require Import C15.Run.
Definition w_hdr : mhdr := mk_mhdr 1 true 0 false false false false false false false 0.
(* a TXT-like record of eight 'Z' octets, then a record whose owner is not fully qualified *)
Definition w_abandoned : msg name body :=
  msg_of w_hdr false [] [R [97;46]%N KOther 1 16 1 5 0 [SBytes [90;90;90;90;90;90;90;90]%N];
                         R [120]%N KOther 2 1 1 5 0 []] [] [].
(* an A record with a 16-octet address that is not IPv4: four rdata octets advanced over, unwritten *)
Definition w_hole : msg name body :=
  msg_of w_hdr false [] [R [97;46]%N KOther 3 1 1 5 0 (steps_of (RA (repeat 1%N 16)))] [] [].

Lemma abandoned_pack_witness :
  let st := run_history_c dirty_state [w_abandoned] in
  tp_handled name body dict (try_pack_c dirty_state w_abandoned) = false /\
  nth 25 (ps_buf name body dict st) 0%N = 90%N /\
  option_map (fun b => nth 25 b 0%N)
    (tp_bytes name body dict (try_pack_unscrubbed name body dict [] [] cm_len_c pack_name_c pack_rr_c q_len_c rr_len_c st w_hole)) = Some 90%N /\
  option_map (fun b => nth 25 b 0%N) (tp_bytes name body dict (try_pack_c st w_hole)) = Some 0%N /\
  option_map (fun b => nth 25 b 0%N) (match fst (lib_pack_c w_hole) with LOk b => Some b | _ => None end) = Some 0%N.
Proof. vm_compute. repeat split; reflexivity. Qed.
